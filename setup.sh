#!/bin/sh
# Builds every check's test binary once (warms the Go build cache).  Offline; uses only files on disk.
cd "$(dirname "$0")"
rc=0
for f in harness/*/check.json; do
  id=$(python3 -c "import json,sys;print(json.load(open('$f'))['property'])")
  ./check "$id" --build-only || rc=1
done
exit $rc
