package c12

import (
	"fmt"
	"strconv"
	"strings"

	"pgregory.net/rapid"
)

// relayHost is the symbolic host of every relay in a case; it is replaced by the
// address of the process-wide relay double when the case runs.
const relayHost = "http://relay.invalid"

// Outcome is what one refresh of the execution configuration meets.
type Outcome struct {
	// Kind: doc | unresolvable | fetch-error | malformed | empty | bad-version |
	// no-default | wrong-type | accounts-error | no-accounts |
	// json-null | json-null-ws | json-true | json-number | json-string | json-array |
	// null-relay | null-proposer | null-proposer-relay | legacy-null-entry
	Kind  string `json:"kind"`
	Doc   int    `json:"doc,omitempty"`    // doc, unresolvable: index into Case.Docs
	BadAt int    `json:"bad_at,omitempty"` // unresolvable, null-proposer: position of the entry; legacy-null-entry: validator index
	// Slow: the source takes its time to answer; the other calls of the step
	// must complete while the fetch is still pending (concurrent steps only).
	Slow bool `json:"slow,omitempty"`
}

// Op is one request.
type Op struct {
	// Kind: refresh | lookup | auction | builderbid | registration |
	// submit-registrations | rest-registrations
	Kind       string   `json:"kind"`
	Outcome    *Outcome `json:"outcome,omitempty"`
	Validator  int      `json:"validator,omitempty"`   // index into Case.Validators; len = a validator Vouch does not control
	NilAccount bool     `json:"nil_account,omitempty"` // lookup without account object
	Slot       uint64   `json:"slot,omitempty"`        // auction, builderbid
	Bid        string   `json:"bid,omitempty"`         // auction, builderbid: what the bid provider answers: none | bid | error
}

// Step is one op, or several released together.
type Step struct {
	Ops []Op `json:"ops"`
	// Held: Ops[0] is an auction whose bid provider does not answer until the
	// other ops, issued one after the other meanwhile, have all returned.
	Held bool `json:"held,omitempty"`
}

// Case is a history against one service instance.
type Case struct {
	Docs        []Doc       `json:"docs"`
	Validators  []Validator `json:"validators"`
	FallbackFee string      `json:"fallback_fee"`
	FallbackGas uint64      `json:"fallback_gas"`
	DynamicURL  bool        `json:"dynamic_url,omitempty"` // http(s) source: POST with the public keys
	Initial     Outcome     `json:"initial"`
	Steps       []Step      `json:"steps"`
}

func hexOf(b byte, n int) string { return "0x" + strings.Repeat(fmt.Sprintf("%02x", b), n) }

var (
	feePool     = []string{hexOf(0x11, 20), hexOf(0x22, 20), hexOf(0x33, 20), hexOf(0xaa, 20)}
	keyPool     = []string{hexOf(0x81, 48), hexOf(0x8c, 48), hexOf(0xa3, 48), hexOf(0xb4, 48)}
	strangerKey = hexOf(0xee, 48)
	relayKeys   = []string{hexOf(0xac, 48), hexOf(0x8b, 48)}
	relayPool   = []string{relayHost + "/r1", relayHost + "/r2", relayHost + "/r3", relayHost + "/r4"}
	// unusableRelay is accepted by the configuration parser but no builder client
	// can be made for it (url.Parse rejects the host): registration rounds must
	// skip it and return.
	unusableRelay = "http://bad relay:18550"
	gasPool       = []string{"1", "30000000", "60000000", "36000000", "18446744073709551615"}
	gracePool     = []string{"0", "1", "500", "1000"}
	minPool       = []string{"0", "0.1", "0.5", "1", "0.000000000000000001", "0.05"}
	walletPool    = []string{"Wallet 1", "Wallet 2", "Wallet 10"}
	accountPool   = []string{"Account 1", "Account 2", "Account 10"}
	regexPool     = []string{"Wallet 1/.*", "^Wallet 1/.*$", "Wallet 1/Account 1", "^Wallet 2/Account [12]$", ".*", "Wallet [12]/Account 1", ".*/Account 2"}
)

func genFields(t *rapid.T, withKey bool) Fields {
	var f Fields
	if rapid.Bool().Draw(t, "hasFee") {
		f.Fee = rapid.SampledFrom(feePool).Draw(t, "fee")
	}
	if rapid.Bool().Draw(t, "hasGas") {
		f.Gas = rapid.SampledFrom(gasPool).Draw(t, "gas")
	}
	if rapid.Bool().Draw(t, "hasGrace") {
		f.Grace = rapid.SampledFrom(gracePool).Draw(t, "grace")
	}
	if rapid.Bool().Draw(t, "hasMin") {
		f.MinValue = rapid.SampledFrom(minPool).Draw(t, "min")
	}
	if withKey && rapid.Bool().Draw(t, "hasKey") {
		f.PubKey = rapid.SampledFrom(relayKeys).Draw(t, "relayKey")
	}
	return f
}

func distinctAddrs(t *rapid.T, label string, max int) []string {
	n := rapid.IntRange(0, max).Draw(t, label)
	res := append([]string(nil), rapid.Permutation(relayPool).Draw(t, label+"Perm")[:n]...)
	if n > 0 && rapid.IntRange(0, 5).Draw(t, label+"Unusable") == 0 {
		res[rapid.IntRange(0, n-1).Draw(t, label+"Which")] = unusableRelay
	}
	return res
}

// genV2 stays clear of the deviations C10 reports (a "disabled" relay that is
// not inherited; an unanchored top-level alternation), so that this check
// judges only what C12 is about.
func genV2(t *rapid.T) *V2 {
	d := &V2{Fields: genFields(t, false)}
	top := map[string]bool{}
	for _, a := range distinctAddrs(t, "nRelays", 3) {
		d.Relays = append(d.Relays, Relay{Addr: a, Fields: genFields(t, true)})
		top[a] = true
	}
	nProp := rapid.IntRange(0, 3).Draw(t, "nProposers")
	for i := 0; i < nProp; i++ {
		p := Proposer{Fields: genFields(t, false)}
		if rapid.Bool().Draw(t, "byKey") {
			p.Proposer = rapid.SampledFrom(keyPool).Draw(t, "proposerKey")
		} else {
			p.Proposer = rapid.SampledFrom(regexPool).Draw(t, "proposerRegex")
		}
		p.Reset = rapid.IntRange(0, 3).Draw(t, "reset") == 0
		for _, a := range distinctAddrs(t, "nPRelays", 2) {
			pr := PRelay{Addr: a, Fields: genFields(t, true)}
			if top[a] && !p.Reset {
				pr.Disabled = rapid.IntRange(0, 3).Draw(t, "disabled") == 0
			}
			p.Relays = append(p.Relays, pr)
		}
		d.Proposers = append(d.Proposers, p)
	}
	return d
}

func genV1Entry(t *rapid.T) V1Entry {
	e := V1Entry{Fee: rapid.SampledFrom(feePool).Draw(t, "fee")}
	if rapid.Bool().Draw(t, "hasGas") {
		e.Gas = rapid.SampledFrom(gasPool).Draw(t, "gas")
	}
	if rapid.IntRange(0, 3).Draw(t, "hasBuilder") != 0 {
		b := &V1Builder{Enabled: rapid.IntRange(0, 2).Draw(t, "enabled") != 0}
		if rapid.Bool().Draw(t, "hasGrace") {
			b.Grace = rapid.SampledFrom(gracePool).Draw(t, "grace")
		}
		b.Relays = distinctAddrs(t, "nRelays", 3)
		if b.Enabled && len(b.Relays) == 0 {
			b.Relays = []string{relayPool[0]}
		}
		e.Builder = b
	}
	return e
}

func genV1(t *rapid.T) *V1 {
	d := &V1{Default: genV1Entry(t)}
	n := rapid.IntRange(0, 2).Draw(t, "nProposers")
	keys := rapid.Permutation(keyPool).Draw(t, "keys")
	for i := 0; i < n; i++ {
		d.Proposers = append(d.Proposers, V1Prop{Key: keys[i], V1Entry: genV1Entry(t)})
	}
	return d
}

func genOutcome(t *rapid.T, c *Case, initial bool) Outcome {
	kinds := []string{
		"doc", "doc", "doc", "doc", "doc", "doc", "doc", "doc",
		"unresolvable", "unresolvable", "unresolvable", "unresolvable",
		"fetch-error", "fetch-error", "malformed", "malformed", "empty", "bad-version", "no-default", "wrong-type",
		"accounts-error", "no-accounts",
	}
	if !initial {
		// Content that is JSON but not a configuration object, and documents with
		// null entries.  Not used as the initial outcome: New() starts a registration
		// round on a goroutine of its own, where a panic could not be attributed.
		kinds = append(kinds, "json-null", "json-null", "json-null-ws", "json-true", "json-number", "json-string", "json-array",
			"null-relay", "null-proposer", "null-proposer-relay", "legacy-null-entry", "legacy-null-entry")
	}
	kind := rapid.SampledFrom(kinds).Draw(t, "outcome")
	o := Outcome{Kind: kind}
	switch kind {
	case "doc", "unresolvable", "null-relay", "null-proposer", "null-proposer-relay", "legacy-null-entry":
		o.Doc = rapid.IntRange(0, len(c.Docs)-1).Draw(t, "doc")
	}
	switch kind {
	case "unresolvable", "null-proposer":
		n := 0
		if d := c.Docs[o.Doc].V2; d != nil {
			n = len(d.Proposers)
		}
		o.BadAt = rapid.IntRange(0, n).Draw(t, "badAt")
	case "legacy-null-entry":
		o.BadAt = rapid.IntRange(0, len(c.Validators)-1).Draw(t, "nullValidator")
	}
	return o
}

func genCase(t *rapid.T) Case {
	c := Case{
		FallbackFee: hexOf(0xfb, 20),
		FallbackGas: rapid.SampledFrom([]uint64{30000000, 36000000}).Draw(t, "fallbackGas"),
		DynamicURL:  rapid.IntRange(0, 3).Draw(t, "dynamicURL") == 0,
	}
	nVal := rapid.IntRange(1, 4).Draw(t, "nValidators")
	for i := 0; i < nVal; i++ {
		c.Validators = append(c.Validators, Validator{
			PubKey:  keyPool[i],
			Wallet:  rapid.SampledFrom(walletPool).Draw(t, "wallet"),
			Account: rapid.SampledFrom(accountPool).Draw(t, "account"),
		})
	}
	nDocs := rapid.IntRange(1, 3).Draw(t, "nDocs")
	for i := 0; i < nDocs; i++ {
		if rapid.IntRange(0, 3).Draw(t, "legacy") == 0 {
			c.Docs = append(c.Docs, Doc{Version: 0, V1: genV1(t)})
		} else {
			c.Docs = append(c.Docs, Doc{Version: 2, V2: genV2(t)})
		}
	}
	c.Initial = genOutcome(t, &c, true)
	slot := uint64(1000)
	type auc struct {
		slot uint64
		v    int
	}
	var auctions []auc
	genOp := func(allowRefresh bool, inBatch bool) Op {
		kinds := []string{"lookup", "lookup", "auction", "auction", "auction", "builderbid", "registration", "submit-registrations", "rest-registrations"}
		if allowRefresh {
			kinds = append(kinds, "refresh", "refresh", "refresh", "refresh")
		}
		op := Op{Kind: rapid.SampledFrom(kinds).Draw(t, "op")}
		switch op.Kind {
		case "refresh":
			o := genOutcome(t, &c, false)
			if inBatch {
				o.Slow = rapid.IntRange(0, 2).Draw(t, "slow") == 0
			}
			op.Outcome = &o
		case "lookup":
			op.Validator = rapid.IntRange(0, nVal).Draw(t, "validator")
			op.NilAccount = op.Validator == nVal || rapid.IntRange(0, 2).Draw(t, "nilAccount") == 0
		case "auction", "builderbid":
			op.Validator = rapid.IntRange(0, nVal).Draw(t, "validator")
			if rapid.IntRange(0, 5).Draw(t, "stranger") != 0 && op.Validator == nVal {
				op.Validator = 0
			}
			slot++
			op.Slot = slot
			op.Bid = rapid.SampledFrom([]string{"none", "none", "bid", "bid", "error"}).Draw(t, "bid")
			if op.Kind == "builderbid" && !inBatch && len(auctions) > 0 && rapid.Bool().Draw(t, "reuseSlot") {
				a := auctions[rapid.IntRange(0, len(auctions)-1).Draw(t, "whichAuction")]
				op.Slot, op.Validator = a.slot, a.v
			}
		}
		return op
	}
	nSteps := rapid.IntRange(2, 12).Draw(t, "nSteps")
	for i := 0; i < nSteps; i++ {
		var st Step
		sel := rapid.IntRange(0, 9).Draw(t, "batch")
		if sel == 3 || sel == 4 {
			// an auction kept waiting by its bid provider; meanwhile a refresh, a lookup, ...
			slot++
			st.Held = true
			st.Ops = append(st.Ops, Op{Kind: "auction", Validator: rapid.IntRange(0, nVal-1).Draw(t, "heldValidator"), Slot: slot,
				Bid: rapid.SampledFrom([]string{"none", "bid", "error"}).Draw(t, "heldBid")})
			o := genOutcome(t, &c, false)
			st.Ops = append(st.Ops, Op{Kind: "refresh", Outcome: &o})
			v := rapid.IntRange(0, nVal).Draw(t, "validator")
			st.Ops = append(st.Ops, Op{Kind: "lookup", Validator: v, NilAccount: v == nVal || rapid.Bool().Draw(t, "nilAccount")})
			for k := rapid.IntRange(0, 2).Draw(t, "heldExtra"); k > 0; k-- {
				st.Ops = append(st.Ops, genOp(true, false))
			}
		} else if sel < 3 {
			n := rapid.IntRange(2, 6).Draw(t, "batchSize")
			refreshed := false
			for k := 0; k < n; k++ {
				op := genOp(!refreshed, true)
				refreshed = refreshed || op.Kind == "refresh"
				st.Ops = append(st.Ops, op)
			}
		} else {
			st.Ops = []Op{genOp(true, false)}
		}
		for _, op := range st.Ops {
			if op.Kind == "auction" {
				auctions = append(auctions, auc{op.Slot, op.Validator})
			}
		}
		c.Steps = append(c.Steps, st)
	}
	return c
}

func (o Outcome) String() string {
	if o.Slow {
		o.Slow = false
		return "slow " + o.String()
	}
	switch o.Kind {
	case "doc":
		return "doc#" + strconv.Itoa(o.Doc)
	case "unresolvable":
		return fmt.Sprintf("unresolvable(doc#%d,at %d)", o.Doc, o.BadAt)
	}
	return o.Kind
}
