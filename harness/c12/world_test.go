package c12

// Doubles around the real services/blockrelay/standard: configuration source
// (majordomo.Service), accounts, registration signer, builder-bid provider and
// one process-wide HTTP server standing in for every relay.

import (
	"context"
	"errors"
	"math/big"
	"net/http"
	"net/http/httptest"
	"sync"

	"github.com/attestantio/go-block-relay/services/blockauctioneer"
	builderclient "github.com/attestantio/go-builder-client"
	builderapi "github.com/attestantio/go-builder-client/api"
	"github.com/attestantio/go-builder-client/api/deneb"
	builderspec "github.com/attestantio/go-builder-client/spec"
	"github.com/attestantio/go-eth2-client/api"
	apiv1 "github.com/attestantio/go-eth2-client/api/v1"
	"github.com/attestantio/go-eth2-client/spec"
	"github.com/attestantio/go-eth2-client/spec/phase0"
	"github.com/attestantio/vouch/services/beaconblockproposer"
	"github.com/attestantio/vouch/services/blockrelay"
	"github.com/google/uuid"
	"github.com/holiman/uint256"
	e2types "github.com/wealdtech/go-eth2-types/v2"
	e2wtypes "github.com/wealdtech/go-eth2-wallet-types/v2"
)

// ---- relays: everything is accepted

var (
	relayOnce sync.Once
	relayURL  string
)

func relayBase() string {
	relayOnce.Do(func() {
		srv := httptest.NewServer(http.HandlerFunc(func(w http.ResponseWriter, _ *http.Request) {
			w.Header().Set("Content-Type", "application/json")
			w.WriteHeader(http.StatusOK)
			_, _ = w.Write([]byte("{}"))
		}))
		relayURL = srv.URL
	})
	return relayURL
}

// ---- accounts

type fakeKey []byte

func (k fakeKey) Marshal() []byte             { return []byte(k) }
func (k fakeKey) Aggregate(e2types.PublicKey) {}
func (k fakeKey) Copy() e2types.PublicKey     { return append(fakeKey(nil), k...) }

type fakeWallet struct{ name string }

func (w *fakeWallet) ID() uuid.UUID { return uuid.UUID{} }
func (w *fakeWallet) Type() string  { return "fake" }
func (w *fakeWallet) Name() string  { return w.name }
func (w *fakeWallet) Version() uint { return 1 }
func (w *fakeWallet) Accounts(context.Context) <-chan e2wtypes.Account {
	ch := make(chan e2wtypes.Account)
	close(ch)
	return ch
}

type fakeAccount struct {
	name   string
	wallet *fakeWallet
	key    fakeKey
}

func (a *fakeAccount) ID() uuid.UUID                { return uuid.UUID{} }
func (a *fakeAccount) Name() string                 { return a.name }
func (a *fakeAccount) PublicKey() e2types.PublicKey { return a.key }
func (a *fakeAccount) Wallet() e2wtypes.Wallet      { return a.wallet }

func accountOf(v *Validator) e2wtypes.Account {
	k := key48(v.PubKey)
	return &fakeAccount{name: v.Account, wallet: &fakeWallet{name: v.Wallet}, key: fakeKey(k[:])}
}

// holdCtl lets the harness keep an auction waiting inside the bid provider.
type holdCtl struct {
	entered     chan struct{}
	release     chan struct{}
	enteredOnce sync.Once
	releaseOnce sync.Once
}

// ---- the scripted world

type providerCall struct {
	slot   uint64
	pubkey phase0.BLSPubKey
	config *beaconblockproposer.ProposerConfig
}

type world struct {
	mu         sync.Mutex
	validators []Validator

	// configuration source
	fetchBody []byte
	fetchErr  error
	fetches   int
	gate      chan struct{} // non-nil: Fetch answers only once this is closed

	// accounts
	accountsMode  string // ok | error | empty
	accountsCalls int

	// builder-bid provider
	bidMode       map[uint64]string   // by slot: none | bid | error
	hold          map[uint64]*holdCtl // by slot: the answer is withheld until released
	providerCalls []providerCall
}

// Fetch implements majordomo.Service.
func (w *world) Fetch(_ context.Context, _ string) ([]byte, error) {
	w.mu.Lock()
	gate := w.gate
	w.mu.Unlock()
	if gate != nil {
		<-gate
	}
	w.mu.Lock()
	defer w.mu.Unlock()
	w.fetches++
	if w.fetchErr != nil {
		return nil, w.fetchErr
	}
	return append([]byte(nil), w.fetchBody...), nil
}

func (w *world) accounts() (map[phase0.ValidatorIndex]e2wtypes.Account, error) {
	w.mu.Lock()
	defer w.mu.Unlock()
	w.accountsCalls++
	switch w.accountsMode {
	case "error":
		return nil, errors.New("scripted accounts failure")
	case "empty":
		return map[phase0.ValidatorIndex]e2wtypes.Account{}, nil
	}
	res := make(map[phase0.ValidatorIndex]e2wtypes.Account, len(w.validators))
	for i := range w.validators {
		res[phase0.ValidatorIndex(100+i)] = accountOf(&w.validators[i])
	}
	return res, nil
}

func (w *world) ValidatingAccountsForEpoch(context.Context, phase0.Epoch) (map[phase0.ValidatorIndex]e2wtypes.Account, error) {
	return w.accounts()
}

func (w *world) ValidatingAccountsForEpochByIndex(context.Context, phase0.Epoch, []phase0.ValidatorIndex) (map[phase0.ValidatorIndex]e2wtypes.Account, error) {
	return w.accounts()
}

func (w *world) SyncCommitteeAccountsForEpoch(context.Context, phase0.Epoch) (map[phase0.ValidatorIndex]e2wtypes.Account, error) {
	return w.accounts()
}

func (w *world) SyncCommitteeAccountsForEpochByIndex(context.Context, phase0.Epoch, []phase0.ValidatorIndex) (map[phase0.ValidatorIndex]e2wtypes.Account, error) {
	return w.accounts()
}

// AccountByPublicKey implements accountmanager.AccountsProvider.
func (w *world) AccountByPublicKey(_ context.Context, pubkey phase0.BLSPubKey) (e2wtypes.Account, error) {
	for i := range w.validators {
		if key48(w.validators[i].PubKey) == [48]byte(pubkey) {
			return accountOf(&w.validators[i]), nil
		}
	}
	return nil, errors.New("unknown account")
}

// Validators implements eth2client.ValidatorsProvider (only used for unblinding).
func (w *world) Validators(context.Context, *api.ValidatorsOpts) (*api.Response[map[phase0.ValidatorIndex]*apiv1.Validator], error) {
	return nil, errors.New("not available")
}

// SignValidatorRegistration implements signer.ValidatorRegistrationSigner.
func (w *world) SignValidatorRegistration(context.Context, e2wtypes.Account, *builderapi.VersionedValidatorRegistration) (phase0.BLSSignature, error) {
	return phase0.BLSSignature{0xc1, 0x2}, nil
}

// BuilderBid implements builderbid.Provider: records the settings it is given.
func (w *world) BuilderBid(_ context.Context, slot phase0.Slot, _ phase0.Hash32, pubkey phase0.BLSPubKey,
	proposerConfig *beaconblockproposer.ProposerConfig, _ map[phase0.BLSPubKey]*blockrelay.BuilderConfig,
) (*blockauctioneer.Results, error) {
	w.mu.Lock()
	w.providerCalls = append(w.providerCalls, providerCall{slot: uint64(slot), pubkey: pubkey, config: proposerConfig})
	mode := w.bidMode[uint64(slot)]
	h := w.hold[uint64(slot)]
	w.mu.Unlock()
	if h != nil {
		h.enteredOnce.Do(func() { close(h.entered) })
		<-h.release
	}
	switch mode {
	case "error":
		return nil, errors.New("scripted auction failure")
	case "bid":
		p := &blockauctioneer.Participation{
			Category: "standard",
			Score:    big.NewInt(12345),
			Bid: &builderspec.VersionedSignedBuilderBid{
				Version: spec.DataVersionDeneb,
				Deneb:   &deneb.SignedBuilderBid{Message: &deneb.BuilderBid{Value: uint256.NewInt(12345), Pubkey: phase0.BLSPubKey{0xb1}}},
			},
		}
		return &blockauctioneer.Results{
			Participation:        map[string]*blockauctioneer.Participation{"relay": p},
			AllProviders:         []builderclient.BuilderBidProvider{},
			WinningParticipation: p,
			Providers:            []builderclient.BuilderBidProvider{},
		}, nil
	}
	return &blockauctioneer.Results{
		Participation: map[string]*blockauctioneer.Participation{},
		AllProviders:  []builderclient.BuilderBidProvider{},
		Providers:     []builderclient.BuilderBidProvider{},
	}, nil
}

func (w *world) callsSince(n int) []providerCall {
	w.mu.Lock()
	defer w.mu.Unlock()
	return append([]providerCall(nil), w.providerCalls[n:]...)
}

func (w *world) nCalls() int {
	w.mu.Lock()
	defer w.mu.Unlock()
	return len(w.providerCalls)
}
