// Package c12 decides property C12: whatever the execution-configuration source
// returns over time, the block relay keeps using the last configuration it
// obtained successfully (else its fallback values), every request returns, and no
// history of refreshes and requests leaves an internal lock held.
// Subject: the real services/blockrelay/standard.
package c12

import (
	"context"
	"errors"
	"fmt"
	"reflect"
	"runtime"
	"sort"
	"strings"
	"sync"
	"testing"
	"time"
	"unsafe"

	relaytypes "github.com/attestantio/go-block-relay/types"
	"github.com/attestantio/go-eth2-client/spec/bellatrix"
	"github.com/attestantio/go-eth2-client/spec/phase0"
	"github.com/attestantio/vouch/services/beaconblockproposer"
	standard "github.com/attestantio/vouch/services/blockrelay/standard"
	nullmetrics "github.com/attestantio/vouch/services/metrics/null"
	"github.com/rs/zerolog"
	"github.com/shopspring/decimal"
	"github.com/spf13/viper"
	e2wtypes "github.com/wealdtech/go-eth2-wallet-types/v2"
	"golang.org/x/sync/semaphore"
	"pgregory.net/rapid"

	"verifharness/internal/ev"
	"verifharness/internal/fakes"
)

const (
	exemptFetch     = "c12.(*world).Fetch("
	exemptAuction   = "c12.(*world).BuilderBid("
	refreshJob      = "Fetch execution configuration"
	registrationJob = "Submit validator registrations"
	placeholderName = "<unknown>/<unknown>"
	watchdog        = 40 * time.Second
)

// state is the reference's idea of the configuration in force.
type state struct {
	doc   *Doc // nil: none obtained yet -> fallback values
	badAt int  // >= 0: an entry at this position cannot be applied
	// nullKey: a legacy document whose proposer_config names this validator with
	// the JSON value null (doc is the document without that member).  Nothing
	// documents what that means: serving the validator with the fallback values
	// or with default_config are both accepted (as is rejecting the document).
	nullKey string
}

func (s state) document() *Doc {
	if s.doc == nil {
		return &Doc{Version: 2, V2: &V2{}}
	}
	return s.doc
}

// ---- comparison with a reference resolution (as in C10)

func equalRef(got *beaconblockproposer.ProposerConfig, want *RefOut) bool {
	if got == nil || [20]byte(got.FeeRecipient) != want.Fee || len(got.Relays) != len(want.Relays) {
		return false
	}
	seen := map[string]bool{}
	for _, r := range got.Relays {
		if r == nil || seen[r.Address] {
			return false
		}
		seen[r.Address] = true
		w, ok := want.Relays[r.Address]
		if !ok || [20]byte(r.FeeRecipient) != w.Fee || r.GasLimit != w.Gas || r.Grace != w.Grace ||
			r.MinValue.Cmp(decimal.NewFromBigInt(w.MinWei, 0)) != 0 ||
			(r.PublicKey == nil) != (w.PubKey == nil) || r.PublicKey != nil && [48]byte(*r.PublicKey) != *w.PubKey {
			return false
		}
	}
	return true
}

func show(c *beaconblockproposer.ProposerConfig) string {
	if c == nil {
		return "<nil>"
	}
	var b strings.Builder
	fmt.Fprintf(&b, "fee=%x relays=[", c.FeeRecipient)
	rs := append([]*beaconblockproposer.RelayConfig(nil), c.Relays...)
	sort.SliceStable(rs, func(i, k int) bool { return rs[i] != nil && rs[k] != nil && rs[i].Address < rs[k].Address })
	for _, r := range rs {
		if r == nil {
			b.WriteString("{nil}")
			continue
		}
		pk := "-"
		if r.PublicKey != nil {
			pk = fmt.Sprintf("%x", r.PublicKey[:4])
		}
		fmt.Fprintf(&b, "{%s fee=%x gas=%d grace=%s min=%s pk=%s}", r.Address, r.FeeRecipient[:4], r.GasLimit, r.Grace, r.MinValue.String(), pk)
	}
	b.WriteString("]")
	return b.String()
}

// expectation is what a request for a validator's settings may answer.
type expectation struct {
	refs       []*RefOut // acceptable configurations
	errOK      bool      // an error is acceptable (settings unresolvable under some accepted reading)
	resolvable bool      // a configuration is required under some accepted reading
	anyRelays  bool      // some acceptable configuration has relays
	allRelays  bool      // every acceptable configuration has relays
}

func expect(states []state, v *Validator, fbFee string, fbGas uint64) expectation {
	e := expectation{allRelays: true}
	opts := []refOpts{{}}
	if v.NoAccount {
		// undocumented what an account specifier means without an account: both readings accepted (see C10)
		opts = append(opts, refOpts{nilAccountName: placeholderName})
	}
	for _, s := range states {
		if s.nullKey != "" && strings.EqualFold(s.nullKey, v.PubKey) {
			e.refs = append(e.refs, &RefOut{Fee: addr20(fbFee), Relays: map[string]*RefRelay{}, Matched: -1})
			e.resolvable = true
			e.allRelays = false
		}
		for _, o := range opts {
			r := Resolve(s.document(), v, fbFee, fbGas, o)
			if s.badAt >= 0 && (r.Matched < 0 || r.Matched >= s.badAt) {
				// the scan reaches the entry that cannot be applied
				e.errOK = true
			} else {
				e.resolvable = true
			}
			e.refs = append(e.refs, r)
			if len(r.Relays) > 0 {
				e.anyRelays = true
			} else {
				e.allRelays = false
			}
		}
	}
	return e
}

func (e expectation) accepts(got *beaconblockproposer.ProposerConfig) bool {
	for _, r := range e.refs {
		if equalRef(got, r) {
			return true
		}
	}
	return false
}

func (e expectation) String() string {
	var parts []string
	for _, r := range e.refs {
		parts = append(parts, r.String())
	}
	if e.errOK {
		parts = append(parts, "<error: settings unresolvable>")
	}
	return strings.Join(parts, " | ")
}

// ---- locks of the service, found by field type

type lockField struct {
	name string
	rw   *sync.RWMutex
	mu   *sync.Mutex
}

func (l lockField) tryLock() bool {
	if l.rw != nil {
		if l.rw.TryLock() {
			l.rw.Unlock()
			return true
		}
		return false
	}
	if l.mu.TryLock() {
		l.mu.Unlock()
		return true
	}
	return false
}

func serviceLocks(svc *standard.Service) ([]lockField, *semaphore.Weighted) {
	var res []lockField
	var sem *semaphore.Weighted
	v := reflect.ValueOf(svc).Elem()
	for i := 0; i < v.NumField(); i++ {
		f := v.Field(i)
		p := unsafe.Pointer(f.UnsafeAddr())
		switch f.Type() {
		case reflect.TypeOf(sync.RWMutex{}):
			res = append(res, lockField{name: v.Type().Field(i).Name, rw: (*sync.RWMutex)(p)})
		case reflect.TypeOf(sync.Mutex{}):
			res = append(res, lockField{name: v.Type().Field(i).Name, mu: (*sync.Mutex)(p)})
		case reflect.TypeOf((*semaphore.Weighted)(nil)):
			sem = *(**semaphore.Weighted)(p)
		}
	}
	return res, sem
}

// ---- goroutine dumps (structural confirmation of a blocked call)

type gor struct {
	id     string
	state  string
	text   string
	isOp   bool
	inPkg  bool
	parked bool
}

var (
	abandonedMu sync.Mutex
	abandoned   = map[string]bool{} // op goroutines left behind by earlier cases of this process
)

func dumpGoroutines() []gor {
	buf := make([]byte, 1<<20)
	for {
		n := runtime.Stack(buf, true)
		if n < len(buf) {
			buf = buf[:n]
			break
		}
		buf = make([]byte, 2*len(buf))
	}
	var res []gor
	for _, blk := range strings.Split(string(buf), "\n\n") {
		if !strings.HasPrefix(blk, "goroutine ") {
			continue
		}
		head, _, _ := strings.Cut(blk, "\n")
		fs := strings.Fields(head)
		if len(fs) < 3 {
			continue
		}
		g := gor{id: fs[1], text: blk}
		if a := strings.Index(head, "["); a >= 0 {
			st := head[a+1:]
			if b := strings.IndexAny(st, ",]"); b >= 0 {
				st = st[:b]
			}
			g.state = st
		}
		g.isOp = strings.Contains(blk, "c12.opGoroutine(")
		g.inPkg = strings.Contains(blk, "vouch/services/blockrelay/standard.")
		// parked: waiting for a mutex, or for a WaitGroup (which only other
		// goroutines of the package can complete)
		g.parked = (strings.HasPrefix(g.state, "sync.RWMutex") || strings.HasPrefix(g.state, "sync.Mutex") || strings.HasPrefix(g.state, "sync.WaitGroup") || strings.HasPrefix(g.state, "semacquire")) &&
			(strings.Contains(blk, "sync.(*RWMutex)") || strings.Contains(blk, "sync.(*Mutex)") || strings.Contains(blk, "sync.(*WaitGroup).Wait"))
		res = append(res, g)
	}
	return res
}

// blockedOps returns the ids of this case's pending op goroutines if every one
// of them and every other live goroutine inside the block-relay package is
// parked on a mutex (or on a WaitGroup nobody is left to complete); nil
// otherwise.  A goroutine that sits in the harness' own double named by exempt
// (the deliberately slow configuration source, the deliberately held auction) is
// left out of both conditions.
func blockedOps(pending int, exempt string) ([]string, string) {
	abandonedMu.Lock()
	defer abandonedMu.Unlock()
	var ids, where []string
	for _, g := range dumpGoroutines() {
		if abandoned[g.id] {
			continue
		}
		if exempt != "" && strings.Contains(g.text, exempt) {
			continue
		}
		if g.isOp {
			if !g.parked || !g.inPkg {
				return nil, ""
			}
			ids = append(ids, g.id)
			where = append(where, topPkgFrame(g.text)+" ["+g.state+"]")
		} else if g.inPkg && !g.parked {
			return nil, "" // something in the package is alive and may release the lock
		}
	}
	if len(ids) != pending || pending == 0 {
		return nil, ""
	}
	sort.Strings(ids)
	sort.Strings(where)
	return ids, strings.Join(where, "; ")
}

// startupParked returns the goroutines inside the block-relay package if there
// are some and all of them are parked on a lock or wait group.
func startupParked() ([]string, string) {
	abandonedMu.Lock()
	defer abandonedMu.Unlock()
	var ids, where []string
	for _, g := range dumpGoroutines() {
		if abandoned[g.id] || !g.inPkg {
			continue
		}
		if !g.parked {
			return nil, ""
		}
		ids = append(ids, g.id)
		where = append(where, topPkgFrame(g.text)+" ["+g.state+"]")
	}
	if len(ids) == 0 {
		return nil, ""
	}
	sort.Strings(ids)
	sort.Strings(where)
	return ids, strings.Join(where, "; ")
}

func topPkgFrame(text string) string {
	for _, line := range strings.Split(text, "\n") {
		if i := strings.Index(line, "vouch/services/blockrelay/standard."); i >= 0 {
			f := line[i+len("vouch/services/blockrelay/standard."):]
			if j := strings.LastIndex(f, "("); j >= 0 {
				f = f[:j]
			}
			return f
		}
	}
	return "?"
}

// ---- the run

type opResult struct {
	cfg   *beaconblockproposer.ProposerConfig
	err   error
	panic string
	done  bool
	// jobMissing: the periodic job was no longer scheduled when the harness fired it
	jobMissing bool
}

type violation struct {
	sig, detail string
}

type runner struct {
	c      *Case
	docs   []Doc
	w      *world
	svc    *standard.Service
	sched  *fakes.Sched
	ctx    context.Context
	locks  []lockField
	sem    *semaphore.Weighted
	cur    []state // the configurations that may be in force (one, unless a refresh may legitimately go either way)
	viols  []violation
	labels map[string]bool
	// for the non-trivial rule
	badRefreshSeen, requestAfterBad, refreshAfterRequest bool
	known                                                func(sig string) bool
	refreshDone, inFinal                                 bool
	hold                                                 *holdCtl // non-nil while an auction is held in the bid provider
	holdWhat                                             string
}

func (r *runner) violate(sig, format string, args ...any) {
	r.viols = append(r.viols, violation{sig, fmt.Sprintf(format, args...)})
}

func (r *runner) validator(i int) *Validator {
	if i >= 0 && i < len(r.c.Validators) {
		return &r.c.Validators[i]
	}
	return &Validator{PubKey: strangerKey, NoAccount: true}
}

// localise replaces the symbolic relay host.
func localise(d Doc) Doc {
	fix := func(s string) string { return strings.Replace(s, relayHost, relayBase(), 1) }
	out := Doc{Version: d.Version}
	if d.V2 != nil {
		v := *d.V2
		v.Relays = append([]Relay(nil), v.Relays...)
		for i := range v.Relays {
			v.Relays[i].Addr = fix(v.Relays[i].Addr)
		}
		v.Proposers = append([]Proposer(nil), v.Proposers...)
		for i := range v.Proposers {
			v.Proposers[i].Relays = append([]PRelay(nil), v.Proposers[i].Relays...)
			for k := range v.Proposers[i].Relays {
				v.Proposers[i].Relays[k].Addr = fix(v.Proposers[i].Relays[k].Addr)
			}
		}
		out.V2 = &v
	}
	if d.V1 != nil {
		v := *d.V1
		fixE := func(e *V1Entry) {
			if e.Builder != nil {
				b := *e.Builder
				b.Relays = append([]string(nil), b.Relays...)
				for i := range b.Relays {
					b.Relays[i] = fix(b.Relays[i])
				}
				e.Builder = &b
			}
		}
		fixE(&v.Default)
		v.Proposers = append([]V1Prop(nil), v.Proposers...)
		for i := range v.Proposers {
			fixE(&v.Proposers[i].V1Entry)
		}
		out.V1 = &v
	}
	return out
}

// nullify replaces the (empty) JSON object that follows the given key by null.
func nullify(doc []byte, marker string, n int) []byte {
	return []byte(strings.Replace(string(doc), marker, "null", n))
}

// prepare scripts the world for a refresh and returns the states that may be in
// force after it.
func (r *runner) prepare(o Outcome, before []state) []state {
	nullRelayAddr := relayBase() + "/null-entry"
	w := r.w
	w.mu.Lock()
	defer w.mu.Unlock()
	w.accountsMode, w.fetchErr, w.fetchBody = "ok", nil, nil
	if !r.inFinal {
		r.labels["refresh:"+o.Kind] = true
	}
	switch o.Kind {
	case "doc":
		d := &r.docs[o.Doc]
		w.fetchBody = Render(d)
		if d.V1 != nil {
			r.labels["legacy-config-in-force"] = true
		}
		return []state{{doc: d, badAt: -1}}
	case "unresolvable":
		base := r.docs[o.Doc].V2
		at := o.BadAt
		if base == nil {
			base, at = &V2{}, 0
		}
		if at > len(base.Proposers) {
			at = len(base.Proposers)
		}
		good := *base
		bad := *base
		bad.Proposers = append(append(append([]Proposer(nil), base.Proposers[:at]...), Proposer{Proposer: zeroKey48}), base.Proposers[at:]...)
		w.fetchBody = Render(&Doc{Version: 2, V2: &bad})
		return []state{{doc: &Doc{Version: 2, V2: &good}, badAt: at}}
	case "json-null":
		w.fetchBody = []byte(`null`)
	case "json-null-ws":
		w.fetchBody = []byte(" null \n")
	case "json-true":
		w.fetchBody = []byte(`true`)
	case "json-number":
		w.fetchBody = []byte(`0`)
	case "json-string":
		w.fetchBody = []byte(`"x"`)
	case "json-array":
		w.fetchBody = []byte(`[]`)
	case "null-relay", "null-proposer", "null-proposer-relay":
		// an otherwise valid version 2 document with one entry that is JSON null: not a configuration
		base := r.docs[o.Doc].V2
		if base == nil {
			base = &V2{}
		}
		bad := *base
		switch o.Kind {
		case "null-relay":
			bad.Relays = append(append([]Relay(nil), base.Relays...), Relay{Addr: nullRelayAddr})
			w.fetchBody = []byte(strings.Replace(string(Render(&Doc{Version: 2, V2: &bad})), `"`+nullRelayAddr+`":{}`, `"`+nullRelayAddr+`":null`, 1))
		case "null-proposer":
			at := o.BadAt
			if at > len(base.Proposers) {
				at = len(base.Proposers)
			}
			bad.Proposers = append(append(append([]Proposer(nil), base.Proposers[:at]...), Proposer{Proposer: "NULL-ENTRY"}), base.Proposers[at:]...)
			w.fetchBody = nullify(Render(&Doc{Version: 2, V2: &bad}), `{"proposer":"NULL-ENTRY"}`, 1)
		default:
			bad.Proposers = append(append([]Proposer(nil), base.Proposers...), Proposer{Proposer: r.c.Validators[0].PubKey, Relays: []PRelay{{Addr: nullRelayAddr}}})
			w.fetchBody = []byte(strings.Replace(string(Render(&Doc{Version: 2, V2: &bad})), `"`+nullRelayAddr+`":{}`, `"`+nullRelayAddr+`":null`, 1))
		}
	case "legacy-null-entry":
		base := r.docs[o.Doc].V1
		if base == nil {
			base = &V1{Default: V1Entry{Fee: hexOf(0x55, 20)}}
		}
		key := r.validator(o.BadAt).PubKey
		good := *base
		good.Proposers = nil
		for _, p := range base.Proposers {
			if !strings.EqualFold(p.Key, key) {
				good.Proposers = append(good.Proposers, p)
			}
		}
		bad := good
		bad.Proposers = append(append([]V1Prop(nil), good.Proposers...), V1Prop{Key: key, V1Entry: V1Entry{Fee: "NULL-ENTRY"}})
		w.fetchBody = nullify(Render(&Doc{Version: 0, V1: &bad}), `{"fee_recipient":"NULL-ENTRY"}`, 1)
		return append(append([]state(nil), before...), state{doc: &Doc{Version: 0, V1: &good}, badAt: -1, nullKey: key})
	case "fetch-error":
		w.fetchErr = errors.New("scripted fetch failure")
	case "malformed":
		w.fetchBody = []byte(`{"version":2,"fee_recipient":`)
	case "empty":
		w.fetchBody = []byte{}
	case "bad-version":
		w.fetchBody = []byte(`{"version":3}`)
	case "no-default":
		w.fetchBody = []byte(`{"proposer_config":{}}`)
	case "wrong-type":
		w.fetchBody = []byte(`{"version":2,"gas_limit":30000000}`)
	case "accounts-error":
		w.accountsMode = "error"
		w.fetchErr = errors.New("must not be fetched")
	case "no-accounts":
		w.accountsMode = "empty"
		w.fetchErr = errors.New("must not be fetched")
	}
	return before
}

//go:noinline
func opGoroutine(r *runner, i int, op *Op, res *opResult, start <-chan struct{}, done chan<- int) {
	<-start
	r.doOp(op, res)
	done <- i
}

func parentHashOf(v int) phase0.Hash32 { return phase0.Hash32{0x70, byte(v + 1)} }

func (r *runner) doOp(op *Op, res *opResult) {
	defer func() {
		if p := recover(); p != nil {
			frame := "unknown"
			pcs := make([]uintptr, 64)
			frames := runtime.CallersFrames(pcs[:runtime.Callers(2, pcs)])
			for {
				f, more := frames.Next()
				if strings.Contains(f.Function, "attestantio/vouch/") {
					frame = f.Function[strings.LastIndex(f.Function, "/")+1:]
					break
				}
				if !more {
					break
				}
			}
			res.panic = fmt.Sprintf("%s: %v", frame, p)
		}
		res.done = true
	}()
	v := r.validator(op.Validator)
	key := phase0.BLSPubKey(key48(v.PubKey))
	switch op.Kind {
	case "refresh":
		res.jobMissing = !r.sched.Fire(refreshJob)
	case "lookup":
		var acct e2wtypes.Account
		if !op.NilAccount && !v.NoAccount {
			acct = accountOf(v)
		}
		res.cfg, res.err = r.svc.ProposerConfig(r.ctx, acct, key)
	case "auction":
		_, res.err = r.svc.AuctionBlock(r.ctx, phase0.Slot(op.Slot), parentHashOf(op.Validator), key)
	case "builderbid":
		_, res.err = r.svc.BuilderBid(r.ctx, phase0.Slot(op.Slot), parentHashOf(op.Validator), key)
	case "registration":
		res.jobMissing = !r.sched.Fire(registrationJob)
	case "submit-registrations":
		accts, _ := r.w.accounts()
		res.err = r.svc.SubmitValidatorRegistrations(r.ctx, accts)
	case "rest-registrations":
		regs := []*relaytypes.SignedValidatorRegistration{
			{Message: &relaytypes.ValidatorRegistration{FeeRecipient: bellatrix.ExecutionAddress{0x99}, GasLimit: 30000000, Timestamp: time.Unix(1700000000, 0), Pubkey: phase0.BLSPubKey(key48(strangerKey))}},
			{Message: &relaytypes.ValidatorRegistration{FeeRecipient: bellatrix.ExecutionAddress{0x98}, GasLimit: 30000000, Timestamp: time.Unix(1700000000, 0), Pubkey: phase0.BLSPubKey(key48(r.c.Validators[0].PubKey))}},
		}
		_, res.err = r.svc.ValidatorRegistrations(r.ctx, regs)
	}
}

// await waits until `want` more completions have arrived.  It returns "" when
// they did, a description when the calls still pending are structurally
// confirmed to be parked on a lock (two identical samples), and sets harness when
// neither could be established in time.  With exempt (see blockedOps) the call
// that sits in the harness' own double does not count as pending.
func (r *runner) await(done <-chan int, want int, exempt string, isRefresh func(int) bool) (got int, blocked string, harness string) {
	deadline := time.Now().Add(watchdog)
	var last []string
	wait := 300 * time.Millisecond
	for got < want {
		select {
		case i := <-done:
			if isRefresh != nil && isRefresh(i) {
				// a refresh that did not need the source (no accounts): fine
				r.refreshDone = true
				continue
			}
			got++
			continue
		case <-time.After(wait):
		}
		wait = 250 * time.Millisecond
		ids, where := blockedOps(want-got, exempt)
		if ids != nil && reflect.DeepEqual(ids, last) {
			if exempt == "" {
				abandonedMu.Lock()
				for _, id := range ids {
					abandoned[id] = true
				}
				abandonedMu.Unlock()
			}
			return got, where, ""
		}
		last = ids
		if time.Now().After(deadline) {
			return got, "", fmt.Sprintf("watchdog: %d of %d calls did not return within %s and are not (all) parked on a block-relay lock", want-got, want, watchdog)
		}
	}
	return got, "", ""
}

// jobDropped says whether the scheduler dropped the named job because its
// scheduling context had ended.
func (r *runner) jobDropped(name string) bool {
	for _, e := range r.sched.LogCopy() {
		if e.Op == "dropped-parent-context-done" && e.Name == name {
			return true
		}
	}
	return false
}

// demonstrateNoRefresh puts a new valid document at the source, fires every
// job that is still scheduled and looks a validator up.
func (r *runner) demonstrateNoRefresh() string {
	fee := hexOf(0x78, 20)
	r.w.mu.Lock()
	r.w.accountsMode, r.w.fetchErr = "ok", nil
	r.w.fetchBody = Render(&Doc{Version: 2, V2: &V2{Fields: Fields{Fee: fee}}})
	r.w.mu.Unlock()
	done := make(chan string, 1)
	go func() {
		defer func() {
			if p := recover(); p != nil {
				done <- fmt.Sprintf("; (demonstration panicked: %v)", p)
			}
		}()
		for _, j := range r.sched.Jobs() {
			r.sched.Fire(j.Name)
		}
		v := r.validator(0)
		cfg, err := r.svc.ProposerConfig(r.ctx, accountOf(v), phase0.BLSPubKey(key48(v.PubKey)))
		switch {
		case err != nil:
			done <- fmt.Sprintf("; with a new valid document (fee recipient %s) at the source and every remaining job fired, the lookup fails: %v", fee, err)
		case [20]byte(cfg.FeeRecipient) != addr20(fee):
			done <- fmt.Sprintf("; with a new valid document (fee recipient %s) at the source and every remaining job fired, the lookup still answers %s", fee, show(cfg))
		default:
			done <- ""
		}
	}()
	select {
	case s := <-done:
		return s
	case <-time.After(10 * time.Second):
		return ""
	}
}

// checkLocks tries every lock of the service at quiescence.
func (r *runner) checkLocks(when string) {
	for _, l := range r.locks {
		ok := false
		for i := 0; i < 6 && !ok; i++ {
			if ok = l.tryLock(); !ok {
				time.Sleep(5 * time.Millisecond)
			}
		}
		if ok {
			continue
		}
		sig := "lock-held-at-quiescence:" + l.name
		r.violate(sig, "%s: no call is in flight but %s cannot be locked", when, l.name)
		// So that the search continues behind a listed finding: hand back read
		// locks that were leaked (possible only when readers, not a writer, hold it).
		if r.known(sig) && l.rw != nil && l.rw.TryRLock() {
			l.rw.RUnlock()
			for i := 0; i < 64 && !l.tryLock(); i++ {
				l.rw.RUnlock()
			}
		}
	}
}

func (r *runner) heldLocks() string {
	var names []string
	for _, l := range r.locks {
		if !l.tryLock() {
			names = append(names, l.name)
		}
	}
	return strings.Join(names, "+")
}

// step executes one step; false means the case cannot continue.
func (r *runner) step(si int, ops []Op) (cont bool, harness string) {
	before := r.cur
	after := before
	hasRefresh := false
	for i := range ops {
		if ops[i].Kind == "refresh" {
			after = r.prepare(*ops[i].Outcome, before)
			hasRefresh = true
			k := ops[i].Outcome.Kind
			if k != "doc" {
				r.badRefreshSeen = true
			}
			if r.requestAfterBad {
				r.refreshAfterRequest = true
			}
		} else if r.badRefreshSeen && (ops[i].Kind == "lookup" || ops[i].Kind == "auction" || ops[i].Kind == "builderbid") {
			r.requestAfterBad = true
		}
	}
	if len(ops) > 1 && si < len(r.c.Steps) {
		r.labels["concurrent-step"] = true
		if hasRefresh {
			r.labels["concurrent-step-with-refresh"] = true
		}
	}
	nCalls := r.w.nCalls()
	results := make([]opResult, len(ops))
	start := make(chan struct{})
	done := make(chan int, len(ops))
	slow := false
	for i := range ops {
		if ops[i].Kind == "refresh" && ops[i].Outcome.Slow && len(ops) > 1 {
			slow = true
		}
	}
	var gate chan struct{}
	if slow {
		gate = make(chan struct{})
		r.w.mu.Lock()
		r.w.gate = gate
		r.w.mu.Unlock()
		r.labels["requests-while-fetch-pending"] = true
	}
	for i := range ops {
		go opGoroutine(r, i, &ops[i], &results[i], start, done)
	}
	close(start)
	remaining := len(ops)
	if slow {
		// everything but the refresh has to complete while the source has not answered yet
		r.refreshDone = false
		got, blocked, harness := r.await(done, len(ops)-1, exemptFetch, func(i int) bool { return ops[i].Kind == "refresh" })
		r.w.mu.Lock()
		r.w.gate = nil
		r.w.mu.Unlock()
		close(gate)
		if harness != "" {
			return false, harness
		}
		if blocked != "" {
			r.violate("requests-blocked-while-fetch-pending", "step %d %s: while the configuration source had not answered yet the other calls were parked on a lock: %s", si, describe(ops), blocked)
		}
		remaining = len(ops) - got
		if r.refreshDone {
			remaining--
		}
	}
	exempt := ""
	if r.hold != nil {
		exempt = exemptAuction
	}
	got, blocked, harness := r.await(done, remaining, exempt, nil)
	if harness != "" {
		return false, harness
	}
	if blocked != "" && r.hold != nil {
		// an auction is being held by the harness' bid provider: nothing may wait for it
		sig := "request-blocked-by-auction"
		if ops[0].Kind == "refresh" {
			sig = "refresh-blocked-by-auction"
		}
		r.violate(sig, "step %d %s, issued while %s is waiting for its relays, does not return until the auction ends; locks that cannot be taken: %s; parked: %s", si, describe(ops), r.holdWhat, r.heldLocks(), blocked)
		r.releaseHold()
		_, blocked, harness = r.await(done, remaining-got, "", nil)
		if harness != "" {
			return false, harness
		}
	}
	if blocked != "" {
		sig := "blocked-on:" + r.heldLocks()
		if sig == "blocked-on:" {
			// no lock involved: name the place instead (e.g. a WaitGroup that is never completed)
			sig = "blocked-in:" + strings.SplitN(blocked, " [", 2)[0]
		}
		r.violate(sig, "step %d %s: calls never return; every goroutine inside the block relay is parked on a lock or wait group: %s", si, describe(ops), blocked)
		return false, ""
	}
	r.cur = after
	if hasRefresh {
		r.w.mu.Lock()
		r.w.accountsMode = "ok"
		r.w.mu.Unlock()
	}

	states := before
	switch {
	case hasRefresh && len(ops) == 1:
		states = after
	case hasRefresh:
		states = append(append([]state(nil), before...), after...)
	}
	bySlot := map[uint64][]providerCall{}
	for _, pc := range r.w.callsSince(nCalls) {
		bySlot[pc.slot] = append(bySlot[pc.slot], pc)
	}
	for i := range ops {
		if cont, h := r.judgeOp(si, i, &ops[i], &results[i], states, bySlot); !cont || h != "" {
			return cont, h
		}
	}
	if r.hold == nil {
		r.checkLocks(fmt.Sprintf("after step %d %s", si, describe(ops)))
	}
	return true, ""
}

// judgeOp judges one completed call against the states that may have been in
// force while it ran.
func (r *runner) judgeOp(si, i int, op *Op, res *opResult, states []state, bySlot map[uint64][]providerCall) (cont bool, harness string) {
	where := fmt.Sprintf("step %d op %d %s (configuration in force: %s)", si, i, describeOp(op), r.describeStates(states))
	if res.panic != "" {
		r.violate("panic:"+strings.SplitN(res.panic, ":", 2)[0], "%s panicked: %s", where, res.panic)
		return true, ""
	}
	if res.jobMissing {
		name, what := refreshJob, "refresh"
		if op.Kind == "registration" {
			name, what = registrationJob, "registration"
		}
		if !r.jobDropped(name) {
			return false, "periodic job " + name + " vanished without the scheduler having dropped it"
		}
		r.violate(what+"-job-cancelled", "%s: the periodic job %q is no longer scheduled: the context vouch scheduled it with has ended", where, name)
		return false, ""
	}
	v := *r.validator(op.Validator)
	switch op.Kind {
	case "lookup":
		v.NoAccount = v.NoAccount || op.NilAccount
		e := expect(states, &v, r.c.FallbackFee, r.c.FallbackGas)
		if states[len(states)-1].badAt >= 0 && e.errOK {
			r.labels["lookup-meets-unresolvable-entry"] = true
		}
		switch {
		case res.err != nil && !e.errOK:
			r.violate("lookup-failed-on-resolvable-config", "%s failed: %v; acceptable: %s", where, res.err, e)
		case res.err == nil && !e.accepts(res.cfg):
			r.violate("lookup-differs-from-last-good-config", "%s returned %s; acceptable: %s", where, show(res.cfg), e)
		}
	case "auction", "builderbid":
		if op.Kind == "builderbid" {
			v.NoAccount = true // the REST path has no account object
		}
		calls := bySlot[op.Slot]
		if op.Kind == "auction" && op.Validator >= len(r.c.Validators) {
			// not a validator Vouch knows: only "returns" is demanded
			return true, ""
		}
		e := expect(states, &v, r.c.FallbackFee, r.c.FallbackGas)
		if op.Kind == "auction" && states[len(states)-1].badAt >= 0 && e.errOK && !e.resolvable {
			r.labels["auction-meets-unresolvable-entry"] = true
		}
		for _, pc := range calls {
			if !e.accepts(pc.config) {
				r.violate("auction-settings-differ-from-last-good-config", "%s auctioned with %s; acceptable: %s", where, show(pc.config), e)
			}
		}
		if op.Kind == "auction" && res.err == nil && len(calls) == 0 && e.allRelays && !e.errOK {
			r.violate("auction-skipped-configured-relays", "%s returned without asking the bid provider although relays are configured: %s", where, e)
		}
		if len(calls) > 0 {
			r.labels["auction-reached-bid-provider"] = true
		}
	}
	return true, ""
}

func (r *runner) releaseHold() {
	if r.hold != nil {
		r.hold.releaseOnce.Do(func() { close(r.hold.release) })
		r.hold = nil
	}
}

// heldStep runs ops[0] (an auction) with a bid provider that does not answer
// until the harness says so, issues the other calls one after the other while
// the auction is waiting (each must return although the auction has not), then
// lets the auction finish.
func (r *runner) heldStep(si int, ops []Op) (cont bool, harness string) {
	auction := &ops[0]
	before := r.cur
	h := &holdCtl{entered: make(chan struct{}), release: make(chan struct{})}
	r.w.mu.Lock()
	r.w.hold[auction.Slot] = h
	r.w.mu.Unlock()
	defer func() {
		r.releaseHold()
		h.releaseOnce.Do(func() { close(h.release) })
		r.w.mu.Lock()
		delete(r.w.hold, auction.Slot)
		r.w.mu.Unlock()
	}()
	if r.badRefreshSeen {
		r.requestAfterBad = true
	}
	nCalls := r.w.nCalls()
	var res opResult
	start := make(chan struct{})
	done := make(chan int, 1)
	go opGoroutine(r, 0, auction, &res, start, done)
	close(start)
	finished := false
	select {
	case <-h.entered:
		r.hold, r.holdWhat = h, describeOp(auction)
		r.labels["requests-while-auction-pending"] = true
	case <-done:
		finished = true // no relays, unknown validator, unresolvable settings: nothing to hold
	case <-time.After(watchdog):
		_, blocked, hp := r.await(done, 1, "", nil)
		if hp != "" || blocked == "" {
			return false, "held auction neither reached the bid provider nor returned: " + hp
		}
		r.violate("blocked-on:"+r.heldLocks(), "step %d %s never returns: %s", si, describeOp(auction), blocked)
		return false, ""
	}
	for i := 1; i < len(ops); i++ {
		if cont, hp := r.step(si, ops[i:i+1]); !cont || hp != "" {
			return cont, hp
		}
	}
	if !finished {
		r.releaseHold()
		h.releaseOnce.Do(func() { close(h.release) })
		_, blocked, hp := r.await(done, 1, "", nil)
		if hp != "" {
			return false, hp
		}
		if blocked != "" {
			r.violate("blocked-on:"+r.heldLocks(), "step %d %s never returns after its bid provider answered: %s", si, describeOp(auction), blocked)
			return false, ""
		}
	}
	bySlot := map[uint64][]providerCall{}
	for _, pc := range r.w.callsSince(nCalls) {
		if pc.slot == auction.Slot {
			bySlot[pc.slot] = append(bySlot[pc.slot], pc)
		}
	}
	if cont, hp := r.judgeOp(si, 0, auction, &res, before, bySlot); !cont || hp != "" {
		return cont, hp
	}
	r.checkLocks(fmt.Sprintf("after step %d held %s", si, describe(ops)))
	return true, ""
}

func (r *runner) describeStates(states []state) string {
	var parts []string
	for _, s := range states {
		switch {
		case s.doc == nil:
			parts = append(parts, "none (fallback)")
		case s.badAt >= 0:
			parts = append(parts, fmt.Sprintf("%s with an entry at %d that cannot be applied", Render(s.doc), s.badAt))
		default:
			parts = append(parts, string(Render(s.doc)))
		}
	}
	return strings.Join(parts, " or ")
}

func describeOp(op *Op) string {
	switch op.Kind {
	case "refresh":
		return "refresh(" + op.Outcome.String() + ")"
	case "lookup":
		return fmt.Sprintf("lookup(validator %d, nil account %v)", op.Validator, op.NilAccount)
	case "auction", "builderbid":
		return fmt.Sprintf("%s(validator %d, slot %d)", op.Kind, op.Validator, op.Slot)
	}
	return op.Kind
}

func describe(ops []Op) string {
	var parts []string
	for i := range ops {
		parts = append(parts, describeOp(&ops[i]))
	}
	if len(parts) == 1 {
		return parts[0]
	}
	return "{" + strings.Join(parts, " || ") + "}"
}

func runCase(c *Case, known func(string) bool) (viols []violation, labels map[string]bool, nontrivial bool, harness string) {
	zerolog.SetGlobalLevel(zerolog.Disabled)
	viper.Reset()
	viper.SetDefault("timeout", "5s")
	r := &runner{c: c, labels: map[string]bool{}, known: known, cur: []state{{badAt: -1}}}
	for _, d := range c.Docs {
		r.docs = append(r.docs, localise(d))
	}
	r.w = &world{validators: c.Validators, accountsMode: "ok", bidMode: map[uint64]string{}, hold: map[uint64]*holdCtl{}}
	for _, st := range c.Steps {
		for _, op := range st.Ops {
			if op.Slot != 0 {
				r.w.bidMode[op.Slot] = op.Bid
			}
		}
	}
	ctx, cancel := context.WithCancel(context.Background())
	defer cancel()
	r.ctx = ctx
	clock := fakes.NewVClock(time.Unix(1600000000, 0), 12*time.Second, 32)
	clock.SetSlot(320, 0)
	r.sched = fakes.NewSched()
	url := "file:///verif/c12/execution-config.json"
	if c.DynamicURL {
		url = "https://config.invalid/execution-config"
		r.labels["dynamic-config-url"] = true
	}

	r.cur = r.prepare(c.Initial, r.cur)
	if c.Initial.Kind != "doc" {
		r.badRefreshSeen = true
	}
	type built struct {
		svc *standard.Service
		err error
	}
	ch := make(chan built, 1)
	go func() {
		svc, err := standard.New(ctx,
			standard.WithLogLevel(zerolog.Disabled),
			standard.WithMonitor(nullmetrics.New()),
			standard.WithMajordomo(r.w),
			standard.WithScheduler(r.sched),
			standard.WithChainTime(clock),
			standard.WithListenAddress("127.0.0.1:0"),
			standard.WithConfigURL(url),
			standard.WithFallbackFeeRecipient(bellatrix.ExecutionAddress(addr20(c.FallbackFee))),
			standard.WithFallbackGasLimit(c.FallbackGas),
			standard.WithAccountsProvider(r.w),
			standard.WithValidatorsProvider(r.w),
			standard.WithValidatingAccountsProvider(r.w),
			standard.WithValidatorRegistrationSigner(r.w),
			standard.WithReleaseVersion("verif"),
			standard.WithBuilderBidProvider(r.w),
		)
		ch <- built{svc, err}
	}()
	select {
	case b := <-ch:
		if b.err != nil {
			return nil, r.labels, false, "cannot construct the block relay: " + b.err.Error()
		}
		r.svc = b.svc
	case <-time.After(watchdog):
		return nil, r.labels, false, "constructing the block relay did not return"
	}
	r.locks, r.sem = serviceLocks(r.svc)
	if len(r.locks) == 0 || r.sem == nil {
		return nil, r.labels, false, "no lock fields found in the service by reflection"
	}
	// New starts the first registration round on a goroutine of its own: let it finish.
	deadline := time.Now().Add(watchdog)
	started, lastSample := time.Now(), time.Now()
	var lastIDs []string
	for {
		r.w.mu.Lock()
		n := r.w.accountsCalls
		r.w.mu.Unlock()
		if n >= 2 && r.sem.TryAcquire(1) {
			r.sem.Release(1)
			break
		}
		if time.Now().After(deadline) {
			return nil, r.labels, false, "the initial registration round did not finish"
		}
		time.Sleep(time.Millisecond)
		// The round runs on a goroutine started by New; if it (and everything else
		// in the package) is parked on a lock or wait group in two samples it will
		// never finish.
		if time.Since(started) > 400*time.Millisecond && time.Since(lastSample) > 250*time.Millisecond {
			lastSample = time.Now()
			ids, where := startupParked()
			if ids != nil && reflect.DeepEqual(ids, lastIDs) {
				abandonedMu.Lock()
				for _, id := range ids {
					abandoned[id] = true
				}
				abandonedMu.Unlock()
				r.violate("blocked-in:"+strings.SplitN(where, " [", 2)[0], "the registration round that New starts never returns: %s", where)
				return r.viols, r.labels, false, ""
			}
			lastIDs = ids
		}
	}
	r.w.mu.Lock()
	r.w.accountsMode = "ok"
	r.w.mu.Unlock()
	// New has returned and its context is alive: the periodic jobs must be in place.
	// A job the scheduler dropped because vouch scheduled it under a context that
	// vouch itself has ended is a violation (no refresh / registration round will
	// ever run again); a job that was never scheduled under the expected name is a
	// problem of the harness.
	gone := false
	for _, j := range []struct{ name, what string }{{refreshJob, "refresh"}, {registrationJob, "registration"}} {
		if r.sched.Get(j.name) != nil {
			continue
		}
		if !r.jobDropped(j.name) {
			return nil, r.labels, false, "the service did not schedule its periodic jobs under the expected names"
		}
		gone = true
		detail := ""
		if j.what == "refresh" {
			detail = r.demonstrateNoRefresh()
		}
		r.violate(j.what+"-job-cancelled-at-startup", "after New returned (its context alive) the periodic job %q is no longer scheduled: it was scheduled with a context that New itself ended, so the scheduler dropped it%s", j.name, detail)
	}
	if gone {
		return r.viols, r.labels, false, ""
	}
	r.checkLocks("after construction")

	for si := range c.Steps {
		var cont bool
		var h string
		if c.Steps[si].Held && len(c.Steps[si].Ops) > 1 && c.Steps[si].Ops[0].Kind == "auction" {
			cont, h = r.heldStep(si, c.Steps[si].Ops)
		} else {
			cont, h = r.step(si, c.Steps[si].Ops)
		}
		if h != "" {
			return r.viols, r.labels, false, h
		}
		if !cont {
			return r.viols, r.labels, r.badRefreshSeen && r.requestAfterBad, ""
		}
	}
	// A registration round with whatever configuration is in force at the end
	// (it may name a relay no client can be made for) must return.
	if cont, h := r.step(len(c.Steps), []Op{{Kind: "registration"}}); h != "" || !cont {
		return r.viols, r.labels, r.badRefreshSeen && r.requestAfterBad, h
	}
	// A further refresh and further requests must still complete and take effect.
	final := Doc{Version: 2, V2: &V2{Fields: Fields{Fee: hexOf(0x77, 20), Gas: "31000000"}, Relays: []Relay{{Addr: relayBase() + "/final"}}}}
	r.docs = append(r.docs, final)
	r.inFinal = true
	ops := []Op{{Kind: "refresh", Outcome: &Outcome{Kind: "doc", Doc: len(r.docs) - 1}}}
	if cont, h := r.step(len(c.Steps), ops); h != "" || !cont {
		return r.viols, r.labels, r.badRefreshSeen && r.requestAfterBad, h
	}
	ops = nil
	for i := 0; i <= len(c.Validators); i++ {
		ops = append(ops, Op{Kind: "lookup", Validator: i, NilAccount: i%2 == 1})
	}
	ops = append(ops, Op{Kind: "auction", Validator: 0, Slot: 999999, Bid: "none"})
	if _, h := r.step(len(c.Steps)+1, ops); h != "" {
		return r.viols, r.labels, false, h
	}
	return r.viols, r.labels, r.badRefreshSeen && r.requestAfterBad && r.refreshAfterRequest, ""
}

func check(t ev.TB, c *Case) {
	viols, labels, nontrivial, harness := runCase(c, ev.IsKnown)
	ls := make([]string, 0, len(labels))
	for l := range labels {
		ls = append(ls, l)
	}
	sort.Strings(ls)
	ev.Case(nontrivial, ev.Hash(c), ls...)
	if nontrivial {
		ev.Sample(c)
	}
	for _, v := range viols {
		ev.Violation(t, v.sig, c, "%s", v.detail)
	}
	if harness != "" {
		ev.Inconclusive(harness)
		t.Fatalf("harness problem: %s", harness)
	}
}

func TestHistories(t *testing.T) {
	rapid.Check(t, func(t *rapid.T) {
		c := genCase(t)
		check(t, &c)
	})
}

// TestReplay re-executes a saved case without the property library.
func TestReplay(t *testing.T) {
	f := ev.ReplayFile()
	if f == "" {
		t.Skip("no replay file")
	}
	var c Case
	if _, err := ev.LoadCase(f, &c); err != nil {
		t.Fatalf("cannot load %s: %v", f, err)
	}
	check(t, &c)
	ev.ReplayPassed()
}
