// Copied from ../c10/doc_test.go (same author, same reference); only the package clause differs.
package c12

// The execution-configuration *document* as the documentation describes it
// (docs/executionconfig.md for version 2, docs/execlayer.md for the legacy
// form), a renderer to JSON and a strict reader of exactly the documented
// forms.  Nothing here looks at the implementation's types.

import (
	"bytes"
	"encoding/json"
	"errors"
	"fmt"
	"io"
	"math/big"
	"regexp"
	"strings"
)

// Fields are the optional settings that can appear at a level ("" = absent).
type Fields struct {
	Fee      string `json:"fee_recipient,omitempty"` // 0x + 40 hex
	Gas      string `json:"gas_limit,omitempty"`     // decimal
	Grace    string `json:"grace,omitempty"`         // decimal, milliseconds
	MinValue string `json:"min_value,omitempty"`     // decimal, ether
	PubKey   string `json:"public_key,omitempty"`    // 0x + 96 hex (relay levels only)
}

// Relay is a top-level relay with its relay-level defaults.
type Relay struct {
	Addr string `json:"addr"`
	Fields
}

// PRelay is a relay entry inside a proposer entry.
type PRelay struct {
	Addr     string `json:"addr"`
	Disabled bool   `json:"disabled,omitempty"`
	Fields
}

// Proposer is one entry of the ordered "proposers" list.
type Proposer struct {
	Proposer string `json:"proposer"` // 0x + 96 hex, or an account regular expression
	Fields
	Reset  bool     `json:"reset_relays,omitempty"`
	Relays []PRelay `json:"relays,omitempty"`
}

// V2 is a version 2 document.
type V2 struct {
	Fields
	Relays    []Relay    `json:"relays,omitempty"`
	Proposers []Proposer `json:"proposers,omitempty"`
}

// V1Builder is the "builder" object of a legacy entry.
type V1Builder struct {
	Enabled bool     `json:"enabled"`
	Grace   string   `json:"grace,omitempty"`
	Relays  []string `json:"relays,omitempty"`
}

// V1Entry is a legacy proposer/default entry.
type V1Entry struct {
	Fee     string     `json:"fee_recipient"`
	Gas     string     `json:"gas_limit,omitempty"`
	Builder *V1Builder `json:"builder,omitempty"`
}

// V1Prop is one member of the legacy "proposer_config" object.
type V1Prop struct {
	Key string `json:"key"`
	V1Entry
}

// V1 is a legacy document.
type V1 struct {
	Proposers []V1Prop `json:"proposer_config,omitempty"`
	Default   V1Entry  `json:"default_config"`
}

// Doc is a document of either version.
type Doc struct {
	Version int `json:"version"` // 2 or 0 (legacy)
	V2      *V2 `json:"v2,omitempty"`
	V1      *V1 `json:"v1,omitempty"`
}

// ---------------------------------------------------------------------------
// rendering

type jw struct {
	b     bytes.Buffer
	first []bool
}

func (w *jw) open(c byte) { w.b.WriteByte(c); w.first = append(w.first, true) }
func (w *jw) close(c byte) {
	w.b.WriteByte(c)
	w.first = w.first[:len(w.first)-1]
}
func (w *jw) sep() {
	if !w.first[len(w.first)-1] {
		w.b.WriteByte(',')
	}
	w.first[len(w.first)-1] = false
}
func (w *jw) str(s string) {
	x, _ := json.Marshal(s)
	w.b.Write(x)
}
func (w *jw) key(k string) { w.sep(); w.str(k); w.b.WriteByte(':') }
func (w *jw) kv(k, v string) {
	if v != "" {
		w.key(k)
		w.str(v)
	}
}

func (w *jw) fields(f *Fields) {
	w.kv("public_key", f.PubKey)
	w.kv("fee_recipient", f.Fee)
	w.kv("gas_limit", f.Gas)
	w.kv("grace", f.Grace)
	w.kv("min_value", f.MinValue)
}

// Render produces the JSON text of a document.
func Render(d *Doc) []byte {
	w := &jw{}
	w.open('{')
	switch {
	case d.V2 != nil:
		w.key("version")
		w.b.WriteString("2")
		w.fields(&d.V2.Fields)
		if len(d.V2.Relays) > 0 {
			w.key("relays")
			w.open('{')
			for i := range d.V2.Relays {
				w.key(d.V2.Relays[i].Addr)
				w.open('{')
				w.fields(&d.V2.Relays[i].Fields)
				w.close('}')
			}
			w.close('}')
		}
		if len(d.V2.Proposers) > 0 {
			w.key("proposers")
			w.open('[')
			for i := range d.V2.Proposers {
				p := &d.V2.Proposers[i]
				w.sep()
				w.open('{')
				w.kv("proposer", p.Proposer)
				w.fields(&p.Fields)
				if p.Reset {
					w.key("reset_relays")
					w.b.WriteString("true")
				}
				if len(p.Relays) > 0 {
					w.key("relays")
					w.open('{')
					for k := range p.Relays {
						w.key(p.Relays[k].Addr)
						w.open('{')
						if p.Relays[k].Disabled {
							w.key("disabled")
							w.b.WriteString("true")
						}
						w.fields(&p.Relays[k].Fields)
						w.close('}')
					}
					w.close('}')
				}
				w.close('}')
			}
			w.close(']')
		}
	case d.V1 != nil:
		entry := func(e *V1Entry) {
			w.open('{')
			w.kv("fee_recipient", e.Fee)
			w.kv("gas_limit", e.Gas)
			if e.Builder != nil {
				w.key("builder")
				w.open('{')
				w.key("enabled")
				if e.Builder.Enabled {
					w.b.WriteString("true")
				} else {
					w.b.WriteString("false")
				}
				w.kv("grace", e.Builder.Grace)
				if len(e.Builder.Relays) > 0 {
					w.key("relays")
					w.open('[')
					for _, r := range e.Builder.Relays {
						w.sep()
						w.str(r)
					}
					w.close(']')
				}
				w.close('}')
			}
			w.close('}')
		}
		if len(d.V1.Proposers) > 0 {
			w.key("proposer_config")
			w.open('{')
			for i := range d.V1.Proposers {
				w.key(d.V1.Proposers[i].Key)
				entry(&d.V1.Proposers[i].V1Entry)
			}
			w.close('}')
		}
		w.key("default_config")
		entry(&d.V1.Default)
	}
	w.close('}')
	return w.b.Bytes()
}

// ---------------------------------------------------------------------------
// strict reading of documented forms

type jkv struct {
	k string
	v *jnode
}

type jnode struct {
	kind byte // o a s n b z(null)
	obj  []jkv
	arr  []*jnode
	s    string
	b    bool
}

var errDup = errors.New("duplicate key")

func parseNode(dec *json.Decoder) (*jnode, error) {
	tok, err := dec.Token()
	if err != nil {
		return nil, err
	}
	switch t := tok.(type) {
	case json.Delim:
		switch t {
		case '{':
			n := &jnode{kind: 'o'}
			seen := map[string]bool{}
			for dec.More() {
				kt, err := dec.Token()
				if err != nil {
					return nil, err
				}
				k, ok := kt.(string)
				if !ok {
					return nil, errors.New("bad key")
				}
				// the implementation's decoder folds case; treat any
				// case-insensitive repetition as a duplicate.
				if seen[strings.ToLower(k)] {
					return nil, errDup
				}
				seen[strings.ToLower(k)] = true
				v, err := parseNode(dec)
				if err != nil {
					return nil, err
				}
				n.obj = append(n.obj, jkv{k, v})
			}
			if _, err := dec.Token(); err != nil {
				return nil, err
			}
			return n, nil
		case '[':
			n := &jnode{kind: 'a'}
			for dec.More() {
				v, err := parseNode(dec)
				if err != nil {
					return nil, err
				}
				n.arr = append(n.arr, v)
			}
			if _, err := dec.Token(); err != nil {
				return nil, err
			}
			return n, nil
		}
		return nil, errors.New("unexpected delimiter")
	case string:
		return &jnode{kind: 's', s: t}, nil
	case json.Number:
		return &jnode{kind: 'n', s: t.String()}, nil
	case bool:
		return &jnode{kind: 'b', b: t}, nil
	case nil:
		return &jnode{kind: 'z'}, nil
	}
	return nil, errors.New("unexpected token")
}

func parseJSON(data []byte) (*jnode, error) {
	dec := json.NewDecoder(bytes.NewReader(data))
	dec.UseNumber()
	n, err := parseNode(dec)
	if err != nil {
		return nil, err
	}
	if _, err := dec.Token(); err != io.EOF {
		return nil, errors.New("trailing data")
	}
	return n, nil
}

var (
	reAddr20   = regexp.MustCompile(`^0x[0-9a-fA-F]{40}$`)
	reKey48    = regexp.MustCompile(`^0x[0-9a-fA-F]{96}$`)
	reUint     = regexp.MustCompile(`^(0|[1-9][0-9]{0,19})$`)
	reMinValue = regexp.MustCompile(`^(0|[1-9][0-9]{0,8})(\.[0-9]{1,18})?$`)
	reAcctBody = regexp.MustCompile(`^[A-Za-z0-9 /.*+\[\]()|_-]+$`)
	maxU64     = new(big.Int).SetUint64(^uint64(0))
	maxGraceMs = big.NewInt(1_000_000_000)
	zeroKey48  = "0x" + strings.Repeat("0", 96)
)

func okUint(s string, max *big.Int) bool {
	if !reUint.MatchString(s) {
		return false
	}
	v, _ := new(big.Int).SetString(s, 10)
	return v.Cmp(max) <= 0
}

func strictFields(o *jnode, f *Fields, allowPubKey bool, extra map[string]func(*jnode) error) error {
	if o.kind != 'o' {
		return errors.New("not an object")
	}
	for _, kv := range o.obj {
		if fn, ok := extra[kv.k]; ok {
			if err := fn(kv.v); err != nil {
				return err
			}
			continue
		}
		if kv.v.kind != 's' || kv.v.s == "" {
			return fmt.Errorf("field %s is not a non-empty string", kv.k)
		}
		switch kv.k {
		case "fee_recipient":
			if !reAddr20.MatchString(kv.v.s) {
				return errors.New("fee recipient form")
			}
			f.Fee = kv.v.s
		case "gas_limit":
			if !okUint(kv.v.s, maxU64) {
				return errors.New("gas limit form")
			}
			f.Gas = kv.v.s
		case "grace":
			if !okUint(kv.v.s, maxGraceMs) {
				return errors.New("grace form")
			}
			f.Grace = kv.v.s
		case "min_value":
			if !reMinValue.MatchString(kv.v.s) {
				return errors.New("min value form")
			}
			f.MinValue = kv.v.s
		case "public_key":
			if !allowPubKey || !reKey48.MatchString(kv.v.s) {
				return errors.New("public key form")
			}
			f.PubKey = kv.v.s
		default:
			return fmt.Errorf("unknown key %q", kv.k)
		}
	}
	return nil
}

// topLevelAlternation reports whether the regular expression body has a '|'
// outside every group and class.
func topLevelAlternation(body string) bool {
	depth, class := 0, false
	for _, r := range body {
		switch {
		case class:
			if r == ']' {
				class = false
			}
		case r == '[':
			class = true
		case r == '(':
			depth++
		case r == ')':
			depth--
		case r == '|' && depth == 0:
			return true
		}
	}
	return false
}

// stripAnchors removes one explicit start and one explicit end anchor.
func stripAnchors(re string) (body string, hadStart, hadEnd bool) {
	body = re
	if strings.HasPrefix(body, "^") {
		body, hadStart = body[1:], true
	}
	if strings.HasSuffix(body, "$") {
		body, hadEnd = body[:len(body)-1], true
	}
	return
}

// okAccountRegex says whether an account specifier is within the forms the
// check judges: plain characters, classes, groups, '.', '*', '+', '|', with
// optional explicit anchors; an explicitly anchored expression with a top-level
// alternation is left out because "^a|b$" is legitimately readable both ways.
func okAccountRegex(re string) bool {
	if strings.HasPrefix(re, "0x") {
		return false
	}
	body, hs, he := stripAnchors(re)
	if body == "" || !reAcctBody.MatchString(body) {
		return false
	}
	if (hs || he) && topLevelAlternation(body) {
		return false
	}
	_, err := regexp.Compile(`^(?:` + body + `)$`)
	return err == nil
}

// StrictDoc reads data as a document in exactly the documented forms; ok is
// false for anything else (unknown keys, nulls, duplicate keys, other number
// formats, ...), which the check then does not judge.
func StrictDoc(data []byte) (*Doc, error) {
	root, err := parseJSON(data)
	if err != nil {
		return nil, err
	}
	if root.kind != 'o' {
		return nil, errors.New("not an object")
	}
	version := ""
	for _, kv := range root.obj {
		if kv.k == "version" {
			if kv.v.kind != 'n' {
				return nil, errors.New("version form")
			}
			version = kv.v.s
		}
	}
	switch version {
	case "2":
		return strictV2(root)
	case "":
		return strictV1(root)
	}
	return nil, errors.New("version not judged")
}

func strictV2(root *jnode) (*Doc, error) {
	d := &V2{}
	seenAddr := map[string]bool{}
	extra := map[string]func(*jnode) error{
		"version": func(*jnode) error { return nil },
		"relays": func(n *jnode) error {
			if n.kind != 'o' {
				return errors.New("relays form")
			}
			for _, kv := range n.obj {
				if kv.k == "" || seenAddr[kv.k] {
					return errors.New("relay address")
				}
				seenAddr[kv.k] = true
				r := Relay{Addr: kv.k}
				if err := strictFields(kv.v, &r.Fields, true, nil); err != nil {
					return err
				}
				d.Relays = append(d.Relays, r)
			}
			return nil
		},
		"proposers": func(n *jnode) error {
			if n.kind != 'a' {
				return errors.New("proposers form")
			}
			for _, pn := range n.arr {
				p := Proposer{}
				seenP := map[string]bool{}
				pextra := map[string]func(*jnode) error{
					"proposer": func(n *jnode) error {
						if n.kind != 's' {
							return errors.New("proposer form")
						}
						if strings.HasPrefix(n.s, "0x") {
							if !reKey48.MatchString(n.s) || strings.EqualFold(n.s, zeroKey48) {
								return errors.New("proposer key form")
							}
						} else if !okAccountRegex(n.s) {
							return errors.New("proposer account form")
						}
						p.Proposer = n.s
						return nil
					},
					"reset_relays": func(n *jnode) error {
						if n.kind != 'b' {
							return errors.New("reset form")
						}
						p.Reset = n.b
						return nil
					},
					"relays": func(n *jnode) error {
						if n.kind != 'o' {
							return errors.New("relays form")
						}
						for _, kv := range n.obj {
							if kv.k == "" || seenP[kv.k] {
								return errors.New("relay address")
							}
							seenP[kv.k] = true
							r := PRelay{Addr: kv.k}
							rextra := map[string]func(*jnode) error{
								"disabled": func(n *jnode) error {
									if n.kind != 'b' {
										return errors.New("disabled form")
									}
									r.Disabled = n.b
									return nil
								},
							}
							if err := strictFields(kv.v, &r.Fields, true, rextra); err != nil {
								return err
							}
							p.Relays = append(p.Relays, r)
						}
						return nil
					},
				}
				if err := strictFields(pn, &p.Fields, false, pextra); err != nil {
					return err
				}
				if p.Proposer == "" {
					return errors.New("proposer missing")
				}
				d.Proposers = append(d.Proposers, p)
			}
			return nil
		},
	}
	if err := strictFields(root, &d.Fields, false, extra); err != nil {
		return nil, err
	}
	return &Doc{Version: 2, V2: d}, nil
}

func strictV1Entry(n *jnode, e *V1Entry) error {
	if n.kind != 'o' {
		return errors.New("entry form")
	}
	for _, kv := range n.obj {
		switch kv.k {
		case "fee_recipient":
			if kv.v.kind != 's' || !reAddr20.MatchString(kv.v.s) {
				return errors.New("fee recipient form")
			}
			e.Fee = kv.v.s
		case "gas_limit":
			// "0" is indistinguishable from "absent" in the legacy form; not judged.
			if kv.v.kind != 's' || !okUint(kv.v.s, maxU64) || kv.v.s == "0" {
				return errors.New("gas limit form")
			}
			e.Gas = kv.v.s
		case "builder":
			if kv.v.kind != 'o' {
				return errors.New("builder form")
			}
			b := &V1Builder{}
			seen := map[string]bool{}
			for _, bk := range kv.v.obj {
				switch bk.k {
				case "enabled":
					if bk.v.kind != 'b' {
						return errors.New("enabled form")
					}
					b.Enabled = bk.v.b
				case "grace":
					if bk.v.kind != 's' || !okUint(bk.v.s, maxGraceMs) {
						return errors.New("grace form")
					}
					b.Grace = bk.v.s
				case "relays":
					if bk.v.kind != 'a' {
						return errors.New("relays form")
					}
					for _, r := range bk.v.arr {
						if r.kind != 's' || r.s == "" || seen[r.s] {
							return errors.New("relay form")
						}
						seen[r.s] = true
						b.Relays = append(b.Relays, r.s)
					}
				default:
					return errors.New("unknown builder key")
				}
			}
			if b.Enabled && len(b.Relays) == 0 {
				return errors.New("enabled builder without relays")
			}
			e.Builder = b
		default:
			return errors.New("unknown entry key")
		}
	}
	if e.Fee == "" {
		return errors.New("fee recipient missing")
	}
	return nil
}

func strictV1(root *jnode) (*Doc, error) {
	d := &V1{}
	haveDefault := false
	for _, kv := range root.obj {
		switch kv.k {
		case "proposer_config":
			if kv.v.kind != 'o' {
				return nil, errors.New("proposer_config form")
			}
			seen := map[string]bool{}
			for _, pk := range kv.v.obj {
				if !reKey48.MatchString(pk.k) || seen[strings.ToLower(pk.k)] {
					return nil, errors.New("proposer key form")
				}
				seen[strings.ToLower(pk.k)] = true
				p := V1Prop{Key: pk.k}
				if err := strictV1Entry(pk.v, &p.V1Entry); err != nil {
					return nil, err
				}
				d.Proposers = append(d.Proposers, p)
			}
		case "default_config":
			if err := strictV1Entry(kv.v, &d.Default); err != nil {
				return nil, err
			}
			haveDefault = true
		default:
			return nil, errors.New("unknown key")
		}
	}
	if !haveDefault {
		return nil, errors.New("default_config missing")
	}
	return &Doc{Version: 0, V1: d}, nil
}
