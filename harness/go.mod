module verifharness

go 1.23

toolchain go1.23.5

require (
	github.com/anishathalye/porcupine v1.3.0
	github.com/attestantio/go-eth2-client v0.21.11
	github.com/attestantio/vouch v0.0.0
	pgregory.net/rapid v1.3.0
)

require (
	github.com/emicklei/dot v1.6.2 // indirect
	github.com/fatih/color v1.18.0 // indirect
	github.com/ferranbt/fastssz v0.1.4 // indirect
	github.com/goccy/go-yaml v1.13.6 // indirect
	github.com/klauspost/cpuid/v2 v2.2.9 // indirect
	github.com/mattn/go-colorable v0.1.13 // indirect
	github.com/mattn/go-isatty v0.0.20 // indirect
	github.com/minio/sha256-simd v1.0.1 // indirect
	github.com/mitchellh/mapstructure v1.5.0 // indirect
	github.com/pkg/errors v0.9.1 // indirect
	github.com/prysmaticlabs/go-bitfield v0.0.0-20240618144021-706c95b2dd15 // indirect
	golang.org/x/sys v0.27.0 // indirect
	gopkg.in/yaml.v2 v2.4.0 // indirect
)

replace github.com/attestantio/vouch => /repo
