module verifharness

go 1.22.7

require (
	github.com/anishathalye/porcupine v1.3.0
	github.com/attestantio/vouch v0.0.0
	pgregory.net/rapid v1.3.0
)

replace github.com/attestantio/vouch => /repo
