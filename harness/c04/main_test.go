package c04

import (
	"testing"

	"verifharness/internal/ev"
)

func TestMain(m *testing.M) { ev.Main(m, "C04") }
