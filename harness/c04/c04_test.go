// Package c04 decides property C04: every attestation submitted for a validator
// carries that validator's own committee index, position bit and committee
// size, the attestation data obtained for the slot, and a signature by that
// validator's account over the same values; skipped / unsigned validators yield
// no attestation.  Subject: the real services/attester/standard.Service.Attest.
package c04

import (
	"bytes"
	"context"
	"crypto/sha256"
	"encoding/binary"
	"fmt"
	"io"
	"sort"
	"sync"
	"testing"
	"time"

	"github.com/attestantio/go-eth2-client/api"
	apiv1 "github.com/attestantio/go-eth2-client/api/v1"
	"github.com/attestantio/go-eth2-client/spec/phase0"
	"github.com/attestantio/vouch/services/attester"
	standardattester "github.com/attestantio/vouch/services/attester/standard"
	nullmetrics "github.com/attestantio/vouch/services/metrics/null"
	"github.com/google/uuid"
	"github.com/rs/zerolog"
	zerologger "github.com/rs/zerolog/log"
	e2types "github.com/wealdtech/go-eth2-types/v2"
	e2wtypes "github.com/wealdtech/go-eth2-wallet-types/v2"
	"pgregory.net/rapid"

	"verifharness/internal/ev"
	"verifharness/internal/fakes"
)

// ---------------------------------------------------------------------------
// Case

// Committee is one committee of a slot.
type Committee struct {
	Index uint64 `json:"index"`
	Size  uint64 `json:"size"`
}

// Val is one validator of the main duty.
type Val struct {
	V   uint64 `json:"v"`   // validator index
	C   int    `json:"c"`   // index into Case.Committees
	Pos uint64 `json:"pos"` // position inside the committee
	// Skip: "" (attests) | "attested" (already attested this epoch through the
	// preceding Attest call) | "noaccount" (account manager does not know it) |
	// "zerosig" (signer returns the zero signature for it).
	Skip string `json:"skip,omitempty"`
	// Assignment of the validator in the preceding duty (Skip == "attested").
	PriorC   int    `json:"prior_c,omitempty"`
	PriorPos uint64 `json:"prior_pos,omitempty"`
}

// Case is one scenario: an optional preceding Attest (that makes the
// "attested" validators attested for the epoch) followed by the judged Attest.
type Case struct {
	SlotsPerEpoch   uint64      `json:"slots_per_epoch"`
	Slot            uint64      `json:"slot"`
	PriorSlot       uint64      `json:"prior_slot"` // same epoch as Slot
	Committees      []Committee `json:"committees"`
	PriorCommittees []Committee `json:"prior_committees"`
	Vals            []Val       `json:"vals"` // in duty order when Merge is false
	// Merge: the duty is produced from per-validator beacon-node duties by the
	// real attester.MergeDuties (as the controller does); otherwise it is built
	// with attester.NewDuty in the order of Vals.
	Merge bool `json:"merge"`
	// Extra: further slots of the same epoch with duties of other validators.  With
	// Merge the beacon-node duties of all slots go through ONE MergeDuties call (the
	// controller merges a whole epoch at once) and Attest is run for every resulting
	// per-slot duty in slot order.
	Extra []ExtraSlot `json:"extra,omitempty"`
	// OtherAccounts: validators the account manager also holds active accounts for
	// although they have no duty in any slot of this case.
	OtherAccounts []uint64 `json:"other_accounts,omitempty"`
	// AccountsFault, in force during the Attest of the judged slot: "" | "by-index"
	// (ValidatingAccountsForEpochByIndex fails) | "for-epoch"
	// (ValidatingAccountsForEpoch fails) | "both".
	AccountsFault string `json:"accounts_fault,omitempty"`
	// SignFault, in force during the Attest of the judged slot: "" | "batch-error" (a
	// signing request for two or more accounts fails as a whole, single-account requests
	// succeed) | "single-error" (only single-account requests fail) | "all-error".
	// Zero signatures are scripted per validator (Skip "zerosig").
	SignFault string `json:"sign_fault,omitempty"`
	// LogLevel of the attester service: "" (disabled) | "info" | "debug" | "trace".
	LogLevel   string `json:"log_level,omitempty"`
	SourceBack uint64 `json:"source_back"` // source epoch = target epoch - min(SourceBack, target)
	RootSeed   uint64 `json:"root_seed"`
}

// ExtraSlot is another slot of the epoch with its own committees and validators
// (Skip of its validators is "", "noaccount" or "zerosig").
type ExtraSlot struct {
	Slot       uint64      `json:"slot"`
	Committees []Committee `json:"committees"`
	Vals       []Val       `json:"vals"`
}

type tuple struct {
	v, committee, pos, size uint64
}

// ---------------------------------------------------------------------------
// Doubles

type pubKey struct{ b [48]byte }

func (p *pubKey) Marshal() []byte               { return p.b[:] }
func (p *pubKey) Aggregate(_ e2types.PublicKey) {}
func (p *pubKey) Copy() e2types.PublicKey       { c := *p; return &c }

type account struct {
	v  uint64
	id uuid.UUID
	pk *pubKey
}

func newAccount(v uint64) *account {
	a := &account{v: v, pk: &pubKey{}}
	a.pk.b[0] = 0xac
	binary.LittleEndian.PutUint64(a.pk.b[1:9], v)
	copy(a.id[:], a.pk.b[:16])
	return a
}

func (a *account) ID() uuid.UUID                { return a.id }
func (a *account) Name() string                 { return fmt.Sprintf("validator-%d", a.v) }
func (a *account) PublicKey() e2types.PublicKey { return a.pk }

func accountValidator(a e2wtypes.Account) (uint64, bool) {
	if a == nil {
		return 0, false
	}
	b := a.PublicKey().Marshal()
	if len(b) != 48 || b[0] != 0xac {
		return 0, false
	}
	return binary.LittleEndian.Uint64(b[1:9]), true
}

// accountsProvider is the account manager: have is the universe of validators
// with an active account (the duty's validators that are not scripted as
// "noaccount" plus OtherAccounts); the two lookups fail independently.
type accountsProvider struct {
	have                      map[uint64]bool
	failByIndex, failForEpoch bool
}

func (p *accountsProvider) ValidatingAccountsForEpoch(_ context.Context, _ phase0.Epoch) (map[phase0.ValidatorIndex]e2wtypes.Account, error) {
	if p.failForEpoch {
		return nil, fmt.Errorf("scripted failure of ValidatingAccountsForEpoch")
	}
	res := map[phase0.ValidatorIndex]e2wtypes.Account{}
	for v := range p.have {
		res[phase0.ValidatorIndex(v)] = newAccount(v)
	}
	return res, nil
}

func (p *accountsProvider) ValidatingAccountsForEpochByIndex(_ context.Context, _ phase0.Epoch, indices []phase0.ValidatorIndex) (map[phase0.ValidatorIndex]e2wtypes.Account, error) {
	if p.failByIndex {
		return nil, fmt.Errorf("scripted failure of ValidatingAccountsForEpochByIndex")
	}
	res := map[phase0.ValidatorIndex]e2wtypes.Account{}
	for _, i := range indices {
		if p.have[uint64(i)] {
			res[i] = newAccount(uint64(i))
		}
	}
	return res, nil
}

func (p *accountsProvider) SyncCommitteeAccountsForEpoch(context.Context, phase0.Epoch) (map[phase0.ValidatorIndex]e2wtypes.Account, error) {
	return map[phase0.ValidatorIndex]e2wtypes.Account{}, nil
}

func (p *accountsProvider) SyncCommitteeAccountsForEpochByIndex(context.Context, phase0.Epoch, []phase0.ValidatorIndex) (map[phase0.ValidatorIndex]e2wtypes.Account, error) {
	return map[phase0.ValidatorIndex]e2wtypes.Account{}, nil
}

// digest is what a signature of the recording signer commits to.
func digest(slot uint64, committee uint64, root phase0.Root, srcEpoch uint64, srcRoot phase0.Root, tgtEpoch uint64, tgtRoot phase0.Root) [32]byte {
	var buf bytes.Buffer
	var u [8]byte
	for _, x := range []uint64{slot, committee, srcEpoch, tgtEpoch} {
		binary.LittleEndian.PutUint64(u[:], x)
		buf.Write(u[:])
	}
	buf.Write(root[:])
	buf.Write(srcRoot[:])
	buf.Write(tgtRoot[:])
	return sha256.Sum256(buf.Bytes())
}

const sigMarker = 0xa7

// maxValidatorsPerCommittee is the consensus constant MAX_VALIDATORS_PER_COMMITTEE.
const maxValidatorsPerCommittee = 2048

func makeSig(v uint64, seq int, d [32]byte) phase0.BLSSignature {
	var s phase0.BLSSignature
	s[0] = sigMarker
	binary.LittleEndian.PutUint64(s[1:9], v)
	binary.LittleEndian.PutUint32(s[9:13], uint32(seq))
	copy(s[16:48], d[:])
	return s
}

func decodeSig(s phase0.BLSSignature) (v uint64, seq int, d [32]byte, ok bool) {
	if s[0] != sigMarker {
		return 0, 0, d, false
	}
	copy(d[:], s[16:48])
	return binary.LittleEndian.Uint64(s[1:9]), int(binary.LittleEndian.Uint32(s[9:13])), d, true
}

type signReq struct {
	accounts   []uint64
	known      []bool
	committees []uint64
	slot       uint64
	root       phase0.Root
	srcEpoch   uint64
	srcRoot    phase0.Root
	tgtEpoch   uint64
	tgtRoot    phase0.Root
	method     string // SignBeaconAttestations | SignBeaconAttestation
	failed     bool
}

// signer implements both attestation-signing interfaces of services/signer
// (BeaconAttestationsSigner and BeaconAttestationSigner); every request of either
// kind is logged, also when it is scripted to fail.
type signer struct {
	mu                    sync.Mutex
	zero                  map[uint64]bool
	reqs                  []signReq
	failBatch, failSingle bool
}

// SignBeaconAttestation is the single-account method.
func (s *signer) SignBeaconAttestation(ctx context.Context,
	account e2wtypes.Account,
	slot phase0.Slot,
	committeeIndex phase0.CommitteeIndex,
	blockRoot phase0.Root,
	sourceEpoch phase0.Epoch,
	sourceRoot phase0.Root,
	targetEpoch phase0.Epoch,
	targetRoot phase0.Root,
) (phase0.BLSSignature, error) {
	sigs, err := s.sign("SignBeaconAttestation", []e2wtypes.Account{account}, slot, []phase0.CommitteeIndex{committeeIndex},
		blockRoot, sourceEpoch, sourceRoot, targetEpoch, targetRoot)
	if err != nil {
		return phase0.BLSSignature{}, err
	}
	return sigs[0], nil
}

func (s *signer) SignBeaconAttestations(_ context.Context,
	accounts []e2wtypes.Account,
	slot phase0.Slot,
	committeeIndices []phase0.CommitteeIndex,
	blockRoot phase0.Root,
	sourceEpoch phase0.Epoch,
	sourceRoot phase0.Root,
	targetEpoch phase0.Epoch,
	targetRoot phase0.Root,
) ([]phase0.BLSSignature, error) {
	return s.sign("SignBeaconAttestations", accounts, slot, committeeIndices, blockRoot, sourceEpoch, sourceRoot, targetEpoch, targetRoot)
}

func (s *signer) sign(method string,
	accounts []e2wtypes.Account,
	slot phase0.Slot,
	committeeIndices []phase0.CommitteeIndex,
	blockRoot phase0.Root,
	sourceEpoch phase0.Epoch,
	sourceRoot phase0.Root,
	targetEpoch phase0.Epoch,
	targetRoot phase0.Root,
) ([]phase0.BLSSignature, error) {
	s.mu.Lock()
	defer s.mu.Unlock()
	if len(committeeIndices) != len(accounts) {
		return nil, fmt.Errorf("signer double: %d accounts but %d committee indices", len(accounts), len(committeeIndices))
	}
	seq := len(s.reqs)
	req := signReq{slot: uint64(slot), root: blockRoot, srcEpoch: uint64(sourceEpoch), srcRoot: sourceRoot,
		tgtEpoch: uint64(targetEpoch), tgtRoot: targetRoot, method: method}
	sigs := make([]phase0.BLSSignature, len(accounts))
	for i, a := range accounts {
		v, ok := accountValidator(a)
		req.accounts = append(req.accounts, v)
		req.known = append(req.known, ok)
		req.committees = append(req.committees, uint64(committeeIndices[i]))
		if !ok || s.zero[v] {
			continue
		}
		sigs[i] = makeSig(v, seq, digest(uint64(slot), uint64(committeeIndices[i]), blockRoot, uint64(sourceEpoch), sourceRoot, uint64(targetEpoch), targetRoot))
	}
	if (len(accounts) >= 2 && s.failBatch) || (len(accounts) == 1 && s.failSingle) {
		req.failed = true
		s.reqs = append(s.reqs, req)
		return nil, fmt.Errorf("scripted signing failure")
	}
	s.reqs = append(s.reqs, req)
	return sigs, nil
}

type submitter struct {
	mu    sync.Mutex
	calls [][]*phase0.Attestation
}

func (s *submitter) SubmitAttestations(_ context.Context, atts []*phase0.Attestation) error {
	s.mu.Lock()
	defer s.mu.Unlock()
	cp := make([]*phase0.Attestation, len(atts))
	for i, a := range atts {
		if a == nil {
			continue
		}
		c := *a
		c.AggregationBits = append([]byte(nil), a.AggregationBits...)
		if a.Data != nil {
			d := *a.Data
			if a.Data.Source != nil {
				x := *a.Data.Source
				d.Source = &x
			}
			if a.Data.Target != nil {
				x := *a.Data.Target
				d.Target = &x
			}
			c.Data = &d
		}
		cp[i] = &c
	}
	s.calls = append(s.calls, cp)
	return nil
}

type dataProvider struct {
	mu      sync.Mutex
	bySlot  map[uint64]*phase0.AttestationData
	fetched int
}

func (p *dataProvider) AttestationData(_ context.Context, opts *api.AttestationDataOpts) (*api.Response[*phase0.AttestationData], error) {
	p.mu.Lock()
	defer p.mu.Unlock()
	p.fetched++
	d, ok := p.bySlot[uint64(opts.Slot)]
	if !ok {
		return nil, fmt.Errorf("data provider double: no data scripted for slot %d", opts.Slot)
	}
	c := *d
	c.Index = opts.CommitteeIndex // what a beacon node returns for the committee asked for
	src, tgt := *d.Source, *d.Target
	c.Source, c.Target = &src, &tgt
	return &api.Response[*phase0.AttestationData]{Data: &c, Metadata: map[string]any{}}, nil
}

type specProvider struct{ spe uint64 }

func (s specProvider) Spec(context.Context, *api.SpecOpts) (*api.Response[map[string]any], error) {
	return &api.Response[map[string]any]{Data: map[string]any{"SLOTS_PER_EPOCH": s.spe}, Metadata: map[string]any{}}, nil
}

// ---------------------------------------------------------------------------
// Logging: vouch's services take their logger from the zerolog global logger;
// it writes to io.Discard in this process, and the level is drawn per case so
// that code inside "if e := log.Trace(); e.Enabled()" guards really executes.

func init() { zerologger.Logger = zerolog.New(io.Discard) }

func levelOf(s string) zerolog.Level {
	switch s {
	case "trace":
		return zerolog.TraceLevel
	case "debug":
		return zerolog.DebugLevel
	case "info":
		return zerolog.InfoLevel
	}
	return zerolog.Disabled
}

// useLogLevel sets zerolog's global level for the case (cases of one process run
// one after the other) and returns the level for WithLogLevel and a restore func.
func useLogLevel(s string) (zerolog.Level, func()) {
	lvl := levelOf(s)
	zerolog.SetGlobalLevel(lvl)
	return lvl, func() { zerolog.SetGlobalLevel(zerolog.Disabled) }
}

func genLogLevel(t *rapid.T) string {
	return rapid.SampledFrom([]string{"", "", "info", "debug", "trace", "trace"}).Draw(t, "logLevel")
}

// ---------------------------------------------------------------------------
// Generator

func seedRoot(seed uint64, tag byte) phase0.Root {
	var r phase0.Root
	binary.LittleEndian.PutUint64(r[:8], seed)
	r[8] = tag
	h := sha256.Sum256(r[:9])
	copy(r[:], h[:])
	return r
}

func genCommittees(t *rapid.T, label string, n int) []Committee {
	used := map[uint64]bool{}
	var cs []Committee
	for len(cs) < n {
		idx := rapid.Uint64Range(0, 63).Draw(t, label+"Index")
		for used[idx] {
			idx = (idx + 1) % 64
		}
		used[idx] = true
		size := rapid.OneOf(
			rapid.Uint64Range(1, 8),
			rapid.Uint64Range(1, 8),
			rapid.Uint64Range(9, 200),
			rapid.Uint64Range(201, 2048),
			// around and beyond MAX_VALIDATORS_PER_COMMITTEE: a node can deliver any length
			rapid.SampledFrom([]uint64{2047, 2048, 2049, 2050, 4096, 100000}),
		).Draw(t, label+"Size")
		cs = append(cs, Committee{Index: idx, Size: size})
	}
	return cs
}

// place puts a validator into a committee with a free position; it returns
// false if every committee is full.
func place(t *rapid.T, label string, cs []Committee, used []map[uint64]bool) (int, uint64, bool) {
	c := rapid.IntRange(0, len(cs)-1).Draw(t, label+"C")
	for k := 0; k < len(cs); k++ {
		ci := (c + k) % len(cs)
		if uint64(len(used[ci])) >= cs[ci].Size {
			continue
		}
		pos := rapid.Uint64Range(0, cs[ci].Size-1).Draw(t, label+"Pos")
		for used[ci][pos] {
			pos = (pos + 1) % cs[ci].Size
		}
		used[ci][pos] = true
		return ci, pos, true
	}
	return 0, 0, false
}

func genCase(t *rapid.T) Case {
	c := Case{
		SlotsPerEpoch: rapid.SampledFrom([]uint64{2, 4, 8, 32}).Draw(t, "spe"),
		Merge:         rapid.IntRange(0, 2).Draw(t, "merge") != 0,
		SourceBack:    rapid.Uint64Range(0, 3).Draw(t, "sourceBack"),
		RootSeed:      rapid.Uint64Range(0, 1<<20).Draw(t, "rootSeed"),
	}
	epoch := rapid.Uint64Range(0, 50).Draw(t, "epoch")
	inEpoch := rapid.Uint64Range(0, c.SlotsPerEpoch-1).Draw(t, "slotInEpoch")
	c.Slot = epoch*c.SlotsPerEpoch + inEpoch
	// the preceding attestation round is for the same or an earlier slot of the epoch
	// (redelivery of the slot's duty with another composition, or re-assignment after a reorg)
	c.PriorSlot = epoch*c.SlotsPerEpoch + rapid.Uint64Range(0, inEpoch).Draw(t, "priorSlotInEpoch")
	c.Committees = genCommittees(t, "committee", rapid.IntRange(1, 4).Draw(t, "nCommittees"))
	c.PriorCommittees = genCommittees(t, "priorCommittee", rapid.IntRange(1, 3).Draw(t, "nPriorCommittees"))
	n := rapid.IntRange(1, 16).Draw(t, "nVals")
	used := make([]map[uint64]bool, len(c.Committees))
	for i := range used {
		used[i] = map[uint64]bool{}
	}
	priorUsed := make([]map[uint64]bool, len(c.PriorCommittees))
	for i := range priorUsed {
		priorUsed[i] = map[uint64]bool{}
	}
	usedV := map[uint64]bool{}
	for i := 0; i < n; i++ {
		v := rapid.Uint64Range(0, 99).Draw(t, "v")
		for usedV[v] {
			v = (v + 1) % 100
		}
		usedV[v] = true
		ci, pos, ok := place(t, "", c.Committees, used)
		if !ok {
			break
		}
		val := Val{V: v, C: ci, Pos: pos}
		val.Skip = rapid.SampledFrom([]string{"", "", "", "", "attested", "attested", "noaccount", "zerosig"}).Draw(t, "skip")
		if val.Skip == "attested" {
			pc, pp, ok := place(t, "prior", c.PriorCommittees, priorUsed)
			if !ok {
				val.Skip = ""
			} else {
				val.PriorC, val.PriorPos = pc, pp
			}
		}
		c.Vals = append(c.Vals, val)
	}
	// Further slots of the epoch.  On a live chain the same committee index exists in
	// every slot and committee lengths differ from slot to slot, so indices of the
	// judged slot are re-used here with other lengths most of the time.
	nExtra := rapid.OneOf(rapid.Just(0), rapid.IntRange(0, 3)).Draw(t, "nExtraSlots")
	usedSlot := map[uint64]bool{c.Slot: true}
	known := append([]Committee(nil), c.Committees...)
	for e := 0; e < nExtra && uint64(len(usedSlot)) < c.SlotsPerEpoch; e++ {
		slot := epoch*c.SlotsPerEpoch + rapid.Uint64Range(0, c.SlotsPerEpoch-1).Draw(t, "extraSlotInEpoch")
		for usedSlot[slot] {
			slot = epoch*c.SlotsPerEpoch + (slot+1)%c.SlotsPerEpoch
		}
		usedSlot[slot] = true
		x := ExtraSlot{Slot: slot}
		usedIdx := map[uint64]bool{}
		for k, nC := 0, rapid.IntRange(1, 3).Draw(t, "nExtraCommittees"); k < nC; k++ {
			var cm Committee
			if rapid.IntRange(0, 2).Draw(t, "reuseIndex") != 0 {
				o := known[rapid.IntRange(0, len(known)-1).Draw(t, "reuseOf")]
				cm.Index = o.Index
				switch rapid.IntRange(0, 3).Draw(t, "otherLength") {
				case 0:
					cm.Size = o.Size + 1
				case 1:
					cm.Size = o.Size - 1
				case 2:
					cm.Size = o.Size
				default:
					cm.Size = rapid.Uint64Range(1, 2048).Draw(t, "extraSize")
				}
				if cm.Size < 1 {
					cm.Size = 2
				}
			} else {
				cm = genCommittees(t, "extraCommittee", 1)[0]
			}
			if usedIdx[cm.Index] {
				continue
			}
			usedIdx[cm.Index] = true
			x.Committees = append(x.Committees, cm)
			known = append(known, cm)
		}
		xUsed := make([]map[uint64]bool, len(x.Committees))
		for i := range xUsed {
			xUsed[i] = map[uint64]bool{}
		}
		for k, nV := 0, rapid.IntRange(1, 5).Draw(t, "nExtraVals"); k < nV; k++ {
			v := rapid.Uint64Range(0, 99).Draw(t, "extraV")
			for usedV[v] {
				v = (v + 1) % 100
			}
			ci, pos, ok := place(t, "extra", x.Committees, xUsed)
			if !ok {
				break
			}
			usedV[v] = true
			x.Vals = append(x.Vals, Val{V: v, C: ci, Pos: pos,
				Skip: rapid.SampledFrom([]string{"", "", "", "", "noaccount", "zerosig"}).Draw(t, "extraSkip")})
		}
		if len(x.Vals) > 0 {
			c.Extra = append(c.Extra, x)
		}
	}
	// the account manager normally holds more accounts than one slot's duty
	for k, nO := 0, rapid.OneOf(rapid.Just(0), rapid.IntRange(1, 6), rapid.IntRange(1, 6)).Draw(t, "nOtherAccounts"); k < nO; k++ {
		v := rapid.Uint64Range(0, 99).Draw(t, "otherAccount")
		for usedV[v] {
			v = (v + 1) % 100
		}
		usedV[v] = true
		c.OtherAccounts = append(c.OtherAccounts, v)
	}
	c.LogLevel = genLogLevel(t)
	c.SignFault = rapid.SampledFrom([]string{"", "", "", "", "", "", "batch-error", "batch-error", "single-error", "all-error"}).Draw(t, "signFault")
	c.AccountsFault = rapid.SampledFrom([]string{"", "", "", "", "", "", "by-index", "by-index", "for-epoch", "both"}).Draw(t, "accountsFault")
	return c
}

// ---------------------------------------------------------------------------
// Run + judge

func buildDuty(ctx context.Context, slot uint64, tuples []tuple, merge bool) (*attester.Duty, error) {
	if merge {
		var ds []*apiv1.AttesterDuty
		for _, tp := range tuples {
			ds = append(ds, &apiv1.AttesterDuty{
				Slot:                    phase0.Slot(slot),
				ValidatorIndex:          phase0.ValidatorIndex(tp.v),
				CommitteeIndex:          phase0.CommitteeIndex(tp.committee),
				CommitteeLength:         tp.size,
				CommitteesAtSlot:        64,
				ValidatorCommitteeIndex: tp.pos,
			})
		}
		duties, err := attester.MergeDuties(ctx, ds)
		if err != nil {
			return nil, err
		}
		if len(duties) != 1 {
			return nil, fmt.Errorf("MergeDuties returned %d duties for one slot", len(duties))
		}
		return duties[0], nil
	}
	var vs []phase0.ValidatorIndex
	var cis []phase0.CommitteeIndex
	var poss []uint64
	sizes := map[phase0.CommitteeIndex]uint64{}
	for _, tp := range tuples {
		vs = append(vs, phase0.ValidatorIndex(tp.v))
		cis = append(cis, phase0.CommitteeIndex(tp.committee))
		poss = append(poss, tp.pos)
		sizes[phase0.CommitteeIndex(tp.committee)] = tp.size
	}
	return attester.NewDuty(ctx, phase0.Slot(slot), 64, vs, cis, poss, sizes)
}

// buildDuties builds the per-slot duties of several slots: with merge through one
// call of the real MergeDuties for all of them, otherwise with NewDuty per slot.
func buildDuties(ctx context.Context, bySlot map[uint64][]tuple, order []uint64, merge bool) (map[uint64]*attester.Duty, error) {
	res := map[uint64]*attester.Duty{}
	if !merge {
		for _, slot := range order {
			d, err := buildDuty(ctx, slot, bySlot[slot], false)
			if err != nil {
				return nil, err
			}
			res[slot] = d
		}
		return res, nil
	}
	var ds []*apiv1.AttesterDuty
	for _, slot := range order {
		for _, tp := range bySlot[slot] {
			ds = append(ds, &apiv1.AttesterDuty{
				Slot:                    phase0.Slot(slot),
				ValidatorIndex:          phase0.ValidatorIndex(tp.v),
				CommitteeIndex:          phase0.CommitteeIndex(tp.committee),
				CommitteeLength:         tp.size,
				CommitteesAtSlot:        64,
				ValidatorCommitteeIndex: tp.pos,
			})
		}
	}
	duties, err := attester.MergeDuties(ctx, ds)
	if err != nil {
		return nil, err
	}
	for _, d := range duties {
		if _, dup := res[uint64(d.Slot())]; dup {
			return nil, fmt.Errorf("MergeDuties returned two duties for slot %d", d.Slot())
		}
		res[uint64(d.Slot())] = d
	}
	for _, slot := range order {
		if res[slot] == nil {
			return nil, fmt.Errorf("MergeDuties returned no duty for slot %d", slot)
		}
	}
	return res, nil
}

func setBits(bits []byte, n uint64) []uint64 {
	var res []uint64
	for i := uint64(0); i < n; i++ {
		if bits[i/8]&(1<<(i%8)) != 0 {
			res = append(res, i)
		}
	}
	return res
}

// bitlistLen returns the length of an SSZ bitlist (position of the delimiter
// bit), or -1 if there is none.
func bitlistLen(b []byte) int64 {
	for i := len(b) - 1; i >= 0; i-- {
		if b[i] == 0 {
			continue
		}
		msb := 7
		for b[i]&(1<<uint(msb)) == 0 {
			msb--
		}
		return int64(i*8 + msb)
	}
	return -1
}

type callJudgement struct {
	sig, detail string
}

// judgeCall compares what was submitted during one Attest call with the duty.
// expect: validator -> must have exactly one attestation; validators of the
// duty not in expect must have none.  afterAttestedSkip: validators that are
// preceded in duty order by a validator skipped as already attested.
// during: the signing requests made during the call; askable: the validators
// whose account may be put before the signer (in the duty, not already attested,
// account known); optional: the accounts lookup was made to fail, so nobody has
// to attest - but whoever does is judged all the same.
func judgeCall(what string, slot uint64, tuples []tuple, expect map[uint64]bool, afterAttestedSkip map[uint64]bool,
	data *phase0.AttestationData, submitted []*phase0.Attestation, reqs []signReq,
	during []signReq, askable map[uint64]bool, optional bool,
) []callJudgement {
	var res []callJudgement
	byV := map[uint64]tuple{}
	for _, tp := range tuples {
		byV[tp.v] = tp
	}
	for _, q := range during {
		for k, v := range q.accounts {
			switch {
			case !q.known[k]:
				res = append(res, callJudgement{"signature-requested-for-unknown-account", fmt.Sprintf("%s: the signer was handed an account the account manager never issued", what)})
			case byV[v] == (tuple{}) && !inTuples(tuples, v):
				res = append(res, callJudgement{"signature-requested-for-foreign-validator", fmt.Sprintf("%s: the signer was asked to sign (committee %d) with the account of validator %d, which has no duty in slot %d", what, q.committees[k], v, slot)})
			case !askable[v]:
				res = append(res, callJudgement{"signature-requested-for-skipped-validator", fmt.Sprintf("%s: the signer was asked to sign with the account of validator %d, which already attested this epoch or has no account", what, v)})
			case q.committees[k] != byV[v].committee || q.slot != slot:
				asg := "wrong-assignment"
				if afterAttestedSkip[v] {
					asg = "wrong-assignment-after-attested-skip"
				}
				res = append(res, callJudgement{asg, fmt.Sprintf("%s: %s asked the account of validator %d to sign slot %d committee %d; the duty assigns it slot %d committee %d", what, q.method, v, q.slot, q.committees[k], slot, byV[v].committee)})
			case q.root != data.BeaconBlockRoot || q.srcEpoch != uint64(data.Source.Epoch) || q.srcRoot != data.Source.Root || q.tgtEpoch != uint64(data.Target.Epoch) || q.tgtRoot != data.Target.Root:
				res = append(res, callJudgement{"data-mismatch", fmt.Sprintf("%s: %s asked the account of validator %d to sign a block root/source/target other than the attestation data obtained for the slot", what, q.method, v)})
			}
		}
	}
	seen := map[uint64]bool{}
	for i, a := range submitted {
		where := fmt.Sprintf("%s: submitted attestation %d", what, i)
		if a == nil || a.Data == nil || a.Data.Source == nil || a.Data.Target == nil {
			res = append(res, callJudgement{"malformed-attestation", where + " is nil or lacks data/source/target"})
			continue
		}
		v, seq, dg, ok := decodeSig(a.Signature)
		if !ok {
			res = append(res, callJudgement{"attestation-without-signature", fmt.Sprintf("%s carries signature %#x that the signer never produced", where, a.Signature[:16])})
			continue
		}
		where = fmt.Sprintf("%s (signed by the account of validator %d)", where, v)
		tp, inDuty := byV[v]
		if !inDuty {
			res = append(res, callJudgement{"attestation-for-foreign-validator", where + ": validator is not in the duty"})
			continue
		}
		if !expect[v] {
			res = append(res, callJudgement{"attestation-for-skipped-validator", where + ": validator was skipped (already attested / no account / no signature) and must not attest"})
			continue
		}
		if seen[v] {
			res = append(res, callJudgement{"duplicate-attestation", where + ": second attestation for the same validator in one submission"})
			continue
		}
		seen[v] = true
		if uint64(a.Data.Slot) != slot {
			res = append(res, callJudgement{"wrong-slot", fmt.Sprintf("%s: slot %d, duty slot %d", where, a.Data.Slot, slot)})
			continue
		}
		if a.Data.BeaconBlockRoot != data.BeaconBlockRoot || a.Data.Source.Epoch != data.Source.Epoch || a.Data.Source.Root != data.Source.Root ||
			a.Data.Target.Epoch != data.Target.Epoch || a.Data.Target.Root != data.Target.Root {
			res = append(res, callJudgement{"data-mismatch", fmt.Sprintf("%s: block root/source/target differ from the attestation data obtained for the slot", where)})
			continue
		}
		asg := "wrong-assignment"
		if afterAttestedSkip[v] {
			asg = "wrong-assignment-after-attested-skip"
		}
		blen := bitlistLen(a.AggregationBits)
		var bits []uint64
		if blen >= 0 {
			bits = setBits(a.AggregationBits, uint64(blen))
		}
		if uint64(a.Data.Index) != tp.committee || blen != int64(tp.size) || len(bits) != 1 || bits[0] != tp.pos {
			res = append(res, callJudgement{asg, fmt.Sprintf("%s: carries committee %d, committee size %d, position bits %v; the duty assigns validator %d committee %d, size %d, position %d",
				where, a.Data.Index, blen, bits, v, tp.committee, tp.size, tp.pos)})
			continue
		}
		if seq < len(reqs) && reqs[seq].failed {
			res = append(res, callJudgement{"attestation-without-signature", where + ": carries a signature from a signing request that failed"})
			continue
		}
		want := digest(slot, tp.committee, data.BeaconBlockRoot, uint64(data.Source.Epoch), data.Source.Root, uint64(data.Target.Epoch), data.Target.Root)
		if dg != want {
			signedCommittee := "?"
			if seq < len(reqs) {
				for k, av := range reqs[seq].accounts {
					if av == v && reqs[seq].known[k] {
						signedCommittee = fmt.Sprint(reqs[seq].committees[k])
					}
				}
			}
			res = append(res, callJudgement{asg, fmt.Sprintf("%s: the account was asked to sign other values than the attestation carries (signed committee %s, attestation committee %d)", where, signedCommittee, tp.committee)})
			continue
		}
	}
	var missing []uint64
	for v := range expect {
		// a committee longer than MAX_VALIDATORS_PER_COMMITTEE cannot exist on chain: its
		// validators need not attest (vouch creates no attestation for them), but whatever
		// is signed or submitted for them is still judged against their own assignment
		if !seen[v] && byV[v].size <= maxValidatorsPerCommittee {
			missing = append(missing, v)
		}
	}
	if len(missing) > 0 && !optional {
		sort.Slice(missing, func(i, j int) bool { return missing[i] < missing[j] })
		res = append(res, callJudgement{"missing-attestation", fmt.Sprintf("%s: validators %v are not skipped and got a signature but have no attestation in the submission", what, missing)})
	}
	return res
}

func inTuples(tuples []tuple, v uint64) bool {
	for _, tp := range tuples {
		if tp.v == v {
			return true
		}
	}
	return false
}

type stats struct {
	differing, skipPrecedes                                     bool
	attestedPrecedes, noAccountPrecedes, zeroSigPrecedes, multi bool
	n                                                           int
	extraSlots                                                  int
	recurringIndexOtherLength                                   bool
	oversized                                                   bool
}

func runAndJudge(c *Case) (harness string, js []callJudgement, st stats) {
	lvl, restoreLog := useLogLevel(c.LogLevel)
	defer restoreLog()
	ctx, cancel := context.WithCancel(context.Background())
	defer cancel()

	if c.SlotsPerEpoch == 0 || len(c.Committees) == 0 || len(c.Vals) == 0 || c.Slot/c.SlotsPerEpoch != c.PriorSlot/c.SlotsPerEpoch || c.PriorSlot > c.Slot {
		return "malformed case", nil, st
	}
	epoch := c.Slot / c.SlotsPerEpoch
	mkData := func(slot uint64, tag byte) *phase0.AttestationData {
		back := c.SourceBack
		if back > epoch {
			back = epoch
		}
		return &phase0.AttestationData{
			Slot:            phase0.Slot(slot),
			BeaconBlockRoot: seedRoot(c.RootSeed, tag),
			Source:          &phase0.Checkpoint{Epoch: phase0.Epoch(epoch - back), Root: seedRoot(c.RootSeed, tag+1)},
			Target:          &phase0.Checkpoint{Epoch: phase0.Epoch(epoch), Root: seedRoot(c.RootSeed, tag+2)},
		}
	}
	mainData := mkData(c.Slot, 10)
	priorData := mkData(c.PriorSlot, 20)

	var mainTuples, priorTuples []tuple
	have := map[uint64]bool{}
	zero := map[uint64]bool{}
	for _, v := range c.Vals {
		if v.C < 0 || v.C >= len(c.Committees) {
			return "malformed case (committee reference)", nil, st
		}
		mainTuples = append(mainTuples, tuple{v.V, c.Committees[v.C].Index, v.Pos, c.Committees[v.C].Size})
		if v.Skip != "noaccount" {
			have[v.V] = true
		}
		if v.Skip == "attested" {
			if v.PriorC < 0 || v.PriorC >= len(c.PriorCommittees) {
				return "malformed case (prior committee reference)", nil, st
			}
			priorTuples = append(priorTuples, tuple{v.V, c.PriorCommittees[v.PriorC].Index, v.PriorPos, c.PriorCommittees[v.PriorC].Size})
		}
	}

	clock := fakes.NewVClock(time.Unix(1600000000, 0), 12*time.Second, c.SlotsPerEpoch)
	clock.SetSlot(c.PriorSlot, 4*time.Second)
	sgn := &signer{zero: map[uint64]bool{}}
	for _, v := range c.OtherAccounts {
		have[v] = true
	}
	acc := &accountsProvider{have: have}
	sub := &submitter{}
	dp := &dataProvider{bySlot: map[uint64]*phase0.AttestationData{}}
	svc, err := standardattester.New(ctx,
		standardattester.WithLogLevel(lvl),
		standardattester.WithProcessConcurrency(2),
		standardattester.WithMonitor(nullmetrics.New()),
		standardattester.WithChainTime(clock),
		standardattester.WithSpecProvider(specProvider{c.SlotsPerEpoch}),
		standardattester.WithAttestationDataProvider(dp),
		standardattester.WithAttestationsSubmitter(sub),
		standardattester.WithValidatingAccountsProvider(acc),
		standardattester.WithBeaconAttestationsSigner(sgn),
	)
	if err != nil {
		return "cannot construct attester: " + err.Error(), nil, st
	}

	// Preceding call: makes the "attested" validators attested for this epoch.
	if len(priorTuples) > 0 {
		duty, err := buildDuty(ctx, c.PriorSlot, priorTuples, c.Merge)
		if err != nil {
			return "cannot build preceding duty: " + err.Error(), nil, st
		}
		dp.bySlot = map[uint64]*phase0.AttestationData{c.PriorSlot: priorData}
		reqFrom := len(sgn.reqs)
		_, _ = svc.Attest(ctx, duty)
		priorReqs := sgn.reqs[reqFrom:]
		expect := map[uint64]bool{}
		for _, tp := range priorTuples {
			expect[tp.v] = true
		}
		var submitted []*phase0.Attestation
		for _, call := range sub.calls {
			submitted = append(submitted, call...)
		}
		js = append(js, judgeCall("preceding Attest", c.PriorSlot, priorTuples, expect, nil, priorData, submitted, sgn.reqs, priorReqs, expect, false)...)
	}

	// Judged calls: the duty of the judged slot and the duties of the other slots of the
	// epoch, all built together, attested in slot order.
	bySlot := map[uint64][]tuple{c.Slot: mainTuples}
	order := []uint64{c.Slot}
	extraSkip := map[uint64]string{}
	for _, x := range c.Extra {
		if x.Slot == c.Slot || bySlot[x.Slot] != nil || x.Slot/c.SlotsPerEpoch != epoch || len(x.Vals) == 0 {
			return "malformed case (extra slot)", nil, st
		}
		for _, v := range x.Vals {
			if v.C < 0 || v.C >= len(x.Committees) || v.Skip == "attested" {
				return "malformed case (extra slot validator)", nil, st
			}
			bySlot[x.Slot] = append(bySlot[x.Slot], tuple{v.V, x.Committees[v.C].Index, v.Pos, x.Committees[v.C].Size})
			extraSkip[v.V] = v.Skip
			if v.Skip != "noaccount" {
				have[v.V] = true
			}
			if v.Skip == "zerosig" {
				zero[v.V] = true
			}
		}
		order = append(order, x.Slot)
	}
	duties, err := buildDuties(ctx, bySlot, order, c.Merge)
	if err != nil {
		return "cannot build duties: " + err.Error(), nil, st
	}
	duty := duties[c.Slot]
	for _, v := range c.Vals {
		if v.Skip == "zerosig" {
			zero[v.V] = true
		}
	}
	sgn.zero = zero
	sort.Slice(order, func(i, j int) bool { return order[i] < order[j] })
	subRange := map[uint64][2]int{}
	reqRange := map[uint64][2]int{}
	dataOf := map[uint64]*phase0.AttestationData{c.Slot: mainData}
	for _, slot := range order {
		if slot != c.Slot {
			dataOf[slot] = mkData(slot, byte(30+10*len(dataOf)))
		}
		clock.SetSlot(slot, 4*time.Second)
		dp.bySlot = map[uint64]*phase0.AttestationData{slot: dataOf[slot]}
		from, reqFrom := len(sub.calls), len(sgn.reqs)
		if slot == c.Slot {
			acc.failByIndex = c.AccountsFault == "by-index" || c.AccountsFault == "both"
			acc.failForEpoch = c.AccountsFault == "for-epoch" || c.AccountsFault == "both"
			sgn.failBatch = c.SignFault == "batch-error" || c.SignFault == "all-error"
			sgn.failSingle = c.SignFault == "single-error" || c.SignFault == "all-error"
		}
		_, _ = svc.Attest(ctx, duties[slot]) // the error (e.g. nobody left to attest) is not part of this property
		acc.failByIndex, acc.failForEpoch = false, false
		sgn.failBatch, sgn.failSingle = false, false
		subRange[slot] = [2]int{from, len(sub.calls)}
		reqRange[slot] = [2]int{reqFrom, len(sgn.reqs)}
	}
	// recurring committee index with another length in the same MergeDuties call
	{
		sizeOf := map[uint64]uint64{}
		for _, slot := range order {
			for _, tp := range bySlot[slot] {
				if sz, ok := sizeOf[tp.committee]; ok && sz != tp.size {
					st.recurringIndexOtherLength = true
				}
			}
			for _, tp := range bySlot[slot] {
				sizeOf[tp.committee] = tp.size
			}
		}
		st.extraSlots = len(c.Extra)
	}

	skipOf := map[uint64]string{}
	for _, v := range c.Vals {
		skipOf[v.V] = v.Skip
	}
	expect := map[uint64]bool{}
	afterAttestedSkip := map[uint64]bool{}
	// duty order as actually delivered
	seenAttestedSkip, seenSkip := false, false
	tuplesSeen := map[[3]uint64]bool{}
	committeesSeen := map[uint64]bool{}
	for i, v := range duty.ValidatorIndices() {
		sk := skipOf[uint64(v)]
		tuplesSeen[[3]uint64{uint64(duty.CommitteeIndices()[i]), duty.ValidatorCommitteeIndices()[i], duty.CommitteeSize(duty.CommitteeIndices()[i])}] = true
		committeesSeen[uint64(duty.CommitteeIndices()[i])] = true
		if sk == "" {
			expect[uint64(v)] = true
			if seenSkip {
				st.skipPrecedes = true
			}
		}
		if seenAttestedSkip {
			afterAttestedSkip[uint64(v)] = true
		}
		if sk == "" && seenAttestedSkip {
			st.attestedPrecedes = true
		}
		if sk == "attested" {
			seenAttestedSkip = true
		}
		if sk != "" {
			seenSkip = true
		}
	}
	// finer labels: which kind of skip precedes an attesting validator
	{
		seenKinds := map[string]bool{}
		for _, v := range duty.ValidatorIndices() {
			sk := skipOf[uint64(v)]
			if sk == "" {
				if seenKinds["noaccount"] {
					st.noAccountPrecedes = true
				}
				if seenKinds["zerosig"] {
					st.zeroSigPrecedes = true
				}
			} else {
				seenKinds[sk] = true
			}
		}
	}
	st.n = len(c.Vals)
	for _, v := range c.Vals {
		if c.Committees[v.C].Size > maxValidatorsPerCommittee {
			st.oversized = true
		}
	}
	st.differing = len(c.Vals) >= 2 && len(tuplesSeen) >= 2
	st.multi = len(committeesSeen) >= 2

	for _, slot := range order {
		var submitted []*phase0.Attestation
		for _, call := range sub.calls[subRange[slot][0]:subRange[slot][1]] {
			submitted = append(submitted, call...)
		}
		during := sgn.reqs[reqRange[slot][0]:reqRange[slot][1]]
		if slot == c.Slot {
			askable := map[uint64]bool{}
			for _, v := range c.Vals {
				if v.Skip == "" || v.Skip == "zerosig" {
					askable[v.V] = true
				}
			}
			// a failed lookup or a failed signing request means nobody HAS to attest
			optional := c.AccountsFault == "by-index" || c.AccountsFault == "both" || c.SignFault != ""
			js = append(js, judgeCall("Attest", c.Slot, mainTuples, expect, afterAttestedSkip, mainData, submitted, sgn.reqs, during, askable, optional)...)
			continue
		}
		xExpect, xAskable := map[uint64]bool{}, map[uint64]bool{}
		for _, tp := range bySlot[slot] {
			if extraSkip[tp.v] == "" {
				xExpect[tp.v] = true
			}
			if extraSkip[tp.v] != "noaccount" {
				xAskable[tp.v] = true
			}
		}
		js = append(js, judgeCall(fmt.Sprintf("Attest for slot %d of the same epoch", slot), slot, bySlot[slot], xExpect, nil, dataOf[slot], submitted, sgn.reqs, during, xAskable, false)...)
	}
	return "", js, st
}

func check(t ev.TB, c *Case) {
	harness, js, st := runAndJudge(c)
	if harness != "" {
		t.Fatalf("harness problem: %s", harness)
	}
	nontrivial := st.differing && st.skipPrecedes
	var labels []string
	if c.Merge {
		labels = append(labels, "duty-via-MergeDuties")
	} else {
		labels = append(labels, "duty-via-NewDuty-arbitrary-order")
	}
	if st.attestedPrecedes {
		labels = append(labels, "attested-skip-precedes-attesting-validator")
	}
	if st.noAccountPrecedes {
		labels = append(labels, "noaccount-skip-precedes-attesting-validator")
	}
	if st.zeroSigPrecedes {
		labels = append(labels, "zerosig-skip-precedes-attesting-validator")
	}
	if st.multi {
		labels = append(labels, "several-committees")
	}
	if st.oversized {
		labels = append(labels, "committee-longer-than-2048")
	}
	labels = append(labels, "log-level-"+levelOf(c.LogLevel).String())
	if c.SignFault != "" {
		labels = append(labels, "sign-fault-"+c.SignFault)
	}
	if c.AccountsFault != "" {
		labels = append(labels, "accounts-fault-"+c.AccountsFault)
		if len(c.OtherAccounts) > 0 {
			labels = append(labels, "accounts-fault-with-accounts-beyond-the-duty")
		}
	}
	if st.extraSlots > 0 {
		labels = append(labels, "several-slots-of-the-epoch")
	}
	if st.recurringIndexOtherLength && c.Merge {
		labels = append(labels, "merged-epoch-with-committee-index-recurring-at-other-length")
	}
	switch {
	case st.n >= 8:
		labels = append(labels, "validators>=8")
	case st.n >= 3:
		labels = append(labels, "validators-3..7")
	default:
		labels = append(labels, "validators-1..2")
	}
	ev.Case(nontrivial, ev.Hash(c), labels...)
	if nontrivial {
		ev.Sample(c)
	}
	// Listed open findings are counted and skipped (exact signature only); the
	// first other disagreement is fatal.
	for _, j := range js {
		ev.Violation(t, j.sig, c, "%s", j.detail)
	}
}

func TestAssignment(t *testing.T) {
	rapid.Check(t, func(t *rapid.T) {
		c := genCase(t)
		check(t, &c)
	})
}

// TestReplay re-executes a saved case without the property library.
func TestReplay(t *testing.T) {
	f := ev.ReplayFile()
	if f == "" {
		t.Skip("no replay file")
	}
	var c Case
	if _, err := ev.LoadCase(f, &c); err != nil {
		t.Fatalf("cannot load %s: %v", f, err)
	}
	check(t, &c)
	ev.ReplayPassed()
}
