// Package c11 decides property C11: relays and beacon nodes are told exactly
// what the configuration says.  Subjects: the real services/blockrelay/standard
// (registration rounds, REST-delivered registrations), the real
// services/signer/standard and the real services/proposalpreparer/standard.
package c11

import (
	"bytes"
	"context"
	"encoding/hex"
	"encoding/json"
	"fmt"
	"reflect"
	"runtime"
	"sort"
	"strconv"
	"strings"
	"sync"
	"testing"
	"time"

	relaytypes "github.com/attestantio/go-block-relay/types"
	eth2client "github.com/attestantio/go-eth2-client"
	"github.com/attestantio/go-eth2-client/spec/bellatrix"
	"github.com/attestantio/go-eth2-client/spec/phase0"
	blockrelay "github.com/attestantio/vouch/services/blockrelay/standard"
	nullmetrics "github.com/attestantio/vouch/services/metrics/null"
	proposalpreparer "github.com/attestantio/vouch/services/proposalpreparer/standard"
	signer "github.com/attestantio/vouch/services/signer/standard"
	"github.com/google/uuid"
	"github.com/rs/zerolog"
	"github.com/spf13/viper"
	e2types "github.com/wealdtech/go-eth2-types/v2"
	e2wtypes "github.com/wealdtech/go-eth2-wallet-types/v2"
	"pgregory.net/rapid"

	"verifharness/internal/ev"
	"verifharness/internal/fakes"
)

const (
	slotsPerEpoch = 32
	farFuture     = uint64(1) << 40
)

// Validator is one account vouch holds.  Validator i uses key i of the pool.
type Validator struct {
	Kind       string `json:"kind"`   // nd | plain | protecting | multi | distributed
	Wallet     string `json:"wallet"` // wallet name (nd accounts always live in wallet NDW)
	Index      uint64 `json:"index"`
	Activation uint64 `json:"activation"` // active in [Activation, Exit)
	Exit       uint64 `json:"exit"`
}

// Source is what the configuration source holds when it is next asked.
type Source struct {
	Kind string `json:"kind"` // doc | error | malformed
	Doc  int    `json:"doc"`
}

// RestReg is a registration delivered to vouch's own builder REST API.
type RestReg struct {
	Key       int    `json:"key"` // key universe: validators 0.., strangers maxValidators..
	FR        int    `json:"fr"`
	Gas       uint64 `json:"gas"`
	Timestamp uint64 `json:"timestamp"`
	SigSeed   int    `json:"sig_seed"`
}

// Step is a registration round (config refresh, registrations, preparations) or a
// REST delivery.
type Step struct {
	Kind      string   `json:"kind"` // round | rest | overlap
	Epoch     uint64   `json:"epoch,omitempty"`
	Source    Source   `json:"source"`
	RelayFail []string `json:"relay_fail,omitempty"` // per relay: "" | 500 | 400 | drop | slow
	SecFail   []string `json:"sec_fail,omitempty"`   // per secondary node: "" | error | slow
	PrepFail  []string `json:"prep_fail,omitempty"`  // per preparation node: "" | error | notactive | slow (working, 150 ms)
	SignFail  []int    `json:"sign_fail,omitempty"`  // per validator: 0 | 1 (every request fails) | 2 (first request fails)
	// Boundary: where the wall clock stands relative to the end of the round's epoch
	// when the preparations are updated: "" / "far" (half an epoch ahead), "2s", "50ms",
	// or "past" (the epoch was read just before its end, the update runs just after).
	Boundary string `json:"boundary,omitempty"`
	// Overlap steps (kind "overlap"): a scheduled round is kept in flight by relay
	// HoldRelay (its first request of the step is held by the harness) while the
	// exported SubmitValidatorRegistrations is called for the validators BSet; the held
	// request is released after that call has returned.
	HoldRelay int   `json:"hold_relay,omitempty"`
	BSet      []int `json:"b_set,omitempty"`
	// ProviderErr: the validating-accounts provider answers with an error during this round.
	ProviderErr bool `json:"provider_err,omitempty"`
	// Direct: the registrations of this round are requested through the exported
	// SubmitValidatorRegistrations(ctx, accounts) instead of the scheduled job.
	Direct bool      `json:"direct,omitempty"`
	Regs   []RestReg `json:"regs,omitempty"`
}

// Case is a whole history.
type Case struct {
	Validators  []Validator `json:"validators"`
	NRelays     int         `json:"n_relays"`
	NSecondary  int         `json:"n_secondary"`
	NPrep       int         `json:"n_prep"`
	FallbackFR  int         `json:"fallback_fr"`
	FallbackGas uint64      `json:"fallback_gas"`
	DynamicURL  bool        `json:"dynamic_url,omitempty"`
	Docs        []Doc       `json:"docs"`
	Steps       []Step      `json:"steps"`
}

// ---------------------------------------------------------------------------
// Generator.

var (
	gasChoices  = []uint64{30000000, 36000000, 60000000, 1, 18446744073709551615}
	specChoices = []string{"W1/.*", "W2/.*", "NDW/.*", "^W1/A[0-2]$", "W2/A1", ".*/A0", "^.*/A[3-5]", "W1/A3$", "^NDW/A[0-9]$"}
	kinds       = []string{"nd", "plain", "protecting", "multi", "distributed"}
)

// uniform16 draws 0..15 uniformly (rapid's integer generators prefer small
// values, booleans are fair); it shrinks towards 0.
func uniform16(t *rapid.T, label string) int {
	v := 0
	for i := 0; i < 4; i++ {
		v <<= 1
		if rapid.Bool().Draw(t, label) {
			v |= 1
		}
	}
	return v
}

// chance is true with probability n/16 and shrinks towards false.
func chance(t *rapid.T, label string, n int) bool { return uniform16(t, label) >= 16-n }

func optFR(t *rapid.T, pct int, label string) *int {
	if chance(t, label+"?", (pct*16+50)/100) {
		v := rapid.IntRange(1, 5).Draw(t, label)
		return &v
	}
	return nil
}

func optGas(t *rapid.T, pct int, label string) *uint64 {
	if chance(t, label+"?", (pct*16+50)/100) {
		v := rapid.SampledFrom(gasChoices).Draw(t, label)
		return &v
	}
	return nil
}

func drawKey(t *rapid.T, nV int, label string) int {
	if chance(t, label+"Stranger?", 3) {
		return maxValidators + rapid.IntRange(0, nStrangers-1).Draw(t, label+"Stranger")
	}
	return rapid.IntRange(0, nV-1).Draw(t, label)
}

func genV1Entry(t *rapid.T, nR int, label string) V1Entry {
	e := V1Entry{FR: rapid.IntRange(1, 5).Draw(t, label+"FR"), Gas: optGas(t, 50, label+"Gas")}
	e.Enabled = chance(t, label+"Enabled", 12)
	for r := 0; r < nR; r++ {
		if chance(t, label+"Relay?", 10) {
			e.Relays = append(e.Relays, r)
		}
	}
	return e
}

func genProposer(t *rapid.T, nV, nR int) DocProposer {
	p := DocProposer{}
	if chance(t, "pZero?", 1) {
		p.Zero = true
		return p
	}
	if chance(t, "pByKey?", 10) {
		k := drawKey(t, nV, "pKey")
		p.Key = &k
	} else {
		p.Account = rapid.SampledFrom(specChoices).Draw(t, "pSpec")
	}
	p.FR = optFR(t, 50, "pFR")
	p.Gas = optGas(t, 40, "pGas")
	p.Reset = chance(t, "pReset?", 3)
	for r := 0; r < nR; r++ {
		if chance(t, "pRelay?", 6) {
			pr := DocPRelay{Relay: r}
			pr.Disabled = chance(t, "prDisabled?", 4)
			pr.FR = optFR(t, 50, "prFR")
			pr.Gas = optGas(t, 40, "prGas")
			p.Relays = append(p.Relays, pr)
		}
	}
	return p
}

func genDoc(t *rapid.T, nV, nR int) Doc {
	if chance(t, "legacy?", 2) {
		d := Doc{Version: 1}
		e := genV1Entry(t, nR, "v1Default")
		d.V1Default = &e
		n := rapid.IntRange(0, 2).Draw(t, "v1Proposers")
		for i := 0; i < n; i++ {
			d.V1Props = append(d.V1Props, V1Proposer{Key: drawKey(t, nV, "v1Key"), Entry: genV1Entry(t, nR, "v1Entry")})
		}
		return d
	}
	d := Doc{Version: 2}
	d.FR = optFR(t, 60, "topFR")
	d.Gas = optGas(t, 50, "topGas")
	for r := 0; r < nR; r++ {
		if chance(t, "topRelay?", 10) {
			d.Relays = append(d.Relays, DocRelay{Relay: r, FR: optFR(t, 35, "relayFR"), Gas: optGas(t, 35, "relayGas")})
		}
	}
	n := rapid.IntRange(0, 3).Draw(t, "proposers")
	for i := 0; i < n; i++ {
		d.Proposers = append(d.Proposers, genProposer(t, nV, nR))
	}
	return d
}

func cloneDoc(d Doc) Doc {
	b, _ := json.Marshal(d)
	var c Doc
	_ = json.Unmarshal(b, &c)
	return c
}

func otherFR(t *rapid.T, cur *int) *int {
	v := rapid.IntRange(1, 5).Draw(t, "editFR")
	if cur != nil && *cur == v {
		v = v%5 + 1
	}
	return &v
}

func otherGas(t *rapid.T, cur *uint64) *uint64 {
	i := rapid.IntRange(0, len(gasChoices)-1).Draw(t, "editGas")
	if cur != nil && *cur == gasChoices[i] {
		i = (i + 1) % len(gasChoices)
	}
	v := gasChoices[i]
	return &v
}

// editDoc makes one small change to a copy of d.
func editDoc(t *rapid.T, d Doc, nV, nR int) Doc {
	d = cloneDoc(d)
	if d.Version == 1 {
		switch rapid.IntRange(0, 3).Draw(t, "v1Edit") {
		case 0:
			d.V1Default.FR = *otherFR(t, &d.V1Default.FR)
		case 1:
			d.V1Default.Gas = otherGas(t, d.V1Default.Gas)
		case 2:
			d.V1Default.Enabled = !d.V1Default.Enabled
		default:
			if len(d.V1Props) > 0 {
				d.V1Props = d.V1Props[1:]
			} else {
				d.V1Props = append(d.V1Props, V1Proposer{Key: drawKey(t, nV, "v1Key"), Entry: genV1Entry(t, nR, "v1Entry")})
			}
		}
		return d
	}
	switch rapid.IntRange(0, 9).Draw(t, "edit") {
	case 0:
		d.FR = otherFR(t, d.FR)
	case 1:
		d.Gas = otherGas(t, d.Gas)
	case 2: // toggle a top-level relay
		r := rapid.IntRange(0, nR-1).Draw(t, "editRelay")
		found := false
		for i := range d.Relays {
			if d.Relays[i].Relay == r {
				d.Relays = append(d.Relays[:i], d.Relays[i+1:]...)
				found = true
				break
			}
		}
		if !found {
			d.Relays = append(d.Relays, DocRelay{Relay: r})
		}
	case 3:
		if len(d.Relays) > 0 {
			i := rapid.IntRange(0, len(d.Relays)-1).Draw(t, "editRelayIdx")
			d.Relays[i].FR = otherFR(t, d.Relays[i].FR)
		} else {
			d.FR = otherFR(t, d.FR)
		}
	case 4:
		if len(d.Relays) > 0 {
			i := rapid.IntRange(0, len(d.Relays)-1).Draw(t, "editRelayIdx")
			d.Relays[i].Gas = otherGas(t, d.Relays[i].Gas)
		} else {
			d.Gas = otherGas(t, d.Gas)
		}
	case 5, 6:
		if len(d.Proposers) > 0 {
			i := rapid.IntRange(0, len(d.Proposers)-1).Draw(t, "editProposerIdx")
			if rapid.Bool().Draw(t, "editProposerFR") {
				d.Proposers[i].FR = otherFR(t, d.Proposers[i].FR)
			} else {
				d.Proposers[i].Gas = otherGas(t, d.Proposers[i].Gas)
			}
		} else {
			d.Proposers = append(d.Proposers, genProposer(t, nV, nR))
		}
	case 7:
		if len(d.Proposers) > 0 {
			i := rapid.IntRange(0, len(d.Proposers)-1).Draw(t, "editProposerIdx")
			if len(d.Proposers[i].Relays) > 0 {
				j := rapid.IntRange(0, len(d.Proposers[i].Relays)-1).Draw(t, "editPRelayIdx")
				d.Proposers[i].Relays[j].FR = otherFR(t, d.Proposers[i].Relays[j].FR)
			} else {
				d.Proposers[i].Reset = !d.Proposers[i].Reset
			}
		} else {
			d.Proposers = append(d.Proposers, genProposer(t, nV, nR))
		}
	case 8:
		if len(d.Proposers) > 0 {
			d.Proposers = d.Proposers[1:]
		} else {
			d.Proposers = append(d.Proposers, genProposer(t, nV, nR))
		}
	default:
		d.Proposers = append([]DocProposer{genProposer(t, nV, nR)}, d.Proposers...)
	}
	return d
}

// normalize keeps documents inside the subset whose meaning the documentation
// states without doubt: "disabled" is only used to switch off an inherited
// relay, a legacy entry that enables relays lists at least one.
func normalize(d *Doc) {
	if d.Version == 1 {
		fix := func(e *V1Entry) {
			if e.Enabled && len(e.Relays) == 0 {
				e.Relays = []int{0}
			}
			if e.Relays == nil {
				e.Relays = []int{}
			}
		}
		fix(d.V1Default)
		for i := range d.V1Props {
			fix(&d.V1Props[i].Entry)
		}
		return
	}
	top := map[int]bool{}
	for _, r := range d.Relays {
		top[r.Relay] = true
	}
	for i := range d.Proposers {
		p := &d.Proposers[i]
		for j := range p.Relays {
			if p.Relays[j].Disabled && (p.Reset || !top[p.Relays[j].Relay]) {
				p.Relays[j].Disabled = false
			}
		}
	}
}

func genMask(t *rapid.T, n int, pct int, choices []string, label string) []string {
	var res []string
	any := false
	for i := 0; i < n; i++ {
		m := ""
		if chance(t, label+"?", (pct*16+50)/100) {
			m = rapid.SampledFrom(choices).Draw(t, label)
			any = true
		}
		res = append(res, m)
	}
	if !any {
		return nil
	}
	return res
}

func genCase(t *rapid.T) Case {
	nV := rapid.IntRange(1, maxValidators).Draw(t, "validators")
	c := Case{
		NRelays:     rapid.IntRange(1, 4).Draw(t, "relays"),
		NSecondary:  rapid.IntRange(0, 2).Draw(t, "secondary"),
		NPrep:       rapid.IntRange(1, 3).Draw(t, "prepNodes"),
		FallbackFR:  rapid.IntRange(6, 7).Draw(t, "fallbackFR"),
		FallbackGas: rapid.SampledFrom([]uint64{30000000, 25000000}).Draw(t, "fallbackGas"),
		DynamicURL:  rapid.IntRange(0, 9).Draw(t, "dynamicURL") == 0,
	}
	nSteps := rapid.IntRange(1, 7).Draw(t, "steps")
	calm := chance(t, "calm", 6)
	lateStart := chance(t, "lateStart", 3) // every validator still pending at start-up
	epoch := rapid.SampledFrom([]uint64{0, 1, 5, 100}).Draw(t, "startEpoch")
	var roundEpochs []uint64
	for i := 0; i < nSteps; i++ {
		if i > 0 && chance(t, "rest?", 3) {
			c.Steps = append(c.Steps, Step{Kind: "rest"})
			continue
		}
		if i > 0 {
			epoch += rapid.SampledFrom([]uint64{0, 0, 1, 1, 1, 2, 7}).Draw(t, "epochInc")
		}
		kind := "round"
		if i > 0 && chance(t, "overlap?", 3) {
			kind = "overlap"
		}
		c.Steps = append(c.Steps, Step{Kind: kind, Epoch: epoch})
		roundEpochs = append(roundEpochs, epoch)
	}
	for i := 0; i < nV; i++ {
		v := Validator{
			Kind:   rapid.SampledFrom(kinds).Draw(t, "kind"),
			Wallet: rapid.SampledFrom([]string{"W1", "W1", "W2"}).Draw(t, "wallet"),
			Index:  uint64(i)*1000 + uint64(rapid.IntRange(0, 999).Draw(t, "index")),
			Exit:   farFuture,
		}
		if v.Kind == "nd" {
			v.Wallet = ndWalletName
		}
		if lateStart && len(roundEpochs) > 1 {
			v.Activation = roundEpochs[rapid.IntRange(1, len(roundEpochs)-1).Draw(t, "lateRef")] + 1
		} else if chance(t, "pending?", 3) {
			v.Activation = rapid.SampledFrom(roundEpochs).Draw(t, "actRef") + rapid.SampledFrom([]uint64{0, 1, 1, 2}).Draw(t, "actOff")
		}
		if chance(t, "exiting?", 2) {
			v.Exit = rapid.SampledFrom(roundEpochs).Draw(t, "exitRef") + rapid.SampledFrom([]uint64{1, 1, 2, 3}).Draw(t, "exitOff")
		}
		c.Validators = append(c.Validators, v)
	}
	nDocs := rapid.IntRange(1, 3).Draw(t, "docs")
	for i := 0; i < nDocs; i++ {
		var d Doc
		if i > 0 && chance(t, "editOf?", 12) {
			d = editDoc(t, c.Docs[rapid.IntRange(0, i-1).Draw(t, "editBase")], nV, c.NRelays)
		} else {
			d = genDoc(t, nV, c.NRelays)
		}
		normalize(&d)
		c.Docs = append(c.Docs, d)
	}
	lastDoc := -1
	for i := range c.Steps {
		s := &c.Steps[i]
		if !calm && s.Kind != "overlap" {
			s.RelayFail = genMask(t, c.NRelays, 25, []string{"500", "400", "drop", "slow"}, "relayFail")
		}
		if s.Kind == "overlap" {
			s.HoldRelay = rapid.IntRange(0, c.NRelays-1).Draw(t, "holdRelay")
			for v := 0; v < nV; v++ {
				if rapid.Bool().Draw(t, "inB") {
					s.BSet = append(s.BSet, v)
				}
			}
			if len(s.BSet) == 0 {
				s.BSet = []int{rapid.IntRange(0, nV-1).Draw(t, "bOne")}
			}
			d := rapid.IntRange(0, nDocs-1).Draw(t, "overlapDoc")
			lastDoc = d
			s.Source = Source{Kind: "doc", Doc: d}
			continue
		}
		if s.Kind == "rest" {
			n := rapid.IntRange(1, 4).Draw(t, "restRegs")
			// often a batch of several foreign validators (their settings may differ by public key)
			foreignBatch := chance(t, "foreignBatch", 6)
			firstForeign := rapid.IntRange(0, nStrangers-1).Draw(t, "firstForeign")
			if foreignBatch && n < nStrangers {
				n = nStrangers
			}
			for j := 0; j < n; j++ {
				k := rapid.IntRange(0, nV+nStrangers-1).Draw(t, "restKey")
				if k >= nV {
					k = maxValidators + (k - nV)
				}
				if foreignBatch && j < nStrangers {
					k = maxValidators + (firstForeign+j)%nStrangers
				}
				s.Regs = append(s.Regs, RestReg{
					Key:       k,
					FR:        rapid.IntRange(1, 9).Draw(t, "restFR"),
					Gas:       rapid.SampledFrom(gasChoices).Draw(t, "restGas"),
					Timestamp: 1600000000 + uint64(rapid.IntRange(0, 1000).Draw(t, "restTimestamp")),
					SigSeed:   rapid.IntRange(0, 3).Draw(t, "restSig"),
				})
			}
			continue
		}
		switch x := uniform16(t, "source"); {
		case x < 13:
			d := rapid.IntRange(0, nDocs-1).Draw(t, "sourceDoc")
			if d == lastDoc && chance(t, "otherDoc?", 10) {
				d = (d + 1) % nDocs // prefer a change of document between rounds
			}
			lastDoc = d
			s.Source = Source{Kind: "doc", Doc: d}
		case x < 15:
			s.Source = Source{Kind: "error"}
		default:
			s.Source = Source{Kind: "malformed", Doc: rapid.IntRange(0, len(malformedDocs)-1).Draw(t, "malformed")}
		}
		s.Boundary = rapid.SampledFrom([]string{"", "", "", "2s", "50ms", "50ms", "past"}).Draw(t, "boundary")
		if s.Boundary == "50ms" && c.NPrep > 1 && chance(t, "slowFirst", 10) {
			// a slow but working node listed before healthy ones
			s.PrepFail = make([]string, c.NPrep)
			s.PrepFail[rapid.IntRange(0, c.NPrep-2).Draw(t, "slowNode")] = "slow"
		}
		s.ProviderErr = chance(t, "providerErr", 2)
		s.Direct = i > 0 && !s.ProviderErr && chance(t, "direct", 3)
		if calm {
			continue
		}
		s.SecFail = genMask(t, c.NSecondary, 25, []string{"error", "slow"}, "secFail")
		if s.PrepFail == nil {
			s.PrepFail = genMask(t, c.NPrep, 30, []string{"error", "notactive", "slow"}, "prepFail")
		}
		var sf []int
		any := false
		for v := 0; v < nV; v++ {
			m := 0
			if chance(t, "signFail?", 2) {
				m = rapid.IntRange(1, 2).Draw(t, "signFail")
				any = true
			}
			sf = append(sf, m)
		}
		if any {
			s.SignFail = sf
		}
	}
	return c
}

// validate rejects cases (hand-written or damaged replay files) the harness cannot run.
func validate(c *Case) error {
	if len(c.Validators) < 1 || len(c.Validators) > maxValidators {
		return fmt.Errorf("1..%d validators wanted", maxValidators)
	}
	if c.NRelays < 1 || c.NRelays > 8 || c.NSecondary < 0 || c.NPrep < 1 {
		return fmt.Errorf("bad node counts")
	}
	if c.FallbackFR <= 0 || c.FallbackGas == 0 {
		return fmt.Errorf("fallback values must be set")
	}
	if len(c.Steps) == 0 || c.Steps[0].Kind != "round" {
		return fmt.Errorf("a history starts with a round")
	}
	idx := map[uint64]bool{}
	for _, v := range c.Validators {
		if idx[v.Index] {
			return fmt.Errorf("duplicate validator index")
		}
		idx[v.Index] = true
		switch v.Kind {
		case "nd", "plain", "protecting", "multi", "distributed":
		default:
			return fmt.Errorf("unknown account kind %q", v.Kind)
		}
	}
	keyOK := func(k int) bool {
		return (k >= 0 && k < len(c.Validators)) || (k >= maxValidators && k < maxValidators+nStrangers)
	}
	relayOK := func(r int) bool { return r >= 0 && r < c.NRelays }
	for i := range c.Docs {
		d := &c.Docs[i]
		if d.Version == 1 {
			if d.V1Default == nil {
				return fmt.Errorf("legacy document without default entry")
			}
			for _, p := range d.V1Props {
				if !keyOK(p.Key) {
					return fmt.Errorf("bad key in document")
				}
			}
			continue
		}
		for _, r := range d.Relays {
			if !relayOK(r.Relay) {
				return fmt.Errorf("bad relay in document")
			}
		}
		for _, p := range d.Proposers {
			if p.Key != nil && !keyOK(*p.Key) {
				return fmt.Errorf("bad key in document")
			}
			if p.Key == nil && p.Account == "" && !p.Zero {
				return fmt.Errorf("proposer entry without proposer")
			}
			for _, r := range p.Relays {
				if !relayOK(r.Relay) {
					return fmt.Errorf("bad relay in document")
				}
			}
		}
	}
	var last uint64
	for _, s := range c.Steps {
		switch s.Kind {
		case "round", "overlap":
			if s.Kind == "overlap" {
				if s.HoldRelay < 0 || s.HoldRelay >= c.NRelays || len(s.BSet) == 0 || s.ProviderErr || s.Direct {
					return fmt.Errorf("bad overlap step")
				}
				for _, v := range s.BSet {
					if v < 0 || v >= len(c.Validators) {
						return fmt.Errorf("bad validator in overlap step")
					}
				}
			}
			if s.Epoch < last {
				return fmt.Errorf("epochs must not decrease")
			}
			last = s.Epoch
			if s.Source.Kind == "doc" && (s.Source.Doc < 0 || s.Source.Doc >= len(c.Docs)) {
				return fmt.Errorf("bad document reference")
			}
		case "rest":
			for _, r := range s.Regs {
				if !keyOK(r.Key) {
					return fmt.Errorf("bad key in REST registration")
				}
			}
		default:
			return fmt.Errorf("unknown step kind %q", s.Kind)
		}
	}
	return nil
}

// ---------------------------------------------------------------------------
// World: everything built for one case.

// overlapObs is what happened in an overlap step.
type overlapObs struct {
	Reached bool   // the scheduled round was in flight (held at the relay) during the exported call
	ErrB    string // error returned by the exported call, if any
}

type world struct {
	c  *Case
	mu sync.Mutex

	step     int
	signFail map[int]int
	signSeen map[int]int
	signLog  []signRec

	accounts []e2wtypes.Account
	relays   []*relayDouble
	secs     []*secNode
	preps    []*prepNode
	source   *majordomoD
	provider *accountsD

	restSent map[int][]RestReg // step -> registrations actually delivered
	overlaps map[int]*overlapObs
	notes    []string
}

func (w *world) curStep() int {
	w.mu.Lock()
	defer w.mu.Unlock()
	return w.step
}

func (w *world) relayURL(i int) string { return w.relays[i].srv.URL }

func pubHex(k int) string { return "0x" + hex.EncodeToString(pubPool[k][:]) }

func frHex(id int) string {
	a := frAddr(id)
	return "0x" + hex.EncodeToString(a[:])
}

// render turns a document into the JSON text the configuration source serves.
func (w *world) render(d *Doc) string {
	m := map[string]any{}
	if d.Version == 1 {
		entry := func(e *V1Entry) map[string]any {
			urls := []string{}
			for _, r := range e.Relays {
				urls = append(urls, w.relayURL(r))
			}
			res := map[string]any{
				"fee_recipient": frHex(e.FR),
				"builder":       map[string]any{"enabled": e.Enabled, "relays": urls},
			}
			if e.Gas != nil {
				res["gas_limit"] = strconv.FormatUint(*e.Gas, 10)
			}
			return res
		}
		m["default_config"] = entry(d.V1Default)
		if len(d.V1Props) > 0 {
			pc := map[string]any{}
			for i := range d.V1Props {
				k := pubHex(d.V1Props[i].Key)
				if _, dup := pc[k]; !dup { // a JSON object holds a key once; the first entry stands
					pc[k] = entry(&d.V1Props[i].Entry)
				}
			}
			m["proposer_config"] = pc
		}
		b, _ := json.Marshal(m)
		return string(b)
	}
	m["version"] = 2
	if d.FR != nil {
		m["fee_recipient"] = frHex(*d.FR)
	}
	if d.Gas != nil {
		m["gas_limit"] = strconv.FormatUint(*d.Gas, 10)
	}
	if len(d.Relays) > 0 {
		rm := map[string]any{}
		for _, r := range d.Relays {
			e := map[string]any{}
			if r.FR != nil {
				e["fee_recipient"] = frHex(*r.FR)
			}
			if r.Gas != nil {
				e["gas_limit"] = strconv.FormatUint(*r.Gas, 10)
			}
			rm[w.relayURL(r.Relay)] = e
		}
		m["relays"] = rm
	}
	if len(d.Proposers) > 0 {
		var ps []any
		for _, p := range d.Proposers {
			e := map[string]any{}
			if p.Zero {
				e["proposer"] = "0x" + strings.Repeat("00", 48)
			} else if p.Key != nil {
				e["proposer"] = pubHex(*p.Key)
			} else {
				e["proposer"] = p.Account
			}
			if p.FR != nil {
				e["fee_recipient"] = frHex(*p.FR)
			}
			if p.Gas != nil {
				e["gas_limit"] = strconv.FormatUint(*p.Gas, 10)
			}
			if p.Reset {
				e["reset_relays"] = true
			}
			if len(p.Relays) > 0 {
				rm := map[string]any{}
				for _, r := range p.Relays {
					re := map[string]any{}
					if r.Disabled {
						re["disabled"] = true
					}
					if r.FR != nil {
						re["fee_recipient"] = frHex(*r.FR)
					}
					if r.Gas != nil {
						re["gas_limit"] = strconv.FormatUint(*r.Gas, 10)
					}
					rm[w.relayURL(r.Relay)] = re
				}
				e["relays"] = rm
			}
			ps = append(ps, e)
		}
		m["proposers"] = ps
	}
	b, _ := json.Marshal(m)
	return string(b)
}

func (w *world) buildAccounts() error {
	for i, v := range w.c.Validators {
		base := baseAcct{w: w, vi: i, id: uuid.NewSHA1(uuid.Nil, []byte(fmt.Sprintf("c11-account-%d", i))), name: acctName(i),
			wal: &walletD{id: uuid.NewSHA1(uuid.Nil, []byte(v.Wallet)), name: v.Wallet}, key: keyPool[i], pub: keyPool[i].PublicKey()}
		switch v.Kind {
		case "plain":
			w.accounts = append(w.accounts, &plainAcct{baseAcct: base})
		case "nd":
			real, err := ndAccount(i)
			if err != nil {
				return err
			}
			base.name = real.Name()
			base.wal.name = real.(e2wtypes.AccountWalletProvider).Wallet().Name()
			base.pub = real.PublicKey()
			w.accounts = append(w.accounts, &plainAcct{baseAcct: base, real: real.(e2wtypes.AccountSigner)})
		case "protecting":
			w.accounts = append(w.accounts, &protAcct{baseAcct: base})
		case "multi":
			w.accounts = append(w.accounts, &multiAcct{protAcct{baseAcct: base}})
		case "distributed":
			base.pub = keyPool[maxValidators+nStrangers+i%nShareKeys].PublicKey()
			w.accounts = append(w.accounts, &distAcct{multiAcct: multiAcct{protAcct{baseAcct: base}}, composite: keyPool[i].PublicKey()})
		}
	}
	return nil
}

// accountName is the documented "wallet/account" form of validator i.
func (w *world) accountName(i int) string {
	return w.accounts[i].(e2wtypes.AccountWalletProvider).Wallet().Name() + "/" + w.accounts[i].Name()
}

func at(mask []string, i int) string {
	if i < len(mask) {
		return mask[i]
	}
	return ""
}

func signFailAt(mask []int, i int) int {
	if i < len(mask) {
		return mask[i]
	}
	return 0
}

// activity is a fingerprint of everything the doubles have recorded.
func (w *world) activity() int {
	n := 0
	for _, r := range w.relays {
		n += len(r.take())
	}
	for _, s := range w.secs {
		n += len(s.take())
	}
	for _, p := range w.preps {
		n += len(p.take())
	}
	w.mu.Lock()
	n += len(w.signLog)
	w.mu.Unlock()
	return n + w.provider.nCalls()
}

const epochDuration = slotsPerEpoch * 12 * time.Second

// anchor relates chain time to the wall clock: the chain clock is placed inside
// epoch `epoch` such that the start of the next epoch lies `ahead` after the
// present wall-clock instant (ahead <= 0: the chain clock reads the last
// millisecond of the epoch although the wall clock is already past its end - an
// epoch read just before the boundary and used just after).
func anchor(clock *fakes.VClock, epoch uint64, ahead time.Duration) {
	boundary := time.Now().Add(ahead)
	clock.Genesis = boundary.Add(-time.Duration(epoch+1) * epochDuration)
	into := epochDuration - ahead
	if ahead <= 0 {
		into = epochDuration - time.Millisecond
	}
	clock.Set(clock.Genesis.Add(time.Duration(epoch)*epochDuration + into))
}

func boundaryAhead(b string) time.Duration {
	switch b {
	case "2s":
		return 2 * time.Second
	case "50ms":
		return 50 * time.Millisecond
	case "past":
		return -300 * time.Millisecond
	}
	return epochDuration / 2
}

// run executes the history; a non-nil error is a harness problem.
func run(c *Case) (*world, error) {
	initKeys()
	zerolog.SetGlobalLevel(zerolog.Disabled)
	viper.Reset()
	viper.SetDefault("timeout", 20*time.Second)

	w := &world{c: c, signFail: map[int]int{}, signSeen: map[int]int{}, restSent: map[int][]RestReg{}, overlaps: map[int]*overlapObs{}}
	if err := w.buildAccounts(); err != nil {
		return nil, fmt.Errorf("cannot build accounts: %w", err)
	}
	w.relays = relays(c.NRelays, w)
	for i := 0; i < c.NSecondary; i++ {
		w.secs = append(w.secs, &secNode{nodeBase: nodeBase{w: w, name: fmt.Sprintf("secondary-%d", i)}})
	}
	for i := 0; i < c.NPrep; i++ {
		w.preps = append(w.preps, &prepNode{nodeBase: nodeBase{w: w, name: fmt.Sprintf("beacon-%d", i)}})
	}
	w.source = &majordomoD{w: w}
	w.provider = &accountsD{w: w}

	ctx, cancel := context.WithCancel(context.Background())
	defer cancel()
	clock := fakes.NewVClock(time.Unix(1606824023, 0), 12*time.Second, slotsPerEpoch)
	sched := fakes.NewSched()
	monitor := nullmetrics.New()

	signerSvc, err := signer.New(ctx,
		signer.WithLogLevel(zerolog.Disabled),
		signer.WithMonitor(monitor),
		signer.WithClientMonitor(monitor),
		signer.WithSpecProvider(chainD{}),
		signer.WithDomainProvider(chainD{}),
	)
	if err != nil {
		return nil, fmt.Errorf("cannot construct signer: %w", err)
	}

	var relaySvc *blockrelay.Service
	var preparer *proposalpreparer.Service
	var fetchJob, submitJob string

	for i := range c.Steps {
		s := &c.Steps[i]
		w.mu.Lock()
		w.step = i
		w.signSeen = map[int]int{}
		w.signFail = map[int]int{}
		for v := range c.Validators {
			w.signFail[v] = signFailAt(s.SignFail, v)
		}
		w.mu.Unlock()
		for r, rd := range w.relays {
			rd.setMode(at(s.RelayFail, r))
		}
		for n, sn := range w.secs {
			sn.setMode(at(s.SecFail, n))
		}
		for n, pn := range w.preps {
			pn.setMode(at(s.PrepFail, n))
		}

		if s.Kind == "rest" {
			if err := w.deliverREST(ctx, relaySvc, i); err != nil {
				return nil, err
			}
			continue
		}

		anchor(clock, s.Epoch, epochDuration/2)
		w.source.set(s.Source)
		w.provider.setFail(s.ProviderErr)
		if relaySvc == nil {
			// The first round is the one vouch performs at start-up: configuration is
			// fetched inline, registrations are submitted in the background.
			configURL := "file:///c11/execconfig.json"
			if c.DynamicURL {
				configURL = "https://config.example.com/c11/execconfig"
			}
			secondaries := make([]eth2client.ValidatorRegistrationsSubmitter, 0, len(w.secs))
			for _, sn := range w.secs {
				secondaries = append(secondaries, sn)
			}
			relaySvc, err = blockrelay.New(ctx,
				blockrelay.WithLogLevel(zerolog.Disabled),
				blockrelay.WithMonitor(monitor),
				blockrelay.WithMajordomo(w.source),
				blockrelay.WithScheduler(sched),
				blockrelay.WithListenAddress("127.0.0.1:0"),
				blockrelay.WithChainTime(clock),
				blockrelay.WithConfigURL(configURL),
				blockrelay.WithFallbackFeeRecipient(bellatrix.ExecutionAddress(frAddr(c.FallbackFR))),
				blockrelay.WithFallbackGasLimit(c.FallbackGas),
				blockrelay.WithAccountsProvider(w.provider),
				blockrelay.WithValidatorsProvider(w.provider),
				blockrelay.WithValidatingAccountsProvider(w.provider),
				blockrelay.WithValidatorRegistrationSigner(signerSvc),
				blockrelay.WithSecondaryValidatorRegistrationsSubmitters(secondaries),
				blockrelay.WithReleaseVersion("c11"),
				blockrelay.WithBuilderBidProvider(noBids{}),
			)
			if err != nil {
				return nil, fmt.Errorf("cannot construct block relay: %w", err)
			}
			if err := w.waitStartup(); err != nil {
				return nil, err
			}
			for _, j := range sched.Jobs() {
				if !j.Periodic {
					continue
				}
				ln := strings.ToLower(j.Name)
				switch {
				case strings.Contains(ln, "config"):
					fetchJob = j.Name
				case strings.Contains(ln, "registration"):
					submitJob = j.Name
				}
			}
			if fetchJob == "" || submitJob == "" {
				return nil, fmt.Errorf("block relay did not schedule its periodic config fetch and registration jobs")
			}
			submitters := make([]eth2client.ProposalPreparationsSubmitter, 0, len(w.preps))
			for _, pn := range w.preps {
				submitters = append(submitters, pn)
			}
			preparer, err = proposalpreparer.New(ctx,
				proposalpreparer.WithLogLevel(zerolog.Disabled),
				proposalpreparer.WithMonitor(monitor),
				proposalpreparer.WithChainTimeService(clock),
				proposalpreparer.WithValidatingAccountsProvider(w.provider),
				proposalpreparer.WithProposalPreparationsSubmitters(submitters),
				proposalpreparer.WithExecutionConfigProvider(relaySvc),
			)
			if err != nil {
				return nil, fmt.Errorf("cannot construct proposal preparer: %w", err)
			}
		} else {
			if !sched.Fire(fetchJob) {
				return nil, fmt.Errorf("periodic job vanished")
			}
			if s.Kind == "overlap" {
				hold := w.relays[s.HoldRelay]
				arrived := hold.armHold()
				doneA := make(chan struct{})
				go func() {
					defer close(doneA)
					sched.Fire(submitJob)
				}()
				obs := &overlapObs{}
				select {
				case <-arrived:
					obs.Reached = true
				case <-doneA:
					// the round had nothing for that relay: no overlap, the calls are sequential
					hold.releaseHold()
				}
				accounts := map[phase0.ValidatorIndex]e2wtypes.Account{}
				for _, v := range s.BSet {
					accounts[phase0.ValidatorIndex(c.Validators[v].Index)] = w.accounts[v]
				}
				if err := relaySvc.SubmitValidatorRegistrations(ctx, accounts); err != nil {
					obs.ErrB = err.Error()
				}
				hold.releaseHold()
				<-doneA
				w.overlaps[i] = obs
			} else if s.Direct && !s.ProviderErr {
				if err := relaySvc.SubmitValidatorRegistrations(ctx, w.provider.active(s.Epoch+1)); err != nil {
					w.notes = append(w.notes, fmt.Sprintf("step %d: SubmitValidatorRegistrations: %v", i, err))
				}
			} else if !sched.Fire(submitJob) {
				return nil, fmt.Errorf("periodic job vanished")
			}
		}

		anchor(clock, s.Epoch, boundaryAhead(s.Boundary))
		if err := preparer.UpdatePreparations(ctx); err != nil {
			w.notes = append(w.notes, fmt.Sprintf("step %d: UpdatePreparations: %v", i, err))
		}
		if len(w.provider.active(s.Epoch+1)) > 0 && !s.ProviderErr {
			// The submission runs in the background; nothing in it is slow, so wait for every
			// node to have been called, with a generous ceiling (judged afterwards either way).
			deadline := time.Now().Add(3 * time.Second)
			for time.Now().Before(deadline) {
				done := true
				for _, pn := range w.preps {
					got := false
					for _, pc := range pn.take() {
						if pc.Step == i {
							got = true
						}
					}
					done = done && got
				}
				if done {
					break
				}
				time.Sleep(500 * time.Microsecond)
			}
		}
	}
	w.provider.setFail(false)
	cancel()
	for _, r := range w.relays {
		r.wg.Wait()
	}
	return w, nil
}

// subjectPackage marks stack frames of the block relay service.
const subjectPackage = "vouch/services/blockrelay/standard."

// subjectGoroutines counts goroutines that run inside (or were started by and
// have not yet left) the block relay service package, other than the caller.
func subjectGoroutines() int {
	buf := make([]byte, 1<<20)
	for {
		n := runtime.Stack(buf, true)
		if n < len(buf) {
			buf = buf[:n]
			break
		}
		buf = make([]byte, 2*len(buf))
	}
	count := 0
	for k, g := range strings.Split(string(buf), "\n\n") {
		if k == 0 {
			continue // the calling goroutine
		}
		if strings.Contains(g, subjectPackage) {
			count++
		}
	}
	return count
}

// waitStartup waits for the registration round that New() started in the
// background.  The round is a goroutine of the service package; it is over when
// no goroutine other than the harness' own has a frame of (or was created by and
// still belongs to) that package.  Nothing is assumed about what the round does
// or which locks it holds: a round that returns early, or never releases
// something, is simply over.
func (w *world) waitStartup() error {
	deadline := time.Now().Add(60 * time.Second)
	quiet := 0
	for quiet < 2 {
		if time.Now().After(deadline) {
			return fmt.Errorf("start-up registration round still running after 60 s")
		}
		if subjectGoroutines() == 0 {
			quiet++
		} else {
			quiet = 0
			time.Sleep(300 * time.Microsecond)
		}
	}
	return nil
}

func restSig(seed int, key int) [96]byte {
	var s [96]byte
	for i := range s {
		s[i] = byte(seed*31 + key*7 + i)
	}
	s[0] = 0xa0 | byte(seed)
	return s
}

// lastRoundBefore returns the index of the last round step before step i in which
// vouch could learn its validators (-1 if none).
func lastRoundBefore(c *Case, i int) int {
	for j := i - 1; j >= 0; j-- {
		if (c.Steps[j].Kind == "round" || c.Steps[j].Kind == "overlap") && !c.Steps[j].ProviderErr {
			return j
		}
	}
	return -1
}

// deliverREST sends registrations the way the REST daemon does: the JSON body is
// decoded into go-block-relay types and handed to the registrar.
func (w *world) deliverREST(ctx context.Context, svc *blockrelay.Service, i int) error {
	s := &w.c.Steps[i]
	lr := lastRoundBefore(w.c, i)
	controlled := map[phase0.ValidatorIndex]e2wtypes.Account{}
	if lr >= 0 {
		controlled = w.provider.active(w.c.Steps[lr].Epoch + 1)
		if w.c.Steps[lr].Kind == "overlap" {
			// Two submissions ran side by side; whichever finished generating last names the
			// controlled set.  Validators in both sets are controlled either way.
			inB := map[uint64]bool{}
			for _, v := range w.c.Steps[lr].BSet {
				inB[w.c.Validators[v].Index] = true
			}
			for idx := range controlled {
				if !inB[uint64(idx)] {
					delete(controlled, idx)
				}
			}
		}
	}
	var send []RestReg
	var wire []map[string]any
	for _, r := range s.Regs {
		if r.Key < maxValidators {
			// Only validators that were registered in the latest round are unambiguously
			// "controlled"; other accounts of vouch are left out.
			if _, ok := controlled[phase0.ValidatorIndex(w.c.Validators[r.Key].Index)]; !ok {
				continue
			}
		}
		send = append(send, r)
		sig := restSig(r.SigSeed, r.Key)
		wire = append(wire, map[string]any{
			"message": map[string]any{
				"fee_recipient": frHex(r.FR),
				"gas_limit":     strconv.FormatUint(r.Gas, 10),
				"timestamp":     strconv.FormatUint(r.Timestamp, 10),
				"pubkey":        pubHex(r.Key),
			},
			"signature": "0x" + hex.EncodeToString(sig[:]),
		})
	}
	w.restSent[i] = send
	if len(send) == 0 {
		return nil
	}
	body, _ := json.Marshal(wire)
	regs := make([]*relaytypes.SignedValidatorRegistration, 0)
	if err := json.NewDecoder(bytes.NewReader(body)).Decode(&regs); err != nil {
		return fmt.Errorf("REST body does not decode: %w", err)
	}
	if _, err := svc.ValidatorRegistrations(ctx, regs); err != nil {
		w.notes = append(w.notes, fmt.Sprintf("step %d: ValidatorRegistrations: %v", i, err))
	}
	return nil
}

// ---------------------------------------------------------------------------
// Oracle.

type verdict struct {
	sig    string
	detail string
}

type stats struct {
	rounds, changeRounds, abaRounds                                                         int
	failMask, relayFail, secFail, prepFail, signFail                                        bool
	reuse, multiContent, activationEdge, exitEdge, legacy, fetchFail, restForward, restDrop bool
	unresolvableNextToOthers                                                                bool
	providerErr, direct, earlyThenNormal                                                    bool
	nearBoundary, slowNearBoundary                                                          bool
	overlap, overlapReached, overlapOtherSet                                                bool
	inactiveSeen, emptyRound                                                                bool
	regsChecked                                                                             int
}

func parseObs(m wireReg) (obsReg, error) {
	var o obsReg
	if m.Message == nil {
		return o, fmt.Errorf("message missing")
	}
	fr, err := hex.DecodeString(strings.TrimPrefix(m.Message.FeeRecipient, "0x"))
	if err != nil || len(fr) != 20 {
		return o, fmt.Errorf("bad fee recipient %q", m.Message.FeeRecipient)
	}
	copy(o.FR[:], fr)
	if o.Gas, err = strconv.ParseUint(m.Message.GasLimit, 10, 64); err != nil {
		return o, fmt.Errorf("bad gas limit %q", m.Message.GasLimit)
	}
	if o.Timestamp, err = strconv.ParseUint(m.Message.Timestamp, 10, 64); err != nil {
		return o, fmt.Errorf("bad timestamp %q", m.Message.Timestamp)
	}
	pk, err := hex.DecodeString(strings.TrimPrefix(m.Message.Pubkey, "0x"))
	if err != nil || len(pk) != 48 {
		return o, fmt.Errorf("bad pubkey %q", m.Message.Pubkey)
	}
	copy(o.Pubkey[:], pk)
	sg, err := hex.DecodeString(strings.TrimPrefix(m.Signature, "0x"))
	if err != nil || len(sg) != 96 {
		return o, fmt.Errorf("bad signature %q", m.Signature)
	}
	copy(o.Sig[:], sg)
	return o, nil
}

func sigValid(o obsReg, key int) bool {
	root := builderSigningRoot(o.FR, o.Gas, o.Timestamp, o.Pubkey, genesisForkVersion)
	sig, err := e2types.BLSSignatureFromBytes(o.Sig[:])
	if err != nil {
		return false
	}
	return sig.Verify(root[:], keyPool[key].PublicKey())
}

func short(b []byte) string { return "0x" + hex.EncodeToString(b[:4]) + "…" }

func shortFR(a [20]byte) string { return "0x" + hex.EncodeToString(a[:]) }

type delivered struct {
	step    int
	content relaySetting
}

// judge compares what the doubles saw with what the statement demands.  It
// returns every disagreement (first per signature).
func judge(c *Case, w *world) ([]verdict, stats) {
	var st stats
	var out []verdict
	seen := map[string]bool{}
	fail := func(sig string, format string, args ...any) {
		if !seen[sig] {
			seen[sig] = true
			out = append(out, verdict{sig, fmt.Sprintf(format, args...)})
		}
	}
	fallbackFR := frAddr(c.FallbackFR)
	keyOfPub := map[[48]byte]int{}
	for i := range c.Validators {
		keyOfPub[pubPool[i]] = i
	}
	for s := 0; s < nStrangers; s++ {
		keyOfPub[pubPool[maxValidators+s]] = maxValidators + s
	}
	fetches := w.source.take()
	var cur *Doc
	var prev map[int]resolved // resolved settings of the previous round, by validator
	history := map[[2]int][]delivered{}
	seenContents := map[[2]int][]relaySetting{}
	var lastActive map[int]bool
	earlyReturnSeen := false // an earlier round had no validating accounts or no answer from the accounts provider

	relayReqs := make([][]relayReq, len(w.relays))
	for r := range w.relays {
		relayReqs[r] = w.relays[r].take()
	}
	w.mu.Lock()
	signLog := append([]signRec(nil), w.signLog...)
	w.mu.Unlock()

	// entriesAt decodes what relay r received during a step.
	entriesAt := func(r, step int) []obsReg {
		var res []obsReg
		for _, q := range relayReqs[r] {
			if q.Step != step {
				continue
			}
			if q.Method != "POST" || q.Path != "/eth/v1/builder/validators" {
				fail("unexpected-relay-request", "step %d: relay %d received %s %s", step, r, q.Method, q.Path)
				continue
			}
			regs, err := parseWire(q.Body)
			if err != nil {
				fail("malformed-relay-request", "step %d: relay %d received a body that is not a list of signed registrations: %v", step, r, err)
				continue
			}
			for _, m := range regs {
				o, err := parseObs(m)
				if err != nil {
					fail("malformed-registration", "step %d: relay %d received a malformed registration: %v", step, r, err)
					continue
				}
				res = append(res, o)
			}
		}
		return res
	}

	for i := range c.Steps {
		s := &c.Steps[i]
		if s.Kind == "rest" {
			sent := w.restSent[i]
			expected := make([][]obsReg, len(w.relays))
			ignore := map[[48]byte]bool{}
			for _, rr := range sent {
				o := obsReg{FR: frAddr(rr.FR), Gas: rr.Gas, Timestamp: rr.Timestamp, Pubkey: pubPool[rr.Key], Sig: restSig(rr.SigSeed, rr.Key)}
				if rr.Key < maxValidators {
					st.restDrop = true
					continue // controlled: dropped
				}
				res := resolve(cur, identity{Key: rr.Key}, fallbackFR, c.FallbackGas)
				if res.Unresolvable {
					ignore[o.Pubkey] = true // no defined settings: nothing demanded, nothing forbidden
					continue
				}
				for r := range res.Relays {
					expected[r] = append(expected[r], o)
					st.restForward = true
				}
			}
			for r := range w.relays {
				got := entriesAt(r, i)
				exp := expected[r]
				for _, g := range got {
					if ignore[g.Pubkey] {
						continue
					}
					found := -1
					for k := range exp {
						if exp[k] == g {
							found = k
							break
						}
					}
					if found >= 0 {
						exp = append(exp[:found:found], exp[found+1:]...)
						continue
					}
					k, known := keyOfPub[g.Pubkey]
					samePub := false
					for _, e := range exp {
						if e.Pubkey == g.Pubkey {
							samePub = true
						}
					}
					switch {
					case known && k < maxValidators:
						fail("rest-controlled-forwarded", "step %d: a registration delivered over REST for validator %d, which vouch controls, was forwarded to relay %d", i, k, r)
					case samePub:
						fail("rest-forward-altered", "step %d: relay %d received an altered copy of the REST-delivered registration of %s", i, r, short(g.Pubkey[:]))
					default:
						fail("rest-unexpected-forward", "step %d: relay %d received a registration of %s that its resolved settings do not send there", i, r, short(g.Pubkey[:]))
					}
				}
				for _, e := range exp {
					fail("rest-not-forwarded", "step %d: REST-delivered registration of foreign validator %s was not forwarded to relay %d, which its resolved settings name", i, short(e.Pubkey[:]), r)
				}
			}
			continue
		}

		// ---- a round ----
		st.rounds++
		for _, f := range fetches {
			if f.Step != i {
				continue
			}
			if f.Kind == "doc" {
				cur = &c.Docs[f.Doc]
				if cur.Version == 1 {
					st.legacy = true
				}
			} else {
				st.fetchFail = true
			}
		}
		if s.ProviderErr {
			// Vouch cannot learn its validators in this round: nothing is demanded of it.
			// Later rounds are judged as usual.
			st.providerErr = true
			earlyReturnSeen = true
			continue
		}
		if s.Direct && i > 0 {
			st.direct = true
		}
		active := map[int]bool{}
		for v, val := range c.Validators {
			if val.Activation <= s.Epoch+1 && s.Epoch+1 < val.Exit {
				active[v] = true
				if val.Activation == s.Epoch+1 {
					st.activationEdge = true
				}
			} else {
				st.inactiveSeen = true
				if val.Exit == s.Epoch+1 {
					st.exitEdge = true
				}
			}
		}
		if len(active) == 0 {
			st.emptyRound = true
			earlyReturnSeen = true
		} else {
			if earlyReturnSeen {
				st.earlyThenNormal = true
			}
			lastActive = active
		}
		_ = lastActive
		// due: validators whose registrations are requested in this step; need/most: how
		// many requests must / may have produced a registration per relay.
		due, need, most := map[int]bool{}, map[int]int{}, map[int]int{}
		for v := range active {
			due[v] = true
			need[v]++
			most[v]++
		}
		if s.Kind == "overlap" {
			obs := w.overlaps[i]
			st.overlap = true
			if obs != nil && obs.Reached {
				st.overlapReached = true
			}
			for _, v := range s.BSet {
				due[v] = true
				most[v]++
				if obs != nil && obs.ErrB == "" {
					need[v]++ // the exported call reported success
				}
				if !active[v] {
					st.overlapOtherSet = true
				}
			}
		}
		res := map[int]resolved{}
		hasUnres, hasRes := false, false
		for v := range due {
			res[v] = resolve(cur, identity{Key: v, Account: w.accountName(v)}, fallbackFR, c.FallbackGas)
			if res[v].Unresolvable {
				hasUnres = true
			} else if active[v] {
				hasRes = true
			}
		}
		if hasUnres && hasRes {
			st.unresolvableNextToOthers = true
		}
		// stopped names a missing delivery: in a round in which some validator's
		// settings cannot be resolved it gets a signature of its own.
		stopped := func(what, plain string) string {
			if hasUnres {
				return "unresolvable-validator-stops-" + what
			}
			return plain
		}
		// distribution
		changed := false
		for v, rv := range res {
			if pv, ok := prev[v]; ok && !reflect.DeepEqual(pv, rv) {
				changed = true
			}
			contents := map[relaySetting]bool{}
			for _, rs := range rv.Relays {
				contents[rs] = true
			}
			if len(contents) > 1 {
				st.multiContent = true
			}
		}
		if changed {
			st.changeRounds++
		}
		if len(active) > 0 {
			prev = res
			for r := range w.relays {
				if at(s.RelayFail, r) != "" {
					st.relayFail, st.failMask = true, true
				}
			}
			for n := range w.secs {
				if at(s.SecFail, n) != "" {
					st.secFail, st.failMask = true, true
				}
			}
			for n := range w.preps {
				if at(s.PrepFail, n) != "" {
					st.prepFail, st.failMask = true, true
				}
				if at(s.PrepFail, n) == "slow" && n < len(w.preps)-1 && (s.Boundary == "50ms" || s.Boundary == "past") {
					st.slowNearBoundary = true
				}
			}
			if s.Boundary == "50ms" || s.Boundary == "past" {
				st.nearBoundary = true
			}
		}
		signFailed := map[int]bool{}
		signFailures := map[int]int{} // failed signing requests per validator in this round
		missingAt := map[int][]int{}  // relays that received nothing for a validator with failed requests
		signedNow := map[int]map[[32]byte]bool{}
		for _, rec := range signLog {
			if rec.Step != i {
				continue
			}
			if !rec.OK {
				signFailed[rec.V] = true
				signFailures[rec.V]++
				if active[rec.V] {
					st.signFail, st.failMask = true, true
				}
			} else {
				if signedNow[rec.V] == nil {
					signedNow[rec.V] = map[[32]byte]bool{}
				}
				signedNow[rec.V][rec.Root] = true
			}
		}
		lastSigned := func(v int, root [32]byte) int {
			m := -1
			for _, rec := range signLog {
				if rec.V == v && rec.OK && rec.Root == root && rec.Step <= i && rec.Step > m {
					m = rec.Step
				}
			}
			return m
		}

		// relays
		abaThisRound := false
		for r := range w.relays {
			count := map[int]int{}
			for _, g := range entriesAt(r, i) {
				st.regsChecked++
				v, known := keyOfPub[g.Pubkey]
				if !known || v >= maxValidators || !due[v] {
					fail("unexpected-registration", "round at step %d (epoch %d): relay %d received a registration for %s, which is not a validator active in epoch %d", i, s.Epoch, r, short(g.Pubkey[:]), s.Epoch+1)
					continue
				}
				if res[v].Unresolvable {
					continue
				}
				want, ok := res[v].Relays[r]
				if !ok {
					fail("unexpected-registration", "round at step %d: relay %d received a registration for validator %d whose resolved settings do not name that relay", i, r, v)
					continue
				}
				count[v]++
				if g.FR != want.FR {
					fail("wrong-fee-recipient", "round at step %d: relay %d, validator %d: fee recipient %s sent, resolved settings say %s", i, r, v, shortFR(g.FR), shortFR(want.FR))
				}
				if g.Gas != want.Gas {
					fail("wrong-gas-limit", "round at step %d: relay %d, validator %d: gas limit %d sent, resolved settings say %d", i, r, v, g.Gas, want.Gas)
				}
				if !sigValid(g, v) {
					fail("bad-signature", "round at step %d: relay %d, validator %d (%s account): the signature does not verify under the validator's key over the builder signing root of the registration as sent", i, r, v, c.Validators[v].Kind)
				}
				content := relaySetting{FR: g.FR, Gas: g.Gas}
				root := builderSigningRoot(g.FR, g.Gas, g.Timestamp, g.Pubkey, genesisForkVersion)
				if m := lastSigned(v, root); m >= 0 && m < i {
					st.reuse = true
					for _, d := range history[[2]int{v, r}] {
						if d.step > m && d.step < i && d.content != content {
							fail("stale-registration-reused", "round at step %d: relay %d, validator %d: the registration sent was signed in step %d, although a registration with different content was sent to this relay in step %d in between", i, r, v, m, d.step)
						}
					}
				}
				for k, old := range seenContents[[2]int{v, r}] {
					if old == content && k != len(seenContents[[2]int{v, r}])-1 {
						abaThisRound = true
					}
				}
				history[[2]int{v, r}] = append(history[[2]int{v, r}], delivered{step: i, content: content})
				sc := seenContents[[2]int{v, r}]
				if len(sc) == 0 || sc[len(sc)-1] != content {
					seenContents[[2]int{v, r}] = append(sc, content)
				}
			}
			for v := range due {
				if _, ok := res[v].Relays[r]; !ok {
					continue
				}
				switch {
				case count[v] == 0 && need[v] > 0 && signFailed[v]:
					missingAt[v] = append(missingAt[v], r)
				case count[v] < need[v] && s.Kind == "overlap":
					fail(stopped("registrations", "missing-registration"), "overlap at step %d (epoch %d): relay %d received %d registration(s) for validator %d (%s account) although %d submissions that reported success asked for it (scheduled round for the validators active in epoch %d, held at relay %d: %v; exported SubmitValidatorRegistrations for validators %v)", i, s.Epoch, r, count[v], v, c.Validators[v].Kind, need[v], s.Epoch+1, s.HoldRelay, w.overlaps[i] != nil && w.overlaps[i].Reached, s.BSet)
				case count[v] < need[v]:
					fail(stopped("registrations", "missing-registration"), "round at step %d (epoch %d): relay %d (mode %q) received no registration for validator %d (%s account), whose resolved settings name that relay; masks: relays %v secondary %v sign %v", i, s.Epoch, r, at(s.RelayFail, r), v, c.Validators[v].Kind, s.RelayFail, s.SecFail, s.SignFail)
				case count[v] > most[v]:
					fail("duplicate-registration", "round at step %d: relay %d received %d registrations for validator %d", i, r, count[v], v)
				}
			}
		}
		if abaThisRound {
			st.abaRounds++
		}
		// A failed signing request costs the registration it was made for, not the others.
		for v, rs := range missingAt {
			if len(rs) > signFailures[v] {
				sort.Ints(rs)
				fail(stopped("registrations", "missing-registration"), "round at step %d: validator %d (%s account) had %d failing signing request(s) but its registration is missing at %d relays %v; masks: relays %v sign %v", i, v, c.Validators[v].Kind, signFailures[v], len(rs), rs, s.RelayFail, s.SignFail)
			}
		}

		// secondary beacon nodes
		demand := false
		for v := range due {
			if need[v] > 0 && len(res[v].Relays) > 0 && !signFailed[v] {
				demand = true
			}
		}
		for n, sn := range w.secs {
			var calls []secCall
			refused := ""
			for _, call := range sn.take() {
				if call.Step == i {
					if call.Refused != "" {
						refused = " (it was called on a context that had already ended: " + call.Refused + ")"
						continue
					}
					calls = append(calls, call)
				}
			}
			if len(calls) == 0 {
				if demand {
					fail(stopped("registrations", "secondary-node-not-served"), "round at step %d: secondary beacon node %d (mode %q) received no registrations although validators with relays were registered%s; masks: relays %v secondary %v", i, n, at(s.SecFail, n), refused, s.RelayFail, s.SecFail)
				}
				continue
			}
			if len(calls) > 1 && !(s.Kind == "overlap" && len(calls) == 2) {
				fail("secondary-duplicate-call", "round at step %d: secondary beacon node %d received %d submissions", i, n, len(calls))
			}
			count := map[int]int{}
			for _, call := range calls {
				if call.Bad != "" {
					fail("secondary-malformed", "round at step %d: secondary beacon node %d: %s", i, n, call.Bad)
				}
				for _, g := range call.Regs {
					v, known := keyOfPub[g.Pubkey]
					if known && v < maxValidators && due[v] && res[v].Unresolvable {
						continue
					}
					if !known || v >= maxValidators || !due[v] || len(res[v].Relays) == 0 {
						fail("secondary-unexpected-registration", "round at step %d: secondary beacon node %d received a registration for %s, which is not an active validator with relays", i, n, short(g.Pubkey[:]))
						continue
					}
					count[v]++
					match := false
					for _, rs := range res[v].Relays {
						if rs.FR == g.FR && rs.Gas == g.Gas {
							match = true
						}
					}
					if !match {
						fail("secondary-wrong-content", "round at step %d: secondary beacon node %d, validator %d: content (%s, %d) is not what is resolved for any of its relays", i, n, v, shortFR(g.FR), g.Gas)
					}
					if !sigValid(g, v) {
						fail("secondary-bad-signature", "round at step %d: secondary beacon node %d, validator %d: signature does not verify", i, n, v)
					}
				}
			}
			for v := range due {
				if len(res[v].Relays) == 0 {
					continue
				}
				if count[v] < need[v] && !signFailed[v] {
					fail(stopped("registrations", "secondary-missing-registration"), "round at step %d: secondary beacon node %d received no registration for validator %d", i, n, v)
				}
				if count[v] > most[v] {
					fail("secondary-duplicate-registration", "round at step %d: secondary beacon node %d received %d registrations for validator %d", i, n, count[v], v)
				}
			}
		}

		// proposal preparations
		if hasRes {
			for n, pn := range w.preps {
				var calls []prepCall
				refused := ""
				for _, call := range pn.take() {
					if call.Step == i {
						if call.Refused != "" {
							refused = " (it was called on a context that had already ended: " + call.Refused + ")"
							continue
						}
						calls = append(calls, call)
					}
				}
				if len(calls) == 0 {
					fail(stopped("preparations", "prep-node-not-called"), "round at step %d: beacon node %d (mode %q) received no proposal preparations%s; node masks %v, end of epoch %q", i, n, at(s.PrepFail, n), refused, s.PrepFail, s.Boundary)
					continue
				}
				if len(calls) > 1 {
					fail("prep-duplicate-call", "round at step %d: beacon node %d received %d preparation submissions", i, n, len(calls))
				}
				got := map[uint64][]obsPrep{}
				for _, call := range calls {
					if call.Bad != "" {
						fail("preparation-malformed", "round at step %d: beacon node %d: %s", i, n, call.Bad)
					}
					for _, p := range call.Preps {
						got[p.Index] = append(got[p.Index], p)
					}
				}
				for v := range active {
					idx := c.Validators[v].Index
					ps := got[idx]
					delete(got, idx)
					if res[v].Unresolvable {
						continue
					}
					switch {
					case len(ps) == 0:
						fail(stopped("preparations", "preparation-missing"), "round at step %d (epoch %d): beacon node %d received no preparation for validator %d (index %d), active in epoch %d", i, s.Epoch, n, v, idx, s.Epoch+1)
					case len(ps) > 1:
						fail("preparation-duplicate", "round at step %d: beacon node %d received %d preparations for validator index %d", i, n, len(ps), idx)
					case ps[0].FR != res[v].FR:
						fail("preparation-wrong-fee-recipient", "round at step %d: beacon node %d, validator %d: fee recipient %s prepared, resolved settings say %s", i, n, v, shortFR(ps[0].FR), shortFR(res[v].FR))
					}
				}
				for idx := range got {
					fail("preparation-unexpected", "round at step %d: beacon node %d received a preparation for validator index %d, which is not active in epoch %d", i, n, idx, s.Epoch+1)
				}
			}
		}
	}
	sort.SliceStable(out, func(a, b int) bool { return out[a].sig < out[b].sig })
	return out, st
}

// ---------------------------------------------------------------------------

func check(t ev.TB, c *Case) {
	if err := validate(c); err != nil {
		t.Fatalf("harness problem: invalid case: %v", err)
	}
	w, err := run(c)
	if err != nil {
		t.Fatalf("harness problem: %v", err)
	}
	verdicts, st := judge(c, w)
	nontrivial := st.changeRounds >= 1 || st.failMask || st.earlyThenNormal || st.overlapReached
	var labels []string
	add := func(b bool, l string) {
		if b {
			labels = append(labels, l)
		}
	}
	add(st.changeRounds >= 1, "content-change-between-rounds")
	add(st.changeRounds >= 2, "content-changes>=2")
	add(st.abaRounds >= 1, "content-returns-to-earlier-value")
	add(st.reuse, "signed-registration-reused")
	add(st.multiContent, "validator-with-different-content-per-relay")
	add(st.relayFail, "relay-failure")
	add(st.secFail, "secondary-node-failure")
	add(st.prepFail, "preparation-node-failure")
	add(st.nearBoundary, "preparations-updated-at-end-of-epoch")
	add(st.slowNearBoundary, "slow-working-node-before-others-at-end-of-epoch")
	add(st.signFail, "signing-failure")
	add(st.activationEdge, "validator-activating-next-epoch")
	add(st.exitEdge, "validator-exiting-next-epoch")
	add(st.inactiveSeen, "inactive-validator-present")
	add(st.emptyRound, "round-without-active-validators")
	add(st.providerErr, "round-with-accounts-provider-error")
	add(st.earlyThenNormal, "early-return-round-followed-by-normal-round")
	add(st.direct, "round-through-exported-SubmitValidatorRegistrations")
	add(st.overlap, "overlap-step")
	add(st.overlapReached, "exported-call-while-scheduled-round-in-flight")
	add(st.overlapReached && st.overlapOtherSet, "overlapping-call-names-validators-outside-the-round")
	add(st.legacy, "legacy-config")
	add(st.unresolvableNextToOthers, "unresolvable-validator-next-to-resolvable-ones")
	add(st.fetchFail, "config-fetch-failure")
	add(st.restForward, "rest-foreign-forwarded")
	add(st.restDrop, "rest-controlled-dropped")
	add(st.rounds >= 3, "rounds>=3")
	kindsSeen := map[string]bool{}
	for _, v := range c.Validators {
		kindsSeen[v.Kind] = true
	}
	for k := range kindsSeen {
		labels = append(labels, "account-"+k)
	}
	sort.Strings(labels)
	ev.Case(nontrivial, ev.Hash(c), labels...)
	ev.LabelN("registrations-verified", int64(st.regsChecked))
	if nontrivial {
		ev.Sample(c)
	}
	for _, v := range verdicts {
		ev.Violation(t, v.sig, c, "%s", v.detail)
	}
}

func TestRegistrationHistories(t *testing.T) {
	rapid.Check(t, func(t *rapid.T) {
		c := genCase(t)
		check(t, &c)
	})
}

// TestReplay re-executes a saved case without the property library.
func TestReplay(t *testing.T) {
	f := ev.ReplayFile()
	if f == "" {
		t.Skip("no replay file")
	}
	var c Case
	if _, err := ev.LoadCase(f, &c); err != nil {
		t.Fatalf("cannot load %s: %v", f, err)
	}
	check(t, &c)
	ev.ReplayPassed()
}
