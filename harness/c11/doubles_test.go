package c11

// Scripted, recording doubles used by C11: accounts of several kinds around real
// BLS keys, HTTP relays, beacon nodes, the config source and the small
// providers the services want at construction.

import (
	"context"
	"crypto/sha256"
	"encoding/json"
	"errors"
	"fmt"
	"io"
	"net/http"
	"net/http/httptest"
	"sync"
	"time"

	"github.com/attestantio/go-block-relay/services/blockauctioneer"
	eth2client "github.com/attestantio/go-eth2-client"
	"github.com/attestantio/go-eth2-client/api"
	apiv1 "github.com/attestantio/go-eth2-client/api/v1"
	"github.com/attestantio/go-eth2-client/spec/phase0"
	"github.com/attestantio/vouch/services/beaconblockproposer"
	"github.com/attestantio/vouch/services/blockrelay"
	"github.com/google/uuid"
	e2types "github.com/wealdtech/go-eth2-types/v2"
	e2wallet "github.com/wealdtech/go-eth2-wallet"
	keystorev4 "github.com/wealdtech/go-eth2-wallet-encryptor-keystorev4"
	nd "github.com/wealdtech/go-eth2-wallet-nd/v2"
	scratch "github.com/wealdtech/go-eth2-wallet-store-scratch"
	e2wtypes "github.com/wealdtech/go-eth2-wallet-types/v2"
)

// ---------------------------------------------------------------------------
// Keys (process-wide; derived from fixed strings, no randomness).

const (
	maxValidators = 6
	nStrangers    = 2
	nShareKeys    = 2
	nKeys         = maxValidators + nStrangers + nShareKeys
)

var (
	keysOnce sync.Once
	keyPool  []*e2types.BLSPrivateKey
	pubPool  [][48]byte

	ndMu       sync.Mutex
	ndWallet   e2wtypes.Wallet
	ndAccounts = map[int]e2wtypes.Account{}
)

func initKeys() {
	keysOnce.Do(func() {
		if err := e2types.InitBLS(); err != nil {
			panic(err)
		}
		for i := 0; i < nKeys; i++ {
			h := sha256.Sum256([]byte(fmt.Sprintf("verif-c11-key-%d", i)))
			h[0] = 0 // below the group order
			k, err := e2types.BLSPrivateKeyFromBytes(h[:])
			if err != nil {
				panic(err)
			}
			keyPool = append(keyPool, k)
			var pk [48]byte
			copy(pk[:], k.PublicKey().Marshal())
			pubPool = append(pubPool, pk)
		}
	})
}

const ndWalletName = "NDW"

// ndAccount returns a real, unlocked non-deterministic wallet account holding
// key i (created once per process: keystore encryption is slow).
func ndAccount(i int) (e2wtypes.Account, error) {
	ndMu.Lock()
	defer ndMu.Unlock()
	if a, ok := ndAccounts[i]; ok {
		return a, nil
	}
	ctx := context.Background()
	if ndWallet == nil {
		store := scratch.New()
		if err := e2wallet.UseStore(store); err != nil {
			return nil, err
		}
		w, err := nd.CreateWallet(ctx, ndWalletName, store, keystorev4.New())
		if err != nil {
			return nil, err
		}
		if err := w.(e2wtypes.WalletLocker).Unlock(ctx, nil); err != nil {
			return nil, err
		}
		ndWallet = w
	}
	a, err := ndWallet.(e2wtypes.WalletAccountImporter).ImportAccount(ctx, acctName(i), keyPool[i].Marshal(), []byte("pass"))
	if err != nil {
		return nil, err
	}
	if err := a.(e2wtypes.AccountLocker).Unlock(ctx, []byte("pass")); err != nil {
		return nil, err
	}
	ndAccounts[i] = a
	return a, nil
}

func acctName(i int) string { return fmt.Sprintf("A%d", i) }

// ---------------------------------------------------------------------------
// Accounts.

type walletD struct {
	id   uuid.UUID
	name string
}

func (w *walletD) ID() uuid.UUID { return w.id }
func (w *walletD) Type() string  { return "double" }
func (w *walletD) Name() string  { return w.name }
func (w *walletD) Version() uint { return 1 }
func (w *walletD) Accounts(context.Context) <-chan e2wtypes.Account {
	ch := make(chan e2wtypes.Account)
	close(ch)
	return ch
}

// signRec is one signing request seen by an account.
type signRec struct {
	Step int
	V    int
	Root [32]byte // the signing root that was (or would have been) signed
	OK   bool
}

type baseAcct struct {
	w    *world
	vi   int
	id   uuid.UUID
	name string
	wal  *walletD
	key  *e2types.BLSPrivateKey
	pub  e2types.PublicKey
}

func (a *baseAcct) ID() uuid.UUID                { return a.id }
func (a *baseAcct) Name() string                 { return a.name }
func (a *baseAcct) PublicKey() e2types.PublicKey { return a.pub }
func (a *baseAcct) Wallet() e2wtypes.Wallet      { return a.wal }

// admit logs a signing request and says whether the failure mask lets it through.
func (a *baseAcct) admit(root [32]byte) bool {
	a.w.mu.Lock()
	defer a.w.mu.Unlock()
	n := a.w.signSeen[a.vi]
	a.w.signSeen[a.vi] = n + 1
	ok := true
	switch a.w.signFail[a.vi] {
	case 1:
		ok = false
	case 2:
		ok = n != 0
	}
	a.w.signLog = append(a.w.signLog, signRec{Step: a.w.step, V: a.vi, Root: root, OK: ok})
	return ok
}

var errSign = errors.New("scripted signing failure")

// plainAcct signs a signing root directly (AccountSigner); with real != nil the
// signature is produced by a real wallet account.
type plainAcct struct {
	baseAcct
	real e2wtypes.AccountSigner
}

func (a *plainAcct) Sign(ctx context.Context, data []byte) (e2types.Signature, error) {
	if len(data) != 32 {
		return nil, fmt.Errorf("plain account asked to sign %d bytes", len(data))
	}
	var root [32]byte
	copy(root[:], data)
	if !a.admit(root) {
		return nil, errSign
	}
	if a.real != nil {
		return a.real.Sign(ctx, data)
	}
	return a.key.Sign(data), nil
}

// protAcct is a slashing-protecting remote signer (AccountProtectingSigner): it is
// handed the object root and the domain and derives the signing root itself.
type protAcct struct{ baseAcct }

func (a *protAcct) SignGeneric(_ context.Context, data []byte, domain []byte) (e2types.Signature, error) {
	if len(data) != 32 || len(domain) != 32 {
		return nil, fmt.Errorf("protecting account asked to sign %d bytes with a %d byte domain", len(data), len(domain))
	}
	var o, d [32]byte
	copy(o[:], data)
	copy(d[:], domain)
	root := signingRoot(o, d)
	if !a.admit(root) {
		return nil, errSign
	}
	return a.key.Sign(root[:]), nil
}

func (*protAcct) SignBeaconProposal(context.Context, uint64, uint64, []byte, []byte, []byte, []byte) (e2types.Signature, error) {
	return nil, errors.New("not part of this check")
}

func (*protAcct) SignBeaconAttestation(context.Context, uint64, uint64, []byte, uint64, []byte, uint64, []byte, []byte) (e2types.Signature, error) {
	return nil, errors.New("not part of this check")
}

// multiAcct additionally offers the multi-sign calls (Dirk-like).
type multiAcct struct{ protAcct }

func (*multiAcct) SignBeaconAttestations(context.Context, uint64, []e2wtypes.Account, []uint64, []byte, uint64, []byte, uint64, []byte, []byte) ([]e2types.Signature, error) {
	return nil, errors.New("not part of this check")
}

func (*multiAcct) SignGenericMulti(ctx context.Context, accounts []e2wtypes.Account, data [][]byte, domain []byte) ([]e2types.Signature, error) {
	res := make([]e2types.Signature, len(accounts))
	for i := range accounts {
		if s, ok := accounts[i].(e2wtypes.AccountProtectingSigner); ok {
			sig, err := s.SignGeneric(ctx, data[i], domain)
			if err == nil {
				res[i] = sig
			}
		}
	}
	return res, nil
}

// distAcct is a distributed account: PublicKey() is the key share's, the
// validator is identified by CompositePublicKey(), and (as with Dirk's threshold
// signing) the signature returned is the recombined one, valid under the
// composite key.
type distAcct struct {
	multiAcct
	composite e2types.PublicKey
}

func (a *distAcct) CompositePublicKey() e2types.PublicKey { return a.composite }
func (*distAcct) SigningThreshold() uint32                { return 2 }
func (*distAcct) Participants() map[uint64]string {
	return map[uint64]string{1: "signer-1:9091", 2: "signer-2:9091", 3: "signer-3:9091"}
}

// ---------------------------------------------------------------------------
// Relay double: an HTTP server speaking POST /eth/v1/builder/validators.

type relayReq struct {
	Step   int
	Method string
	Path   string
	Body   []byte
}

type relayDouble struct {
	srv  *httptest.Server
	mu   sync.Mutex
	w    *world
	idx  int
	mode string
	reqs []relayReq
	wg   sync.WaitGroup

	// hold: the next request is kept waiting (after it has been read and recorded)
	// until the harness releases it; arrived is closed when that request is being held.
	hold    bool
	arrived chan struct{}
	release chan struct{}
}

// armHold makes the relay hold its next request.
func (r *relayDouble) armHold() (arrived <-chan struct{}) {
	r.mu.Lock()
	defer r.mu.Unlock()
	r.hold = true
	r.arrived = make(chan struct{})
	r.release = make(chan struct{})
	return r.arrived
}

// releaseHold lets a held request go and disarms the hold.
func (r *relayDouble) releaseHold() {
	r.mu.Lock()
	defer r.mu.Unlock()
	r.hold = false
	if r.release != nil {
		close(r.release)
		r.release = nil
	}
}

var (
	relayPoolMu sync.Mutex
	relayPool   []*relayDouble
)

// relays returns n process-wide relay servers, reset for world w.  They are kept
// across cases because util.FetchBuilderClient caches its HTTP clients by address
// for the life of the process.
func relays(n int, w *world) []*relayDouble {
	relayPoolMu.Lock()
	defer relayPoolMu.Unlock()
	for len(relayPool) < n {
		r := &relayDouble{idx: len(relayPool)}
		r.srv = httptest.NewServer(http.HandlerFunc(r.handle))
		relayPool = append(relayPool, r)
	}
	res := relayPool[:n]
	for _, r := range res {
		r.wg.Wait()
		r.mu.Lock()
		r.w = w
		r.mode = ""
		r.reqs = nil
		r.hold = false
		r.release = nil
		r.mu.Unlock()
	}
	return res
}

func (r *relayDouble) setMode(m string) {
	r.mu.Lock()
	r.mode = m
	r.mu.Unlock()
}

func (r *relayDouble) handle(rw http.ResponseWriter, req *http.Request) {
	r.wg.Add(1)
	defer r.wg.Done()
	body, _ := io.ReadAll(req.Body)
	r.mu.Lock()
	mode := r.mode
	step := -1
	if r.w != nil {
		step = r.w.curStep()
	}
	r.reqs = append(r.reqs, relayReq{Step: step, Method: req.Method, Path: req.URL.Path, Body: body})
	var release chan struct{}
	if r.hold {
		r.hold = false // only this request
		release = r.release
		close(r.arrived)
	}
	r.mu.Unlock()
	if release != nil {
		select {
		case <-release:
		case <-req.Context().Done():
		}
	}
	switch mode {
	case "500":
		rw.Header().Set("Content-Type", "application/json")
		rw.WriteHeader(http.StatusInternalServerError)
		_, _ = rw.Write([]byte(`{"code":500,"message":"scripted failure"}`))
	case "400":
		rw.Header().Set("Content-Type", "application/json")
		rw.WriteHeader(http.StatusBadRequest)
		_, _ = rw.Write([]byte(`{"code":400,"message":"scripted rejection"}`))
	case "drop":
		// hang for a while (well inside the client's timeout), then drop the connection
		_ = pause(req.Context(), 60*time.Millisecond)
		if hj, ok := rw.(http.Hijacker); ok {
			if conn, _, err := hj.Hijack(); err == nil {
				_ = conn.Close()
				return
			}
		}
		rw.WriteHeader(http.StatusBadGateway)
	case "slow":
		_ = pause(req.Context(), 60*time.Millisecond)
		fallthrough
	default:
		rw.Header().Set("Content-Type", "application/json")
		rw.WriteHeader(http.StatusOK)
		_, _ = rw.Write([]byte(`{}`))
	}
}

func (r *relayDouble) take() []relayReq {
	r.mu.Lock()
	defer r.mu.Unlock()
	return append([]relayReq(nil), r.reqs...)
}

// wireReg is a signed registration as it appears on the wire (builder API JSON).
type wireReg struct {
	Message *struct {
		FeeRecipient string `json:"fee_recipient"`
		GasLimit     string `json:"gas_limit"`
		Timestamp    string `json:"timestamp"`
		Pubkey       string `json:"pubkey"`
	} `json:"message"`
	Signature string `json:"signature"`
}

func parseWire(body []byte) ([]wireReg, error) {
	var regs []wireReg
	if err := json.Unmarshal(body, &regs); err != nil {
		return nil, err
	}
	return regs, nil
}

// ---------------------------------------------------------------------------
// Beacon node doubles.

// obsReg is a registration as observed by a double, in canonical form.
type obsReg struct {
	FR        [20]byte
	Gas       uint64
	Timestamp uint64
	Pubkey    [48]byte
	Sig       [96]byte
}

type nodeBase struct {
	w    *world
	name string
	mu   sync.Mutex
	mode string
}

func (n *nodeBase) Name() string    { return n.name }
func (n *nodeBase) Address() string { return n.name + ":5052" }
func (n *nodeBase) IsActive() bool  { return true }
func (n *nodeBase) IsSynced() bool  { return true }
func (n *nodeBase) setMode(m string) {
	n.mu.Lock()
	n.mode = m
	n.mu.Unlock()
}

// pause is a scripted delay that ends early, with the context's error, when the
// caller's context ends - as the real HTTP clients behave.
func pause(ctx context.Context, d time.Duration) error {
	t := time.NewTimer(d)
	defer t.Stop()
	select {
	case <-t.C:
		return nil
	case <-ctx.Done():
		return ctx.Err()
	}
}

type secCall struct {
	Step int
	Regs []obsReg
	Bad  string // non-empty: something a well-formed call cannot contain
	// Refused: the call arrived on a context that had already ended; like a real
	// client the double refuses it and the node receives nothing.
	Refused string
}

// secNode is a secondary beacon node accepting validator registrations.
type secNode struct {
	nodeBase
	calls []secCall
}

func (n *secNode) SubmitValidatorRegistrations(ctx context.Context, regs []*api.VersionedSignedValidatorRegistration) error {
	call := secCall{Step: n.w.curStep()}
	if err := ctx.Err(); err != nil {
		call.Refused = err.Error()
		n.mu.Lock()
		n.calls = append(n.calls, call)
		n.mu.Unlock()
		return err
	}
	for _, r := range regs {
		if r == nil || r.V1 == nil || r.V1.Message == nil {
			call.Bad = "nil registration"
			continue
		}
		call.Regs = append(call.Regs, obsReg{
			FR:        r.V1.Message.FeeRecipient,
			Gas:       r.V1.Message.GasLimit,
			Timestamp: uint64(r.V1.Message.Timestamp.Unix()),
			Pubkey:    r.V1.Message.Pubkey,
			Sig:       r.V1.Signature,
		})
	}
	n.mu.Lock()
	mode := n.mode
	n.calls = append(n.calls, call)
	n.mu.Unlock()
	switch mode {
	case "error":
		return errors.New("scripted beacon node failure")
	case "slow":
		return pause(ctx, 40*time.Millisecond)
	}
	return nil
}

// slowPrepNode is how long a slow-but-working beacon node takes.
const slowPrepNode = 150 * time.Millisecond

type obsPrep struct {
	Index uint64
	FR    [20]byte
}

type prepCall struct {
	Step    int
	Preps   []obsPrep
	Bad     string
	Refused string // see secCall
}

// prepNode is a beacon node accepting proposal preparations.
type prepNode struct {
	nodeBase
	calls []prepCall
}

func (n *prepNode) SubmitProposalPreparations(ctx context.Context, preps []*apiv1.ProposalPreparation) error {
	call := prepCall{Step: n.w.curStep()}
	if err := ctx.Err(); err != nil {
		call.Refused = err.Error()
		n.mu.Lock()
		n.calls = append(n.calls, call)
		n.mu.Unlock()
		return err
	}
	for _, p := range preps {
		if p == nil {
			call.Bad = "nil preparation"
			continue
		}
		call.Preps = append(call.Preps, obsPrep{Index: uint64(p.ValidatorIndex), FR: p.FeeRecipient})
	}
	n.mu.Lock()
	mode := n.mode
	n.calls = append(n.calls, call)
	n.mu.Unlock()
	switch mode {
	case "error":
		return errors.New("scripted beacon node failure")
	case "notactive":
		return fmt.Errorf("node is syncing: %w", eth2client.ErrNotActive)
	case "slow":
		// slow but working: the preparations are accepted after a while
		return pause(ctx, slowPrepNode)
	}
	return nil
}

func (n *prepNode) take() []prepCall {
	n.mu.Lock()
	defer n.mu.Unlock()
	return append([]prepCall(nil), n.calls...)
}

func (n *secNode) take() []secCall {
	n.mu.Lock()
	defer n.mu.Unlock()
	return append([]secCall(nil), n.calls...)
}

// ---------------------------------------------------------------------------
// Config source.

type fetchRec struct {
	Step int
	Key  string
	Kind string // doc | error | malformed
	Doc  int
}

type majordomoD struct {
	w   *world
	mu  sync.Mutex
	src Source
	log []fetchRec
}

func (m *majordomoD) set(s Source) {
	m.mu.Lock()
	m.src = s
	m.mu.Unlock()
}

var malformedDocs = []string{
	`this is not JSON`,
	`{"version":3}`,
	`{"version":2,"fee_recipient":"0x1234"}`,
	`{"version":2,"proposers":[{"fee_recipient":"0x1111111111111111111111111111111111111111"}]}`,
	`[]`,
}

func (m *majordomoD) Fetch(_ context.Context, key string) ([]byte, error) {
	m.mu.Lock()
	defer m.mu.Unlock()
	rec := fetchRec{Step: m.w.curStep(), Key: key, Kind: m.src.Kind, Doc: m.src.Doc}
	m.log = append(m.log, rec)
	switch m.src.Kind {
	case "doc":
		return []byte(m.w.render(&m.w.c.Docs[m.src.Doc])), nil
	case "malformed":
		return []byte(malformedDocs[m.src.Doc%len(malformedDocs)]), nil
	default:
		return nil, errors.New("scripted config source failure")
	}
}

func (m *majordomoD) take() []fetchRec {
	m.mu.Lock()
	defer m.mu.Unlock()
	return append([]fetchRec(nil), m.log...)
}

// ---------------------------------------------------------------------------
// Small providers.

// accountsD is the validating-accounts provider: a validator is active in
// [Activation, Exit).
type accountsD struct {
	w     *world
	mu    sync.Mutex
	calls []uint64 // epochs asked for
	fail  bool
}

func (a *accountsD) setFail(f bool) {
	a.mu.Lock()
	a.fail = f
	a.mu.Unlock()
}

func (a *accountsD) active(epoch uint64) map[phase0.ValidatorIndex]e2wtypes.Account {
	res := map[phase0.ValidatorIndex]e2wtypes.Account{}
	for i, v := range a.w.c.Validators {
		if v.Activation <= epoch && epoch < v.Exit {
			res[phase0.ValidatorIndex(v.Index)] = a.w.accounts[i]
		}
	}
	return res
}

func (a *accountsD) ValidatingAccountsForEpoch(_ context.Context, epoch phase0.Epoch) (map[phase0.ValidatorIndex]e2wtypes.Account, error) {
	a.mu.Lock()
	a.calls = append(a.calls, uint64(epoch))
	fail := a.fail
	a.mu.Unlock()
	if fail {
		return nil, errors.New("scripted accounts provider failure")
	}
	return a.active(uint64(epoch)), nil
}

func (a *accountsD) ValidatingAccountsForEpochByIndex(ctx context.Context, epoch phase0.Epoch, indices []phase0.ValidatorIndex) (map[phase0.ValidatorIndex]e2wtypes.Account, error) {
	all, err := a.ValidatingAccountsForEpoch(ctx, epoch)
	if err != nil {
		return nil, err
	}
	res := map[phase0.ValidatorIndex]e2wtypes.Account{}
	for _, i := range indices {
		if acc, ok := all[i]; ok {
			res[i] = acc
		}
	}
	return res, nil
}

func (a *accountsD) SyncCommitteeAccountsForEpoch(ctx context.Context, epoch phase0.Epoch) (map[phase0.ValidatorIndex]e2wtypes.Account, error) {
	return a.ValidatingAccountsForEpoch(ctx, epoch)
}

func (a *accountsD) SyncCommitteeAccountsForEpochByIndex(ctx context.Context, epoch phase0.Epoch, indices []phase0.ValidatorIndex) (map[phase0.ValidatorIndex]e2wtypes.Account, error) {
	return a.ValidatingAccountsForEpochByIndex(ctx, epoch, indices)
}

func (a *accountsD) AccountByPublicKey(_ context.Context, pubkey phase0.BLSPubKey) (e2wtypes.Account, error) {
	for i := range a.w.c.Validators {
		if pubPool[i] == [48]byte(pubkey) {
			return a.w.accounts[i], nil
		}
	}
	return nil, errors.New("not found")
}

func (a *accountsD) nCalls() int {
	a.mu.Lock()
	defer a.mu.Unlock()
	return len(a.calls)
}

func (a *accountsD) Validators(context.Context, *api.ValidatorsOpts) (*api.Response[map[phase0.ValidatorIndex]*apiv1.Validator], error) {
	return &api.Response[map[phase0.ValidatorIndex]*apiv1.Validator]{Data: map[phase0.ValidatorIndex]*apiv1.Validator{}, Metadata: map[string]any{}}, nil
}

// chain constants of the doubles: the genesis fork version differs from the
// current one and the genesis validators root is not zero, so that a signature
// made over any domain other than the builder's does not verify.
var (
	genesisForkVersion    = [4]byte{0x00, 0x00, 0x10, 0x20}
	currentForkVersion    = [4]byte{0x04, 0x00, 0x10, 0x20}
	genesisValidatorsRoot = [32]byte{0x4b, 0x36, 0x3d, 0xb9, 0x4e, 0x28, 0x61, 0x20}
)

type chainD struct{}

func (chainD) Spec(context.Context, *api.SpecOpts) (*api.Response[map[string]any], error) {
	return &api.Response[map[string]any]{Data: map[string]any{
		"SLOTS_PER_EPOCH":                       uint64(32),
		"DOMAIN_BEACON_PROPOSER":                phase0.DomainType{0x00, 0x00, 0x00, 0x00},
		"DOMAIN_BEACON_ATTESTER":                phase0.DomainType{0x01, 0x00, 0x00, 0x00},
		"DOMAIN_RANDAO":                         phase0.DomainType{0x02, 0x00, 0x00, 0x00},
		"DOMAIN_DEPOSIT":                        phase0.DomainType{0x03, 0x00, 0x00, 0x00},
		"DOMAIN_VOLUNTARY_EXIT":                 phase0.DomainType{0x04, 0x00, 0x00, 0x00},
		"DOMAIN_SELECTION_PROOF":                phase0.DomainType{0x05, 0x00, 0x00, 0x00},
		"DOMAIN_AGGREGATE_AND_PROOF":            phase0.DomainType{0x06, 0x00, 0x00, 0x00},
		"DOMAIN_SYNC_COMMITTEE":                 phase0.DomainType{0x07, 0x00, 0x00, 0x00},
		"DOMAIN_SYNC_COMMITTEE_SELECTION_PROOF": phase0.DomainType{0x08, 0x00, 0x00, 0x00},
		"DOMAIN_CONTRIBUTION_AND_PROOF":         phase0.DomainType{0x09, 0x00, 0x00, 0x00},
		"DOMAIN_BLOB_SIDECAR":                   phase0.DomainType{0x0b, 0x00, 0x00, 0x00},
		"DOMAIN_APPLICATION_MASK":               phase0.DomainType{0x00, 0x00, 0x00, 0x01},
		"DOMAIN_APPLICATION_BUILDER":            phase0.DomainType{0x00, 0x00, 0x00, 0x01},
	}, Metadata: map[string]any{}}, nil
}

// domainFor mirrors what a beacon-node client answers: application domains do
// not mix in the genesis validators root, all others do.
func domainFor(domainType phase0.DomainType, version [4]byte) phase0.Domain {
	gvr := genesisValidatorsRoot
	if domainType == (phase0.DomainType{0x00, 0x00, 0x00, 0x01}) {
		gvr = [32]byte{}
	}
	return phase0.Domain(computeDomain([4]byte(domainType), version, gvr))
}

func (chainD) Domain(_ context.Context, domainType phase0.DomainType, _ phase0.Epoch) (phase0.Domain, error) {
	return domainFor(domainType, currentForkVersion), nil
}

func (chainD) GenesisDomain(_ context.Context, domainType phase0.DomainType) (phase0.Domain, error) {
	return domainFor(domainType, genesisForkVersion), nil
}

type noBids struct{}

func (noBids) BuilderBid(context.Context, phase0.Slot, phase0.Hash32, phase0.BLSPubKey, *beaconblockproposer.ProposerConfig, map[phase0.BLSPubKey]*blockrelay.BuilderConfig) (*blockauctioneer.Results, error) {
	return nil, errors.New("not part of this check")
}
