package c11

// Reference models for C11, written from the consensus/builder specs and from
// /repo/docs/executionconfig.md + docs/execlayer.md.  Nothing here imports a
// vouch package.

import (
	"crypto/sha256"
	"encoding/binary"
	"regexp"
	"strings"
)

// ---------------------------------------------------------------------------
// SSZ for the three fixed containers needed (all leaves are basic/fixed types).

func hash2(a, b [32]byte) [32]byte {
	var buf [64]byte
	copy(buf[:32], a[:])
	copy(buf[32:], b[:])
	return sha256.Sum256(buf[:])
}

func chunkU64(v uint64) [32]byte {
	var c [32]byte
	binary.LittleEndian.PutUint64(c[:8], v)
	return c
}

// pubkeyRoot: Bytes48 = two chunks (32 + 16 zero padded) merkleised.
func pubkeyRoot(pk [48]byte) [32]byte {
	var a, b [32]byte
	copy(a[:], pk[:32])
	copy(b[:], pk[32:])
	return hash2(a, b)
}

// registrationRoot is hash_tree_root(ValidatorRegistrationV1{fee_recipient,
// gas_limit, timestamp, pubkey}).
func registrationRoot(fr [20]byte, gas uint64, timestamp uint64, pk [48]byte) [32]byte {
	var l0 [32]byte
	copy(l0[:], fr[:])
	return hash2(hash2(l0, chunkU64(gas)), hash2(chunkU64(timestamp), pubkeyRoot(pk)))
}

// computeDomain is compute_domain(domain_type, fork_version, genesis_validators_root).
func computeDomain(domainType [4]byte, forkVersion [4]byte, genesisValidatorsRoot [32]byte) [32]byte {
	var v [32]byte
	copy(v[:], forkVersion[:])
	forkDataRoot := hash2(v, genesisValidatorsRoot)
	var d [32]byte
	copy(d[:4], domainType[:])
	copy(d[4:], forkDataRoot[:28])
	return d
}

// signingRoot is compute_signing_root(object_root, domain).
func signingRoot(objectRoot [32]byte, domain [32]byte) [32]byte {
	return hash2(objectRoot, domain)
}

var domainApplicationBuilder = [4]byte{0x00, 0x00, 0x00, 0x01}

// builderSigningRoot is what a validator has to sign for a registration
// (builder spec: DOMAIN_APPLICATION_BUILDER, genesis fork version, zero
// genesis validators root).
func builderSigningRoot(fr [20]byte, gas uint64, timestamp uint64, pk [48]byte, genesisForkVersion [4]byte) [32]byte {
	return signingRoot(registrationRoot(fr, gas, timestamp, pk), computeDomain(domainApplicationBuilder, genesisForkVersion, [32]byte{}))
}

// ---------------------------------------------------------------------------
// Execution configuration documents (the subset the generator produces) and
// their resolution.

// DocRelay is a top-level relay entry.
type DocRelay struct {
	Relay int     `json:"relay"`
	FR    *int    `json:"fr,omitempty"`
	Gas   *uint64 `json:"gas,omitempty"`
}

// DocPRelay is a relay entry inside a proposer entry.
type DocPRelay struct {
	Relay    int     `json:"relay"`
	Disabled bool    `json:"disabled,omitempty"`
	FR       *int    `json:"fr,omitempty"`
	Gas      *uint64 `json:"gas,omitempty"`
}

// DocProposer is a proposer entry: by key (index into the key universe:
// validators first, then strangers) or by account specifier.
type DocProposer struct {
	Zero    bool        `json:"zero,omitempty"` // proposer given as the all-zero public key: parses, names nobody
	Key     *int        `json:"key,omitempty"`
	Account string      `json:"account,omitempty"`
	FR      *int        `json:"fr,omitempty"`
	Gas     *uint64     `json:"gas,omitempty"`
	Reset   bool        `json:"reset,omitempty"`
	Relays  []DocPRelay `json:"relays,omitempty"`
}

// V1Entry is a version 1 (legacy) proposer/default entry.
type V1Entry struct {
	FR      int     `json:"fr"`
	Gas     *uint64 `json:"gas,omitempty"`
	Enabled bool    `json:"enabled"`
	Relays  []int   `json:"relays"`
}

// V1Proposer is a legacy per-key entry.
type V1Proposer struct {
	Key   int     `json:"key"`
	Entry V1Entry `json:"entry"`
}

// Doc is an execution configuration document.
type Doc struct {
	Version   int           `json:"version"` // 2, or 1 for the legacy format (rendered without a version field)
	FR        *int          `json:"fr,omitempty"`
	Gas       *uint64       `json:"gas,omitempty"`
	Relays    []DocRelay    `json:"relays,omitempty"`
	Proposers []DocProposer `json:"proposers,omitempty"`
	V1Default *V1Entry      `json:"v1_default,omitempty"`
	V1Props   []V1Proposer  `json:"v1_proposers,omitempty"`
}

// relaySetting is the resolved content for one relay.
type relaySetting struct {
	FR  [20]byte
	Gas uint64
}

// resolved is the resolved proposer settings of one validator.
type resolved struct {
	// Unresolvable: the documents give no meaning to an entry whose proposer is
	// neither an account specifier nor a real public key; a validator whose lookup
	// reaches such an entry before any match has no defined settings.
	Unresolvable bool
	FR           [20]byte             // validator-level fee recipient (proposal preparation)
	Relays       map[int]relaySetting // by relay index
}

// identity is who is being resolved: key index and (for accounts vouch holds)
// the "wallet/account" name; Account is "" for a bare public key.
type identity struct {
	Key     int
	Account string
}

func frAddr(id int) [20]byte {
	var a [20]byte
	for i := range a {
		a[i] = byte(id*16 + id)
	}
	a[0] = 0xfe
	a[19] = byte(id)
	return a
}

// specMatches implements "account specifiers are regular expressions with
// implicit start and end anchors".
func specMatches(spec string, account string) bool {
	if account == "" {
		return false
	}
	core := strings.TrimSuffix(strings.TrimPrefix(spec, "^"), "$")
	re, err := regexp.Compile("^(?:" + core + ")$")
	if err != nil {
		return false
	}
	return re.MatchString(account)
}

func firstFR(fallback [20]byte, cands ...*int) [20]byte {
	for _, c := range cands {
		if c != nil {
			return frAddr(*c)
		}
	}
	return fallback
}

func firstGas(fallback uint64, cands ...*uint64) uint64 {
	for _, c := range cands {
		if c != nil {
			return *c
		}
	}
	return fallback
}

// resolve resolves the settings of who under doc (nil doc = no configuration
// obtained yet: fallback values, no relays).
func resolve(doc *Doc, who identity, fallbackFR [20]byte, fallbackGas uint64) resolved {
	res := resolved{FR: fallbackFR, Relays: map[int]relaySetting{}}
	if doc == nil {
		return res
	}
	if doc.Version == 1 {
		entry := doc.V1Default
		for i := range doc.V1Props {
			if doc.V1Props[i].Key == who.Key {
				entry = &doc.V1Props[i].Entry
				break
			}
		}
		if entry == nil {
			return res
		}
		res.FR = frAddr(entry.FR)
		gas := firstGas(fallbackGas, entry.Gas)
		if entry.Enabled {
			for _, r := range entry.Relays {
				res.Relays[r] = relaySetting{FR: res.FR, Gas: gas}
			}
		}
		return res
	}

	// Version 2: first matching proposer entry wins.
	var p *DocProposer
	for i := range doc.Proposers {
		e := &doc.Proposers[i]
		if e.Zero {
			return resolved{Unresolvable: true, Relays: map[int]relaySetting{}}
		}
		if e.Key != nil {
			if *e.Key == who.Key {
				p = e
				break
			}
		} else if specMatches(e.Account, who.Account) {
			p = e
			break
		}
	}
	var pFR *int
	var pGas *uint64
	reset := false
	prelays := map[int]*DocPRelay{}
	if p != nil {
		pFR, pGas, reset = p.FR, p.Gas, p.Reset
		for i := range p.Relays {
			prelays[p.Relays[i].Relay] = &p.Relays[i]
		}
	}
	res.FR = firstFR(fallbackFR, pFR, doc.FR)
	inherited := map[int]bool{}
	if !reset {
		for i := range doc.Relays {
			dr := &doc.Relays[i]
			inherited[dr.Relay] = true
			var prFR *int
			var prGas *uint64
			if pr, ok := prelays[dr.Relay]; ok {
				if pr.Disabled {
					continue
				}
				prFR, prGas = pr.FR, pr.Gas
			}
			res.Relays[dr.Relay] = relaySetting{
				FR:  firstFR(fallbackFR, prFR, pFR, dr.FR, doc.FR),
				Gas: firstGas(fallbackGas, prGas, pGas, dr.Gas, doc.Gas),
			}
		}
	}
	for r, pr := range prelays {
		if inherited[r] || pr.Disabled {
			continue
		}
		res.Relays[r] = relaySetting{
			FR:  firstFR(fallbackFR, pr.FR, pFR, doc.FR),
			Gas: firstGas(fallbackGas, pr.Gas, pGas, doc.Gas),
		}
	}
	return res
}
