package c03world

import (
	"sync"
	"time"
)

// Log is the global, append-only observation log of a world.  It survives
// controller restarts; every entry carries a global sequence number so that the
// order between fetches, scheduler operations and service calls is known.
type Log struct {
	mu      sync.Mutex
	seq     int
	fetches []Fetch
	sched   []SchedOp
	calls   []Call
	heads   []HeadRec
}

// Stamp is the common part of every log entry.
type Stamp struct {
	Seq       int       `json:"seq"`
	Proc      int       `json:"proc"`   // controller process (1, 2, ... ; a restart starts a new one)
	Action    int       `json:"action"` // index of the harness action during which it happened
	Phase     string    `json:"phase"`  // start | advance | head | idle
	ClockSlot uint64    `json:"clock_slot"`
	Now       time.Time `json:"now"` // virtual now
}

// Fetch is one duty request of vouch and what the node double answered.
type Fetch struct {
	Stamp
	Kind    string     `json:"kind"`  // att | prop | sync
	Epoch   uint64     `json:"epoch"` // requested epoch
	// When the request was made (the Stamp says when it was answered; they differ
	// if the node was slow, see Node.Hold).
	ReqSeq       int    `json:"req_seq"`
	ReqAction    int    `json:"req_action"`
	ReqPhase     string `json:"req_phase"`
	ReqClockSlot uint64 `json:"req_clock_slot"`
	Indices []uint64   `json:"indices"`
	Version int        `json:"version"` // table version served
	Err     bool       `json:"err"`
	CtxDone bool       `json:"ctx_done,omitempty"` // failed because the caller's context was done
	Att     []AttDuty  `json:"att,omitempty"`
	Prop    []PropDuty `json:"prop,omitempty"`
	Sync    []SyncDuty `json:"sync,omitempty"`
}

// SchedOp is one call of vouch (or of the harness: fire) on the scheduler.
type SchedOp struct {
	Stamp
	Op   string    `json:"op"` // schedule | schedule-periodic | cancel | cancel-if-exists | cancel-prefix | run | run-if-exists | exists | fire | exec-begin | exec-end
	Name string    `json:"name"`
	Time time.Time `json:"time"`
	Err  string    `json:"err,omitempty"`
	Kind Kind      `json:"kind"`
	Slot uint64    `json:"slot"` // slot (or epoch for prepare-epoch) parsed from the name
}

// AttSnapshot is the content of an attester duty handed to the attester.
type AttSnapshot struct {
	Slot             uint64            `json:"slot"`
	CommitteesAtSlot uint64            `json:"committees_at_slot"`
	Validators       []uint64          `json:"validators"`
	Committees       []uint64          `json:"committees"`
	Positions        []uint64          `json:"positions"`
	Sizes            map[uint64]uint64 `json:"sizes"` // committee index -> size, for the committees above
}

// Call is one invocation of a service double by the controller.
type Call struct {
	Stamp
	Kind       string       `json:"kind"` // attest | propose | propose-prepare | sync-prepare | sync-message | sync-aggregate | att-aggregate | subscribe | sync-subscribe | prepare-proposals | refresh-accounts | block-to-slot
	Slot       uint64       `json:"slot"` // duty slot (epoch for subscribe / sync-subscribe)
	Att        *AttSnapshot `json:"att,omitempty"`
	Validator  uint64       `json:"validator,omitempty"`
	Validators []uint64     `json:"validators,omitempty"` // sorted
	// SyncIndices: validator -> committee positions (sync-prepare / sync-message).
	SyncIndices map[uint64][]uint64 `json:"sync_indices,omitempty"`
	// WithAccount: validators of the duty for which an account was set (sync).
	WithAccount []uint64 `json:"with_account,omitempty"`
	Committee   uint64   `json:"committee,omitempty"`
}

// HeadRec is one head event delivered to the controller.
type HeadRec struct {
	Stamp
	EventSlot uint64   `json:"event_slot"`
	Previous  [32]byte `json:"previous"`
	Current   [32]byte `json:"current"`
	EndSeq    int      `json:"end_seq"` // sequence number when the handler had returned and the world was quiescent
}

func (l *Log) next() int {
	l.seq++
	return l.seq
}

// Seq returns the last sequence number handed out.
func (l *Log) Seq() int {
	l.mu.Lock()
	defer l.mu.Unlock()
	return l.seq
}

// Fetches returns a copy of the fetch log from index i on.
func (l *Log) Fetches(from int) []Fetch {
	l.mu.Lock()
	defer l.mu.Unlock()
	if from > len(l.fetches) {
		from = len(l.fetches)
	}
	return append([]Fetch(nil), l.fetches[from:]...)
}

// SchedOps returns a copy of the scheduler log from index i on.
func (l *Log) SchedOps(from int) []SchedOp {
	l.mu.Lock()
	defer l.mu.Unlock()
	if from > len(l.sched) {
		from = len(l.sched)
	}
	return append([]SchedOp(nil), l.sched[from:]...)
}

// Calls returns a copy of the service call log from index i on.
func (l *Log) Calls(from int) []Call {
	l.mu.Lock()
	defer l.mu.Unlock()
	if from > len(l.calls) {
		from = len(l.calls)
	}
	return append([]Call(nil), l.calls[from:]...)
}

// Heads returns a copy of the head event log.
func (l *Log) Heads() []HeadRec {
	l.mu.Lock()
	defer l.mu.Unlock()
	return append([]HeadRec(nil), l.heads...)
}

// Trim drops everything but the last keep entries of each log (long runs).
func (l *Log) Trim(keep int) {
	l.mu.Lock()
	defer l.mu.Unlock()
	if len(l.fetches) > keep {
		l.fetches = append([]Fetch(nil), l.fetches[len(l.fetches)-keep:]...)
	}
	if len(l.sched) > keep {
		l.sched = append([]SchedOp(nil), l.sched[len(l.sched)-keep:]...)
	}
	if len(l.calls) > keep {
		l.calls = append([]Call(nil), l.calls[len(l.calls)-keep:]...)
	}
	if len(l.heads) > keep {
		l.heads = append([]HeadRec(nil), l.heads[len(l.heads)-keep:]...)
	}
}
