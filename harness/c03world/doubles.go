package c03world

import (
	"context"
	"encoding/binary"
	"errors"
	"sort"
	"sync"

	apiv1 "github.com/attestantio/go-eth2-client/api/v1"
	"github.com/attestantio/go-eth2-client/spec/altair"
	"github.com/attestantio/go-eth2-client/spec/phase0"
	"github.com/attestantio/vouch/services/attestationaggregator"
	"github.com/attestantio/vouch/services/attester"
	"github.com/attestantio/vouch/services/beaconblockproposer"
	"github.com/attestantio/vouch/services/beaconcommitteesubscriber"
	"github.com/attestantio/vouch/services/synccommitteeaggregator"
	"github.com/attestantio/vouch/services/synccommitteemessenger"
	"github.com/google/uuid"
	e2types "github.com/wealdtech/go-eth2-types/v2"
	e2wtypes "github.com/wealdtech/go-eth2-wallet-types/v2"
)

// ---- accounts ----

type fakePubKey struct{ b [48]byte }

func (k *fakePubKey) Marshal() []byte            { return append([]byte(nil), k.b[:]...) }
func (k *fakePubKey) Aggregate(e2types.PublicKey) {}
func (k *fakePubKey) Copy() e2types.PublicKey    { c := *k; return &c }

// Account is a key-less account of a validator index.
type Account struct {
	Index uint64
}

// ID implements e2wtypes.Account.
func (a *Account) ID() uuid.UUID {
	var u uuid.UUID
	binary.LittleEndian.PutUint64(u[:], a.Index)
	u[15] = 1
	return u
}

// Name implements e2wtypes.Account.
func (a *Account) Name() string { return "validator" }

// PublicKey implements e2wtypes.Account.
func (a *Account) PublicKey() e2types.PublicKey { return &fakePubKey{b: PubKeyOf(a.Index)} }

// Accounts implements accountmanager.ValidatingAccountsProvider and Refresher.
type Accounts struct {
	w *World
	// Make creates the account object of a validator (default: key-less Account).
	Make func(index uint64) e2wtypes.Account
	// Active says whether the validator validates in the epoch (default: always).
	Active func(index uint64, epoch uint64) bool
	// SyncEligible likewise for SyncCommitteeAccountsForEpoch (default: Active).
	SyncEligible func(index uint64, epoch uint64) bool

	faultMu   sync.Mutex
	faultN    int
	faultMode string
}

// FailNext scripts the next n calls of ValidatingAccountsForEpoch (what the
// controller asks before it obtains duties): mode "error" makes them fail, mode
// "empty" makes them return no accounts.  n = 0 ends the fault.
func (a *Accounts) FailNext(n int, mode string) {
	a.faultMu.Lock()
	a.faultN, a.faultMode = n, mode
	a.faultMu.Unlock()
}

func (a *Accounts) takeFault() string {
	a.faultMu.Lock()
	defer a.faultMu.Unlock()
	if a.faultN > 0 {
		a.faultN--
		return a.faultMode
	}
	return ""
}

func (a *Accounts) build(epoch phase0.Epoch, filter func(uint64, uint64) bool, only []phase0.ValidatorIndex) map[phase0.ValidatorIndex]e2wtypes.Account {
	var want map[uint64]bool
	if only != nil {
		want, _ = asked(only)
	}
	res := map[phase0.ValidatorIndex]e2wtypes.Account{}
	for _, v := range a.w.P.Validators {
		if want != nil && !want[v] {
			continue
		}
		if filter != nil && !filter(v, uint64(epoch)) {
			continue
		}
		if a.Make != nil {
			res[phase0.ValidatorIndex(v)] = a.Make(v)
		} else {
			res[phase0.ValidatorIndex(v)] = &Account{Index: v}
		}
	}
	return res
}

func (a *Accounts) syncFilter() func(uint64, uint64) bool {
	if a.SyncEligible != nil {
		return a.SyncEligible
	}
	return a.Active
}

// ValidatingAccountsForEpoch implements accountmanager.ValidatingAccountsProvider.
func (a *Accounts) ValidatingAccountsForEpoch(ctx context.Context, epoch phase0.Epoch) (map[phase0.ValidatorIndex]e2wtypes.Account, error) {
	if err := ctx.Err(); err != nil {
		a.w.logCall(Call{Kind: "accounts-context-done", Slot: uint64(epoch)})
		return nil, err
	}
	switch a.takeFault() {
	case "error":
		a.w.logCall(Call{Kind: "accounts-fault", Slot: uint64(epoch)})
		return nil, errors.New("scripted accounts provider failure")
	case "empty":
		a.w.logCall(Call{Kind: "accounts-fault", Slot: uint64(epoch)})
		return map[phase0.ValidatorIndex]e2wtypes.Account{}, nil
	}
	return a.build(epoch, a.Active, nil), nil
}

// ValidatingAccountsForEpochByIndex implements accountmanager.ValidatingAccountsProvider.
func (a *Accounts) ValidatingAccountsForEpochByIndex(ctx context.Context, epoch phase0.Epoch, indices []phase0.ValidatorIndex) (map[phase0.ValidatorIndex]e2wtypes.Account, error) {
	if err := ctx.Err(); err != nil {
		return nil, err
	}
	if indices == nil {
		indices = []phase0.ValidatorIndex{}
	}
	return a.build(epoch, a.Active, indices), nil
}

// SyncCommitteeAccountsForEpoch implements accountmanager.ValidatingAccountsProvider.
func (a *Accounts) SyncCommitteeAccountsForEpoch(ctx context.Context, epoch phase0.Epoch) (map[phase0.ValidatorIndex]e2wtypes.Account, error) {
	if err := ctx.Err(); err != nil {
		return nil, err
	}
	return a.build(epoch, a.syncFilter(), nil), nil
}

// SyncCommitteeAccountsForEpochByIndex implements accountmanager.ValidatingAccountsProvider.
func (a *Accounts) SyncCommitteeAccountsForEpochByIndex(ctx context.Context, epoch phase0.Epoch, indices []phase0.ValidatorIndex) (map[phase0.ValidatorIndex]e2wtypes.Account, error) {
	if err := ctx.Err(); err != nil {
		return nil, err
	}
	if indices == nil {
		indices = []phase0.ValidatorIndex{}
	}
	return a.build(epoch, a.syncFilter(), indices), nil
}

// Refresh implements accountmanager.Refresher.
func (a *Accounts) Refresh(context.Context) {
	a.w.logCall(Call{Kind: "refresh-accounts"})
}

// ---- recording service doubles ----

// SnapshotAttesterDuty copies what an attester duty says.
func SnapshotAttesterDuty(d *attester.Duty) *AttSnapshot {
	s := &AttSnapshot{Slot: uint64(d.Slot()), CommitteesAtSlot: d.CommitteesAtSlot(), Sizes: map[uint64]uint64{}}
	for _, v := range d.ValidatorIndices() {
		s.Validators = append(s.Validators, uint64(v))
	}
	for _, c := range d.CommitteeIndices() {
		s.Committees = append(s.Committees, uint64(c))
		s.Sizes[uint64(c)] = d.CommitteeSize(c)
	}
	s.Positions = append(s.Positions, d.ValidatorCommitteeIndices()...)
	return s
}

// RecAttester is a recording attester.Service: it "attests" for every validator
// of the duty and returns one attestation per validator.
type RecAttester struct{ w *World }

// Attest implements attester.Service.
func (a *RecAttester) Attest(_ context.Context, duty *attester.Duty) ([]*phase0.Attestation, error) {
	snap := SnapshotAttesterDuty(duty)
	a.w.logCall(Call{Kind: "attest", Slot: snap.Slot, Att: snap})
	res := make([]*phase0.Attestation, 0, len(snap.Validators))
	for i := range snap.Validators {
		res = append(res, &phase0.Attestation{
			Data: &phase0.AttestationData{
				Slot:   duty.Slot(),
				Index:  phase0.CommitteeIndex(snap.Committees[i]),
				Source: &phase0.Checkpoint{},
				Target: &phase0.Checkpoint{Epoch: phase0.Epoch(snap.Slot / a.w.P.SlotsPerEpoch)},
			},
		})
	}
	return res, nil
}

// RecProposer is a recording beaconblockproposer.Service.
type RecProposer struct{ w *World }

// Prepare implements beaconblockproposer.Service.
func (p *RecProposer) Prepare(ctx context.Context, duty *beaconblockproposer.Duty) error {
	if err := ctx.Err(); err != nil {
		return err
	}
	p.w.logCall(Call{Kind: "propose-prepare", Slot: uint64(duty.Slot()), Validator: uint64(duty.ValidatorIndex())})
	return nil
}

// Propose implements beaconblockproposer.Service.
func (p *RecProposer) Propose(_ context.Context, duty *beaconblockproposer.Duty) {
	p.w.logCall(Call{Kind: "propose", Slot: uint64(duty.Slot()), Validator: uint64(duty.ValidatorIndex())})
}

func snapshotSyncDuty(kind string, duty *synccommitteemessenger.Duty) Call {
	c := Call{Kind: kind, Slot: uint64(duty.Slot()), SyncIndices: map[uint64][]uint64{}}
	for _, v := range duty.ValidatorIndices() {
		c.Validators = append(c.Validators, uint64(v))
	}
	sort.Slice(c.Validators, func(i, j int) bool { return c.Validators[i] < c.Validators[j] })
	for v, idx := range duty.ContributionIndices() {
		l := make([]uint64, len(idx))
		for i, x := range idx {
			l[i] = uint64(x)
		}
		c.SyncIndices[uint64(v)] = l
	}
	for v, acc := range duty.Accounts() {
		if acc != nil {
			c.WithAccount = append(c.WithAccount, uint64(v))
		}
	}
	sort.Slice(c.WithAccount, func(i, j int) bool { return c.WithAccount[i] < c.WithAccount[j] })
	return c
}

// RecSyncMessenger is a recording synccommitteemessenger.Service.  Validators
// listed in Aggregators are made aggregators of subcommittee 0 when preparing.
type RecSyncMessenger struct {
	w           *World
	Aggregators map[uint64]bool
}

// Prepare implements synccommitteemessenger.Service.
func (m *RecSyncMessenger) Prepare(_ context.Context, duty *synccommitteemessenger.Duty) error {
	m.w.logCall(snapshotSyncDuty("sync-prepare", duty))
	for _, v := range duty.ValidatorIndices() {
		if m.Aggregators[uint64(v)] {
			duty.SetAggregatorSubcommittees(v, 0, phase0.BLSSignature{})
		}
	}
	return nil
}

// Message implements synccommitteemessenger.Service.
func (m *RecSyncMessenger) Message(_ context.Context, duty *synccommitteemessenger.Duty) ([]*altair.SyncCommitteeMessage, error) {
	m.w.logCall(snapshotSyncDuty("sync-message", duty))
	res := make([]*altair.SyncCommitteeMessage, 0)
	for _, v := range duty.ValidatorIndices() {
		res = append(res, &altair.SyncCommitteeMessage{Slot: duty.Slot(), ValidatorIndex: v})
	}
	return res, nil
}

// GetDataUsedForSlot implements synccommitteemessenger.Service.
func (m *RecSyncMessenger) GetDataUsedForSlot(phase0.Slot) (synccommitteemessenger.SlotData, bool) {
	return synccommitteemessenger.SlotData{}, false
}

// RemoveHistoricDataUsedForSlotVerification implements synccommitteemessenger.Service.
func (m *RecSyncMessenger) RemoveHistoricDataUsedForSlotVerification(phase0.Slot) {}

// RecSyncAggregator is a recording synccommitteeaggregator.Service.
type RecSyncAggregator struct{ w *World }

// SetBeaconBlockRoot implements synccommitteeaggregator.Service.
func (a *RecSyncAggregator) SetBeaconBlockRoot(phase0.Slot, phase0.Root) {}

// Aggregate implements synccommitteeaggregator.Service.
func (a *RecSyncAggregator) Aggregate(_ context.Context, duty *synccommitteeaggregator.Duty) {
	c := Call{Kind: "sync-aggregate", Slot: uint64(duty.Slot)}
	for _, v := range duty.ValidatorIndices {
		c.Validators = append(c.Validators, uint64(v))
	}
	sort.Slice(c.Validators, func(i, j int) bool { return c.Validators[i] < c.Validators[j] })
	a.w.logCall(c)
}

// RecSyncSubscriber is a recording synccommitteesubscriber.Service.
type RecSyncSubscriber struct{ w *World }

// Subscribe implements synccommitteesubscriber.Service.
func (s *RecSyncSubscriber) Subscribe(ctx context.Context, endEpoch phase0.Epoch, duties []*apiv1.SyncCommitteeDuty) error {
	if err := ctx.Err(); err != nil {
		return err
	}
	c := Call{Kind: "sync-subscribe", Slot: uint64(endEpoch)}
	for _, d := range duties {
		c.Validators = append(c.Validators, uint64(d.ValidatorIndex))
	}
	sort.Slice(c.Validators, func(i, j int) bool { return c.Validators[i] < c.Validators[j] })
	s.w.logCall(c)
	return nil
}

// RecAttAggregator is a recording attestationaggregator.Service.
type RecAttAggregator struct{ w *World }

// Aggregate implements attestationaggregator.Service.
func (a *RecAttAggregator) Aggregate(_ context.Context, d *attestationaggregator.Duty) {
	a.w.logCall(Call{Kind: "att-aggregate", Slot: uint64(d.Slot), Validator: uint64(d.ValidatorIndex)})
}

// AggregatorsAndSignatures implements attestationaggregator.Service.
func (a *RecAttAggregator) AggregatorsAndSignatures(_ context.Context, accounts []e2wtypes.Account, _ phase0.Slot, _ []uint64) ([]phase0.BLSSignature, []bool, error) {
	return make([]phase0.BLSSignature, len(accounts)), make([]bool, len(accounts)), nil
}

// RecBeaconCommitteeSubscriber is a recording beaconcommitteesubscriber.Service
// that answers from the node's current attester table (AttDuty.Aggregator marks
// the aggregators).
type RecBeaconCommitteeSubscriber struct{ w *World }

// Subscribe implements beaconcommitteesubscriber.Service.
func (s *RecBeaconCommitteeSubscriber) Subscribe(ctx context.Context, epoch phase0.Epoch, accounts map[phase0.ValidatorIndex]e2wtypes.Account) (map[phase0.Slot]map[phase0.CommitteeIndex]*beaconcommitteesubscriber.Subscription, error) {
	if err := ctx.Err(); err != nil {
		return nil, err
	}
	c := Call{Kind: "subscribe", Slot: uint64(epoch)}
	for v := range accounts {
		c.Validators = append(c.Validators, uint64(v))
	}
	sort.Slice(c.Validators, func(i, j int) bool { return c.Validators[i] < c.Validators[j] })
	s.w.logCall(c)
	table, _ := s.w.Chain.AttesterTable(uint64(epoch))
	first := uint64(epoch) * s.w.P.SlotsPerEpoch
	res := map[phase0.Slot]map[phase0.CommitteeIndex]*beaconcommitteesubscriber.Subscription{}
	for _, d := range table {
		if _, ours := accounts[phase0.ValidatorIndex(d.Validator)]; !ours {
			continue
		}
		if d.Slot < first || d.Slot >= first+s.w.P.SlotsPerEpoch {
			continue
		}
		if res[phase0.Slot(d.Slot)] == nil {
			res[phase0.Slot(d.Slot)] = map[phase0.CommitteeIndex]*beaconcommitteesubscriber.Subscription{}
		}
		if _, exists := res[phase0.Slot(d.Slot)][phase0.CommitteeIndex(d.Committee)]; exists && !d.Aggregator {
			continue
		}
		res[phase0.Slot(d.Slot)][phase0.CommitteeIndex(d.Committee)] = &beaconcommitteesubscriber.Subscription{
			Duty: &apiv1.AttesterDuty{
				PubKey: PubKeyOf(d.Validator), Slot: phase0.Slot(d.Slot), ValidatorIndex: phase0.ValidatorIndex(d.Validator),
				CommitteeIndex: phase0.CommitteeIndex(d.Committee), CommitteeLength: d.CommitteeLength,
				CommitteesAtSlot: d.CommitteesAtSlot, ValidatorCommitteeIndex: d.Position,
			},
			IsAggregator: d.Aggregator,
		}
	}
	return res, nil
}

// RecProposalsPreparer is a recording proposalpreparer.Service.
type RecProposalsPreparer struct{ w *World }

// UpdatePreparations implements proposalpreparer.Service.
func (p *RecProposalsPreparer) UpdatePreparations(ctx context.Context) error {
	if err := ctx.Err(); err != nil {
		return err
	}
	p.w.logCall(Call{Kind: "prepare-proposals"})
	return nil
}

// RecBlockToSlot is a recording cache.BlockRootToSlotSetter.
type RecBlockToSlot struct{ w *World }

// SetBlockRootToSlot implements cache.BlockRootToSlotSetter.
func (b *RecBlockToSlot) SetBlockRootToSlot(_ phase0.Root, slot phase0.Slot) {
	b.w.logCall(Call{Kind: "block-to-slot", Slot: uint64(slot)})
}
