package c03world

import (
	"encoding/binary"
	"sync"

	"github.com/attestantio/go-eth2-client/spec/phase0"
)

// Params are the chain parameters and the controller configuration of a world.
// Everything is JSON-serialisable so that it can be part of a replayable case.
type Params struct {
	SlotsPerEpoch       uint64 `json:"slots_per_epoch"`
	SlotSeconds         uint64 `json:"slot_seconds"`
	EpochsPerSyncPeriod uint64 `json:"epochs_per_sync_period"`
	// Altair: the node's spec carries ALTAIR_FORK_EPOCH and the sync committee
	// services are wired (as main.go does for an Altair-capable node).
	Altair          bool   `json:"altair"`
	AltairForkEpoch uint64 `json:"altair_fork_epoch"`
	// Bellatrix: the spec carries BELLATRIX_FORK_EPOCH (starts the proposals preparer).
	Bellatrix          bool   `json:"bellatrix"`
	BellatrixForkEpoch uint64 `json:"bellatrix_fork_epoch"`

	MaxProposalDelayMs           uint64 `json:"max_proposal_delay_ms"`
	MaxAttestationDelayMs        uint64 `json:"max_attestation_delay_ms"`
	AttestationAggregationMs     uint64 `json:"attestation_aggregation_delay_ms"`
	MaxSyncCommitteeMessageMs    uint64 `json:"max_sync_committee_message_delay_ms"`
	SyncCommitteeAggregationMs   uint64 `json:"sync_committee_aggregation_delay_ms"`
	FastTrackAttestations        bool   `json:"fast_track_attestations"`
	FastTrackSyncCommittees      bool   `json:"fast_track_sync_committees"`
	VerifySyncCommitteeInclusion bool   `json:"verify_sync_committee_inclusion"`

	// Validators are the indices of the validators vouch validates for.
	Validators []uint64 `json:"validators"`
}

// AttDuty is one attester duty as a beacon node delivers it.
type AttDuty struct {
	Validator        uint64 `json:"validator"`
	Slot             uint64 `json:"slot"`
	Committee        uint64 `json:"committee"`
	Position         uint64 `json:"position"`
	CommitteeLength  uint64 `json:"committee_length"`
	CommitteesAtSlot uint64 `json:"committees_at_slot"`
	// Aggregator is used by the beacon committee subscriber double only.
	Aggregator bool `json:"aggregator,omitempty"`
}

// PropDuty is one proposer duty.
type PropDuty struct {
	Slot      uint64 `json:"slot"`
	Validator uint64 `json:"validator"`
}

// SyncDuty is one sync committee duty (valid for a whole period).
type SyncDuty struct {
	Validator uint64   `json:"validator"`
	Indices   []uint64 `json:"indices"`
}

// DutySource says what the beacon node answers.  version counts the reorgs that
// changed the root the duties of that epoch (period) depend on.
type DutySource interface {
	Attester(epoch uint64, version int) []AttDuty
	Proposer(epoch uint64, version int) []PropDuty
	Sync(period uint64, version int) []SyncDuty
}

// TableSource is a DutySource backed by explicit tables: for each epoch
// (period) the list of table versions.  A version beyond the list yields the
// last one; an unknown epoch yields no duties.
type TableSource struct {
	Att  map[uint64][][]AttDuty  `json:"att"`
	Prop map[uint64][][]PropDuty `json:"prop"`
	Syn  map[uint64][][]SyncDuty `json:"sync"`
}

func pick[T any](vs [][]T, version int) []T {
	if len(vs) == 0 {
		return nil
	}
	if version >= len(vs) {
		version = len(vs) - 1
	}
	return vs[version]
}

// Attester implements DutySource.
func (s *TableSource) Attester(epoch uint64, version int) []AttDuty {
	return pick(s.Att[epoch], version)
}

// Proposer implements DutySource.
func (s *TableSource) Proposer(epoch uint64, version int) []PropDuty {
	return pick(s.Prop[epoch], version)
}

// Sync implements DutySource.
func (s *TableSource) Sync(period uint64, version int) []SyncDuty {
	return pick(s.Syn[period], version)
}

// Chain is the beacon node's view of the chain: duty-dependent roots and the
// versions of the duty tables hanging on them.  It survives controller restarts.
//
// Dependent roots (consensus spec / beacon API): a head event in epoch e carries
// previous_duty_dependent_root = block root at the last slot of epoch e-2 and
// current_duty_dependent_root = block root at the last slot of epoch e-1 (the
// genesis root where that slot does not exist).  With dep(e) := the root at the
// end of epoch e-1 (dep(0) = genesis): previous = dep(e-1) (dep(0) for e = 0),
// current = dep(e).  Attester duties of e hang on dep(e-1), proposer duties of e
// on dep(e), the sync committee of period p on dep(first epoch of p-1).
type Chain struct {
	mu      sync.Mutex
	p       *Params
	src     DutySource
	rootVer map[uint64]int
	attVer  map[uint64]int
	propVer map[uint64]int
	syncVer map[uint64]int
	fail    map[string]int
	// HeadSlot is the slot of the node's head block (what BeaconBlockHeader("head") reports).
	headSlot uint64
}

// NewChain creates a chain view.
func NewChain(p *Params, src DutySource) *Chain {
	return &Chain{p: p, src: src, rootVer: map[uint64]int{}, attVer: map[uint64]int{}, propVer: map[uint64]int{},
		syncVer: map[uint64]int{}, fail: map[string]int{}}
}

// DepRoot returns dep(e) (see Chain).
func (c *Chain) DepRoot(e uint64) phase0.Root {
	c.mu.Lock()
	defer c.mu.Unlock()
	return c.depRoot(e)
}

func (c *Chain) depRoot(e uint64) phase0.Root {
	var r phase0.Root
	if e == 0 {
		r[0] = 0x9e // genesis
		r[31] = 0x01
		return r
	}
	r[0] = 0xd0
	binary.LittleEndian.PutUint64(r[8:], e)
	binary.LittleEndian.PutUint64(r[16:], uint64(c.rootVer[e]))
	r[31] = 0x01
	return r
}

// EventRoots returns (previous, current) dependent roots of a head event whose
// slot lies in epoch e.
func (c *Chain) EventRoots(e uint64) (phase0.Root, phase0.Root) {
	c.mu.Lock()
	defer c.mu.Unlock()
	prev := uint64(0)
	if e > 0 {
		prev = e - 1
	}
	return c.depRoot(prev), c.depRoot(e)
}

// ReorgCurrent changes dep(e): the proposer duties of e, the attester duties of
// e+1 and (if e starts a sync period) the sync committee of the period after the
// next get a new version.  Not possible for e = 0 (genesis root).  Returns false then.
func (c *Chain) ReorgCurrent(e uint64) bool {
	c.mu.Lock()
	defer c.mu.Unlock()
	return c.reorgAt(e)
}

func (c *Chain) reorgAt(e uint64) bool {
	if e == 0 {
		return false
	}
	c.rootVer[e]++
	c.propVer[e]++
	c.attVer[e+1]++
	if c.p.EpochsPerSyncPeriod > 0 && e%c.p.EpochsPerSyncPeriod == 0 {
		c.syncVer[e/c.p.EpochsPerSyncPeriod+1]++
	}
	return true
}

// ReorgPrevious changes dep(e-1) and therefore dep(e) as well (a block is a
// descendant of the blocks before it): additionally the attester duties of e get
// a new version.  Not possible for e < 2.
func (c *Chain) ReorgPrevious(e uint64) bool {
	c.mu.Lock()
	defer c.mu.Unlock()
	if e < 2 {
		return false
	}
	c.reorgAt(e - 1) // bumps prop(e-1), att(e)
	c.reorgAt(e)
	return true
}

// Versions returns the current table versions (att of epoch, prop of epoch, sync of period).
func (c *Chain) Versions(epoch uint64) (int, int, int) {
	c.mu.Lock()
	defer c.mu.Unlock()
	per := uint64(0)
	if c.p.EpochsPerSyncPeriod > 0 {
		per = epoch / c.p.EpochsPerSyncPeriod
	}
	return c.attVer[epoch], c.propVer[epoch], c.syncVer[per]
}

// AttesterTable returns the current attester table of an epoch.
func (c *Chain) AttesterTable(epoch uint64) ([]AttDuty, int) {
	c.mu.Lock()
	defer c.mu.Unlock()
	v := c.attVer[epoch]
	return c.src.Attester(epoch, v), v
}

// ProposerTable returns the current proposer table of an epoch.
func (c *Chain) ProposerTable(epoch uint64) ([]PropDuty, int) {
	c.mu.Lock()
	defer c.mu.Unlock()
	v := c.propVer[epoch]
	return c.src.Proposer(epoch, v), v
}

// SyncTable returns the current sync committee table of a period.
func (c *Chain) SyncTable(period uint64) ([]SyncDuty, int) {
	c.mu.Lock()
	defer c.mu.Unlock()
	v := c.syncVer[period]
	return c.src.Sync(period, v), v
}

// FailNext makes the next n duty requests of the kind (att | prop | sync) fail.
func (c *Chain) FailNext(kind string, n int) {
	c.mu.Lock()
	c.fail[kind] = n
	c.mu.Unlock()
}

func (c *Chain) takeFail(kind string) bool {
	c.mu.Lock()
	defer c.mu.Unlock()
	if c.fail[kind] > 0 {
		c.fail[kind]--
		return true
	}
	return false
}

// SetHeadSlot sets the slot of the node's head block.
func (c *Chain) SetHeadSlot(s uint64) {
	c.mu.Lock()
	c.headSlot = s
	c.mu.Unlock()
}

// HeadSlot returns the slot of the node's head block.
func (c *Chain) HeadSlot() uint64 {
	c.mu.Lock()
	defer c.mu.Unlock()
	return c.headSlot
}
