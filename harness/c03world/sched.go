package c03world

import (
	"context"
	"regexp"
	"strconv"
	"time"

	"github.com/attestantio/vouch/services/scheduler"

	"verifharness/internal/fakes"
)

// Kind classifies a controller job by its name.
type Kind string

// Job kinds.
const (
	KAttest        Kind = "attest"         // "Attestations for slot N"
	KPropose       Kind = "propose"        // "Beacon block proposal for slot N"
	KEarlyPropose  Kind = "early-propose"  // "Early beacon block proposal for slot N"
	KSyncPrepare   Kind = "sync-prepare"   // "Prepare sync committee messages for slot N"
	KSyncMessage   Kind = "sync-message"   // "Sync committee messages for slot N"
	KSyncAggregate Kind = "sync-aggregate" // "Sync committee aggregation for slot N"
	KAttAggregate  Kind = "att-aggregate"  // "Beacon block attestation aggregation for slot N committee K"
	KPrepareEpoch  Kind = "prepare-epoch"  // "Prepare for epoch E"
	KPeriodic      Kind = "periodic"       // the three tickers
	KUnknown       Kind = "unknown"
)

var jobNameRes = []struct {
	kind Kind
	re   *regexp.Regexp
}{
	{KAttest, regexp.MustCompile(`^Attestations for slot (\d+)$`)},
	{KPropose, regexp.MustCompile(`^Beacon block proposal for slot (\d+)$`)},
	{KEarlyPropose, regexp.MustCompile(`^Early beacon block proposal for slot (\d+)$`)},
	{KSyncPrepare, regexp.MustCompile(`^Prepare sync committee messages for slot (\d+)$`)},
	{KSyncMessage, regexp.MustCompile(`^Sync committee messages for slot (\d+)$`)},
	{KSyncAggregate, regexp.MustCompile(`^Sync committee aggregation for slot (\d+)$`)},
	{KAttAggregate, regexp.MustCompile(`^Beacon block attestation aggregation for slot (\d+) committee (\d+)$`)},
	{KPrepareEpoch, regexp.MustCompile(`^Prepare for epoch (\d+)$`)},
}

// ParseJobName classifies a job name; n is the slot (epoch for KPrepareEpoch).
func ParseJobName(name string) (Kind, uint64, uint64) {
	for _, c := range jobNameRes {
		m := c.re.FindStringSubmatch(name)
		if m == nil {
			continue
		}
		n, err := strconv.ParseUint(m[1], 10, 64)
		if err != nil {
			return KUnknown, 0, 0
		}
		var k uint64
		if len(m) > 2 {
			k, _ = strconv.ParseUint(m[2], 10, 64)
		}
		return c.kind, n, k
	}
	if name == "Epoch ticker" || name == "Account refresh ticker" || name == "Prepare proposals ticker" {
		return KPeriodic, 0, 0
	}
	return KUnknown, 0, 0
}

// SchedDriver is a scheduler the harness can drive: nothing fires by itself.
// fakes.Sched is one; C20 wraps the real advanced scheduler into one.
type SchedDriver interface {
	scheduler.Service
	// Jobs lists the jobs ordered by (time, sequence); Time is virtual time.
	Jobs() []fakes.Job
	// Fire runs the named job on the caller's goroutine and returns when the
	// job function has returned; false if there is no such job.
	Fire(name string) bool
}

// JobInfo is a row of the job table.
type JobInfo struct {
	Name      string    `json:"name"`
	Kind      Kind      `json:"kind"`
	Slot      uint64    `json:"slot"` // epoch for prepare-epoch
	Committee uint64    `json:"committee,omitempty"`
	Time      time.Time `json:"time"`
	Periodic  bool      `json:"periodic,omitempty"`
}

// recSched records every scheduler call of the controller in the world log and
// wraps job functions so that each execution is recorded, whoever triggers it.
type recSched struct {
	w     *World
	proc  int
	inner SchedDriver
}

func (s *recSched) log(op, name string, t time.Time, err error) {
	e := ""
	if err != nil {
		e = err.Error()
	}
	k, n, _ := ParseJobName(name)
	s.w.logSched(SchedOp{Stamp: Stamp{Proc: s.proc}, Op: op, Name: name, Time: t, Err: e, Kind: k, Slot: n})
}

func (s *recSched) wrap(name string, job scheduler.JobFunc) scheduler.JobFunc {
	if job == nil {
		return nil
	}
	return func(ctx context.Context) {
		s.log("exec-begin", name, time.Time{}, nil)
		s.w.execDepth.Add(1)
		defer func() {
			s.w.execDepth.Add(-1)
			s.log("exec-end", name, time.Time{}, nil)
		}()
		job(ctx)
	}
}

func (s *recSched) ScheduleJob(ctx context.Context, class string, name string, runtime time.Time, job scheduler.JobFunc) error {
	err := s.inner.ScheduleJob(ctx, class, name, runtime, s.wrap(name, job))
	s.log("schedule", name, runtime, err)
	return err
}

func (s *recSched) SchedulePeriodicJob(ctx context.Context, class string, name string, runtime scheduler.RuntimeFunc, job scheduler.JobFunc) error {
	err := s.inner.SchedulePeriodicJob(ctx, class, name, runtime, s.wrap(name, job))
	s.log("schedule-periodic", name, time.Time{}, err)
	return err
}

func (s *recSched) CancelJob(ctx context.Context, name string) error {
	err := s.inner.CancelJob(ctx, name)
	s.log("cancel", name, time.Time{}, err)
	return err
}

func (s *recSched) CancelJobIfExists(ctx context.Context, name string) {
	existed := s.inner.JobExists(ctx, name)
	s.inner.CancelJobIfExists(ctx, name)
	var err error
	if !existed {
		err = scheduler.ErrNoSuchJob
	}
	s.log("cancel-if-exists", name, time.Time{}, err)
}

func (s *recSched) CancelJobs(ctx context.Context, prefix string) {
	s.inner.CancelJobs(ctx, prefix)
	s.log("cancel-prefix", prefix, time.Time{}, nil)
}

func (s *recSched) RunJob(ctx context.Context, name string) error {
	s.log("run", name, time.Time{}, nil)
	return s.inner.RunJob(ctx, name)
}

func (s *recSched) JobExists(ctx context.Context, name string) bool {
	return s.inner.JobExists(ctx, name)
}

func (s *recSched) RunJobIfExists(ctx context.Context, name string) {
	s.log("run-if-exists", name, time.Time{}, nil)
	s.inner.RunJobIfExists(ctx, name)
}

func (s *recSched) ListJobs(ctx context.Context) []string { return s.inner.ListJobs(ctx) }
