// Package c03world is the virtual world in which the real
// services/controller/standard runs under harness-owned time and scheduling.
// See README.md.
package c03world

import (
	"context"
	"fmt"
	"runtime"
	"sort"
	"sync"
	"sync/atomic"
	"time"

	eth2client "github.com/attestantio/go-eth2-client"
	apiv1 "github.com/attestantio/go-eth2-client/api/v1"
	"github.com/attestantio/go-eth2-client/spec/phase0"
	"github.com/attestantio/vouch/services/attestationaggregator"
	"github.com/attestantio/vouch/services/attester"
	"github.com/attestantio/vouch/services/beaconblockproposer"
	"github.com/attestantio/vouch/services/beaconcommitteesubscriber"
	"github.com/attestantio/vouch/services/cache"
	controller "github.com/attestantio/vouch/services/controller/standard"
	nullmetrics "github.com/attestantio/vouch/services/metrics/null"
	"github.com/attestantio/vouch/services/proposalpreparer"
	"github.com/attestantio/vouch/services/scheduler"
	"github.com/attestantio/vouch/services/synccommitteeaggregator"
	"github.com/attestantio/vouch/services/synccommitteemessenger"
	"github.com/attestantio/vouch/services/synccommitteesubscriber"
	"github.com/rs/zerolog"

	"verifharness/internal/fakes"
)

// Services are the services the controller drives.  Nil fields are replaced by
// the recording doubles of this package.
type Services struct {
	Attester                  attester.Service
	Proposer                  beaconblockproposer.Service
	SyncMessenger             synccommitteemessenger.Service
	SyncAggregator            synccommitteeaggregator.Service
	SyncSubscriber            synccommitteesubscriber.Service
	AttAggregator             attestationaggregator.Service
	BeaconCommitteeSubscriber beaconcommitteesubscriber.Service
	ProposalsPreparer         proposalpreparer.Service
	BlockToSlot               cache.BlockRootToSlotSetter
	// Providers the controller itself consults (nil: the world's Node).
	BeaconBlockHeadersProvider eth2client.BeaconBlockHeadersProvider
	SignedBeaconBlockProvider  eth2client.SignedBeaconBlockProvider
}

// Options customise a world.
type Options struct {
	// Genesis time of the chain (default 2020-12-01 12:00:23 UTC).
	Genesis time.Time
	// NewSched creates the scheduler of a controller process (default fakes.NewSched()).
	NewSched func(w *World) SchedDriver
	// Services creates the services of a controller process; sched is the
	// (recording) scheduler the controller will use as well.
	Services func(ctx context.Context, w *World, sched scheduler.Service) (Services, error)
	// ExtraGoroutines: goroutines that legitimately exist at quiescence in
	// addition to the baseline (e.g. one per job of a real scheduler).
	ExtraGoroutines func() int
	// Watchdog of Quiesce (default 60 s); hitting it is a harness problem.
	Watchdog time.Duration
	// ExtraSpec is merged into the node's spec map.
	ExtraSpec map[string]any
	// SyncAggregators: validators the recording sync messenger makes aggregators.
	SyncAggregators map[uint64]bool
}

// Process is one life of the controller: from Start to Stop (or the next Start).
type Process struct {
	ID        int
	StartSlot uint64
	StartSeq  int // log sequence number when the process started
	Waited    bool
	Sched     SchedDriver // the inner scheduler (what holds the jobs)
	Ctrl      *controller.Service
	Services  Services
	ctx       context.Context
	cancel    context.CancelFunc
	handlers  map[string][]eth2client.EventHandlerFunc
	next      map[string]time.Time // next run of the periodic jobs
}

// World is the virtual world.
type World struct {
	P        *Params
	Clock    *fakes.VClock
	Chain    *Chain
	Log      *Log
	Node     *Node
	Accounts *Accounts
	Proc     *Process
	// OnStep, if set, is called at every quiescent point inside Advance* (after
	// each fired job) and at the end of every action; an error aborts the action.
	OnStep func(what string) error

	opt             Options
	mu              sync.Mutex
	pendingHandlers map[string][]eth2client.EventHandlerFunc
	baseline        int
	action          int
	phase           string
	nproc           int
	execDepth       atomic.Int32
	fired           int
	dropped         int
}

// New creates a world standing at genesis; no controller runs yet.
func New(p *Params, src DutySource, opt Options) *World {
	zerolog.SetGlobalLevel(zerolog.Disabled)
	if opt.Genesis.IsZero() {
		opt.Genesis = time.Date(2020, 12, 1, 12, 0, 23, 0, time.UTC)
	}
	if opt.Watchdog == 0 {
		opt.Watchdog = 60 * time.Second
	}
	w := &World{P: p, Log: &Log{}, opt: opt, phase: "idle", pendingHandlers: map[string][]eth2client.EventHandlerFunc{}}
	w.Clock = fakes.NewVClock(opt.Genesis, time.Duration(p.SlotSeconds)*time.Second, p.SlotsPerEpoch)
	w.Chain = NewChain(p, src)
	w.Node = &Node{w: w, ExtraSpec: opt.ExtraSpec}
	w.Accounts = &Accounts{w: w}
	w.baseline = fakes.GoroutineCount()
	return w
}

// SetBaseline re-reads the goroutine baseline (call when the world is idle and
// the harness itself has started long-lived goroutines).
func (w *World) SetBaseline() { w.baseline = fakes.GoroutineCount() }

// Baseline returns the goroutine baseline.
func (w *World) Baseline() int { return w.baseline }

// ---- logging helpers ----

func (w *World) stamp(s *Stamp) {
	s.Seq = w.Log.next()
	if s.Proc == 0 {
		s.Proc = w.nproc
	}
	s.Action = w.action
	s.Phase = w.phase
	s.Now = w.Clock.Now()
	s.ClockSlot = uint64(w.Clock.CurrentSlot())
}

func (w *World) logFetch(f Fetch) {
	w.Log.mu.Lock()
	w.stamp(&f.Stamp)
	w.Log.fetches = append(w.Log.fetches, f)
	w.Log.mu.Unlock()
}

func (w *World) logSched(o SchedOp) {
	w.Log.mu.Lock()
	w.stamp(&o.Stamp)
	w.Log.sched = append(w.Log.sched, o)
	w.Log.mu.Unlock()
}

func (w *World) logCall(c Call) {
	w.Log.mu.Lock()
	w.stamp(&c.Stamp)
	w.Log.calls = append(w.Log.calls, c)
	w.Log.mu.Unlock()
}

// LogCall lets service doubles of other packages record into the world log.
func (w *World) LogCall(c Call) { w.logCall(c) }

// Action returns the index of the current (or last) harness action.
func (w *World) Action() int { return w.action }

func (w *World) begin(phase string) {
	w.Log.mu.Lock()
	w.action++
	w.phase = phase
	w.Log.mu.Unlock()
}

func (w *World) end() {
	w.Log.mu.Lock()
	w.phase = "idle"
	w.Log.mu.Unlock()
}

func (w *World) step(what string) error {
	if w.OnStep != nil {
		return w.OnStep(what)
	}
	return nil
}

// ---- time helpers ----

// Slot returns the current slot.
func (w *World) Slot() uint64 { return uint64(w.Clock.CurrentSlot()) }

// Epoch returns the current epoch.
func (w *World) Epoch() uint64 { return uint64(w.Clock.CurrentEpoch()) }

// StartOfSlot returns the start of a slot.
func (w *World) StartOfSlot(s uint64) time.Time { return w.Clock.StartOfSlot(phase0.Slot(s)) }

// SlotDuration returns the slot duration.
func (w *World) SlotDuration() time.Duration { return time.Duration(w.P.SlotSeconds) * time.Second }

// ---- quiescence ----

// Quiesce waits until no goroutine started by the controller (or by the
// services behind it) is left: runtime.NumGoroutine() back at the baseline on
// three consecutive polls.  An error is a harness problem (watchdog), never a
// verdict.
func (w *World) Quiesce() error {
	deadline := time.Now().Add(w.opt.Watchdog)
	stable := 0
	lastSeq := -1
	pause := 20 * time.Microsecond
	extraOf := func() int {
		// duty requests held by Node.Hold are part of the quiescent state
		n := w.Node.Held()
		if w.opt.ExtraGoroutines != nil {
			n += w.opt.ExtraGoroutines()
		}
		return n
	}
	for {
		// The allowance (e.g. one goroutine per job of a real scheduler) and the log are
		// read before and after the goroutine count: a goroutine of vouch that changes the
		// job table or does anything observable in between makes the readings differ.
		seq0 := w.Log.Seq()
		extra0 := extraOf()
		n := runtime.NumGoroutine()
		extra1 := extraOf()
		seq1 := w.Log.Seq()
		extra := extra0
		if extra1 < extra {
			extra = extra1
		}
		if n <= w.baseline+extra && w.execDepth.Load() == 0 && seq0 == seq1 && extra0 == extra1 && (stable == 0 || seq1 == lastSeq) {
			stable++
			lastSeq = seq1
			if stable >= 3 {
				// runtime.NumGoroutine can be transiently too low on a loaded machine: confirm with a
				// consistent (stop-the-world) count before declaring quiescence
				if fakes.GoroutineCount() <= w.baseline+extraOf() {
					return nil
				}
				stable = 0
			}
			runtime.Gosched()
			continue
		}
		stable = 0
		if time.Now().After(deadline) {
			buf := make([]byte, 1<<16)
			buf = buf[:runtime.Stack(buf, true)]
			return fmt.Errorf("harness watchdog: %d goroutines, baseline %d+%d, after %v\n%s", n, w.baseline, extra, w.opt.Watchdog, buf)
		}
		time.Sleep(pause)
		if pause < 2*time.Millisecond {
			pause *= 2
		}
	}
}

// ---- process control ----

// Stop ends the current controller process (a crash: its jobs are gone).
func (w *World) Stop() {
	if w.Proc == nil {
		return
	}
	w.Node.flush() // requests of the stopped process are answered; the node stays slow if it was
	w.Proc.cancel()
	w.Proc = nil
}

// Start constructs a fresh controller at the current clock position, exactly as
// main.go does, with a fresh scheduler.  A running process is stopped first.
func (w *World) Start(waitedForGenesis bool) error {
	w.Stop()
	if err := w.Quiesce(); err != nil {
		return err
	}
	w.begin("start")
	defer w.end()
	w.nproc++
	ctx, cancel := context.WithCancel(context.Background())
	var inner SchedDriver
	if w.opt.NewSched != nil {
		inner = w.opt.NewSched(w)
	} else {
		inner = fakes.NewSched()
	}
	rec := &recSched{w: w, proc: w.nproc, inner: inner}
	proc := &Process{ID: w.nproc, StartSlot: w.Slot(), StartSeq: w.Log.Seq(), Waited: waitedForGenesis, Sched: inner,
		ctx: ctx, cancel: cancel, next: map[string]time.Time{}}
	var svcs Services
	if w.opt.Services != nil {
		var err error
		svcs, err = w.opt.Services(ctx, w, rec)
		if err != nil {
			cancel()
			return fmt.Errorf("harness: cannot construct services: %w", err)
		}
	}
	if svcs.Attester == nil {
		svcs.Attester = &RecAttester{w: w}
	}
	if svcs.Proposer == nil {
		svcs.Proposer = &RecProposer{w: w}
	}
	if svcs.SyncMessenger == nil {
		svcs.SyncMessenger = &RecSyncMessenger{w: w, Aggregators: w.opt.SyncAggregators}
	}
	if svcs.SyncAggregator == nil {
		svcs.SyncAggregator = &RecSyncAggregator{w: w}
	}
	if svcs.SyncSubscriber == nil {
		svcs.SyncSubscriber = &RecSyncSubscriber{w: w}
	}
	if svcs.AttAggregator == nil {
		svcs.AttAggregator = &RecAttAggregator{w: w}
	}
	if svcs.BeaconCommitteeSubscriber == nil {
		svcs.BeaconCommitteeSubscriber = &RecBeaconCommitteeSubscriber{w: w}
	}
	if svcs.ProposalsPreparer == nil {
		svcs.ProposalsPreparer = &RecProposalsPreparer{w: w}
	}
	if svcs.BlockToSlot == nil {
		svcs.BlockToSlot = &RecBlockToSlot{w: w}
	}
	if svcs.BeaconBlockHeadersProvider == nil {
		svcs.BeaconBlockHeadersProvider = w.Node
	}
	if svcs.SignedBeaconBlockProvider == nil {
		svcs.SignedBeaconBlockProvider = w.Node
	}
	proc.Services = svcs
	w.mu.Lock()
	w.pendingHandlers = map[string][]eth2client.EventHandlerFunc{}
	w.mu.Unlock()

	ms := func(v uint64) time.Duration { return time.Duration(v) * time.Millisecond }
	params := []controller.Parameter{
		controller.WithLogLevel(zerolog.Disabled),
		controller.WithMonitor(nullmetrics.New()),
		controller.WithSpecProvider(w.Node),
		controller.WithChainTimeService(w.Clock),
		controller.WithWaitedForGenesis(waitedForGenesis),
		controller.WithProposerDutiesProvider(w.Node),
		controller.WithAttesterDutiesProvider(w.Node),
		controller.WithEventsProvider(w.Node),
		controller.WithScheduler(rec),
		controller.WithValidatingAccountsProvider(w.Accounts),
		controller.WithAttester(svcs.Attester),
		controller.WithBeaconBlockProposer(svcs.Proposer),
		controller.WithBeaconBlockHeadersProvider(svcs.BeaconBlockHeadersProvider),
		controller.WithSignedBeaconBlockProvider(svcs.SignedBeaconBlockProvider),
		controller.WithProposalsPreparer(svcs.ProposalsPreparer),
		controller.WithAttestationAggregator(svcs.AttAggregator),
		controller.WithBeaconCommitteeSubscriber(svcs.BeaconCommitteeSubscriber),
		controller.WithAccountsRefresher(w.Accounts),
		controller.WithBlockToSlotSetter(svcs.BlockToSlot),
		controller.WithMaxProposalDelay(ms(w.P.MaxProposalDelayMs)),
		controller.WithMaxAttestationDelay(ms(w.P.MaxAttestationDelayMs)),
		controller.WithAttestationAggregationDelay(ms(w.P.AttestationAggregationMs)),
		controller.WithMaxSyncCommitteeMessageDelay(ms(w.P.MaxSyncCommitteeMessageMs)),
		controller.WithSyncCommitteeAggregationDelay(ms(w.P.SyncCommitteeAggregationMs)),
		controller.WithVerifySyncCommitteeInclusion(w.P.VerifySyncCommitteeInclusion),
		controller.WithFastTrackAttestations(w.P.FastTrackAttestations),
		controller.WithFastTrackSyncCommittees(w.P.FastTrackSyncCommittees),
		controller.WithFastTrackGrace(0),
	}
	if w.P.Altair {
		// main.go wires the sync committee services iff the node is Altair-capable.
		params = append(params,
			controller.WithSyncCommitteeDutiesProvider(w.Node),
			controller.WithSyncCommitteeMessenger(svcs.SyncMessenger),
			controller.WithSyncCommitteeAggregator(svcs.SyncAggregator),
			controller.WithSyncCommitteeSubscriber(svcs.SyncSubscriber),
		)
	}
	ctrl, err := controller.New(ctx, params...)
	if err != nil {
		cancel()
		return fmt.Errorf("harness: cannot construct controller: %w", err)
	}
	proc.Ctrl = ctrl
	w.mu.Lock()
	proc.handlers = w.pendingHandlers
	w.pendingHandlers = map[string][]eth2client.EventHandlerFunc{}
	w.mu.Unlock()
	w.Proc = proc
	if err := w.Quiesce(); err != nil {
		return err
	}
	// Periodic jobs: the scheduler evaluates the runtime function when the job is set up.
	for _, j := range inner.Jobs() {
		if j.Periodic {
			t, err := j.Runtime(ctx)
			if err != nil {
				return fmt.Errorf("harness: runtime function of %q: %w", j.Name, err)
			}
			proc.next[j.Name] = t
		}
	}
	if len(proc.handlers["head"]) == 0 {
		return fmt.Errorf("harness: controller registered no head event handler")
	}
	if err := w.step("started"); err != nil {
		return err
	}
	// Jobs that are already due (e.g. the sync committee preparation of the next slot).
	return w.advanceTo(w.Clock.Now())
}

// ---- jobs ----

// purge applies the scheduler contract "if the parent context is cancelled the
// job will not run": jobs whose context is done are dropped (and logged).
func (w *World) purge() {
	if w.Proc == nil {
		return
	}
	for _, j := range w.Proc.Sched.Jobs() {
		if j.Ctx != nil && j.Ctx.Err() != nil && w.Proc.ctx.Err() == nil {
			w.Proc.Sched.CancelJobIfExists(context.Background(), j.Name)
			k, n, _ := ParseJobName(j.Name)
			w.logSched(SchedOp{Op: "dropped-context-done", Name: j.Name, Time: j.Time, Kind: k, Slot: n})
			w.dropped++
		}
	}
}

// Dropped returns the number of jobs dropped because their parent context was done.
func (w *World) Dropped() int { return w.dropped }

// Jobs returns the job table of the running process ordered by (time, sequence).
// Periodic jobs carry the time of their next run.
func (w *World) Jobs() []JobInfo {
	if w.Proc == nil {
		return nil
	}
	w.purge()
	var res []JobInfo
	for _, j := range w.Proc.Sched.Jobs() {
		k, n, c := ParseJobName(j.Name)
		ji := JobInfo{Name: j.Name, Kind: k, Slot: n, Committee: c, Time: j.Time, Periodic: j.Periodic}
		if j.Periodic {
			ji.Time = w.Proc.next[j.Name]
		}
		res = append(res, ji)
	}
	return res
}

// Executing returns the number of job functions executing right now.
func (w *World) Executing() int { return int(w.execDepth.Load()) }

// Fired returns the number of jobs the harness has fired so far.
func (w *World) Fired() int { return w.fired }

func (w *World) nextDue(limit time.Time) (string, time.Time, bool, bool) {
	type cand struct {
		name     string
		at       time.Time
		periodic bool
		order    int
	}
	var cs []cand
	w.purge()
	for i, j := range w.Proc.Sched.Jobs() {
		at := j.Time
		if j.Periodic {
			var ok bool
			at, ok = w.Proc.next[j.Name]
			if !ok {
				// set up while running (does not happen in the controller): evaluate now
				t, err := j.Runtime(w.Proc.ctx)
				if err != nil {
					continue
				}
				w.Proc.next[j.Name] = t
				at = t
			}
		}
		if at.After(limit) {
			continue
		}
		cs = append(cs, cand{j.Name, at, j.Periodic, i})
	}
	if len(cs) == 0 {
		return "", time.Time{}, false, false
	}
	sort.SliceStable(cs, func(a, b int) bool {
		if !cs[a].at.Equal(cs[b].at) {
			return cs[a].at.Before(cs[b].at)
		}
		if cs[a].periodic != cs[b].periodic {
			return cs[a].periodic // tickers first when times tie
		}
		return cs[a].order < cs[b].order
	})
	return cs[0].name, cs[0].at, cs[0].periodic, true
}

// advanceTo fires every job due up to t in time order, moving the clock to each
// job's time, and finally places the clock at t.
func (w *World) advanceTo(t time.Time) error {
	if w.Proc == nil {
		if t.After(w.Clock.Now()) {
			w.Clock.Set(t)
		}
		return nil
	}
	for guard := 0; ; guard++ {
		if guard > 200000 {
			return fmt.Errorf("harness: more than 200000 job firings in one advance")
		}
		name, at, periodic, ok := w.nextDue(t)
		if !ok {
			break
		}
		if at.After(w.Clock.Now()) {
			w.Clock.Set(at)
		}
		k, n, _ := ParseJobName(name)
		w.logSched(SchedOp{Op: "fire", Name: name, Time: at, Kind: k, Slot: n})
		w.fired++
		if !w.Proc.Sched.Fire(name) {
			return fmt.Errorf("harness: job %q vanished", name)
		}
		if err := w.Quiesce(); err != nil {
			return err
		}
		if periodic {
			for _, j := range w.Proc.Sched.Jobs() {
				if j.Name == name {
					nt, err := j.Runtime(w.Proc.ctx)
					if err != nil {
						return fmt.Errorf("harness: runtime function of %q: %w", name, err)
					}
					if !nt.After(w.Clock.Now()) {
						// a real scheduler would spin; keep the world moving
						nt = w.Clock.Now().Add(time.Nanosecond)
					}
					w.Proc.next[name] = nt
				}
			}
		}
		if err := w.step("fired " + name); err != nil {
			return err
		}
	}
	if t.After(w.Clock.Now()) {
		w.Clock.Set(t)
	}
	return nil
}

// AdvanceTo moves the clock to t (never backwards), firing due jobs in time order.
func (w *World) AdvanceTo(t time.Time) error {
	w.begin("advance")
	defer w.end()
	if err := w.advanceTo(t); err != nil {
		return err
	}
	return w.step("advanced")
}

// AdvanceSlots moves the clock to the start of slot (current + k) plus offset.
func (w *World) AdvanceSlots(k uint64, offset time.Duration) error {
	t := w.StartOfSlot(w.Slot() + k).Add(offset)
	if t.Before(w.Clock.Now()) {
		t = w.Clock.Now()
	}
	return w.AdvanceTo(t)
}

// ---- events ----

// BlockRootAt derives a block root for a head event.
func BlockRootAt(slot uint64, n int) phase0.Root {
	var r phase0.Root
	r[0] = 0xb0
	r[1] = byte(n)
	for i := 0; i < 8; i++ {
		r[8+i] = byte(slot >> (8 * i))
	}
	return r
}

// Head delivers a head event for slot (current - back) carrying the chain's
// present dependent roots for the epoch of that slot, then fires what became due.
func (w *World) Head(back uint64) error {
	if w.Proc == nil {
		return nil
	}
	w.begin("head")
	defer w.end()
	slot := w.Slot()
	if back > slot {
		back = slot
	}
	slot -= back
	epoch := slot / w.P.SlotsPerEpoch
	prev, cur := w.Chain.EventRoots(epoch)
	w.Chain.SetHeadSlot(slot)
	rec := HeadRec{EventSlot: slot, Previous: prev, Current: cur}
	w.Log.mu.Lock()
	w.stamp(&rec.Stamp)
	w.Log.mu.Unlock()
	ev := &apiv1.Event{Topic: "head", Data: &apiv1.HeadEvent{
		Slot:                      phase0.Slot(slot),
		Block:                     BlockRootAt(slot, rec.Seq),
		State:                     BlockRootAt(slot, rec.Seq+1),
		EpochTransition:           slot%w.P.SlotsPerEpoch == 0,
		PreviousDutyDependentRoot: prev,
		CurrentDutyDependentRoot:  cur,
	}}
	for _, h := range w.Proc.handlers["head"] {
		h(ev)
	}
	if err := w.Quiesce(); err != nil {
		return err
	}
	if err := w.advanceTo(w.Clock.Now()); err != nil {
		return err
	}
	rec.EndSeq = w.Log.Seq()
	w.Log.mu.Lock()
	w.Log.heads = append(w.Log.heads, rec)
	w.Log.mu.Unlock()
	return w.step("head")
}

// ReleaseHeld lets the duty requests held by Node.Hold(kind) ("" = all) be
// answered now, waits for quiescence and fires what became due.
func (w *World) ReleaseHeld(kind string) error {
	w.begin("release")
	defer w.end()
	w.Node.Release(kind)
	if err := w.Quiesce(); err != nil {
		return err
	}
	if err := w.advanceTo(w.Clock.Now()); err != nil {
		return err
	}
	return w.step("released")
}

// Block delivers a block event.
func (w *World) Block(slot uint64, root phase0.Root) error {
	if w.Proc == nil {
		return nil
	}
	w.begin("block")
	defer w.end()
	ev := &apiv1.Event{Topic: "block", Data: &apiv1.BlockEvent{Slot: phase0.Slot(slot), Block: root}}
	for _, h := range w.Proc.handlers["block"] {
		h(ev)
	}
	return w.Quiesce()
}
