package c03world

import (
	"context"
	"encoding/binary"
	"errors"
	"fmt"
	"sync"
	"sync/atomic"
	"time"

	eth2client "github.com/attestantio/go-eth2-client"
	"github.com/attestantio/go-eth2-client/api"
	apiv1 "github.com/attestantio/go-eth2-client/api/v1"
	"github.com/attestantio/go-eth2-client/spec"
	"github.com/attestantio/go-eth2-client/spec/phase0"
)

// Node is the beacon node double: duty providers backed by the Chain, the spec,
// the events provider (handlers are captured, the harness delivers events) and
// the two block providers the controller wants.
type Node struct {
	w *World
	// ExtraSpec is merged into the spec map (C20 adds domains and sizes for real services).
	ExtraSpec map[string]any

	gateMu      sync.Mutex
	gates       map[string]*gate
	held        atomic.Int32
	outstanding map[string]int // kind/epoch -> requests made and not yet answered
}

// Outstanding reports whether a duty request of the kind for the epoch has been
// made and not yet answered (the node is slow).
func (n *Node) Outstanding(kind string, epoch uint64) bool {
	n.gateMu.Lock()
	defer n.gateMu.Unlock()
	return n.outstanding[fmt.Sprintf("%s/%d", kind, epoch)] > 0
}

// request stamps a duty request, waits at the gate if the node is held, and
// returns the fetch record to be completed and a function to call when answering.
func (n *Node) request(kind string, epoch uint64, list []uint64) (Fetch, func()) {
	f := Fetch{Kind: kind, Epoch: epoch, Indices: list}
	var st Stamp
	n.w.Log.mu.Lock()
	n.w.stamp(&st)
	n.w.Log.mu.Unlock()
	f.ReqSeq, f.ReqAction, f.ReqPhase, f.ReqClockSlot = st.Seq, st.Action, st.Phase, st.ClockSlot
	key := fmt.Sprintf("%s/%d", kind, epoch)
	n.gateMu.Lock()
	if n.outstanding == nil {
		n.outstanding = map[string]int{}
	}
	n.outstanding[key]++
	n.gateMu.Unlock()
	n.gate(kind)
	return f, func() {
		n.gateMu.Lock()
		n.outstanding[key]--
		n.gateMu.Unlock()
	}
}

// Hold makes the node slow: duty requests of the kind (att | prop | sync) block
// until Release.  The goroutines so held count as quiescent (see World.Quiesce),
// which lets a history start a second refresh / preparation while the first has
// not obtained its duties yet, or move the clock while a request is outstanding.
func (n *Node) Hold(kind string) {
	n.gateMu.Lock()
	defer n.gateMu.Unlock()
	if n.gates == nil {
		n.gates = map[string]*gate{}
	}
	if n.gates[kind] == nil {
		n.gates[kind] = &gate{ch: make(chan struct{})}
	}
}

// Release lets the held duty requests of the kind ("" = all kinds) proceed; they
// answer from the chain as it is now.  From this moment they no longer count as
// held (they are runnable goroutines of vouch again).
func (n *Node) Release(kind string) {
	n.gateMu.Lock()
	defer n.gateMu.Unlock()
	for k, g := range n.gates {
		if kind == "" || k == kind {
			n.held.Add(-int32(g.waiting))
			close(g.ch)
			delete(n.gates, k)
		}
	}
}

// flush lets the requests that are waiting now proceed but keeps the node slow
// for the kinds that are held (used when a controller process is stopped).
func (n *Node) flush() {
	n.gateMu.Lock()
	defer n.gateMu.Unlock()
	for k, g := range n.gates {
		n.held.Add(-int32(g.waiting))
		close(g.ch)
		n.gates[k] = &gate{ch: make(chan struct{})}
	}
}

// Held returns the number of duty requests blocked by Hold.
func (n *Node) Held() int { return int(n.held.Load()) }

func (n *Node) gate(kind string) {
	n.gateMu.Lock()
	g := n.gates[kind]
	if g != nil {
		g.waiting++
		n.held.Add(1)
	}
	n.gateMu.Unlock()
	if g != nil {
		<-g.ch
	}
}

type gate struct {
	ch      chan struct{}
	waiting int
}

// PubKeyOf derives the public key bytes of a validator index.
func PubKeyOf(index uint64) phase0.BLSPubKey {
	var k phase0.BLSPubKey
	k[0] = 0xa0
	binary.LittleEndian.PutUint64(k[8:], index)
	k[47] = 0x01
	return k
}

// SpecMap returns the spec of the chain.
func (n *Node) SpecMap() map[string]any {
	p := n.w.P
	m := map[string]any{
		"SECONDS_PER_SLOT": time.Duration(p.SlotSeconds) * time.Second,
		"SLOTS_PER_EPOCH":  p.SlotsPerEpoch,
	}
	if p.EpochsPerSyncPeriod > 0 {
		m["EPOCHS_PER_SYNC_COMMITTEE_PERIOD"] = p.EpochsPerSyncPeriod
	}
	if p.Altair {
		m["ALTAIR_FORK_EPOCH"] = p.AltairForkEpoch
	}
	if p.Bellatrix {
		m["BELLATRIX_FORK_EPOCH"] = p.BellatrixForkEpoch
	}
	for k, v := range n.ExtraSpec {
		m[k] = v
	}
	return m
}

// Spec implements eth2client.SpecProvider.
func (n *Node) Spec(context.Context, *api.SpecOpts) (*api.Response[map[string]any], error) {
	return &api.Response[map[string]any]{Data: n.SpecMap(), Metadata: map[string]any{}}, nil
}

// Genesis implements eth2client.GenesisProvider.
func (n *Node) Genesis(context.Context, *api.GenesisOpts) (*api.Response[*apiv1.Genesis], error) {
	return &api.Response[*apiv1.Genesis]{Data: &apiv1.Genesis{GenesisTime: n.w.Clock.GenesisTime()}, Metadata: map[string]any{}}, nil
}

// Events implements eth2client.EventsProvider: handlers are captured per topic
// for the current process.
func (n *Node) Events(_ context.Context, topics []string, handler eth2client.EventHandlerFunc) error {
	n.w.mu.Lock()
	defer n.w.mu.Unlock()
	for _, t := range topics {
		n.w.pendingHandlers[t] = append(n.w.pendingHandlers[t], handler)
	}
	return nil
}

func asked(indices []phase0.ValidatorIndex) (map[uint64]bool, []uint64) {
	m := map[uint64]bool{}
	l := make([]uint64, 0, len(indices))
	for _, i := range indices {
		m[uint64(i)] = true
		l = append(l, uint64(i))
	}
	return m, l
}

// AttesterDuties implements eth2client.AttesterDutiesProvider.  Like a beacon
// node it answers only for the requested validators.
func (n *Node) AttesterDuties(ctx context.Context, opts *api.AttesterDutiesOpts) (*api.Response[[]*apiv1.AttesterDuty], error) {
	if opts == nil || len(opts.Indices) == 0 {
		return nil, errors.New("no validator indices specified")
	}
	want, list := asked(opts.Indices)
	f, answered := n.request("att", uint64(opts.Epoch), list)
	defer answered()
	if err := ctx.Err(); err != nil {
		// a client does not answer a request whose context is done
		f.Err, f.CtxDone = true, true
		n.w.logFetch(f)
		return nil, err
	}
	if n.w.Chain.takeFail("att") {
		f.Err = true
		n.w.logFetch(f)
		return nil, errors.New("scripted attester duties failure")
	}
	table, ver := n.w.Chain.AttesterTable(uint64(opts.Epoch))
	f.Version = ver
	res := make([]*apiv1.AttesterDuty, 0, len(table))
	for _, d := range table {
		if !want[d.Validator] {
			continue
		}
		f.Att = append(f.Att, d)
		res = append(res, &apiv1.AttesterDuty{
			PubKey:                  PubKeyOf(d.Validator),
			Slot:                    phase0.Slot(d.Slot),
			ValidatorIndex:          phase0.ValidatorIndex(d.Validator),
			CommitteeIndex:          phase0.CommitteeIndex(d.Committee),
			CommitteeLength:         d.CommitteeLength,
			CommitteesAtSlot:        d.CommitteesAtSlot,
			ValidatorCommitteeIndex: d.Position,
		})
	}
	n.w.logFetch(f)
	return &api.Response[[]*apiv1.AttesterDuty]{Data: res, Metadata: map[string]any{}}, nil
}

// ProposerDuties implements eth2client.ProposerDutiesProvider.
func (n *Node) ProposerDuties(ctx context.Context, opts *api.ProposerDutiesOpts) (*api.Response[[]*apiv1.ProposerDuty], error) {
	if opts == nil {
		return nil, errors.New("no options")
	}
	want, list := asked(opts.Indices)
	f, answered := n.request("prop", uint64(opts.Epoch), list)
	defer answered()
	if err := ctx.Err(); err != nil {
		// a client does not answer a request whose context is done
		f.Err, f.CtxDone = true, true
		n.w.logFetch(f)
		return nil, err
	}
	if n.w.Chain.takeFail("prop") {
		f.Err = true
		n.w.logFetch(f)
		return nil, errors.New("scripted proposer duties failure")
	}
	table, ver := n.w.Chain.ProposerTable(uint64(opts.Epoch))
	f.Version = ver
	res := make([]*apiv1.ProposerDuty, 0, len(table))
	for _, d := range table {
		if len(list) > 0 && !want[d.Validator] {
			continue
		}
		f.Prop = append(f.Prop, d)
		res = append(res, &apiv1.ProposerDuty{PubKey: PubKeyOf(d.Validator), Slot: phase0.Slot(d.Slot), ValidatorIndex: phase0.ValidatorIndex(d.Validator)})
	}
	n.w.logFetch(f)
	return &api.Response[[]*apiv1.ProposerDuty]{Data: res, Metadata: map[string]any{}}, nil
}

// SyncCommitteeDuties implements eth2client.SyncCommitteeDutiesProvider.
func (n *Node) SyncCommitteeDuties(ctx context.Context, opts *api.SyncCommitteeDutiesOpts) (*api.Response[[]*apiv1.SyncCommitteeDuty], error) {
	if opts == nil || len(opts.Indices) == 0 {
		return nil, errors.New("no validator indices specified")
	}
	want, list := asked(opts.Indices)
	f, answered := n.request("sync", uint64(opts.Epoch), list)
	defer answered()
	if err := ctx.Err(); err != nil {
		// a client does not answer a request whose context is done
		f.Err, f.CtxDone = true, true
		n.w.logFetch(f)
		return nil, err
	}
	if n.w.Chain.takeFail("sync") {
		f.Err = true
		n.w.logFetch(f)
		return nil, errors.New("scripted sync committee duties failure")
	}
	if n.w.P.Altair && uint64(opts.Epoch) < n.w.P.AltairForkEpoch {
		// a beacon node has no sync committees before the Altair fork
		f.Err = true
		n.w.logFetch(f)
		return nil, errors.New("epoch is before the Altair fork")
	}
	period := uint64(0)
	if n.w.P.EpochsPerSyncPeriod > 0 {
		period = uint64(opts.Epoch) / n.w.P.EpochsPerSyncPeriod
	}
	table, ver := n.w.Chain.SyncTable(period)
	f.Version = ver
	res := make([]*apiv1.SyncCommitteeDuty, 0, len(table))
	for _, d := range table {
		if !want[d.Validator] {
			continue
		}
		f.Sync = append(f.Sync, d)
		idx := make([]phase0.CommitteeIndex, len(d.Indices))
		for i, x := range d.Indices {
			idx[i] = phase0.CommitteeIndex(x)
		}
		res = append(res, &apiv1.SyncCommitteeDuty{PubKey: PubKeyOf(d.Validator), ValidatorIndex: phase0.ValidatorIndex(d.Validator), ValidatorSyncCommitteeIndices: idx})
	}
	n.w.logFetch(f)
	return &api.Response[[]*apiv1.SyncCommitteeDuty]{Data: res, Metadata: map[string]any{}}, nil
}

// BeaconBlockHeader implements eth2client.BeaconBlockHeadersProvider ("head" only).
func (n *Node) BeaconBlockHeader(ctx context.Context, _ *api.BeaconBlockHeaderOpts) (*api.Response[*apiv1.BeaconBlockHeader], error) {
	if err := ctx.Err(); err != nil {
		return nil, err
	}
	slot := n.w.Chain.HeadSlot()
	var root phase0.Root
	root[0] = 0xb1
	binary.LittleEndian.PutUint64(root[8:], slot)
	return &api.Response[*apiv1.BeaconBlockHeader]{Data: &apiv1.BeaconBlockHeader{
		Root:      root,
		Canonical: true,
		Header:    &phase0.SignedBeaconBlockHeader{Message: &phase0.BeaconBlockHeader{Slot: phase0.Slot(slot)}},
	}, Metadata: map[string]any{}}, nil
}

// SignedBeaconBlock implements eth2client.SignedBeaconBlockProvider; the world
// has no block bodies.
func (n *Node) SignedBeaconBlock(context.Context, *api.SignedBeaconBlockOpts) (*api.Response[*spec.VersionedSignedBeaconBlock], error) {
	return nil, errors.New("block not available")
}
