package c05

// Reference SSZ hash-tree-root of beacon block bodies, written from the
// consensus specification (ssz/simple-serialize.md "Merkleization" and the
// BeaconBlockBody / ExecutionPayload(Header) containers of phase0 … deneb).  It
// uses crypto/sha256 only and works on the plain values of a case (bodyVals),
// never on the library's structs, so it is independent of the HashTreeRoot code
// that vouch calls.

import (
	"crypto/sha256"
	"encoding/binary"
)

type chunk = [32]byte

var zeroHashes = func() [48]chunk {
	var z [48]chunk
	for i := 1; i < len(z); i++ {
		z[i] = hash2(z[i-1], z[i-1])
	}
	return z
}()

func hash2(a, b chunk) chunk {
	h := sha256.New()
	h.Write(a[:])
	h.Write(b[:])
	var r chunk
	copy(r[:], h.Sum(nil))
	return r
}

func depthFor(limit uint64) int {
	d := 0
	for (uint64(1) << uint(d)) < limit {
		d++
	}
	return d
}

// merkleize pads the chunks with zero chunks up to the next power of two of
// limit and returns the root of the resulting tree.
func merkleize(chunks []chunk, limit uint64) chunk {
	depth := depthFor(limit)
	layer := append([]chunk(nil), chunks...)
	if len(layer) == 0 {
		return zeroHashes[depth]
	}
	for lvl := 0; lvl < depth; lvl++ {
		if len(layer)%2 == 1 {
			layer = append(layer, zeroHashes[lvl])
		}
		next := make([]chunk, len(layer)/2)
		for i := range next {
			next[i] = hash2(layer[2*i], layer[2*i+1])
		}
		layer = next
	}
	return layer[0]
}

func pack(b []byte) []chunk {
	n := (len(b) + 31) / 32
	res := make([]chunk, n)
	for i := 0; i < n; i++ {
		end := (i + 1) * 32
		if end > len(b) {
			end = len(b)
		}
		copy(res[i][:], b[i*32:end])
	}
	return res
}

func u64c(v uint64) chunk {
	var c chunk
	binary.LittleEndian.PutUint64(c[:8], v)
	return c
}

func mixLen(r chunk, n uint64) chunk { return hash2(r, u64c(n)) }

func container(fields ...chunk) chunk { return merkleize(fields, uint64(len(fields))) }

// bytesVec is the root of a fixed-length byte vector.
func bytesVec(b []byte) chunk {
	p := pack(b)
	return merkleize(p, uint64(len(p)))
}

// bytesList is the root of ByteList[maxBytes].
func bytesList(b []byte, maxBytes uint64) chunk {
	return mixLen(merkleize(pack(b), (maxBytes+31)/32), uint64(len(b)))
}

// listOf is the root of List[Composite, limit] given the element roots.
func listOf(roots []chunk, limit uint64) chunk {
	return mixLen(merkleize(roots, limit), uint64(len(roots)))
}

// Limits of the mainnet preset.
const (
	maxProposerSlashings   = 16
	maxAttesterSlashings   = 2
	maxAttestations        = 128
	maxDeposits            = 16
	maxVoluntaryExits      = 16
	maxBytesPerTransaction = 1 << 30
	maxTransactions        = 1 << 20
	maxExtraDataBytes      = 32
	maxWithdrawals         = 16
	maxBLSChanges          = 16
	maxBlobCommitments     = 4096
)

func refTransactionsRoot(txs [][]byte) chunk {
	roots := make([]chunk, len(txs))
	for i, tx := range txs {
		roots[i] = bytesList(tx, maxBytesPerTransaction)
	}
	return listOf(roots, maxTransactions)
}

func refWithdrawalsRoot(ws []wdVal) chunk {
	roots := make([]chunk, len(ws))
	for i, w := range ws {
		roots[i] = container(u64c(w.index), u64c(w.validator), bytesVec(w.addr[:]), u64c(w.amount))
	}
	return listOf(roots, maxWithdrawals)
}

// refPayloadRoot is hash_tree_root(ExecutionPayload) of the given version; it is
// also hash_tree_root(ExecutionPayloadHeader) of the header of that payload.
func refPayloadRoot(version string, p *payloadVals) chunk {
	var baseFee chunk
	binary.LittleEndian.PutUint64(baseFee[:8], p.baseFee)
	fields := []chunk{
		p.parentHash,
		bytesVec(p.feeRecipient[:]),
		p.stateRoot,
		p.receiptsRoot,
		bytesVec(p.logsBloom[:]),
		p.prevRandao,
		u64c(p.blockNumber),
		u64c(p.gasLimit),
		u64c(p.gasUsed),
		u64c(p.timestamp),
		bytesList(p.extraData, maxExtraDataBytes),
		baseFee,
		p.blockHash,
		refTransactionsRoot(p.txs),
	}
	if version == "capella" || version == "deneb" {
		fields = append(fields, refWithdrawalsRoot(p.withdrawals))
	}
	if version == "deneb" {
		fields = append(fields, u64c(p.blobGasUsed), u64c(p.excessBlobGas))
	}
	return container(fields...)
}

// refBodyRoot is hash_tree_root(BeaconBlockBody) of the given version (equal for
// the blinded and the full form of the same body).
func refBodyRoot(version string, v *bodyVals) chunk {
	exits := make([]chunk, len(v.exits))
	for i, e := range v.exits {
		exits[i] = container(container(u64c(e.epoch), u64c(e.index)), bytesVec(e.sig[:]))
	}
	fields := []chunk{
		bytesVec(v.randao[:]),
		container(v.eth1DepositRoot, u64c(v.eth1Count), v.eth1BlockHash),
		v.graffiti,
		listOf(nil, maxProposerSlashings),
		listOf(nil, maxAttesterSlashings),
		listOf(nil, maxAttestations),
		listOf(nil, maxDeposits),
		listOf(exits, maxVoluntaryExits),
	}
	if version != "phase0" {
		fields = append(fields, container(bytesVec(v.syncBits[:]), bytesVec(v.syncSig[:])))
	}
	if version == "bellatrix" || version == "capella" || version == "deneb" {
		fields = append(fields, refPayloadRoot(version, &v.payload))
	}
	if version == "capella" || version == "deneb" {
		fields = append(fields, listOf(nil, maxBLSChanges))
	}
	if version == "deneb" {
		cs := make([]chunk, len(v.commitments))
		for i := range v.commitments {
			cs[i] = bytesVec(v.commitments[i][:])
		}
		fields = append(fields, listOf(cs, maxBlobCommitments))
	}
	return container(fields...)
}
