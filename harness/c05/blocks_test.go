package c05

// The case description, the plain values derived from it, and the builders that
// turn those values into go-eth2-client structures (what a beacon node / relay
// double hands to vouch, and what the oracle expects to see again).

import (
	"encoding/binary"
	"encoding/json"
	"fmt"
	"math/big"

	"github.com/attestantio/go-eth2-client/api"
	apiv1bellatrix "github.com/attestantio/go-eth2-client/api/v1/bellatrix"
	apiv1capella "github.com/attestantio/go-eth2-client/api/v1/capella"
	apiv1deneb "github.com/attestantio/go-eth2-client/api/v1/deneb"
	"github.com/attestantio/go-eth2-client/spec"
	"github.com/attestantio/go-eth2-client/spec/altair"
	"github.com/attestantio/go-eth2-client/spec/bellatrix"
	"github.com/attestantio/go-eth2-client/spec/capella"
	"github.com/attestantio/go-eth2-client/spec/deneb"
	"github.com/attestantio/go-eth2-client/spec/phase0"
	"github.com/holiman/uint256"
	bitfield "github.com/prysmaticlabs/go-bitfield"
)

// RelaySpec scripts one relay of the auction result.
type RelaySpec struct {
	// Kind: "relay" (a builder client that can unblind, like the real HTTP
	// client) or "nounblind" (a bid provider that cannot unblind).
	Kind string `json:"kind"`
	// Winner: the relay is among Results.Providers (offered the winning bid).
	Winner bool `json:"winner"`
	// Steps: outcome of the 1st, 2nd, … unblind request; the last one repeats.
	// block | slow (block after 30 ms) | late (block after 1.3 s, i.e. after
	// another relay has used up several 250 ms back-offs) | sync (block, released
	// together with the other sync relays) | err (5xx-like error) | 400 | hang
	// (error when the context ends).
	Steps []string `json:"steps"`
}

// Exit is a voluntary exit in the body.
type Exit struct {
	Epoch uint64 `json:"epoch"`
	Index uint64 `json:"index"`
	Seed  uint8  `json:"seed"`
}

// Withdrawal is a withdrawal in the execution payload.
type Withdrawal struct {
	Index     uint64 `json:"index"`
	Validator uint64 `json:"validator"`
	Amount    uint64 `json:"amount"`
	Seed      uint8  `json:"seed"`
}

// BodySpec describes a small block body.
type BodySpec struct {
	Seed            uint8        `json:"seed"`
	Eth1Count       uint64       `json:"eth1_count"`
	Exits           []Exit       `json:"exits,omitempty"`
	BlockNumber     uint64       `json:"block_number"`
	GasLimit        uint64       `json:"gas_limit"`
	GasUsed         uint64       `json:"gas_used"`
	Timestamp       uint64       `json:"timestamp"`
	BaseFee         uint64       `json:"base_fee"`
	ExtraData       []byte       `json:"extra_data,omitempty"`
	Txs             [][]byte     `json:"txs,omitempty"`
	Withdrawals     []Withdrawal `json:"withdrawals,omitempty"`
	BlobGasUsed     uint64       `json:"blob_gas_used"`
	ExcessBlobGas   uint64       `json:"excess_blob_gas"`
	Blobs           []uint8      `json:"blobs,omitempty"` // one seed per blob (commitment, proof, blob)
	RewriteGraffiti bool         `json:"rewrite_graffiti,omitempty"`
}

// Case is one proposal duty with the behaviour of everything around it.
type Case struct {
	Version       string `json:"version"` // phase0 | altair | bellatrix | capella | deneb
	Blinded       bool   `json:"blinded"`
	SlotsPerEpoch uint64 `json:"slots_per_epoch"`
	DutySlot      uint64 `json:"duty_slot"`
	DutyIndex     uint64 `json:"duty_index"`
	// ProposalSlot / ProposerIndex: what the block returned by the node says.
	ProposalSlot  uint64   `json:"proposal_slot"`
	ProposerIndex uint64   `json:"proposer_index"`
	ParentSeed    uint8    `json:"parent_seed"`
	StateSeed     uint8    `json:"state_seed"`
	Body          BodySpec `json:"body"`

	Accounts     string `json:"accounts"` // ok | error | none
	Randao       string `json:"randao"`   // ok | error
	Graffiti     string `json:"graffiti"` // none (no provider) | ok | error
	GraffitiText []byte `json:"graffiti_text,omitempty"`
	// GraffitiDelayMs: the graffiti provider answers (or fails) only after this
	// long, or with the context's error if its context ends first.
	GraffitiDelayMs int `json:"graffiti_delay_ms,omitempty"`

	Auction    string      `json:"auction"` // absent (no auctioneer) | error | result
	Relays     []RelaySpec `json:"relays,omitempty"`
	UnblindAll bool        `json:"unblind_all"`

	ProposalErr bool `json:"proposal_err,omitempty"`
	SignErr     bool `json:"sign_err,omitempty"`
	SubmitErr   bool `json:"submit_err,omitempty"`

	// DeadlineMs bounds Propose (context deadline).
	DeadlineMs int `json:"deadline_ms"`

	// More: further duties served by the same proposer service instance (their
	// own More/Order are ignored; slots per epoch, presence of a graffiti provider
	// and of an auctioneer, and unblind_all are those of the first duty).
	More []Case `json:"more,omitempty"`
	// Order of the calls, e.g. ["prepare:0","prepare:1","propose:0","propose:1"];
	// empty = prepare and propose one duty after the other.
	Order []string `json:"order,omitempty"`
}

func fill(dst []byte, seed uint8, salt int) {
	for i := range dst {
		dst[i] = byte(int(seed)*37 + salt*11 + i*3 + 1)
	}
}

type exitVal struct {
	epoch, index uint64
	sig          [96]byte
}

type wdVal struct {
	index, validator, amount uint64
	addr                     [20]byte
}

type payloadVals struct {
	parentHash    [32]byte
	feeRecipient  [20]byte
	stateRoot     [32]byte
	receiptsRoot  [32]byte
	logsBloom     [256]byte
	prevRandao    [32]byte
	blockNumber   uint64
	gasLimit      uint64
	gasUsed       uint64
	timestamp     uint64
	extraData     []byte
	baseFee       uint64
	blockHash     [32]byte
	txs           [][]byte
	withdrawals   []wdVal
	blobGasUsed   uint64
	excessBlobGas uint64
}

type bodyVals struct {
	slot, proposerIndex uint64
	parentRoot          [32]byte
	stateRoot           [32]byte

	randao          [96]byte
	eth1DepositRoot [32]byte
	eth1Count       uint64
	eth1BlockHash   [32]byte
	graffiti        [32]byte
	exits           []exitVal
	syncBits        [64]byte
	syncSig         [96]byte
	payload         payloadVals
	commitments     [][48]byte
	proofs          [][48]byte
	blobSeeds       []uint8
}

// valsOf derives the plain values of the block the node returns for the given
// request (a node echoes the RANDAO reveal and, unless it rewrites it, the
// graffiti of the request).
func valsOf(c *Case, randao [96]byte, graffiti [32]byte) *bodyVals {
	b := &c.Body
	v := &bodyVals{slot: c.ProposalSlot, proposerIndex: c.ProposerIndex, randao: randao, graffiti: graffiti, eth1Count: b.Eth1Count}
	fill(v.parentRoot[:], c.ParentSeed, 1)
	fill(v.stateRoot[:], c.StateSeed, 2)
	if b.RewriteGraffiti {
		copy(v.graffiti[:], "node/v1.2.3 rewritten")
	}
	fill(v.eth1DepositRoot[:], b.Seed, 3)
	fill(v.eth1BlockHash[:], b.Seed, 4)
	for _, e := range b.Exits {
		ev := exitVal{epoch: e.Epoch, index: e.Index}
		fill(ev.sig[:], e.Seed, 5)
		v.exits = append(v.exits, ev)
	}
	fill(v.syncBits[:], b.Seed, 6)
	fill(v.syncSig[:], b.Seed, 7)
	p := &v.payload
	fill(p.parentHash[:], b.Seed, 8)
	fill(p.feeRecipient[:], b.Seed, 9)
	fill(p.stateRoot[:], b.Seed, 10)
	fill(p.receiptsRoot[:], b.Seed, 11)
	fill(p.logsBloom[:], b.Seed, 12)
	fill(p.prevRandao[:], b.Seed, 13)
	fill(p.blockHash[:], b.Seed, 14)
	p.blockNumber, p.gasLimit, p.gasUsed, p.timestamp, p.baseFee = b.BlockNumber, b.GasLimit, b.GasUsed, b.Timestamp, b.BaseFee
	p.extraData = append([]byte{}, b.ExtraData...)
	for _, tx := range b.Txs {
		p.txs = append(p.txs, append([]byte{}, tx...))
	}
	if c.Version == "capella" || c.Version == "deneb" {
		for _, w := range b.Withdrawals {
			wv := wdVal{index: w.Index, validator: w.Validator, amount: w.Amount}
			fill(wv.addr[:], w.Seed, 15)
			p.withdrawals = append(p.withdrawals, wv)
		}
	}
	if c.Version == "deneb" {
		p.blobGasUsed, p.excessBlobGas = b.BlobGasUsed, b.ExcessBlobGas
		for _, s := range b.Blobs {
			var cm, pr [48]byte
			fill(cm[:], s, 16)
			fill(pr[:], s, 17)
			v.commitments = append(v.commitments, cm)
			v.proofs = append(v.proofs, pr)
			v.blobSeeds = append(v.blobSeeds, s)
		}
	}
	return v
}

func dataVersion(version string) spec.DataVersion {
	switch version {
	case "phase0":
		return spec.DataVersionPhase0
	case "altair":
		return spec.DataVersionAltair
	case "bellatrix":
		return spec.DataVersionBellatrix
	case "capella":
		return spec.DataVersionCapella
	case "deneb":
		return spec.DataVersionDeneb
	}
	return spec.DataVersionUnknown
}

func knownVersion(version string) bool { return dataVersion(version) != spec.DataVersionUnknown }

func blindable(version string) bool {
	return version == "bellatrix" || version == "capella" || version == "deneb"
}

// ---- library structures from plain values (fresh objects on every call) ----

type commonParts struct {
	randao   phase0.BLSSignature
	eth1     *phase0.ETH1Data
	graffiti [32]byte
	ps       []*phase0.ProposerSlashing
	as       []*phase0.AttesterSlashing
	atts     []*phase0.Attestation
	deps     []*phase0.Deposit
	exits    []*phase0.SignedVoluntaryExit
	sync     *altair.SyncAggregate
	bls      []*capella.SignedBLSToExecutionChange
	kzg      []deneb.KZGCommitment
}

func libCommon(v *bodyVals) commonParts {
	cp := commonParts{
		randao:   phase0.BLSSignature(v.randao),
		eth1:     &phase0.ETH1Data{DepositRoot: phase0.Root(v.eth1DepositRoot), DepositCount: v.eth1Count, BlockHash: append([]byte{}, v.eth1BlockHash[:]...)},
		graffiti: v.graffiti,
		ps:       []*phase0.ProposerSlashing{},
		as:       []*phase0.AttesterSlashing{},
		atts:     []*phase0.Attestation{},
		deps:     []*phase0.Deposit{},
		exits:    []*phase0.SignedVoluntaryExit{},
		bls:      []*capella.SignedBLSToExecutionChange{},
		kzg:      []deneb.KZGCommitment{},
	}
	for _, e := range v.exits {
		cp.exits = append(cp.exits, &phase0.SignedVoluntaryExit{
			Message:   &phase0.VoluntaryExit{Epoch: phase0.Epoch(e.epoch), ValidatorIndex: phase0.ValidatorIndex(e.index)},
			Signature: phase0.BLSSignature(e.sig),
		})
	}
	cp.sync = &altair.SyncAggregate{
		SyncCommitteeBits:      bitfield.Bitvector512(append([]byte{}, v.syncBits[:]...)),
		SyncCommitteeSignature: phase0.BLSSignature(v.syncSig),
	}
	for _, c := range v.commitments {
		cp.kzg = append(cp.kzg, deneb.KZGCommitment(c))
	}
	return cp
}

func baseFeeLE(p *payloadVals) [32]byte {
	var b [32]byte
	binary.LittleEndian.PutUint64(b[:8], p.baseFee)
	return b
}

func libTxs(p *payloadVals) []bellatrix.Transaction {
	txs := []bellatrix.Transaction{}
	for _, tx := range p.txs {
		txs = append(txs, bellatrix.Transaction(append([]byte{}, tx...)))
	}
	return txs
}

func libWithdrawals(p *payloadVals) []*capella.Withdrawal {
	ws := []*capella.Withdrawal{}
	for _, w := range p.withdrawals {
		ws = append(ws, &capella.Withdrawal{
			Index:          capella.WithdrawalIndex(w.index),
			ValidatorIndex: phase0.ValidatorIndex(w.validator),
			Address:        bellatrix.ExecutionAddress(w.addr),
			Amount:         phase0.Gwei(w.amount),
		})
	}
	return ws
}

func bellatrixPayload(p *payloadVals) *bellatrix.ExecutionPayload {
	return &bellatrix.ExecutionPayload{
		ParentHash: phase0.Hash32(p.parentHash), FeeRecipient: bellatrix.ExecutionAddress(p.feeRecipient),
		StateRoot: p.stateRoot, ReceiptsRoot: p.receiptsRoot, LogsBloom: p.logsBloom, PrevRandao: p.prevRandao,
		BlockNumber: p.blockNumber, GasLimit: p.gasLimit, GasUsed: p.gasUsed, Timestamp: p.timestamp,
		ExtraData: append([]byte{}, p.extraData...), BaseFeePerGas: baseFeeLE(p), BlockHash: phase0.Hash32(p.blockHash),
		Transactions: libTxs(p),
	}
}

func bellatrixHeader(p *payloadVals) *bellatrix.ExecutionPayloadHeader {
	return &bellatrix.ExecutionPayloadHeader{
		ParentHash: phase0.Hash32(p.parentHash), FeeRecipient: bellatrix.ExecutionAddress(p.feeRecipient),
		StateRoot: p.stateRoot, ReceiptsRoot: p.receiptsRoot, LogsBloom: p.logsBloom, PrevRandao: p.prevRandao,
		BlockNumber: p.blockNumber, GasLimit: p.gasLimit, GasUsed: p.gasUsed, Timestamp: p.timestamp,
		ExtraData: append([]byte{}, p.extraData...), BaseFeePerGas: baseFeeLE(p), BlockHash: phase0.Hash32(p.blockHash),
		TransactionsRoot: phase0.Root(refTransactionsRoot(p.txs)),
	}
}

func capellaPayload(p *payloadVals) *capella.ExecutionPayload {
	return &capella.ExecutionPayload{
		ParentHash: phase0.Hash32(p.parentHash), FeeRecipient: bellatrix.ExecutionAddress(p.feeRecipient),
		StateRoot: p.stateRoot, ReceiptsRoot: p.receiptsRoot, LogsBloom: p.logsBloom, PrevRandao: p.prevRandao,
		BlockNumber: p.blockNumber, GasLimit: p.gasLimit, GasUsed: p.gasUsed, Timestamp: p.timestamp,
		ExtraData: append([]byte{}, p.extraData...), BaseFeePerGas: baseFeeLE(p), BlockHash: phase0.Hash32(p.blockHash),
		Transactions: libTxs(p), Withdrawals: libWithdrawals(p),
	}
}

func capellaHeader(p *payloadVals) *capella.ExecutionPayloadHeader {
	return &capella.ExecutionPayloadHeader{
		ParentHash: phase0.Hash32(p.parentHash), FeeRecipient: bellatrix.ExecutionAddress(p.feeRecipient),
		StateRoot: p.stateRoot, ReceiptsRoot: p.receiptsRoot, LogsBloom: p.logsBloom, PrevRandao: p.prevRandao,
		BlockNumber: p.blockNumber, GasLimit: p.gasLimit, GasUsed: p.gasUsed, Timestamp: p.timestamp,
		ExtraData: append([]byte{}, p.extraData...), BaseFeePerGas: baseFeeLE(p), BlockHash: phase0.Hash32(p.blockHash),
		TransactionsRoot: phase0.Root(refTransactionsRoot(p.txs)), WithdrawalsRoot: phase0.Root(refWithdrawalsRoot(p.withdrawals)),
	}
}

func denebPayload(p *payloadVals) *deneb.ExecutionPayload {
	return &deneb.ExecutionPayload{
		ParentHash: phase0.Hash32(p.parentHash), FeeRecipient: bellatrix.ExecutionAddress(p.feeRecipient),
		StateRoot: phase0.Root(p.stateRoot), ReceiptsRoot: phase0.Root(p.receiptsRoot), LogsBloom: p.logsBloom, PrevRandao: p.prevRandao,
		BlockNumber: p.blockNumber, GasLimit: p.gasLimit, GasUsed: p.gasUsed, Timestamp: p.timestamp,
		ExtraData: append([]byte{}, p.extraData...), BaseFeePerGas: uint256.NewInt(p.baseFee), BlockHash: phase0.Hash32(p.blockHash),
		Transactions: libTxs(p), Withdrawals: libWithdrawals(p), BlobGasUsed: p.blobGasUsed, ExcessBlobGas: p.excessBlobGas,
	}
}

func denebHeader(p *payloadVals) *deneb.ExecutionPayloadHeader {
	return &deneb.ExecutionPayloadHeader{
		ParentHash: phase0.Hash32(p.parentHash), FeeRecipient: bellatrix.ExecutionAddress(p.feeRecipient),
		StateRoot: phase0.Root(p.stateRoot), ReceiptsRoot: phase0.Root(p.receiptsRoot), LogsBloom: p.logsBloom, PrevRandao: p.prevRandao,
		BlockNumber: p.blockNumber, GasLimit: p.gasLimit, GasUsed: p.gasUsed, Timestamp: p.timestamp,
		ExtraData: append([]byte{}, p.extraData...), BaseFeePerGas: uint256.NewInt(p.baseFee), BlockHash: phase0.Hash32(p.blockHash),
		TransactionsRoot: phase0.Root(refTransactionsRoot(p.txs)), WithdrawalsRoot: phase0.Root(refWithdrawalsRoot(p.withdrawals)),
		BlobGasUsed: p.blobGasUsed, ExcessBlobGas: p.excessBlobGas,
	}
}

func libProofs(v *bodyVals) []deneb.KZGProof {
	res := []deneb.KZGProof{}
	for _, p := range v.proofs {
		res = append(res, deneb.KZGProof(p))
	}
	return res
}

func libBlobs(v *bodyVals) []deneb.Blob {
	res := make([]deneb.Blob, len(v.blobSeeds))
	for i, s := range v.blobSeeds {
		fill(res[i][:64], s, 18)
		fill(res[i][len(res[i])-32:], s, 19)
	}
	return res
}

// blocks holds the message of every form; exactly one is non-nil.
type blocks struct {
	phase0           *phase0.BeaconBlock
	altair           *altair.BeaconBlock
	bellatrix        *bellatrix.BeaconBlock
	bellatrixBlinded *apiv1bellatrix.BlindedBeaconBlock
	capella          *capella.BeaconBlock
	capellaBlinded   *apiv1capella.BlindedBeaconBlock
	deneb            *apiv1deneb.BlockContents
	denebBlinded     *apiv1deneb.BlindedBeaconBlock
}

func buildBlocks(version string, blinded bool, v *bodyVals) blocks {
	cp := libCommon(v)
	slot, pi := phase0.Slot(v.slot), phase0.ValidatorIndex(v.proposerIndex)
	parent, state := phase0.Root(v.parentRoot), phase0.Root(v.stateRoot)
	var b blocks
	switch version {
	case "phase0":
		b.phase0 = &phase0.BeaconBlock{Slot: slot, ProposerIndex: pi, ParentRoot: parent, StateRoot: state, Body: &phase0.BeaconBlockBody{
			RANDAOReveal: cp.randao, ETH1Data: cp.eth1, Graffiti: cp.graffiti, ProposerSlashings: cp.ps, AttesterSlashings: cp.as,
			Attestations: cp.atts, Deposits: cp.deps, VoluntaryExits: cp.exits}}
	case "altair":
		b.altair = &altair.BeaconBlock{Slot: slot, ProposerIndex: pi, ParentRoot: parent, StateRoot: state, Body: &altair.BeaconBlockBody{
			RANDAOReveal: cp.randao, ETH1Data: cp.eth1, Graffiti: cp.graffiti, ProposerSlashings: cp.ps, AttesterSlashings: cp.as,
			Attestations: cp.atts, Deposits: cp.deps, VoluntaryExits: cp.exits, SyncAggregate: cp.sync}}
	case "bellatrix":
		if blinded {
			b.bellatrixBlinded = &apiv1bellatrix.BlindedBeaconBlock{Slot: slot, ProposerIndex: pi, ParentRoot: parent, StateRoot: state, Body: &apiv1bellatrix.BlindedBeaconBlockBody{
				RANDAOReveal: cp.randao, ETH1Data: cp.eth1, Graffiti: cp.graffiti, ProposerSlashings: cp.ps, AttesterSlashings: cp.as,
				Attestations: cp.atts, Deposits: cp.deps, VoluntaryExits: cp.exits, SyncAggregate: cp.sync,
				ExecutionPayloadHeader: bellatrixHeader(&v.payload)}}
		} else {
			b.bellatrix = &bellatrix.BeaconBlock{Slot: slot, ProposerIndex: pi, ParentRoot: parent, StateRoot: state, Body: &bellatrix.BeaconBlockBody{
				RANDAOReveal: cp.randao, ETH1Data: cp.eth1, Graffiti: cp.graffiti, ProposerSlashings: cp.ps, AttesterSlashings: cp.as,
				Attestations: cp.atts, Deposits: cp.deps, VoluntaryExits: cp.exits, SyncAggregate: cp.sync,
				ExecutionPayload: bellatrixPayload(&v.payload)}}
		}
	case "capella":
		if blinded {
			b.capellaBlinded = &apiv1capella.BlindedBeaconBlock{Slot: slot, ProposerIndex: pi, ParentRoot: parent, StateRoot: state, Body: &apiv1capella.BlindedBeaconBlockBody{
				RANDAOReveal: cp.randao, ETH1Data: cp.eth1, Graffiti: cp.graffiti, ProposerSlashings: cp.ps, AttesterSlashings: cp.as,
				Attestations: cp.atts, Deposits: cp.deps, VoluntaryExits: cp.exits, SyncAggregate: cp.sync,
				ExecutionPayloadHeader: capellaHeader(&v.payload), BLSToExecutionChanges: cp.bls}}
		} else {
			b.capella = &capella.BeaconBlock{Slot: slot, ProposerIndex: pi, ParentRoot: parent, StateRoot: state, Body: &capella.BeaconBlockBody{
				RANDAOReveal: cp.randao, ETH1Data: cp.eth1, Graffiti: cp.graffiti, ProposerSlashings: cp.ps, AttesterSlashings: cp.as,
				Attestations: cp.atts, Deposits: cp.deps, VoluntaryExits: cp.exits, SyncAggregate: cp.sync,
				ExecutionPayload: capellaPayload(&v.payload), BLSToExecutionChanges: cp.bls}}
		}
	case "deneb":
		if blinded {
			b.denebBlinded = &apiv1deneb.BlindedBeaconBlock{Slot: slot, ProposerIndex: pi, ParentRoot: parent, StateRoot: state, Body: &apiv1deneb.BlindedBeaconBlockBody{
				RANDAOReveal: cp.randao, ETH1Data: cp.eth1, Graffiti: cp.graffiti, ProposerSlashings: cp.ps, AttesterSlashings: cp.as,
				Attestations: cp.atts, Deposits: cp.deps, VoluntaryExits: cp.exits, SyncAggregate: cp.sync,
				ExecutionPayloadHeader: denebHeader(&v.payload), BLSToExecutionChanges: cp.bls, BlobKZGCommitments: cp.kzg}}
		} else {
			b.deneb = &apiv1deneb.BlockContents{
				Block: &deneb.BeaconBlock{Slot: slot, ProposerIndex: pi, ParentRoot: parent, StateRoot: state, Body: &deneb.BeaconBlockBody{
					RANDAOReveal: cp.randao, ETH1Data: cp.eth1, Graffiti: cp.graffiti, ProposerSlashings: cp.ps, AttesterSlashings: cp.as,
					Attestations: cp.atts, Deposits: cp.deps, VoluntaryExits: cp.exits, SyncAggregate: cp.sync,
					ExecutionPayload: denebPayload(&v.payload), BLSToExecutionChanges: cp.bls, BlobKZGCommitments: cp.kzg}},
				KZGProofs: libProofs(v), Blobs: libBlobs(v)}
		}
	}
	return b
}

// buildProposal is what the beacon node double returns.
func buildProposal(c *Case, v *bodyVals) *api.VersionedProposal {
	b := buildBlocks(c.Version, c.Blinded, v)
	return &api.VersionedProposal{
		Version:          dataVersion(c.Version),
		Blinded:          c.Blinded,
		ConsensusValue:   big.NewInt(12345),
		ExecutionValue:   big.NewInt(67890),
		Phase0:           b.phase0,
		Altair:           b.altair,
		Bellatrix:        b.bellatrix,
		BellatrixBlinded: b.bellatrixBlinded,
		Capella:          b.capella,
		CapellaBlinded:   b.capellaBlinded,
		Deneb:            b.deneb,
		DenebBlinded:     b.denebBlinded,
	}
}

// signedContainer returns the signed container of the given form of the block
// described by v (independently of anything vouch did).
func signedContainer(version string, blinded bool, v *bodyVals, sig [96]byte) any {
	b := buildBlocks(version, blinded, v)
	s := phase0.BLSSignature(sig)
	switch {
	case b.phase0 != nil:
		return &phase0.SignedBeaconBlock{Message: b.phase0, Signature: s}
	case b.altair != nil:
		return &altair.SignedBeaconBlock{Message: b.altair, Signature: s}
	case b.bellatrix != nil:
		return &bellatrix.SignedBeaconBlock{Message: b.bellatrix, Signature: s}
	case b.bellatrixBlinded != nil:
		return &apiv1bellatrix.SignedBlindedBeaconBlock{Message: b.bellatrixBlinded, Signature: s}
	case b.capella != nil:
		return &capella.SignedBeaconBlock{Message: b.capella, Signature: s}
	case b.capellaBlinded != nil:
		return &apiv1capella.SignedBlindedBeaconBlock{Message: b.capellaBlinded, Signature: s}
	case b.deneb != nil:
		return &apiv1deneb.SignedBlockContents{SignedBlock: &deneb.SignedBeaconBlock{Message: b.deneb.Block, Signature: s}, KZGProofs: b.deneb.KZGProofs, Blobs: b.deneb.Blobs}
	case b.denebBlinded != nil:
		return &apiv1deneb.SignedBlindedBeaconBlock{Message: b.denebBlinded, Signature: s}
	}
	return nil
}

// wire renders a signed container the way it travels to a relay / beacon node.
func wire(v any) string {
	b, err := json.Marshal(v)
	if err != nil {
		return "unmarshalable: " + err.Error()
	}
	return string(b)
}

// blindedOf returns the signed blinded block of a relay request (nil if the
// request does not carry one for its version).
func blindedOf(p *api.VersionedSignedBlindedProposal) any {
	switch p.Version {
	case spec.DataVersionBellatrix:
		if p.Bellatrix != nil {
			return p.Bellatrix
		}
	case spec.DataVersionCapella:
		if p.Capella != nil {
			return p.Capella
		}
	case spec.DataVersionDeneb:
		if p.Deneb != nil {
			return p.Deneb
		}
	}
	return nil
}

// fullOf returns the full signed container of a submitted proposal for its
// version (nil if absent).
func fullOf(p *api.VersionedSignedProposal) any {
	switch p.Version {
	case spec.DataVersionPhase0:
		if p.Phase0 != nil {
			return p.Phase0
		}
	case spec.DataVersionAltair:
		if p.Altair != nil {
			return p.Altair
		}
	case spec.DataVersionBellatrix:
		if p.Bellatrix != nil {
			return p.Bellatrix
		}
	case spec.DataVersionCapella:
		if p.Capella != nil {
			return p.Capella
		}
	case spec.DataVersionDeneb:
		if p.Deneb != nil {
			return p.Deneb
		}
	}
	return nil
}

// sigAndSlot extracts the block signature and the slot of a submitted container.
func sigAndSlot(p *api.VersionedSignedProposal) (sig phase0.BLSSignature, slot uint64, ok bool) {
	if p == nil {
		return sig, 0, false
	}
	switch {
	case p.Phase0 != nil && p.Phase0.Message != nil:
		return p.Phase0.Signature, uint64(p.Phase0.Message.Slot), true
	case p.Altair != nil && p.Altair.Message != nil:
		return p.Altair.Signature, uint64(p.Altair.Message.Slot), true
	case p.Bellatrix != nil && p.Bellatrix.Message != nil:
		return p.Bellatrix.Signature, uint64(p.Bellatrix.Message.Slot), true
	case p.Capella != nil && p.Capella.Message != nil:
		return p.Capella.Signature, uint64(p.Capella.Message.Slot), true
	case p.Deneb != nil && p.Deneb.SignedBlock != nil && p.Deneb.SignedBlock.Message != nil:
		return p.Deneb.SignedBlock.Signature, uint64(p.Deneb.SignedBlock.Message.Slot), true
	case p.BellatrixBlinded != nil && p.BellatrixBlinded.Message != nil:
		return p.BellatrixBlinded.Signature, uint64(p.BellatrixBlinded.Message.Slot), true
	case p.CapellaBlinded != nil && p.CapellaBlinded.Message != nil:
		return p.CapellaBlinded.Signature, uint64(p.CapellaBlinded.Message.Slot), true
	case p.DenebBlinded != nil && p.DenebBlinded.Message != nil:
		return p.DenebBlinded.Signature, uint64(p.DenebBlinded.Message.Slot), true
	}
	return sig, 0, false
}

// unblind reconstructs the full signed block from a relay request and the
// relay's payload, exactly as the real builder client does (all block fields are
// taken over from the request, the payload comes from the relay).
func unblind(req *api.VersionedSignedBlindedProposal, v *bodyVals) (*api.VersionedSignedProposal, error) {
	switch req.Version {
	case spec.DataVersionBellatrix:
		p := req.Bellatrix
		if p.Message == nil || p.Message.Body == nil {
			return nil, fmt.Errorf("malformed request")
		}
		m := p.Message
		return &api.VersionedSignedProposal{Version: req.Version, Bellatrix: &bellatrix.SignedBeaconBlock{
			Message: &bellatrix.BeaconBlock{Slot: m.Slot, ProposerIndex: m.ProposerIndex, ParentRoot: m.ParentRoot, StateRoot: m.StateRoot,
				Body: &bellatrix.BeaconBlockBody{RANDAOReveal: m.Body.RANDAOReveal, ETH1Data: m.Body.ETH1Data, Graffiti: m.Body.Graffiti,
					ProposerSlashings: m.Body.ProposerSlashings, AttesterSlashings: m.Body.AttesterSlashings, Attestations: m.Body.Attestations,
					Deposits: m.Body.Deposits, VoluntaryExits: m.Body.VoluntaryExits, SyncAggregate: m.Body.SyncAggregate,
					ExecutionPayload: bellatrixPayload(&v.payload)}},
			Signature: p.Signature}}, nil
	case spec.DataVersionCapella:
		p := req.Capella
		if p.Message == nil || p.Message.Body == nil {
			return nil, fmt.Errorf("malformed request")
		}
		m := p.Message
		return &api.VersionedSignedProposal{Version: req.Version, Capella: &capella.SignedBeaconBlock{
			Message: &capella.BeaconBlock{Slot: m.Slot, ProposerIndex: m.ProposerIndex, ParentRoot: m.ParentRoot, StateRoot: m.StateRoot,
				Body: &capella.BeaconBlockBody{RANDAOReveal: m.Body.RANDAOReveal, ETH1Data: m.Body.ETH1Data, Graffiti: m.Body.Graffiti,
					ProposerSlashings: m.Body.ProposerSlashings, AttesterSlashings: m.Body.AttesterSlashings, Attestations: m.Body.Attestations,
					Deposits: m.Body.Deposits, VoluntaryExits: m.Body.VoluntaryExits, SyncAggregate: m.Body.SyncAggregate,
					ExecutionPayload: capellaPayload(&v.payload), BLSToExecutionChanges: m.Body.BLSToExecutionChanges}},
			Signature: p.Signature}}, nil
	case spec.DataVersionDeneb:
		p := req.Deneb
		if p.Message == nil || p.Message.Body == nil {
			return nil, fmt.Errorf("malformed request")
		}
		m := p.Message
		return &api.VersionedSignedProposal{Version: req.Version, Deneb: &apiv1deneb.SignedBlockContents{
			SignedBlock: &deneb.SignedBeaconBlock{
				Message: &deneb.BeaconBlock{Slot: m.Slot, ProposerIndex: m.ProposerIndex, ParentRoot: m.ParentRoot, StateRoot: m.StateRoot,
					Body: &deneb.BeaconBlockBody{RANDAOReveal: m.Body.RANDAOReveal, ETH1Data: m.Body.ETH1Data, Graffiti: m.Body.Graffiti,
						ProposerSlashings: m.Body.ProposerSlashings, AttesterSlashings: m.Body.AttesterSlashings, Attestations: m.Body.Attestations,
						Deposits: m.Body.Deposits, VoluntaryExits: m.Body.VoluntaryExits, SyncAggregate: m.Body.SyncAggregate,
						ExecutionPayload: denebPayload(&v.payload), BLSToExecutionChanges: m.Body.BLSToExecutionChanges,
						BlobKZGCommitments: m.Body.BlobKZGCommitments}},
				Signature: p.Signature},
			KZGProofs: libProofs(v), Blobs: libBlobs(v)}}, nil
	}
	return nil, fmt.Errorf("unhandled data version %v", req.Version)
}
