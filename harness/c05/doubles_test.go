package c05

// Scripted, recording doubles for everything around the proposer service.  All
// behaviour is a function of the Case; every call is appended to the world's log
// with a sequence number taken from one counter (so "before/after" is defined).

import (
	"context"
	"errors"
	"fmt"
	"sync"
	"time"

	"github.com/attestantio/go-block-relay/services/blockauctioneer"
	builderclient "github.com/attestantio/go-builder-client"
	builderapi "github.com/attestantio/go-builder-client/api"
	builderspec "github.com/attestantio/go-builder-client/spec"
	"github.com/attestantio/go-eth2-client/api"
	"github.com/attestantio/go-eth2-client/spec/phase0"
	"github.com/google/uuid"
	e2types "github.com/wealdtech/go-eth2-types/v2"
	e2wtypes "github.com/wealdtech/go-eth2-wallet-types/v2"
)

const universe = 8 // validators 0..7 are known to the accounts provider

type pubkey struct{ b [48]byte }

func (p *pubkey) Marshal() []byte               { return append([]byte{}, p.b[:]...) }
func (p *pubkey) Aggregate(_ e2types.PublicKey) {}
func (p *pubkey) Copy() e2types.PublicKey       { c := *p; return &c }

type account struct {
	index uint64
	id    uuid.UUID
	pk    *pubkey
}

func (a *account) ID() uuid.UUID                { return a.id }
func (a *account) Name() string                 { return fmt.Sprintf("validator-%d", a.index) }
func (a *account) PublicKey() e2types.PublicKey { return a.pk }

type randaoCall struct {
	seq     int
	account e2wtypes.Account
	slot    uint64
	sig     phase0.BLSSignature
	err     error
}

type signCall struct {
	seq                 int
	account             e2wtypes.Account
	slot, index         uint64
	parent, state, body phase0.Root
	sig                 phase0.BLSSignature
	err                 error
	dead                bool // called with a context that had already ended
}

type graffitiCall struct {
	seq int // when it returned
	ret []byte
	err error
}

type proposalCall struct {
	seq      int
	dead     bool
	opts     api.ProposalOpts
	returned *api.VersionedProposal // nil if the node failed
	vals     *bodyVals
}

type relaySend struct {
	seq     int // when the request arrived
	relay   int
	attempt int
	wire    string // the signed blinded block as it would travel to the relay
	outcome string
	foreign string // non-empty: the request carried a block this relay knows nothing of (another slot)
	retSeq  int    // when the double returned (0 = still pending)
	retWire string // full signed block returned (outcome block/slow/sync only)
	ret     *api.VersionedSignedProposal
}

type submitCall struct {
	seq      int
	proposal *api.VersionedSignedProposal
	blinded  bool
	version  string
	wire     string // full container for the version at call time ("" if absent)
	hasBlind bool   // a blinded container was still attached
	dead     bool   // called with a context that had already ended (a real client sends nothing)
}

type world struct {
	id       int // number of the duty in the history
	auction  *auctionDouble
	c        *Case
	mu       sync.Mutex
	seq      int
	accounts []*account

	accountCalls  int
	accountIdx    [][]uint64
	randaos       []randaoCall
	graffitis     []graffitiCall
	auctionCalls  int
	headCalls     int
	proposals     []proposalCall
	signs         []signCall
	sends         []*relaySend
	emptyRequests int // requests the real client would refuse to send (no block attached)
	attempts      map[int]int
	submits       []submitCall
	blobSigns     int

	syncExpected int
	syncArrived  int
	syncCh       chan struct{}

	delivered     chan struct{} // closed when a relay double first returns a full block
	deliveredOnce sync.Once

	// rendezvous: the duty's Propose is held at holdAt (proposal | sign | unblind)
	// until the harness has run the later duties' Propose calls
	holdAt   string
	held     chan struct{} // closed when the hold point is reached
	heldOnce sync.Once
	release  chan struct{} // closed by the harness
}

// hold blocks at the duty's hold point until released (or the context ends, or
// 15 s have passed: a safety net, never reached).
func (w *world) hold(ctx context.Context, point string) {
	if w.holdAt != point {
		return
	}
	w.heldOnce.Do(func() { close(w.held) })
	tm := time.NewTimer(15 * time.Second)
	defer tm.Stop()
	select {
	case <-w.release:
	case <-ctx.Done():
	case <-tm.C:
	}
}

// tag makes a signature say which request produced it (duty, account, slot).
func (w *world) tag(sig *phase0.BLSSignature, acc e2wtypes.Account, slot uint64) {
	sig[1] = byte(w.id)
	if a, ok := acc.(*account); ok && a != nil {
		sig[2] = byte(a.index)
	} else {
		sig[2] = 0xff
	}
	for i := 0; i < 8; i++ {
		sig[3+i] = byte(slot >> (8 * i))
	}
}

func newAccounts() []*account {
	var res []*account
	for i := 0; i < universe; i++ {
		a := &account{index: uint64(i), pk: &pubkey{}}
		fill(a.pk.b[:], uint8(i), 40)
		fill(a.id[:], uint8(i), 41)
		res = append(res, a)
	}
	return res
}

// newWorld creates the log and the scripts of duty id; the accounts are those of
// the service (shared by all duties of a history).
func newWorld(id int, c *Case, accounts []*account) *world {
	w := &world{id: id, c: c, accounts: accounts, attempts: map[int]int{}, syncCh: make(chan struct{}), delivered: make(chan struct{}), held: make(chan struct{}), release: make(chan struct{})}
	w.auction = newAuction(w)
	for _, r := range c.Relays {
		if r.Kind == "relay" && len(r.Steps) > 0 && r.Steps[0] == "sync" {
			w.syncExpected++
		}
	}
	return w
}

func (w *world) next() int { w.seq++; return w.seq }

// router gives the (single) service's doubles the world of the duty that the
// harness is currently preparing or proposing; the steps of a history run one
// after the other, so every call is attributed to the duty it was made for.
// Relay doubles belong to the auction result of one duty and keep its world.
//
// While Propose calls overlap (concurrent), the calls made on behalf of a duty are
// told apart by what they carry: the slot (proposal request, graffiti, auction,
// block signature - the duties of a history have different slots) or the block
// signature inside a submitted container (the signer double's signatures name the
// duty they were returned to).  Something that names no duty is put down to the
// first duty that is being proposed, where the oracle will object to it.
type router struct {
	mu         sync.Mutex
	cur        *world
	concurrent bool
	worlds     []*world
	active     map[*world]bool
}

func (r *router) setConcurrent(on bool) { r.mu.Lock(); r.concurrent = on; r.mu.Unlock() }

func (r *router) setActive(w *world, on bool) {
	r.mu.Lock()
	if r.active == nil {
		r.active = map[*world]bool{}
	}
	if on {
		r.active[w] = true
	} else {
		delete(r.active, w)
	}
	r.mu.Unlock()
}

func (r *router) fallbackLocked() *world {
	for _, w := range r.worlds {
		if r.active[w] {
			return w
		}
	}
	return r.cur
}

// route returns the world of the duty a call for the given slot belongs to.
func (r *router) route(slot uint64) *world {
	r.mu.Lock()
	defer r.mu.Unlock()
	if !r.concurrent {
		return r.cur
	}
	for _, w := range r.worlds {
		if w.c.DutySlot == slot {
			return w
		}
	}
	return r.fallbackLocked()
}

// routeSubmission returns the world of the duty a submitted container belongs to.
func (r *router) routeSubmission(p *api.VersionedSignedProposal) *world {
	r.mu.Lock()
	defer r.mu.Unlock()
	if !r.concurrent {
		return r.cur
	}
	sig, slot, ok := sigAndSlot(p)
	if ok && sig[0] == 0xb5 && int(sig[1]) < len(r.worlds) {
		return r.worlds[sig[1]]
	}
	if ok {
		for _, w := range r.worlds {
			if w.c.DutySlot == slot {
				return w
			}
		}
	}
	return r.fallbackLocked()
}

func (r *router) set(w *world) { r.mu.Lock(); r.cur = w; r.mu.Unlock() }
func (r *router) world() *world {
	r.mu.Lock()
	defer r.mu.Unlock()
	return r.cur
}

// ---- accounts ----

type accountsDouble struct{ r *router }

func (d accountsDouble) ValidatingAccountsForEpoch(_ context.Context, _ phase0.Epoch) (map[phase0.ValidatorIndex]e2wtypes.Account, error) {
	return nil, errors.New("not used by the proposer")
}

func (d accountsDouble) ValidatingAccountsForEpochByIndex(_ context.Context, _ phase0.Epoch, indices []phase0.ValidatorIndex) (map[phase0.ValidatorIndex]e2wtypes.Account, error) {
	w := d.r.world()
	w.mu.Lock()
	defer w.mu.Unlock()
	w.next()
	w.accountCalls++
	switch w.c.Accounts {
	case "error":
		return nil, errors.New("scripted accounts failure")
	case "none":
		return map[phase0.ValidatorIndex]e2wtypes.Account{}, nil
	case "miskeyed":
		// a stale/buggy provider: exactly one account, another validator's, keyed
		// under that other validator's index
		res := map[phase0.ValidatorIndex]e2wtypes.Account{}
		for _, i := range indices {
			o := (uint64(i) + 1) % universe
			res[phase0.ValidatorIndex(o)] = w.accounts[o]
			break
		}
		return res, nil
	case "extra":
		// the requested account and, unasked, another validator's
		res := map[phase0.ValidatorIndex]e2wtypes.Account{}
		for _, i := range indices {
			if uint64(i) < universe {
				res[i] = w.accounts[i]
			}
			o := (uint64(i) + 1) % universe
			res[phase0.ValidatorIndex(o)] = w.accounts[o]
		}
		return res, nil
	}
	res := map[phase0.ValidatorIndex]e2wtypes.Account{}
	for _, i := range indices {
		if uint64(i) < universe {
			res[i] = w.accounts[i]
		}
	}
	return res, nil
}

func (d accountsDouble) SyncCommitteeAccountsForEpoch(_ context.Context, _ phase0.Epoch) (map[phase0.ValidatorIndex]e2wtypes.Account, error) {
	return nil, errors.New("not used by the proposer")
}

func (d accountsDouble) SyncCommitteeAccountsForEpochByIndex(_ context.Context, _ phase0.Epoch, _ []phase0.ValidatorIndex) (map[phase0.ValidatorIndex]e2wtypes.Account, error) {
	return nil, errors.New("not used by the proposer")
}

// ---- signer ----

type signerDouble struct{ r *router }

func (d signerDouble) SignRANDAOReveal(_ context.Context, acc e2wtypes.Account, slot phase0.Slot) (phase0.BLSSignature, error) {
	w := d.r.world()
	w.mu.Lock()
	defer w.mu.Unlock()
	rc := randaoCall{seq: w.next(), account: acc, slot: uint64(slot)}
	if acc == nil {
		// a signer cannot sign for no account
		rc.err = errors.New("no account specified")
	} else if w.c.Randao == "error" {
		rc.err = errors.New("scripted RANDAO failure")
	} else {
		fill(rc.sig[:], uint8(rc.seq), 50)
		rc.sig[0] = 0xa5
		w.tag(&rc.sig, acc, uint64(slot))
	}
	w.randaos = append(w.randaos, rc)
	return rc.sig, rc.err
}

func (d signerDouble) SignBeaconBlockProposal(ctx context.Context, acc e2wtypes.Account, slot phase0.Slot, index phase0.ValidatorIndex, parent, state, body phase0.Root) (phase0.BLSSignature, error) {
	w := d.r.route(uint64(slot))
	w.hold(ctx, "sign")
	w.mu.Lock()
	defer w.mu.Unlock()
	sc := signCall{seq: w.next(), account: acc, slot: uint64(slot), index: uint64(index), parent: parent, state: state, body: body}
	if err := ctx.Err(); err != nil {
		// a remote signer is not reached with a context that has ended
		sc.err, sc.dead = err, true
	} else if acc == nil {
		sc.err = errors.New("no account specified")
	} else if w.c.SignErr {
		sc.err = errors.New("scripted signing failure")
	} else {
		fill(sc.sig[:], uint8(sc.seq), 51)
		sc.sig[0] = 0xb5
		w.tag(&sc.sig, acc, uint64(slot))
	}
	w.signs = append(w.signs, sc)
	return sc.sig, sc.err
}

func (d signerDouble) SignBlobSidecar(_ context.Context, _ e2wtypes.Account, _ phase0.Slot, _ phase0.Root) (phase0.BLSSignature, error) {
	w := d.r.world()
	w.mu.Lock()
	w.blobSigns++
	w.mu.Unlock()
	return phase0.BLSSignature{}, errors.New("not expected")
}

// ---- graffiti ----

type graffitiDouble struct{ r *router }

func (d graffitiDouble) Graffiti(ctx context.Context, slot phase0.Slot, _ phase0.ValidatorIndex) ([]byte, error) {
	w := d.r.route(uint64(slot))
	var gc graffitiCall
	if w.c.GraffitiDelayMs > 0 {
		tm := time.NewTimer(time.Duration(w.c.GraffitiDelayMs) * time.Millisecond)
		select {
		case <-tm.C:
		case <-ctx.Done():
			gc.err = ctx.Err()
		}
		tm.Stop()
	}
	if gc.err == nil {
		gc.err = ctx.Err()
	}
	if gc.err == nil {
		if w.c.Graffiti == "error" {
			gc.err = errors.New("scripted graffiti failure")
		} else {
			gc.ret = append([]byte{}, w.c.GraffitiText...)
		}
	}
	w.mu.Lock()
	gc.seq = w.next()
	w.graffitis = append(w.graffitis, gc)
	w.mu.Unlock()
	return gc.ret, gc.err
}

// ---- execution chain head ----

type headDouble struct{ r *router }

func (d headDouble) ExecutionChainHead(_ context.Context) (phase0.Hash32, uint64) {
	w := d.r.world()
	w.mu.Lock()
	w.headCalls++
	w.mu.Unlock()
	var h phase0.Hash32
	fill(h[:], w.c.Body.Seed, 8)
	return h, w.c.Body.BlockNumber
}

// ---- beacon node ----

type nodeDouble struct{ r *router }

func (d nodeDouble) Proposal(ctx context.Context, opts *api.ProposalOpts) (*api.Response[*api.VersionedProposal], error) {
	var w *world
	if opts != nil {
		w = d.r.route(uint64(opts.Slot))
	} else {
		w = d.r.world()
	}
	w.hold(ctx, "proposal")
	w.mu.Lock()
	defer w.mu.Unlock()
	pc := proposalCall{seq: w.next()}
	if opts != nil {
		pc.opts = *opts
		pc.opts.BuilderBoostFactor = nil
	}
	if err := ctx.Err(); err != nil {
		// an HTTP client does not send a request whose context has ended
		pc.dead = true
		w.proposals = append(w.proposals, pc)
		return nil, err
	}
	if w.c.ProposalErr || opts == nil {
		w.proposals = append(w.proposals, pc)
		return nil, errors.New("scripted proposal failure")
	}
	pc.vals = valsOf(w.c, [96]byte(opts.RandaoReveal), opts.Graffiti)
	pc.returned = buildProposal(w.c, pc.vals)
	w.proposals = append(w.proposals, pc)
	return &api.Response[*api.VersionedProposal]{Data: pc.returned, Metadata: map[string]any{}}, nil
}

// ---- submitter ----

type submitDouble struct{ r *router }

func (d submitDouble) SubmitProposal(ctx context.Context, p *api.VersionedSignedProposal) error {
	w := d.r.routeSubmission(p)
	w.mu.Lock()
	defer w.mu.Unlock()
	sc := submitCall{seq: w.next(), proposal: p}
	if p != nil {
		sc.blinded = p.Blinded
		sc.version = p.Version.String()
		if f := fullOf(p); f != nil {
			sc.wire = wire(f)
		}
		sc.hasBlind = p.BellatrixBlinded != nil || p.CapellaBlinded != nil || p.DenebBlinded != nil
	}
	if err := ctx.Err(); err != nil {
		sc.dead = true
		w.submits = append(w.submits, sc)
		return err
	}
	w.submits = append(w.submits, sc)
	if w.c.SubmitErr {
		return errors.New("scripted submission failure")
	}
	return nil
}

// ---- auctioneer and relays ----

type auctionRouter struct{ r *router }

func (d auctionRouter) AuctionBlock(ctx context.Context, slot phase0.Slot, hash phase0.Hash32, pubkey phase0.BLSPubKey) (*blockauctioneer.Results, error) {
	return d.r.route(uint64(slot)).auction.AuctionBlock(ctx, slot, hash, pubkey)
}

type auctionDouble struct {
	w       *world
	results *blockauctioneer.Results
}

func (d *auctionDouble) AuctionBlock(ctx context.Context, _ phase0.Slot, _ phase0.Hash32, _ phase0.BLSPubKey) (*blockauctioneer.Results, error) {
	w := d.w
	w.mu.Lock()
	defer w.mu.Unlock()
	w.next()
	w.auctionCalls++
	if err := ctx.Err(); err != nil {
		return nil, err
	}
	if w.c.Auction == "error" {
		return nil, errors.New("scripted auction failure")
	}
	return d.results, nil
}

func newAuction(w *world) *auctionDouble {
	res := &blockauctioneer.Results{
		Participation: map[string]*blockauctioneer.Participation{},
		AllProviders:  []builderclient.BuilderBidProvider{},
		Providers:     []builderclient.BuilderBidProvider{},
	}
	for i, r := range w.c.Relays {
		var p builderclient.BuilderBidProvider
		if r.Kind == "nounblind" {
			p = &bidOnly{idx: i}
		} else {
			p = &relayDouble{bidOnly: bidOnly{idx: i}, w: w}
		}
		res.AllProviders = append(res.AllProviders, p)
		if r.Winner {
			res.Providers = append(res.Providers, p)
		}
	}
	return &auctionDouble{w: w, results: res}
}

// bidOnly is a bid provider that cannot unblind.
type bidOnly struct{ idx int }

func (b *bidOnly) Name() string              { return fmt.Sprintf("relay-%d", b.idx) }
func (b *bidOnly) Address() string           { return fmt.Sprintf("relay-%d.invalid:443", b.idx) }
func (b *bidOnly) Pubkey() *phase0.BLSPubKey { return nil }
func (b *bidOnly) BuilderBid(context.Context, *builderapi.BuilderBidOpts) (*builderapi.Response[*builderspec.VersionedSignedBuilderBid], error) {
	return nil, errors.New("the auction is scripted; no bid requests expected")
}

// relayDouble behaves like the real builder HTTP client in front of a scripted
// relay.
type relayDouble struct {
	bidOnly
	w *world
}

func (r *relayDouble) UnblindProposal(ctx context.Context, opts *builderapi.UnblindProposalOpts) (*builderapi.Response[*api.VersionedSignedProposal], error) {
	w := r.w
	// What the real client refuses locally, without contacting the relay.
	if opts == nil {
		return nil, errors.New("no options specified")
	}
	if opts.Proposal == nil {
		return nil, errors.New("no proposal specified")
	}
	signedBlinded := blindedOf(opts.Proposal)
	w.mu.Lock()
	if signedBlinded == nil {
		w.emptyRequests++
		w.mu.Unlock()
		return nil, fmt.Errorf("%v proposal without payload", opts.Proposal.Version)
	}
	spec := w.c.Relays[r.idx]
	attempt := w.attempts[r.idx]
	w.attempts[r.idx] = attempt + 1
	outcome := "err"
	if len(spec.Steps) > 0 {
		outcome = spec.Steps[min(attempt, len(spec.Steps)-1)]
	}
	foreign := ""
	if slot, err := opts.Proposal.Slot(); err == nil && uint64(slot) != w.c.ProposalSlot {
		// a relay only holds the payload of the block it made a bid for
		foreign = fmt.Sprintf("slot %d", slot)
		outcome = "400"
	}
	send := &relaySend{seq: w.next(), relay: r.idx, attempt: attempt, wire: wire(signedBlinded), outcome: outcome, foreign: foreign}
	w.sends = append(w.sends, send)
	var release chan struct{}
	if outcome == "sync" {
		w.syncArrived++
		if w.syncArrived >= w.syncExpected {
			close(w.syncCh)
			w.syncCh = make(chan struct{})
			w.syncArrived = 0
		} else {
			release = w.syncCh
		}
	}
	// the payload a relay holds does not depend on the request
	vals := valsOf(w.c, [96]byte{}, [32]byte{})
	w.mu.Unlock()

	w.hold(ctx, "unblind")
	fail := func(err error) (*builderapi.Response[*api.VersionedSignedProposal], error) {
		w.mu.Lock()
		send.retSeq = w.next()
		w.mu.Unlock()
		return nil, errors.Join(errors.New("failed to submit unblind proposal request"), err)
	}
	switch outcome {
	case "err":
		return fail(errors.New("POST failed with status 500: scripted"))
	case "400":
		return fail(errors.New("POST failed with status 400: scripted"))
	case "hang":
		<-ctx.Done()
		return fail(ctx.Err())
	case "slow":
		select {
		case <-time.After(30 * time.Millisecond):
		case <-ctx.Done():
			return fail(ctx.Err())
		}
	case "late":
		tm := time.NewTimer(1300 * time.Millisecond)
		select {
		case <-tm.C:
		case <-ctx.Done():
			tm.Stop()
			return fail(ctx.Err())
		}
	case "sync":
		if release != nil {
			select {
			case <-release:
			case <-time.After(40 * time.Millisecond):
			case <-ctx.Done():
				return fail(ctx.Err())
			}
		}
	case "block":
	default:
		return fail(errors.New("POST failed with status 500: unknown script step"))
	}
	if ctx.Err() != nil {
		return fail(ctx.Err())
	}
	full, err := unblind(opts.Proposal, vals)
	if err != nil {
		return fail(err)
	}
	w.mu.Lock()
	send.ret = full
	send.retWire = wire(fullOf(full))
	send.retSeq = w.next()
	w.mu.Unlock()
	w.deliveredOnce.Do(func() { close(w.delivered) })
	return &builderapi.Response[*api.VersionedSignedProposal]{Data: full, Metadata: map[string]any{}}, nil
}
