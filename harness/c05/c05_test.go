// Package c05 decides property C05: a proposal signs only the selected block of
// the duty slot and submits it intact (full and blinded, phase0 … deneb, with
// faults at every step).  Subject: the real services/beaconblockproposer/standard
// (Prepare, then Propose as services/controller/standard/proposer.go calls them).
package c05

import (
	"context"
	"fmt"
	"runtime/debug"
	"strings"
	"sync/atomic"
	"testing"
	"time"

	"github.com/attestantio/go-eth2-client/spec/phase0"
	"github.com/attestantio/vouch/services/beaconblockproposer"
	proposer "github.com/attestantio/vouch/services/beaconblockproposer/standard"
	nullmetrics "github.com/attestantio/vouch/services/metrics/null"
	"github.com/rs/zerolog"
	e2wtypes "github.com/wealdtech/go-eth2-wallet-types/v2"
	"pgregory.net/rapid"

	"verifharness/internal/ev"
	"verifharness/internal/fakes"
)

// ------------------------------------------------------------------ generator

type weighted struct {
	w     int
	kind  string
	steps []string
}

var relayClasses = []weighted{
	{30, "relay", []string{"block"}},
	{10, "relay", []string{"slow"}},
	{12, "relay", []string{"sync"}},
	{8, "relay", []string{"400"}},
	{8, "relay", []string{"err", "block"}},
	{4, "relay", []string{"err", "err", "block"}},
	{8, "relay", []string{"err"}},
	{4, "relay", []string{"hang"}},
	{3, "relay", []string{"err", "400"}},
	{2, "relay", []string{"err", "err", "err", "block"}},
	{2, "relay", []string{"err", "slow"}},
	{8, "relay", []string{"late"}},
	{4, "nounblind", nil},
}

// drawRelay draws a relay script; faultyOnly restricts it to relays that do not
// hand out the block promptly at the first request (these include the "late"
// relay, which does deliver, but only after 1.3 s).
func drawRelay(t *rapid.T, faultyOnly bool) RelaySpec {
	var classes []weighted
	total := 0
	for _, c := range relayClasses {
		if len(c.steps) > 0 && ((faultyOnly && immediate(c.steps[0])) || (!faultyOnly && c.steps[0] == "late")) {
			continue
		}
		classes = append(classes, c)
		total += c.w
	}
	x := uni(t, total, "relayClass")
	for _, c := range classes {
		if x < c.w {
			return RelaySpec{Kind: c.kind, Steps: append([]string(nil), c.steps...)}
		}
		x -= c.w
	}
	panic("unreachable")
}

// uni draws uniformly from [0,n) (rapid's integer generators are deliberately
// biased towards small values and boundaries; decisions that shape the
// distribution of cases are drawn from fair bits instead).  It shrinks to 0.
func uni(t *rapid.T, n int, label string) int {
	x := 0
	for i := 0; i < 10; i++ {
		x <<= 1
		if rapid.Bool().Draw(t, label) {
			x |= 1
		}
	}
	return x * n / 1024
}

// pct is true with probability p/100 and shrinks to false.
func pct(t *rapid.T, p int, label string) bool {
	return uni(t, 100, label) >= 100-p
}

// pick chooses uniformly and shrinks to the first element.
func pick[T any](t *rapid.T, xs []T, label string) T { return xs[uni(t, len(xs), label)] }

func someU64(t *rapid.T, label string) uint64 {
	if pct(t, 30, label+"Small") {
		return rapid.Uint64Range(0, 3).Draw(t, label)
	}
	return rapid.Uint64().Draw(t, label)
}

func immediate(s string) bool { return s == "block" || s == "slow" || s == "sync" }

func delivers(s string) bool { return immediate(s) || s == "late" }

func stepOf(r RelaySpec, i int) string {
	if len(r.Steps) == 0 {
		return "err"
	}
	if i >= len(r.Steps) {
		i = len(r.Steps) - 1
	}
	return r.Steps[i]
}

// candidates: the relays used for unblinding as documented (docs/configuration.md,
// unblind-from-all-relays): those that offered the winning bid, or all that were
// asked for bids.  Used for cost control and for one liveness clause only.
func candidates(c *Case) []int {
	var winners, all []int
	for i, r := range c.Relays {
		all = append(all, i)
		if r.Winner {
			winners = append(winners, i)
		}
	}
	if len(winners) > 0 && !c.UnblindAll {
		return winners
	}
	return all
}

// deliveryWithin: some candidate relay hands out the block within n attempts
// (promptly, if prompt is set).
func deliveryWithin(c *Case, n int, prompt bool) bool {
	for _, i := range candidates(c) {
		r := c.Relays[i]
		if r.Kind != "relay" {
			continue
		}
		for a := 0; a < n; a++ {
			s := stepOf(r, a)
			if immediate(s) || (!prompt && delivers(s)) {
				return true
			}
			if s == "400" || s == "hang" {
				break
			}
		}
	}
	return false
}

// genCase draws a history of 1-3 duties served by one proposer service, with
// the order in which the controller prepares and proposes them.
func genCase(t *rapid.T) Case {
	c := genDuty(t, nil, nil)
	n := pick(t, []int{0, 0, 0, 0, 0, 1, 1, 1, 2, 2}, "moreDuties")
	taken := []uint64{c.DutySlot}
	for i := 0; i < n; i++ {
		d := genDuty(t, &c, taken)
		taken = append(taken, d.DutySlot)
		c.More = append(c.More, d)
	}
	if n > 0 {
		// The controller prepares the duties of an epoch when it starts and proposes
		// each at its slot: all prepared first, or one duty after the other, or a mix.
		var order []string
		switch uni(t, 4, "orderKind") {
		case 3:
			// Overlapping proposals: everything is prepared; then each duty's Propose
			// is started and held at a generated point (waiting for the node's block,
			// for the signer, or for the relay's answer - an earlier, slow proposal)
			// while the Propose calls of the duties after it run; the last one runs
			// through.  When it is done the held ones are let go, innermost first.
			for i := 0; i <= n; i++ {
				order = append(order, fmt.Sprintf("prepare:%d", i))
			}
			for i := 0; i < n; i++ {
				order = append(order, fmt.Sprintf("overlap:%d:%s", i, pick(t, []string{"proposal", "sign", "unblind"}, "holdAt")))
			}
			order = append(order, fmt.Sprintf("propose:%d", n))
		case 0: // prepare all, then propose in slot order of generation
			for i := 0; i <= n; i++ {
				order = append(order, fmt.Sprintf("prepare:%d", i))
			}
			for i := 0; i <= n; i++ {
				order = append(order, fmt.Sprintf("propose:%d", i))
			}
		case 1: // one after the other
			for i := 0; i <= n; i++ {
				order = append(order, fmt.Sprintf("prepare:%d", i), fmt.Sprintf("propose:%d", i))
			}
		default: // prepare all, propose in reverse
			for i := 0; i <= n; i++ {
				order = append(order, fmt.Sprintf("prepare:%d", i))
			}
			for i := n; i >= 0; i-- {
				order = append(order, fmt.Sprintf("propose:%d", i))
			}
		}
		c.Order = order
	}
	return c
}

// genDuty draws one duty.  svc == nil: the first duty, which also fixes what is
// configured per service (slots per epoch, whether a graffiti provider and an
// auctioneer exist, unblind-from-all-relays).  Otherwise a further duty of the
// same service: in the same epoch as the first (another validator or the same
// one), or in another epoch; never for a slot that already has a duty.
func genDuty(t *rapid.T, svc *Case, taken []uint64) Case {
	c := Case{
		Version:    pick(t, []string{"phase0", "altair", "bellatrix", "capella", "deneb"}, "version"),
		ParentSeed: rapid.Uint8().Draw(t, "parentSeed"),
		StateSeed:  rapid.Uint8().Draw(t, "stateSeed"),
	}
	if svc == nil {
		c.SlotsPerEpoch = pick(t, []uint64{32, 8}, "spe")
		c.DutySlot = rapid.Uint64Range(1, 100000).Draw(t, "dutySlot")
		c.DutyIndex = rapid.Uint64Range(0, universe-1).Draw(t, "dutyIndex")
	} else {
		c.SlotsPerEpoch = svc.SlotsPerEpoch
		first := svc.DutySlot / svc.SlotsPerEpoch * svc.SlotsPerEpoch
		switch pick(t, []string{"same-epoch", "same-epoch", "same-epoch", "next-epoch", "far"}, "epochRelation") {
		case "same-epoch":
			c.DutySlot = first + uint64(uni(t, int(svc.SlotsPerEpoch), "slotInEpoch"))
		case "next-epoch":
			c.DutySlot = first + svc.SlotsPerEpoch + uint64(uni(t, int(svc.SlotsPerEpoch), "slotInEpoch"))
		default:
			c.DutySlot = first + svc.SlotsPerEpoch*uint64(2+uni(t, 50, "epochsAhead")) + uint64(uni(t, int(svc.SlotsPerEpoch), "slotInEpoch"))
		}
		for again := true; again || c.DutySlot == 0; {
			again = false
			for _, s := range taken {
				if s == c.DutySlot {
					c.DutySlot++
					again = true
				}
			}
			if c.DutySlot == 0 {
				c.DutySlot = 1
				again = true
			}
		}
		if pct(t, 25, "sameValidator") {
			c.DutyIndex = svc.DutyIndex
		} else {
			c.DutyIndex = (svc.DutyIndex + 1 + uint64(uni(t, universe-1, "otherValidator"))) % universe
		}
	}
	if blindable(c.Version) {
		c.Blinded = rapid.Bool().Draw(t, "blinded")
	}
	// the block the node returns
	c.ProposalSlot = c.DutySlot
	if pct(t, 15, "wrongSlot") {
		switch uni(t, 5, "wrongSlotKind") {
		case 0:
			c.ProposalSlot = c.DutySlot - 1
		case 1:
			c.ProposalSlot = c.DutySlot + 1
		case 2:
			c.ProposalSlot = c.DutySlot + c.SlotsPerEpoch
		case 3:
			c.ProposalSlot = 0
		case 4:
			c.ProposalSlot = c.DutySlot + 1000
		}
	}
	c.ProposerIndex = c.DutyIndex
	if pct(t, 5, "otherProposer") {
		c.ProposerIndex = (c.DutyIndex + 1) % universe
	}
	b := &c.Body
	b.Seed = rapid.Uint8().Draw(t, "bodySeed")
	b.Eth1Count = someU64(t, "eth1Count")
	nExits := pick(t, []int{0, 0, 0, 1, 2}, "nExits")
	for i := 0; i < nExits; i++ {
		b.Exits = append(b.Exits, Exit{Epoch: someU64(t, "exitEpoch"), Index: someU64(t, "exitIndex"), Seed: rapid.Uint8().Draw(t, "exitSeed")})
	}
	b.RewriteGraffiti = pct(t, 10, "rewriteGraffiti")
	if blindable(c.Version) {
		b.BlockNumber, b.GasLimit, b.GasUsed = someU64(t, "blockNumber"), someU64(t, "gasLimit"), someU64(t, "gasUsed")
		b.Timestamp, b.BaseFee = someU64(t, "timestamp"), someU64(t, "baseFee")
		b.ExtraData = rapid.SliceOfN(rapid.Byte(), 0, 32).Draw(t, "extraData")
		b.Txs = rapid.SliceOfN(rapid.SliceOfN(rapid.Byte(), 0, 70), 0, 3).Draw(t, "txs")
	}
	if c.Version == "capella" || c.Version == "deneb" {
		nW := pick(t, []int{0, 0, 1, 2, 3}, "nWithdrawals")
		for i := 0; i < nW; i++ {
			b.Withdrawals = append(b.Withdrawals, Withdrawal{Index: someU64(t, "wIndex"), Validator: someU64(t, "wValidator"), Amount: someU64(t, "wAmount"), Seed: rapid.Uint8().Draw(t, "wSeed")})
		}
	}
	if c.Version == "deneb" {
		b.BlobGasUsed, b.ExcessBlobGas = someU64(t, "blobGasUsed"), someU64(t, "excessBlobGas")
		nB := pick(t, []int{0, 0, 0, 0, 0, 0, 0, 1, 1, 2}, "nBlobs")
		for i := 0; i < nB; i++ {
			b.Blobs = append(b.Blobs, rapid.Uint8().Draw(t, "blobSeed"))
		}
	}

	faulty := false
	c.Accounts = "ok"
	if pct(t, 8, "accountsFault") {
		c.Accounts = pick(t, []string{"error", "none", "miskeyed", "extra"}, "accountsFaultKind")
	}
	c.Randao = "ok"
	if pct(t, 4, "randaoErr") {
		c.Randao = "error"
	}
	switch {
	case svc == nil:
		c.Graffiti = pick(t, []string{"ok", "ok", "ok", "none", "error", "error"}, "graffiti")
	case svc.Graffiti == "none":
		c.Graffiti = "none"
	default:
		c.Graffiti = pick(t, []string{"ok", "ok", "error"}, "graffiti")
	}
	if c.Graffiti == "ok" {
		// printable, so that the {{CLIENT}} substitution (not part of C05) never triggers
		c.GraffitiText = []byte(rapid.StringOfN(rapid.RuneFrom([]rune("abcXYZ019 -_")), 0, 32, 32).Draw(t, "graffitiText"))
	}

	if c.Graffiti != "none" && pct(t, 2, "slowGraffiti") {
		// a provider backed by a slow source: costs real seconds, kept rare
		c.GraffitiDelayMs = pick(t, []int{2200, 2600, 3000}, "graffitiDelayMs")
	}

	switch {
	case svc != nil && svc.Auction == "absent":
		c.Auction = "absent" // no auctioneer configured
	case svc != nil && c.Blinded:
		c.Auction = pick(t, []string{"result", "result", "result", "result", "result", "result", "result", "result", "result", "error"}, "auctionBlinded")
	case svc != nil:
		c.Auction = pick(t, []string{"result", "result", "result", "error", "error"}, "auction")
	case c.Blinded:
		// mostly with an auction result; without one (no auctioneer, failed auction)
		// nothing can unblind the block and nothing may be submitted
		c.Auction = pick(t, []string{"result", "result", "result", "result", "result", "result", "result", "result", "absent", "error"}, "auctionBlinded")
	default:
		c.Auction = pick(t, []string{"absent", "absent", "error", "error", "result", "result", "result"}, "auction")
	}
	if svc == nil {
		c.UnblindAll = pct(t, 35, "unblindAll")
	} else {
		c.UnblindAll = svc.UnblindAll
	}
	if c.Auction == "result" {
		nRelays := pick(t, []int{1, 1, 2, 2, 2, 3, 3, 4, 0}, "nRelays")
		noWinner := pct(t, 15, "noWinner")
		// a quarter of the blinded cases has only relays that fail at first (these
		// cost real time: 250 ms back-off per retry, or the case deadline)
		faulty = c.Blinded && pct(t, 25, "faultyRelays")
		for i := 0; i < nRelays; i++ {
			r := drawRelay(t, faulty)
			if !c.Blinded {
				r = RelaySpec{Kind: r.Kind, Steps: []string{"block"}}
				if r.Kind != "relay" {
					r.Steps = nil
				}
			}
			r.Winner = !noWinner && rapid.Bool().Draw(t, "winner")
			c.Relays = append(c.Relays, r)
		}
		if faulty && len(c.Relays) >= 2 && pct(t, 25, "lateAndFailing") {
			// two relays that are used together: one keeps failing, the other holds
			// the payload but answers only after the first has used up its back-offs
			i := uni(t, len(c.Relays), "lateRelay")
			j := (i + 1 + uni(t, len(c.Relays)-1, "failingRelay")) % len(c.Relays)
			c.Relays[i] = RelaySpec{Kind: "relay", Steps: []string{"late"}, Winner: !noWinner}
			c.Relays[j] = RelaySpec{Kind: "relay", Steps: pick(t, [][]string{{"err"}, {"err"}, {"err", "err", "err", "block"}}, "failingSteps"), Winner: !noWinner}
		}
	}
	c.ProposalErr = pct(t, 5, "proposalErr")
	c.SignErr = pct(t, 8, "signErr")
	c.SubmitErr = pct(t, 10, "submitErr")

	c.DeadlineMs = 20000
	if c.Blinded {
		if !faulty && !deliveryWithin(&c, 1, true) {
			// make the case cheap: one of the relays that is certainly used delivers at once
			var capable []int
			for _, i := range candidates(&c) {
				if c.Relays[i].Kind == "relay" {
					capable = append(capable, i)
				}
			}
			if len(capable) > 0 {
				i := capable[uni(t, len(capable), "fastRelay")]
				c.Relays[i].Steps = []string{pick(t, []string{"block", "slow", "sync"}, "fastStep")}
			}
		}
		if !deliveryWithin(&c, 3, false) {
			// nothing will arrive: Propose ends with its context (retry loop, C20's
			// topic); bound it and let the deadline fall before, inside and after
			// the retries
			c.DeadlineMs = pick(t, []int{60, 350, 900}, "deadlineMs") + c.GraffitiDelayMs
		}
	}
	return c
}

// ------------------------------------------------------------------ execution

type observation struct {
	w             *world
	prepared      bool
	prepareErr    error
	proposeCalled bool
	elapsed       time.Duration
	heldAt        string // the Propose call was held there while later duties were proposed
	stuck         bool   // a relay delivered, nothing was submitted within stuckBound, Propose still running with a live context
	returnSeq     int
	ctxExpired    bool
	panicked      string
	hung          bool

	randaos   []randaoCall
	signs     []signCall
	proposals []proposalCall
	sends     []relaySend
	submits   []submitCall
	graffitis []graffitiCall
	empties   int
}

func topVouchFrame(stack string) string {
	for _, line := range strings.Split(stack, "\n") {
		if strings.HasPrefix(line, "github.com/attestantio/vouch/") {
			f := strings.TrimPrefix(line, "github.com/attestantio/vouch/")
			if i := strings.LastIndex(f, "("); i > 0 {
				f = f[:i]
			}
			return f
		}
	}
	return "unknown"
}

// stuckBound: how long after a relay double has returned the full block Propose
// may take to submit it before the harness stops waiting (the hand-over inside
// vouch takes microseconds).  After the bound the harness looks again 100 times
// at 10 ms intervals, so that a stall of the whole process (loaded machine) is
// not mistaken for vouch sitting on the block: those looks only happen while
// the process runs.
const stuckBound = 2 * time.Second

// duties returns the duties of the history (the first one stripped of More and
// Order, the others normalised to what is configured per service).
func duties(c *Case) []*Case {
	first := *c
	first.More, first.Order = nil, nil
	res := []*Case{&first}
	for i := range c.More {
		d := c.More[i]
		d.More, d.Order = nil, nil
		d.SlotsPerEpoch, d.UnblindAll = first.SlotsPerEpoch, first.UnblindAll
		if first.Graffiti == "none" {
			d.Graffiti, d.GraffitiDelayMs = "none", 0
		} else if d.Graffiti == "none" {
			d.Graffiti = "ok"
		}
		if first.Auction == "absent" {
			d.Auction = "absent"
		} else if d.Auction == "absent" {
			d.Auction = "error"
		}
		res = append(res, &d)
	}
	for _, d := range res {
		if d.Auction != "result" {
			d.Relays = nil // relays exist only in an auction result
		}
	}
	return res
}

type step struct {
	op   string // prepare | propose | overlap
	duty int
	hold string // overlap: where the duty's Propose is held while the rest of the order runs
}

// orderOf parses Case.Order; every duty is prepared exactly once before it is
// (at most once) proposed.  An empty or unusable order means one duty after the
// other.
func orderOf(c *Case, n int) []step {
	var res []step
	prepared, proposed := map[int]bool{}, map[int]bool{}
	ok := len(c.Order) > 0
	for _, o := range c.Order {
		var st step
		parts := strings.Split(o, ":")
		if len(parts) < 2 {
			ok = false
			break
		}
		st.op = parts[0]
		if _, err := fmt.Sscanf(parts[1], "%d", &st.duty); err != nil || st.duty < 0 || st.duty >= n {
			ok = false
			break
		}
		if len(parts) > 2 {
			st.hold = parts[2]
		}
		switch {
		case st.op == "prepare" && !prepared[st.duty]:
			prepared[st.duty] = true
		case st.op == "propose" && prepared[st.duty] && !proposed[st.duty]:
			proposed[st.duty] = true
		case st.op == "overlap" && prepared[st.duty] && !proposed[st.duty] && len(prepared) == n &&
			(st.hold == "proposal" || st.hold == "sign" || st.hold == "unblind"):
			// everything is prepared; from here on Propose calls overlap
			proposed[st.duty] = true
		default:
			ok = false
		}
		res = append(res, st)
	}
	if ok && len(prepared) == n {
		return res
	}
	res = nil
	for i := 0; i < n; i++ {
		res = append(res, step{op: "prepare", duty: i}, step{op: "propose", duty: i})
	}
	return res
}

// run executes the history against one fresh proposer service.
func run(c *Case) (obs []*observation, harness string) {
	zerolog.SetGlobalLevel(zerolog.Disabled)
	ds := duties(c)
	accounts := newAccounts()
	rt := &router{}
	var worlds []*world
	for i, d := range ds {
		w := newWorld(i, d, accounts)
		worlds = append(worlds, w)
		obs = append(obs, &observation{w: w})
	}
	rt.worlds = worlds
	rt.set(worlds[0])
	bg, cancelAll := context.WithCancel(context.Background())
	defer cancelAll()

	first := ds[0]
	clock := fakes.NewVClock(time.Unix(1606824023, 0), 12*time.Second, first.SlotsPerEpoch)
	clock.SetSlot(first.DutySlot, 0)
	params := []proposer.Parameter{
		proposer.WithLogLevel(zerolog.Disabled),
		proposer.WithMonitor(nullmetrics.New()),
		proposer.WithChainTime(clock),
		proposer.WithProposalDataProvider(nodeDouble{rt}),
		proposer.WithValidatingAccountsProvider(accountsDouble{rt}),
		proposer.WithProposalSubmitter(submitDouble{rt}),
		proposer.WithRANDAORevealSigner(signerDouble{rt}),
		proposer.WithBeaconBlockSigner(signerDouble{rt}),
		proposer.WithBlobSidecarSigner(signerDouble{rt}),
		proposer.WithUnblindFromAllRelays(first.UnblindAll),
		proposer.WithBuilderBoostFactor(100),
	}
	if first.Graffiti != "none" {
		params = append(params, proposer.WithGraffitiProvider(graffitiDouble{rt}))
	}
	if first.Auction != "absent" {
		params = append(params, proposer.WithBlockAuctioneer(auctionRouter{rt}), proposer.WithExecutionChainHeadProvider(headDouble{rt}))
	}
	svc, err := proposer.New(bg, params...)
	if err != nil {
		return obs, "cannot construct the proposer service: " + err.Error()
	}

	// What services/controller/standard/proposer.go does for a duty: Prepare, and
	// only if that succeeded, Propose (scheduled for the start of the slot).
	dutyObjs := make([]*beaconblockproposer.Duty, len(ds))
	for i, d := range ds {
		dutyObjs[i] = beaconblockproposer.NewDuty(phase0.Slot(d.DutySlot), phase0.ValidatorIndex(d.DutyIndex))
	}
	steps := orderOf(c, len(ds))
	for _, st := range steps {
		if st.op == "overlap" {
			rt.setConcurrent(true)
			worlds[st.duty].holdAt = st.hold
		}
	}
	// exec runs the steps; it returns false when the history has been decided
	// (a lost or hanging proposal) and no more time should be spent on it.
	var exec func(steps []step) bool
	exec = func(steps []step) bool {
		for i, st := range steps {
			d, w, o, duty := ds[st.duty], worlds[st.duty], obs[st.duty], dutyObjs[st.duty]
			rt.set(w)
			clock.SetSlot(d.DutySlot, 0)
			if st.op == "prepare" {
				o.prepareErr = svc.Prepare(bg, duty)
				o.prepared = true
				continue
			}
			if !o.prepared || o.prepareErr != nil {
				continue
			}
			o.proposeCalled = true
			rt.setActive(w, true)
			if st.op == "propose" {
				propose(bg, svc, d, w, o, duty)
				rt.setActive(w, false)
				if o.hung || o.stuck {
					return false
				}
				continue
			}
			// overlap: this duty's Propose is started and held at its hold point (an
			// earlier, slow proposal); the later proposals run meanwhile
			r := startPropose(bg, svc, d, duty)
			reached := false
			select {
			case <-w.held:
				reached = true
			case res := <-r.done:
				r.done <- res // it returned without getting to the hold point
			case <-time.After(10 * time.Second):
			}
			if reached {
				o.heldAt = st.hold
			}
			goOn := exec(steps[i+1:])
			close(w.release)
			finishPropose(r, d, w, o)
			rt.setActive(w, false)
			return goOn && !o.hung && !o.stuck
		}
		return true
	}
	exec(steps)
	for i, w := range worlds {
		o := obs[i]
		w.mu.Lock()
		o.randaos = append(o.randaos, w.randaos...)
		o.signs = append(o.signs, w.signs...)
		o.proposals = append(o.proposals, w.proposals...)
		for _, s := range w.sends {
			o.sends = append(o.sends, *s)
		}
		o.submits = append(o.submits, w.submits...)
		o.graffitis = append(o.graffitis, w.graffitis...)
		o.empties = w.emptyRequests
		w.mu.Unlock()
	}
	return obs, ""
}

func liveSubmission(w *world) bool {
	w.mu.Lock()
	defer w.mu.Unlock()
	for _, sub := range w.submits {
		if !sub.dead {
			return true
		}
	}
	return false
}

// propose calls Propose for one duty under the case's deadline and watches it.
func propose(bg context.Context, svc *proposer.Service, c *Case, w *world, o *observation, duty *beaconblockproposer.Duty) {
	finishPropose(startPropose(bg, svc, c, duty), c, w, o)
}

// running is a Propose call in flight.
type running struct {
	ctx     context.Context
	cancel  context.CancelFunc
	done    chan string
	started time.Time
}

func startPropose(bg context.Context, svc *proposer.Service, c *Case, duty *beaconblockproposer.Duty) *running {
	started := time.Now()
	ctx, cancel := context.WithTimeout(bg, time.Duration(c.DeadlineMs)*time.Millisecond)
	done := make(chan string, 1)
	go func() {
		defer func() {
			if r := recover(); r != nil {
				done <- fmt.Sprintf("%v @ %s", r, topVouchFrame(string(debug.Stack())))
				return
			}
			done <- ""
		}()
		svc.Propose(ctx, duty)
	}()
	return &running{ctx: ctx, cancel: cancel, done: done, started: started}
}

// finishPropose watches a Propose call until it returns (or is given up).
func finishPropose(r *running, c *Case, w *world, o *observation) {
	ctx, cancel, done, started := r.ctx, r.cancel, r.done, r.started
	defer cancel()
	watchdog := time.NewTimer(time.Duration(c.DeadlineMs)*time.Millisecond + 60*time.Second)
	defer watchdog.Stop()
	returned := false
	select {
	case o.panicked = <-done:
		returned = true
	case <-watchdog.C:
		o.hung = true
	case <-w.delivered:
		// A relay double has handed the full block to vouch.  From here on the only
		// thing left to do is to submit it.
		bound := time.NewTimer(stuckBound)
		select {
		case o.panicked = <-done:
			returned = true
		case <-bound.C:
			submitted := liveSubmission(w)
			for i := 0; i < 100 && !submitted && !returned; i++ {
				select {
				case o.panicked = <-done:
					returned = true
				case <-time.After(10 * time.Millisecond):
				}
				submitted = liveSubmission(w)
			}
			if returned {
				break
			}
			if submitted {
				// submitted; wait for Propose to come back
				select {
				case o.panicked = <-done:
					returned = true
				case <-watchdog.C:
					o.hung = true
				}
			} else {
				// delivered by a relay, not submitted, Propose still busy although its
				// context is alive: judged from the doubles' log; the goroutine is
				// abandoned (it ends with the context)
				o.stuck = ctx.Err() == nil
			}
		}
		bound.Stop()
	}
	w.mu.Lock()
	o.ctxExpired = ctx.Err() != nil
	o.returnSeq = w.next()
	o.elapsed = time.Since(started)
	w.mu.Unlock()
	if returned && !o.ctxExpired && !liveSubmission(w) {
		// Propose gave up although its context is alive.  Relay requests that
		// vouch made are possibly still being answered: let them finish under the
		// same live context, so that the oracle can tell "no relay returns the
		// block" from "vouch did not wait for the relay that does".
		waitUntil := time.Now().Add(5 * time.Second)
		for time.Now().Before(waitUntil) {
			pending := false
			w.mu.Lock()
			for _, s := range w.sends {
				if s.retSeq == 0 && delivers(s.outcome) {
					pending = true
				}
			}
			w.mu.Unlock()
			if !pending {
				break
			}
			time.Sleep(5 * time.Millisecond)
		}
	}
	cancel()
	if !returned && !o.hung {
		// give the abandoned Propose the chance to end with its context
		select {
		case <-done:
		case <-time.After(5 * time.Second):
		}
	}
}

// --------------------------------------------------------------------- oracle

type finding struct{ sig, detail string }

func excluded(c *Case) string {
	if c.Blinded && !blindable(c.Version) {
		return "excluded:blinded-before-bellatrix"
	}
	if !knownVersion(c.Version) {
		return "excluded:unknown-version"
	}
	return ""
}

func judge(c *Case, o *observation) (fs []finding, labels []string, inconclusive string) {
	add := func(sig, format string, args ...any) { fs = append(fs, finding{sig, fmt.Sprintf(format, args...)}) }
	w := o.w
	accountsAvailable := c.Accounts == "ok" && c.DutyIndex < universe
	var dutyAcc e2wtypes.Account
	if c.DutyIndex < universe {
		dutyAcc = w.accounts[c.DutyIndex]
	}
	accName := func(a e2wtypes.Account) string {
		if a == nil {
			return "<nil>"
		}
		return a.Name()
	}

	// --- RANDAO reveal: only for the duty's validator and slot
	for _, r := range o.randaos {
		if r.account == nil {
			// a request that names no account asks for nobody's reveal (the signer
			// refuses it); it is what is left when the provider has no account for
			// the duty's validator
			labels = append(labels, "randao-asked-without-account(refused)")
			continue
		}
		if !accountsAvailable || r.account != dutyAcc || r.slot != c.DutySlot {
			add("randao-wrong-target", "RANDAO reveal requested for account %s slot %d; duty is validator %d slot %d (accounts: %s)",
				accName(r.account), r.slot, c.DutyIndex, c.DutySlot, c.Accounts)
		}
	}
	if accountsAvailable && len(o.randaos) == 0 {
		add("randao-not-requested", "no RANDAO reveal was requested for duty %d@%d although its account is available", c.DutyIndex, c.DutySlot)
	}
	prepared := accountsAvailable && c.Randao == "ok"
	if prepared && o.prepareErr != nil {
		add("prepare-failed-without-fault", "Prepare failed without any fault: %v", o.prepareErr)
	}
	if !o.proposeCalled {
		labels = append(labels, "outcome:prepare-failed")
		if len(o.signs)+len(o.sends)+len(o.submits) > 0 {
			add("activity-without-propose", "signatures/relay requests/submissions although Propose was never called")
		}
		return fs, labels, ""
	}
	if o.panicked != "" {
		f := o.panicked[strings.LastIndex(o.panicked, "@ ")+2:]
		add("panic:"+f, "Propose panicked: %s", o.panicked)
		return fs, labels, ""
	}

	// the proposal that was in hand at a given moment
	proposalBefore := func(seq int) *proposalCall {
		var res *proposalCall
		for i := range o.proposals {
			if o.proposals[i].seq < seq && o.proposals[i].returned != nil {
				res = &o.proposals[i]
			}
		}
		return res
	}
	okSignsBefore := func(seq int) []signCall {
		var res []signCall
		for _, s := range o.signs {
			if s.seq < seq && s.err == nil {
				res = append(res, s)
			}
		}
		return res
	}

	// --- block signatures: only duty validator + duty slot, only a block of the duty slot, over its own roots
	for _, s := range o.signs {
		if s.account != dutyAcc || dutyAcc == nil || s.slot != c.DutySlot || s.index != c.DutyIndex {
			add("blocksig-wrong-target", "block signature requested for account %s slot %d validator %d; duty is validator %d slot %d",
				accName(s.account), s.slot, s.index, c.DutyIndex, c.DutySlot)
		}
		p := proposalBefore(s.seq)
		if p == nil {
			add("signed-without-proposal", "block signature requested although no proposal had been obtained")
			continue
		}
		if p.vals.slot != c.DutySlot {
			add("signed-wrong-slot-block", "block signature requested for a proposal of slot %d; duty slot is %d", p.vals.slot, c.DutySlot)
		}
		wantBody := refBodyRoot(c.Version, p.vals)
		if s.parent != phase0.Root(p.vals.parentRoot) || s.state != phase0.Root(p.vals.stateRoot) || s.body != phase0.Root(wantBody) {
			add("signed-wrong-roots", "signed roots parent=%#x state=%#x body=%#x; the obtained %s block (blinded=%v) has parent=%#x state=%#x body=%#x",
				s.parent[:4], s.state[:4], s.body[:4], c.Version, c.Blinded, p.vals.parentRoot[:4], p.vals.stateRoot[:4], wantBody[:4])
		}
	}

	// --- relay requests carry exactly the signed blinded block
	exactSend := map[int]bool{}
	for i, s := range o.sends {
		if s.foreign != "" {
			add("relay-request-not-signed-block", "relay %d of this duty's auction result (slot %d) was sent a blinded block of %s: another duty's block went to this duty's relay", s.relay, c.ProposalSlot, s.foreign)
			continue
		}
		p := proposalBefore(s.seq)
		sigs := okSignsBefore(s.seq)
		if p == nil || len(sigs) == 0 {
			add("relay-asked-without-signature", "relay %d was sent a block although no signed proposal existed", s.relay)
			continue
		}
		if !c.Blinded {
			add("relay-request-not-signed-block", "relay %d was sent a blinded block although the obtained proposal is a full block", s.relay)
			continue
		}
		for _, sg := range sigs {
			if s.wire == wire(signedContainer(c.Version, true, p.vals, [96]byte(sg.sig))) {
				exactSend[i] = true
			}
		}
		if !exactSend[i] {
			add("relay-request-not-signed-block", "relay %d attempt %d was sent something other than the obtained blinded block with the signature returned by the signer: %.300s", s.relay, s.attempt, s.wire)
		}
	}

	// --- submissions
	for _, sub := range o.submits {
		if sub.proposal == nil {
			add("submitted-nothing", "SubmitProposal called with nil")
			continue
		}
		p := proposalBefore(sub.seq)
		sigs := okSignsBefore(sub.seq)
		if p == nil || len(sigs) == 0 {
			add("submitted-without-signature", "a proposal was submitted although none had been obtained and signed")
			continue
		}
		if p.vals.slot != c.DutySlot {
			add("submitted-wrong-slot-block", "submitted a block of slot %d; duty slot is %d", p.vals.slot, c.DutySlot)
		}
		if sub.version != dataVersion(c.Version).String() {
			add("submitted-not-signed-block", "submitted version %s; obtained %s", sub.version, c.Version)
			continue
		}
		matchesExpected := false
		for _, sg := range sigs {
			if sub.wire == wire(signedContainer(c.Version, false, p.vals, [96]byte(sg.sig))) {
				matchesExpected = true
			}
		}
		if !c.Blinded {
			if sub.blinded || !matchesExpected {
				add("submitted-not-signed-block", "submitted container (blinded flag %v) is not the obtained %s block with the signature returned by the signer: %.300s", sub.blinded, c.Version, sub.wire)
			}
			continue
		}
		if sub.blinded || sub.wire == "" {
			add("submitted-blinded", "the obtained proposal was blinded and what was submitted is not a full block (blinded flag %v, full container present %v)", sub.blinded, sub.wire != "")
			continue
		}
		returnedBefore, fromExact := false, false
		for i, s := range o.sends {
			if s.retWire != "" && s.retSeq < sub.seq {
				returnedBefore = true
				if s.retWire == sub.wire && exactSend[i] {
					fromExact = true
				}
			}
		}
		if !returnedBefore {
			add("submitted-without-relay-block", "a full block was submitted although no relay had returned one")
			continue
		}
		if !fromExact || !matchesExpected {
			add("submitted-not-relay-block", "submitted block is not the full block returned by a relay that was sent the signed blinded block: %.300s", sub.wire)
		}
	}

	// --- progress (the duty was prepared, so the proposal has to go ahead)
	if !prepared {
		labels = append(labels, "outcome:proposed-after-faulty-prepare")
		return fs, labels, ""
	}
	if len(o.proposals) == 0 {
		switch {
		case c.Graffiti == "error":
			add("skipped-on-graffiti-failure", "no proposal was requested after the graffiti provider failed")
		case c.Auction == "error":
			add("skipped-on-auction-failure", "no proposal was requested after the auction failed")
		default:
			add("proposal-not-requested", "no proposal was requested for duty %d@%d", c.DutyIndex, c.DutySlot)
		}
		return fs, labels, ""
	}
	for _, p := range o.proposals {
		ofDuty := false
		for _, r := range o.randaos {
			if r.err == nil && r.seq < p.seq && r.sig == p.opts.RandaoReveal && r.account == dutyAcc && r.slot == c.DutySlot {
				ofDuty = true
			}
		}
		if !ofDuty {
			add("randao-reveal-not-of-duty", "the proposal for duty %d@%d was requested with RANDAO reveal %#x, which is not a reveal obtained for this duty's validator and slot", c.DutyIndex, c.DutySlot, p.opts.RandaoReveal[:12])
		}
	}
	for _, p := range o.proposals {
		// what the graffiti provider had answered by then (nothing, an error, or a text)
		var wantGraffiti [32]byte
		var last *graffitiCall
		for i := range o.graffitis {
			if o.graffitis[i].seq < p.seq {
				last = &o.graffitis[i]
			}
		}
		obtainedGraffiti := last != nil && last.err == nil
		if obtainedGraffiti {
			copy(wantGraffiti[:], last.ret)
		}
		if p.opts.Graffiti != wantGraffiti {
			if obtainedGraffiti {
				add("graffiti-not-passed", "proposal requested with graffiti %q; the provider returned %q", p.opts.Graffiti[:], last.ret)
			} else {
				add("graffiti-not-zero-on-failure", "proposal requested with graffiti %q although none was obtained (graffiti: %s)", p.opts.Graffiti[:], c.Graffiti)
			}
		}
	}
	obtained := false
	for _, p := range o.proposals {
		if p.returned != nil {
			obtained = true
		}
	}
	liveSigns, liveSubmits := 0, 0
	for _, sg := range o.signs {
		if !sg.dead {
			liveSigns++
		}
	}
	for _, sub := range o.submits {
		if !sub.dead {
			liveSubmits++
		}
	}
	graffitiTrouble := c.Graffiti == "error" || c.GraffitiDelayMs > 0
	switch {
	case c.ProposalErr:
		labels = append(labels, "outcome:no-proposal")
	case !obtained:
		// the node double refuses only a request whose context has already ended
		switch {
		case o.ctxExpired:
			labels = append(labels, "outcome:case-deadline-before-proposal")
		case graffitiTrouble:
			add("skipped-on-graffiti-failure", "after a slow/failing graffiti lookup the proposal was requested with a context that had already ended although the duty's own context is alive: the proposal is skipped")
		default:
			add("proposal-requested-with-dead-context", "the proposal was requested with a context that had already ended although the duty's own context is alive")
		}
	case c.ProposalSlot != c.DutySlot:
		labels = append(labels, "outcome:wrong-slot-not-signed")
	default:
		if len(o.signs) == 0 {
			add("block-not-signed", "a proposal for the duty slot was obtained but no block signature was requested")
			break
		}
		if liveSigns == 0 {
			if o.ctxExpired {
				labels = append(labels, "outcome:case-deadline-before-signing")
			} else {
				add("block-not-signed", "the block signature was requested with a context that had already ended although the duty's own context is alive")
			}
			break
		}
		if c.SignErr {
			labels = append(labels, "outcome:sign-failed")
			break
		}
		if !c.Blinded {
			if liveSubmits == 0 && o.ctxExpired {
				labels = append(labels, "outcome:case-deadline-before-submission")
			} else if liveSubmits == 0 {
				add("not-submitted", "the %s block was obtained and signed but never submitted (%d submissions with an ended context)", c.Version, len(o.submits))
			} else {
				labels = append(labels, "outcome:submitted-full")
			}
			break
		}
		capable := false
		for _, i := range candidates(c) {
			if c.Relays[i].Kind == "relay" {
				capable = true
			}
		}
		if c.Auction != "result" {
			labels = append(labels, "blinded-without-auction-result")
		}
		if capable && len(o.sends) == 0 {
			add("blinded-no-relay-asked", "a blinded block was signed and relays that can unblind it exist, but none was asked")
		}
		delivered, deliveredRelays := false, map[int]bool{}
		for _, s := range o.sends {
			if s.retWire != "" && s.retSeq < o.returnSeq {
				delivered = true
				deliveredRelays[s.relay] = true
				if s.attempt > 0 {
					labels = append(labels, "relay-delivered-on-retry")
				}
			}
		}
		failedAttempts := map[int]int{}
		for _, s := range o.sends {
			if s.outcome == "err" && s.retSeq > 0 {
				failedAttempts[s.relay]++
			}
		}
		for _, s := range o.sends {
			if s.outcome == "late" && s.retWire != "" && s.retSeq < o.returnSeq {
				for r, n := range failedAttempts {
					if r != s.relay && n >= 3 {
						labels = append(labels, "delivered-after-another-relay-used-up-its-retries")
						break
					}
				}
			}
		}
		if len(deliveredRelays) > 1 {
			labels = append(labels, "several-relays-delivered")
		}
		abandoned := -1
		for _, s := range o.sends {
			if s.retWire != "" && s.retSeq > o.returnSeq {
				abandoned = s.relay
			}
		}
		switch {
		case o.stuck && delivered && liveSubmits == 0:
			add("relay-block-not-submitted", "a relay returned the full block to vouch's request; %v later nothing was submitted and Propose was still waiting although its context was alive", stuckBound+time.Second)
		case !delivered && liveSubmits == 0 && !o.ctxExpired && abandoned >= 0:
			add("relay-block-not-submitted", "Propose gave up (its context still alive) while relay %d, which had been sent the signed blinded block, was still answering; that relay then returned the full block and nothing was submitted", abandoned)
		case delivered && liveSubmits == 0 && o.ctxExpired:
			var scripts []string
			for _, r := range c.Relays {
				scripts = append(scripts, strings.Join(r.Steps, ","))
			}
			inconclusive = fmt.Sprintf("a relay returned the block as the case deadline expired (deadline %d ms, Propose took %d ms, relays %v)", c.DeadlineMs, o.elapsed.Milliseconds(), scripts)
		case delivered && liveSubmits == 0:
			add("relay-block-not-submitted", "a relay returned the full block but nothing was submitted (%d submissions with an ended context)", len(o.submits))
		case delivered:
			labels = append(labels, "outcome:submitted-unblinded")
		case !capable:
			labels = append(labels, "outcome:no-relay-can-unblind")
		default:
			labels = append(labels, "outcome:no-relay-returned-block")
			if o.ctxExpired {
				labels = append(labels, "ended-with-context-deadline")
			}
		}
	}
	return fs, labels, inconclusive
}

func nontrivial(c *Case) bool {
	if c.ProposalSlot != c.DutySlot {
		return true
	}
	if c.Accounts != "ok" || c.Randao != "ok" || c.Graffiti == "error" || c.GraffitiDelayMs > 0 || c.Auction == "error" || c.ProposalErr || c.SignErr || c.SubmitErr {
		return true
	}
	if c.Blinded {
		kinds := map[string]bool{}
		for _, r := range c.Relays {
			k := r.Kind + ":" + strings.Join(r.Steps, ",")
			kinds[k] = true
			for _, s := range r.Steps {
				if !delivers(s) {
					return true // a relay fault
				}
			}
		}
		if len(c.Relays) >= 2 && len(kinds) >= 2 {
			return true
		}
	}
	return false
}

func caseLabels(c *Case) []string {
	l := []string{"version:" + c.Version, "graffiti:" + c.Graffiti, "auction:" + c.Auction, "accounts:" + c.Accounts, "randao:" + c.Randao}
	if c.Blinded {
		l = append(l, "blinded", "blinded:"+c.Version, fmt.Sprintf("relays:%d", len(c.Relays)))
		winners := 0
		seen := map[string]bool{}
		for _, r := range c.Relays {
			if r.Winner {
				winners++
			}
			k := "relay-script:" + r.Kind + ":" + strings.Join(r.Steps, ",")
			if !seen[k] {
				seen[k] = true
				l = append(l, k)
			}
		}
		l = append(l, fmt.Sprintf("winners:%d", winners))
		if c.UnblindAll {
			l = append(l, "unblind-from-all-relays")
		}
	} else {
		l = append(l, "full")
	}
	if c.ProposalSlot != c.DutySlot {
		l = append(l, "wrong-slot-proposal")
	}
	if c.ProposerIndex != c.DutyIndex {
		l = append(l, "other-proposer-index")
	}
	if c.GraffitiDelayMs > 0 {
		l = append(l, "graffiti-slow")
	}
	if c.ProposalErr {
		l = append(l, "fault:proposal")
	}
	if c.SignErr {
		l = append(l, "fault:sign")
	}
	if c.SubmitErr {
		l = append(l, "fault:submit")
	}
	if len(c.Body.Blobs) > 0 && c.Version == "deneb" {
		l = append(l, "with-blobs")
	}
	return l
}

// firstViolation: when this process first reported a violation (nanoseconds; 0 =
// none).  rapid's block minimisation does not look at -rapid.shrinktime between
// attempts, and an attempt can cost seconds here (back-offs, deadlines); after
// shrinkBudget further candidates are declined (skipped, i.e. "not a
// counterexample"), which ends the minimisation with the best case found so far.
var firstViolation atomic.Int64

const shrinkBudget = 20 * time.Second

func check(t ev.TB, c *Case) {
	if fv := firstViolation.Load(); fv != 0 && time.Since(time.Unix(0, fv)) > shrinkBudget {
		if sk, ok := t.(interface{ SkipNow() }); ok {
			sk.SkipNow()
		}
	}
	ds := duties(c)
	for _, d := range ds {
		if ex := excluded(d); ex != "" {
			ev.Case(false, ev.Hash(c), ex)
			return
		}
	}
	obs, harness := run(c)
	if harness != "" {
		t.Fatalf("harness problem: %s", harness)
	}
	var fs []finding
	var labels []string
	nt := len(ds) > 1
	for i, d := range ds {
		o := obs[i]
		if o.hung {
			t.Fatalf("harness problem: Propose of duty %d did not return within 60 s after its context ended and no relay had delivered (case %x)", i, ev.Hash(c))
		}
		f, l, inconclusive := judge(d, o)
		for _, x := range f {
			if len(ds) > 1 {
				x.detail = fmt.Sprintf("duty %d of %d (%d@%d): %s", i, len(ds), d.DutyIndex, d.DutySlot, x.detail)
			}
			fs = append(fs, x)
		}
		labels = append(labels, l...)
		labels = append(labels, caseLabels(d)...)
		if o.heldAt != "" {
			labels = append(labels, "held-at:"+o.heldAt)
			if d.Blinded {
				labels = append(labels, "held-blinded-at:"+o.heldAt)
			}
		}
		if o.empties > 0 {
			labels = append(labels, "late-retry-without-block(refused-by-client)")
		}
		if inconclusive != "" {
			ev.Inconclusive(inconclusive)
		}
		nt = nt || nontrivial(d)
	}
	labels = append(labels, historyLabels(c, ds)...)
	// one count per label and history
	seen := map[string]bool{}
	var uniq []string
	for _, l := range labels {
		if !seen[l] {
			seen[l] = true
			uniq = append(uniq, l)
		}
	}
	ev.Case(nt, ev.Hash(c), uniq...)
	if nt {
		ev.Sample(c)
	}
	for _, f := range fs {
		if !ev.IsKnown(f.sig) {
			firstViolation.CompareAndSwap(0, time.Now().UnixNano())
		}
		ev.Violation(t, f.sig, c, "%s", f.detail)
	}
}

func historyLabels(c *Case, ds []*Case) []string {
	l := []string{fmt.Sprintf("duties:%d", len(ds))}
	if len(ds) < 2 {
		return l
	}
	spe := ds[0].SlotsPerEpoch
	for i := range ds {
		for j := i + 1; j < len(ds); j++ {
			sameEpoch := ds[i].DutySlot/spe == ds[j].DutySlot/spe
			sameVal := ds[i].DutyIndex == ds[j].DutyIndex
			switch {
			case sameEpoch && !sameVal:
				l = append(l, "history:two-validators-same-epoch")
			case sameEpoch:
				l = append(l, "history:same-validator-twice-in-epoch")
			case sameVal:
				l = append(l, "history:same-validator-other-epoch")
			default:
				l = append(l, "history:other-validator-other-epoch")
			}
		}
	}
	st := orderOf(c, len(ds))
	overlap := false
	for _, x := range st {
		if x.op == "overlap" {
			overlap = true
		}
	}
	if overlap {
		l = append(l, "history:overlapping-proposals")
	} else if len(st) >= 2 && st[0].op == "prepare" && st[1].op == "prepare" {
		l = append(l, "history:prepared-ahead")
	} else {
		l = append(l, "history:one-after-the-other")
	}
	return l
}

func TestProposal(t *testing.T) {
	rapid.Check(t, func(t *rapid.T) {
		c := genCase(t)
		check(t, &c)
	})
}

// TestReplay re-executes a saved case without the property library.
func TestReplay(t *testing.T) {
	f := ev.ReplayFile()
	if f == "" {
		t.Skip("no replay file")
	}
	var c Case
	if _, err := ev.LoadCase(f, &c); err != nil {
		t.Fatalf("cannot load %s: %v", f, err)
	}
	check(t, &c)
	ev.ReplayPassed()
}

// TestReference validates the harness' own reference merkleisation (the oracle
// for "body root") against the library on generated bodies; a disagreement is a
// harness problem, not a finding about vouch.
func TestReference(t *testing.T) {
	rapid.Check(t, func(t *rapid.T) {
		c := genCase(t)
		var randao [96]byte
		var graffiti [32]byte
		fill(randao[:], c.ParentSeed, 60)
		copy(graffiti[:], c.GraffitiText)
		v := valsOf(&c, randao, graffiti)
		p := buildProposal(&c, v)
		got, err := p.BodyRoot()
		if err != nil {
			t.Fatalf("harness problem: library cannot hash the generated body: %v", err)
		}
		want := refBodyRoot(c.Version, v)
		if got != phase0.Root(want) {
			t.Fatalf("harness problem: reference body root %#x differs from the library's %#x for %s blinded=%v", want, got, c.Version, c.Blinded)
		}
		// the blinded and the full form of the same body have the same root
		if blindable(c.Version) {
			c2 := c
			c2.Blinded = !c.Blinded
			got2, err := buildProposal(&c2, v).BodyRoot()
			if err != nil || got2 != got {
				t.Fatalf("harness problem: blinded and full body roots differ (%#x, %#x, %v)", got, got2, err)
			}
		}
	})
}
