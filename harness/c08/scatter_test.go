package c08

import (
	"errors"
	"fmt"
	"sort"
	"sync"
	"testing"

	"github.com/attestantio/vouch/util"
	"pgregory.net/rapid"

	"verifharness/internal/ev"
)

// ScatterCase is one call of util.Scatter.  A worker fails iff its extent
// contains one of the FailItems (so failing does not depend on how the input
// happens to be cut).
type ScatterCase struct {
	Length      int   `json:"length"`
	Concurrency int   `json:"concurrency"`
	FailItems   []int `json:"fail_items,omitempty"`
}

func genScatter(t *rapid.T) ScatterCase {
	c := ScatterCase{
		Length: rapid.IntRange(1, 200).Draw(t, "length"),
	}
	if rapid.IntRange(0, 7).Draw(t, "defaultConcurrency") == 0 {
		c.Concurrency = rapid.IntRange(-1, 0).Draw(t, "nonPositive")
	} else {
		c.Concurrency = rapid.IntRange(1, 64).Draw(t, "concurrency")
	}
	if rapid.IntRange(0, 2).Draw(t, "failing") == 0 {
		n := rapid.IntRange(1, 3).Draw(t, "nFail")
		for i := 0; i < n; i++ {
			c.FailItems = append(c.FailItems, rapid.IntRange(0, c.Length-1).Draw(t, "failItem"))
		}
	}
	return c
}

func checkScatter(t ev.TB, c *ScatterCase) {
	if c.Length < 1 || c.Length > 100000 {
		t.Fatalf("harness: invalid scatter case")
	}
	type ext struct{ off, n int }
	var mu sync.Mutex
	var seen []ext
	results, err := util.Scatter(c.Length, c.Concurrency, func(offset int, entries int, _ *sync.RWMutex) (interface{}, error) {
		mu.Lock()
		seen = append(seen, ext{offset, entries})
		mu.Unlock()
		for _, f := range c.FailItems {
			if f >= offset && f < offset+entries {
				return nil, errors.New("scripted worker failure")
			}
		}
		return offset*1000 + entries, nil
	})
	mu.Lock()
	defer mu.Unlock()
	sort.Slice(seen, func(i, j int) bool { return seen[i].off < seen[j].off })
	labels := []string{"scatter"}
	if len(seen) > 1 {
		labels = append(labels, "scatter:chunked")
	}
	if c.Concurrency > 0 && len(seen) > c.Concurrency {
		labels = append(labels, "scatter:more-extents-than-concurrency")
	}
	if len(c.FailItems) > 0 {
		labels = append(labels, "scatter:failing-worker")
	}
	if c.Concurrency <= 0 {
		labels = append(labels, "scatter:default-concurrency")
	}
	ev.Case(len(seen) > 1, ev.Hash(c), labels...)
	if len(seen) > 1 {
		ev.Sample(c)
	}
	// the extents tile [0,len) exactly once
	next := 0
	for _, e := range seen {
		if e.n < 1 || e.off != next {
			ev.Violation(t, "scatter-tiling", c, "extents %v do not tile [0,%d) exactly once", seen, c.Length)
			return
		}
		next = e.off + e.n
	}
	if next != c.Length {
		ev.Violation(t, "scatter-tiling", c, "extents %v do not tile [0,%d) exactly once", seen, c.Length)
		return
	}
	if (err != nil) != (len(c.FailItems) > 0) {
		ev.Violation(t, "scatter-error", c, "failing items %v, extents %v, but Scatter returned error %v", c.FailItems, seen, err)
		return
	}
	if err == nil {
		var got []string
		for _, r := range results {
			if r == nil {
				got = append(got, "nil")
				continue
			}
			got = append(got, fmt.Sprintf("%d:%v", r.Offset, r.Extent))
		}
		var want []string
		for _, e := range seen {
			want = append(want, fmt.Sprintf("%d:%v", e.off, e.off*1000+e.n))
		}
		sort.Strings(got)
		sort.Strings(want)
		if fmt.Sprint(got) != fmt.Sprint(want) {
			ev.Violation(t, "scatter-results", c, "per-worker results %v, expected %v", got, want)
		}
	}
}

func TestScatter(t *testing.T) {
	rapid.Check(t, func(t *rapid.T) {
		c := genScatter(t)
		checkScatter(t, &c)
	})
}
