// Package c08 decides property C08: a submission is offered in full to every
// configured beacon node, succeeds exactly when (within the timeout) a node
// accepted it or rejected it only for a tolerated reason, and returns no later
// than the timeout; a bad node never disturbs the others when the process
// concurrency is not below the number of nodes.
//
// Subject: the real services/submitter/multinode (all eight kinds),
// services/submitter/immediate and util.Scatter (scatter_test.go).
package c08

import (
	"context"
	"encoding/json"
	"errors"
	"fmt"
	"net/url"
	"runtime/debug"
	"sort"
	"strconv"
	"strings"
	"sync"
	"sync/atomic"
	"testing"
	"time"

	eth2client "github.com/attestantio/go-eth2-client"
	"github.com/attestantio/go-eth2-client/api"
	apiv1 "github.com/attestantio/go-eth2-client/api/v1"
	apiv1deneb "github.com/attestantio/go-eth2-client/api/v1/deneb"
	"github.com/attestantio/go-eth2-client/spec"
	"github.com/attestantio/go-eth2-client/spec/altair"
	"github.com/attestantio/go-eth2-client/spec/bellatrix"
	"github.com/attestantio/go-eth2-client/spec/capella"
	"github.com/attestantio/go-eth2-client/spec/deneb"
	"github.com/attestantio/go-eth2-client/spec/phase0"
	"github.com/attestantio/vouch/services/submitter/immediate"
	"github.com/attestantio/vouch/services/submitter/multinode"
	"github.com/prysmaticlabs/go-bitfield"
	"github.com/rs/zerolog"
	"pgregory.net/rapid"

	"verifharness/internal/ev"
)

// Timing.  All classes are far from the decision boundary (the submitter
// timeout): a node answers at once, after 10-100 ms ("slow"), or not before
// timeout+2.5 s ("late") / never ("hang").  A case is a *history*: 1-4
// submissions against one service instance; slow nodes of a step are released
// when the step has returned and delivery has been observed, late and hanging
// nodes stay pending over the following steps and are released at the end of
// the history, so they cost nothing on correct code.  Judgement uses measured
// instants only.
const (
	timeout       = 400 * time.Millisecond
	earlyBy       = 150 * time.Millisecond  // success is demanded only if an acceptable node had finished by then (guard band 250 ms)
	returnGuard   = 1000 * time.Millisecond // the call must have returned by timeout + returnGuard
	lateAfter     = timeout + 2500*time.Millisecond
	hangCeiling   = 12 * time.Second
	deliverCeil   = 2 * time.Second // with pc >= n every node must have been offered everything by then, hangers still hanging
	quiesceCeil   = 6 * time.Second
	immediateSlow = 3 * time.Second
)

var kinds = []string{"attestations", "proposal", "aggregates", "syncmessages", "contributions", "beaconsubs", "syncsubs", "preparations"}

var clients = []string{"lighthouse", "teku", "nimbus", "prysm", "lodestar", "unknown"}

// versions: what /eth/v1/node/version of the respective client looks like.
var versions = map[string][]string{
	"lighthouse": {"Lighthouse/v5.1.3-3058b96/x86_64-linux", "lighthouse/v4.6.0-1be5253/aarch64-linux"},
	"teku":       {"teku/v24.3.0/linux-x86_64/-eclipseadoptium-openjdk64bitservervm-java-17", "Teku/v23.12.1/linux-aarch_64/-na-openjdk64bitservervm-java-21"},
	"nimbus":     {"Nimbus/v24.2.2-fc9bc1-stateofus", "Nimbus/v23.11.0-a35c16-stateofus"},
	"prysm":      {"Prysm/v5.0.1 (linux amd64)", "Prysm/v4.2.1 (linux arm64)"},
	"lodestar":   {"Lodestar/v1.17.0/0d9d4ed", "Lodestar/v1.15.1/fa3dcd6"},
	"unknown":    {"Grandine/0.4.0-1a2b3c4/x86_64-linux", "caplin/v2.59.0"},
}

// tmpl is one row of the table of rejections Vouch deliberately tolerates:
// the per-item failure message a client of that kind gives for a submission
// kind when the item is already known or the node is behind the head.  It is
// *data* (the property statement plus the client strings); the oracle's label
// "tolerated" is: the message was drawn from the row of this very (kind,
// client).  The classifier under test is never consulted.
type tmpl struct{ Kind, Client, Reason, Text string }

var toleratedTable = []tmpl{
	{"attestations", "lighthouse", "already-known", "PriorAttestationKnown { validator_index: 7, epoch: Epoch(3) }"},
	{"attestations", "lighthouse", "behind-head", "UnknownHeadBlock { beacon_block_root: 0x5c1b7a3e0f2d4c6b8a9e1d3f5b7c9e0a2c4e6f8091a3b5c7d9e1f3a5b7c9d1e3 }"},
	{"attestations", "nimbus", "behind-head", "Attempt to send attestation for unknown target"},
	{"syncmessages", "lighthouse", "already-known", "Verification: PriorSyncCommitteeMessageKnown { validator_index: 7, slot: Slot(9) }"},
	{"syncmessages", "teku", "already-known", "Ignoring sync committee message as a duplicate was processed during validation"},
	{"contributions", "lighthouse", "already-known", "Verification: AggregatorAlreadyKnown(7)"},
}

// realFailures are per-item failure messages that are not tolerated anywhere.
var realFailures = []string{
	"InvalidSignature",
	"Verification: InvalidSignature",
	"UnknownTargetRoot(0x2222222222222222222222222222222222222222222222222222222222222222)",
	"PastSlot { attestation_slot: Slot(1), earliest_permissible_slot: Slot(5) }",
	"Invalid signature",
	"Validator is not in the sync committee",
}

type body struct {
	Status int
	Data   string
}

// noFailureBodies: well-formed JSON error bodies that name no per-item failure
// at all, so they cannot be "rejected only for a tolerated reason".
var noFailureBodies = []body{
	{500, `{"code":500,"message":"INTERNAL_SERVER_ERROR: unhandled error","stacktraces":[]}`},
	{400, `{"code":400,"message":"BAD_REQUEST: body deserialize error","failures":[]}`},
	{400, `{}`},
	{503, `{"code":503,"message":"Beacon node is currently syncing and not serving request on that endpoint"}`},
	{400, `{"code":400,"message":"Invalid request","failures":null}`},
	{500, `{"code":"500","message":"Internal server error"}`},
	{503, `{"code":"503","message":"Service unavailable","failures":[]}`},
}

// malformedBodies: not (or not entirely) JSON, or JSON of the wrong shape.
var malformedBodies = []body{
	{502, "<html><head><title>502 Bad Gateway</title></head><body>nginx</body></html>"},
	{503, "upstream connect error or disconnect/reset before headers"},
	{400, `{"code":400,"message":"BAD_REQ`},
	{400, `{"code":400,"message":"x","failures":{"index":0,"message":"bad"}}`},
	{400, `{"code":400,"message":"x"} trailing`},
	{400, `[{"index":0}]`},
	{500, ""},
}

const nGeneric = 5

// ItemDisp says what a node does with one item of the payload.
type ItemDisp struct {
	D string `json:"d"`           // ok | tol | real
	T int    `json:"t,omitempty"` // row of toleratedTable (tol) or realFailures (real)
}

// NodeID is what a beacon node double is for the whole history.
type NodeID struct {
	Client    string `json:"client"`
	Version   int    `json:"version"`
	NoVersion bool   `json:"no_version,omitempty"` // the double does not implement NodeVersionProvider
}

// NodeScript is what a node does during one step.
type NodeScript struct {
	Delay       string     `json:"delay"` // none | slow | late | hang
	SlowMs      int        `json:"slow_ms,omitempty"`
	Outcome     string     `json:"outcome"` // accept | items | generic | nofailures | malformed
	Variant     int        `json:"variant,omitempty"`
	Items       []ItemDisp `json:"items,omitempty"`        // Outcome == items: per item of the payload
	VersionFail bool       `json:"version_fail,omitempty"` // NodeVersion fails while this step is the current one
	// VersionDelay: latency of NodeVersion while this step is the current one, independent of the
	// submission behaviour: "" | slow (VersionMs, 50-100) | stall (answers after timeout+2.5 s) | hang (until its context is done)
	VersionDelay string `json:"version_delay,omitempty"`
	VersionMs    int    `json:"version_ms,omitempty"`
	CtxAware     bool   `json:"ctx_aware,omitempty"` // the request is aborted when the caller's context is done (as the http client does)
}

// Step is one submission.
type Step struct {
	Kind   string `json:"kind"`
	Items  int    `json:"items"`
	Cancel string `json:"cancel,omitempty"` // caller-side fault: "" | pre | 5ms | 50ms | 200ms | after
	// Deadline: the caller's context merely HAS a deadline (never cancelled early): "" | before (the
	// timeout) | near (shortly after the timeout) | far (2-3 s after it); DeadlineMs from the step's start.
	Deadline   string       `json:"deadline,omitempty"`
	DeadlineMs int          `json:"deadline_ms,omitempty"`
	Nodes      []NodeScript `json:"nodes"`
}

// plain: the caller's context neither ends nor has a deadline.
func (st *Step) plain() bool { return st.Cancel == "" && st.Deadline == "" }

// ctxEndsEarly: the caller's context may be done before the submitter's timeout has passed (or
// around it); such a step is judged on the time bound, delivery soundness and the causal backing of
// a reported success only.
func (st *Step) ctxEndsEarly() bool { return st.Cancel != "" || st.Deadline == "before" }

func (st *Step) ctxShape() string {
	switch {
	case st.Cancel != "":
		return "cancelled: " + st.Cancel
	case st.Deadline != "":
		return fmt.Sprintf("deadline %s (%d ms)", st.Deadline, st.DeadlineMs)
	}
	return ""
}

// Case is a history of submissions against one service instance.
type Case struct {
	Service string   `json:"service"` // multinode | immediate
	PC      int      `json:"pc"`
	Nodes   []NodeID `json:"nodes"`
	Steps   []Step   `json:"steps"`
}

var cancelAt = map[string]time.Duration{"pre": 0, "5ms": 5 * time.Millisecond, "50ms": 50 * time.Millisecond, "200ms": 200 * time.Millisecond, "after": timeout + 150*time.Millisecond}

// classOf is the generator-side label of a node in a step: its class and
// whether the statement counts a completed answer of this node as "accepted or
// rejected only for a tolerated reason": "yes", "no", or "either" (tolerated
// text while the node does not tell which client it is: Vouch cannot know that
// the reason is one it tolerates *from that client*, so both answers are taken).
func classOf(kind string, id *NodeID, n *NodeScript) (string, string) {
	switch n.Outcome {
	case "accept":
		return "accept", "yes"
	case "generic":
		return "reject", "no"
	case "nofailures":
		return "nofailures", "no"
	case "malformed":
		return "malformed", "no"
	}
	var tol, foreign, real int
	for _, d := range n.Items {
		switch d.D {
		case "tol":
			row := toleratedTable[d.T]
			if row.Kind == kind && row.Client == id.Client && !id.NoVersion {
				tol++
			} else {
				foreign++
			}
		case "real":
			real++
		}
	}
	switch {
	case tol+foreign+real == 0:
		return "accept", "yes"
	case foreign+real == 0:
		if n.VersionFail || n.VersionDelay == "stall" || n.VersionDelay == "hang" {
			return "tolerated-version-unavailable", "either"
		}
		return "tolerated", "yes"
	case tol > 0:
		return "mixed", "no"
	case foreign > 0:
		return "misplaced", "no"
	default:
		return "reject", "no"
	}
}

// ---------------------------------------------------------------- generator

func weighted(t *rapid.T, label string, pairs ...any) string {
	var pool []string
	for i := 0; i < len(pairs); i += 2 {
		for k := 0; k < pairs[i+1].(int); k++ {
			pool = append(pool, pairs[i].(string))
		}
	}
	return rapid.SampledFrom(pool).Draw(t, label)
}

// persona only steers the draws of a node over the steps of a history (so that
// "the same node hangs / tolerates / rejects again" is frequent); it is not
// part of the case.
func genScript(t *rapid.T, kind string, items int, id *NodeID, persona string, flaky bool, immediateSvc bool, cancelled bool) NodeScript {
	n := NodeScript{}
	switch {
	case immediateSvc:
		n.Delay = weighted(t, "delay", "none", 2, "slow", 1)
	case persona == "hanger":
		n.Delay = weighted(t, "delay", "none", 1, "slow", 1, "late", 2, "hang", 6)
	default:
		n.Delay = weighted(t, "delay", "none", 5, "slow", 3, "late", 1, "hang", 2)
	}
	if n.Delay == "slow" {
		n.SlowMs = rapid.IntRange(10, 100).Draw(t, "slowMs")
	}
	if flaky {
		n.VersionFail = rapid.Bool().Draw(t, "versionFail")
	} else {
		n.VersionFail = rapid.IntRange(0, 29).Draw(t, "versionFail") == 0
	}
	if !immediateSvc {
		if flaky {
			n.VersionDelay = weighted(t, "versionDelay", "", 6, "slow", 2, "stall", 2, "hang", 2)
		} else {
			n.VersionDelay = weighted(t, "versionDelay", "", 20, "slow", 2, "stall", 1, "hang", 1)
		}
		if n.VersionDelay == "slow" {
			n.VersionMs = rapid.IntRange(50, 100).Draw(t, "versionMs")
		}
	}
	if cancelled {
		n.CtxAware = rapid.Bool().Draw(t, "ctxAware")
	}
	switch persona {
	case "accepter":
		n.Outcome = weighted(t, "outcome", "accept", 8, "items", 2, "generic", 1, "nofailures", 1, "malformed", 1)
	case "tolerator":
		n.Outcome = weighted(t, "outcome", "accept", 1, "items", 10, "generic", 1, "nofailures", 1, "malformed", 1)
	case "rejecter":
		n.Outcome = weighted(t, "outcome", "items", 3, "generic", 3, "nofailures", 3, "malformed", 3)
	default:
		n.Outcome = weighted(t, "outcome", "accept", 3, "items", 6, "generic", 2, "nofailures", 2, "malformed", 2)
	}
	switch n.Outcome {
	case "generic":
		n.Variant = rapid.IntRange(0, nGeneric-1).Draw(t, "variant")
	case "nofailures":
		n.Variant = rapid.IntRange(0, len(noFailureBodies)-1).Draw(t, "variant")
	case "malformed":
		n.Variant = rapid.IntRange(0, len(malformedBodies)-1).Draw(t, "variant")
	case "items":
		var valid, foreign []int
		for i, row := range toleratedTable {
			if row.Kind == kind && row.Client == id.Client {
				valid = append(valid, i)
			} else {
				foreign = append(foreign, i)
			}
		}
		var mode string
		switch persona {
		case "tolerator":
			mode = weighted(t, "itemsMode", "tolerated", 8, "misplaced", 1, "mixed", 2, "real", 1)
		case "rejecter":
			mode = weighted(t, "itemsMode", "misplaced", 2, "mixed", 3, "real", 3)
		default:
			mode = weighted(t, "itemsMode", "tolerated", 3, "misplaced", 1, "mixed", 3, "real", 1)
		}
		if mode == "tolerated" && len(valid) == 0 {
			// a node of this client has no tolerated reason for this kind: the text of another client / kind
			mode = "misplaced"
		}
		tolPool := valid
		if mode == "misplaced" || len(valid) == 0 {
			tolPool = foreign
		}
		n.Items = make([]ItemDisp, items)
		forced := rapid.IntRange(0, items-1).Draw(t, "forcedFailure")
		forced2 := -1
		if mode == "mixed" && items > 1 {
			forced2 = rapid.IntRange(0, items-2).Draw(t, "forcedReal")
			if forced2 >= forced {
				forced2++
			}
		}
		// a purely tolerated answer names every tolerated reason of the client where there is room
		forcedTol2 := -1
		if mode == "tolerated" && len(valid) > 1 && items > 1 && rapid.Bool().Draw(t, "allReasons") {
			forcedTol2 = (forced + 1) % items
		}
		for i := range n.Items {
			var what string
			switch {
			case i == forcedTol2:
				n.Items[i] = ItemDisp{D: "tol", T: valid[1]}
				continue
			case i == forced && forcedTol2 >= 0:
				n.Items[i] = ItemDisp{D: "tol", T: valid[0]}
				continue
			case i == forced && mode == "real":
				what = "real"
			case i == forced:
				what = "tol"
			case i == forced2:
				what = "real"
			default:
				switch mode {
				case "tolerated", "misplaced":
					what = weighted(t, "disp", "ok", 2, "tol", 1)
				case "real":
					what = weighted(t, "disp", "ok", 2, "real", 1)
				default:
					what = weighted(t, "disp", "ok", 3, "tol", 1, "real", 1)
				}
			}
			switch what {
			case "ok":
				n.Items[i] = ItemDisp{D: "ok"}
			case "tol":
				n.Items[i] = ItemDisp{D: "tol", T: rapid.SampledFrom(tolPool).Draw(t, "tmpl")}
			case "real":
				n.Items[i] = ItemDisp{D: "real", T: rapid.SampledFrom([]int{0, 1, 1, 1, 2, 3, 4, 5}).Draw(t, "realMsg")}
			}
		}
	}
	return n
}

func genKind(t *rapid.T, uniform bool) string {
	if uniform {
		return rapid.SampledFrom(kinds).Draw(t, "kind")
	}
	return weighted(t, "kind", "attestations", 3, "syncmessages", 2, "contributions", 2, "proposal", 1, "aggregates", 1, "beaconsubs", 1, "syncsubs", 1, "preparations", 1)
}

func genCase(t *rapid.T) Case {
	c := Case{Service: weighted(t, "service", "multinode", 11, "immediate", 2)}
	imm := c.Service == "immediate"
	nNodes := rapid.IntRange(1, 5).Draw(t, "nodes")
	if imm {
		nNodes = 1
	}
	// the isolation clause is about "process concurrency not below the number of nodes": the boundary is frequent
	if rapid.IntRange(0, 9).Draw(t, "pcAtBoundary") < 3 {
		c.PC = nNodes
	} else {
		c.PC = rapid.IntRange(1, nNodes+3).Draw(t, "pc")
	}
	nSteps := rapid.SampledFrom([]int{1, 1, 1, 1, 2, 2, 2, 3, 3, 4}).Draw(t, "steps")
	if imm {
		// submissions through the immediate submitter are cheap (no timeout to wait for)
		nSteps = rapid.SampledFrom([]int{1, 2, 3, 4, 4}).Draw(t, "immediateSteps")
	}
	sameKind := rapid.IntRange(0, 9).Draw(t, "sameKind") < 6
	var kindsUsed []string
	first := genKind(t, nSteps > 1 && sameKind)
	for s := 0; s < nSteps; s++ {
		k := first
		if s > 0 && !sameKind {
			k = genKind(t, imm)
		}
		kindsUsed = append(kindsUsed, k)
	}
	// nodes: identity, persona
	var withRow []string
	for _, row := range toleratedTable {
		for _, k := range kindsUsed {
			if row.Kind == k {
				withRow = append(withRow, row.Client)
			}
		}
	}
	personas := make([]string, nNodes)
	flaky := make([]bool, nNodes)
	for i := 0; i < nNodes; i++ {
		id := NodeID{
			Client:  weighted(t, "client", "lighthouse", 3, "teku", 2, "nimbus", 2, "prysm", 1, "lodestar", 1, "unknown", 1),
			Version: rapid.IntRange(0, 1).Draw(t, "version"),
		}
		// half of the time prefer a client that has a tolerated reason for a kind of this history
		if len(withRow) > 0 && rapid.Bool().Draw(t, "clientWithToleration") {
			id.Client = rapid.SampledFrom(withRow).Draw(t, "tolClient")
		}
		id.NoVersion = rapid.IntRange(0, 14).Draw(t, "noVersion") == 0
		c.Nodes = append(c.Nodes, id)
		personas[i] = weighted(t, "persona", "any", 4, "accepter", 2, "tolerator", 3, "rejecter", 3, "hanger", 3)
		if imm && personas[i] == "hanger" {
			personas[i] = "any"
		}
		flaky[i] = rapid.IntRange(0, 3).Draw(t, "flakyVersion") == 0
	}
	for s := 0; s < nSteps; s++ {
		st := Step{Kind: kindsUsed[s]}
		st.Items = rapid.IntRange(1, 3*c.PC+2).Draw(t, "items")
		if st.Kind == "proposal" {
			st.Items = 1
		}
		// the caller's context: plain | cancelled at an instant | merely carrying a deadline
		shape := weighted(t, "ctxShape", "plain", 12, "cancel", 4, "deadline", 4)
		if imm {
			shape = weighted(t, "ctxShape", "plain", 5, "cancel", 4, "deadline", 1)
		}
		switch shape {
		case "cancel":
			st.Cancel = rapid.SampledFrom([]string{"pre", "5ms", "5ms", "50ms", "50ms", "200ms", "after"}).Draw(t, "cancel")
		case "deadline":
			st.Deadline = weighted(t, "deadline", "before", 1, "near", 1, "far", 2)
			if imm {
				st.Deadline = "before"
			}
			switch st.Deadline {
			case "before":
				st.DeadlineMs = rapid.IntRange(20, 250).Draw(t, "deadlineMs")
			case "near":
				st.DeadlineMs = int(timeout/time.Millisecond) + rapid.IntRange(100, 200).Draw(t, "deadlineMs")
			case "far":
				st.DeadlineMs = int(timeout/time.Millisecond) + rapid.IntRange(2000, 3000).Draw(t, "deadlineMs")
			}
		}
		for i := 0; i < nNodes; i++ {
			st.Nodes = append(st.Nodes, genScript(t, st.Kind, st.Items, &c.Nodes[i], personas[i], flaky[i], imm, !st.plain()))
		}
		c.Steps = append(c.Steps, st)
	}
	return c
}

// ------------------------------------------------------------------ doubles

type callRec struct {
	step    int
	ids     []int
	enter   time.Duration // since the start of the step the call belongs to
	leave   time.Duration // 0 while in flight
	aborted bool          // the request was abandoned because the caller's context was done
}

type world struct {
	c           *Case
	pls         []*payload
	starts      []time.Time
	cur         atomic.Int64    // step whose submission is (or was last) running: what NodeVersion answers
	stepRelease []chan struct{} // closed when a step has returned and delivery was observed: slow nodes stop waiting
	releaseAll  chan struct{}   // closed at the end of the history: late and hanging nodes answer
	mu          sync.Mutex
	wrong       []string // calls that must not have happened (decoy, wrong method, foreign object)
}

func (w *world) flag(format string, args ...any) {
	w.mu.Lock()
	w.wrong = append(w.wrong, fmt.Sprintf(format, args...))
	w.mu.Unlock()
}

// node is a beacon node double.  It implements every submitter interface, and
// eth2client.Service; nodeV adds NodeVersionProvider.
type node struct {
	w     *world
	name  string
	idx   int
	id    *NodeID // nil: decoy (configured for the submission kinds the history does not use; must never be called)
	mu    sync.Mutex
	calls []*callRec
}

type nodeV struct{ *node }

func (n nodeV) NodeVersion(ctx context.Context, opts *api.NodeVersionOpts) (*api.Response[string], error) {
	if opts == nil {
		return nil, errors.Join(errors.New("no options specified"), eth2client.ErrInvalidOptions)
	}
	if n.id == nil {
		return &api.Response[string]{Data: "decoy/v0", Metadata: map[string]any{}}, nil
	}
	step := n.w.cur.Load()
	script := &n.w.c.Steps[step].Nodes[n.idx]
	switch script.VersionDelay {
	case "slow":
		select {
		case <-time.After(time.Duration(script.VersionMs) * time.Millisecond):
		case <-n.w.releaseAll:
		}
	case "stall":
		select {
		case <-time.After(time.Until(n.w.starts[step].Add(lateAfter))):
		case <-n.w.releaseAll:
		}
	case "hang":
		select {
		case <-ctx.Done():
			return nil, errors.Join(errors.New("failed to call GET endpoint"),
				&url.Error{Op: "Get", URL: "http://" + n.name + ":5052/eth/v1/node/version", Err: context.Cause(ctx)})
		case <-time.After(hangCeiling):
		case <-n.w.releaseAll:
		}
	}
	if script.VersionFail {
		return nil, errors.Join(errors.New("failed to call GET endpoint"),
			&url.Error{Op: "Get", URL: "http://" + n.name + ":5052/eth/v1/node/version", Err: errors.New("dial tcp 10.0.0.1:5052: connect: connection refused")})
	}
	return &api.Response[string]{Data: versions[n.id.Client][n.id.Version], Metadata: map[string]any{}}, nil
}

func (n *node) Name() string    { return n.name }
func (n *node) Address() string { return n.name + ":5052" }
func (n *node) IsActive() bool  { return true }
func (n *node) IsSynced() bool  { return true }

var endpoints = map[string][2]string{
	"attestations":  {"failed to submit beacon attestations", "/eth/v1/beacon/pool/attestations"},
	"proposal":      {"failed to submit proposal", "/eth/v2/beacon/blocks"},
	"aggregates":    {"failed to submit aggregate and proofs", "/eth/v1/validator/aggregate_and_proofs"},
	"syncmessages":  {"failed to submit sync committee messages", "/eth/v1/beacon/pool/sync_committees"},
	"contributions": {"failed to submit contribution and proofs", "/eth/v1/validator/contribution_and_proofs"},
	"beaconsubs":    {"failed to request beacon committee subscriptions", "/eth/v1/validator/beacon_committee_subscriptions"},
	"syncsubs":      {"failed to request sync committee subscriptions", "/eth/v1/validator/sync_committee_subscriptions"},
	"preparations":  {"failed to submit proposal preparations", "/eth/v1/validator/prepare_beacon_proposer"},
}

// apiErr is what go-eth2-client's http layer returns for a non-2xx answer:
// errors.Join(<call specific text>, &api.Error{...}).
func apiErr(kind string, status int, data string) error {
	ep := endpoints[kind]
	var d []byte
	if data != "" {
		d = []byte(data)
	}
	return errors.Join(errors.New(ep[0]), &api.Error{Method: "POST", Endpoint: ep[1], StatusCode: status, Data: d})
}

func genericErr(kind string, v int) error {
	ep := endpoints[kind]
	switch v {
	case 0:
		return errors.Join(errors.New(ep[0]), errors.Join(errors.New("failed to call POST endpoint"),
			&url.Error{Op: "Post", URL: "http://node:5052" + ep[1], Err: errors.New("dial tcp 10.0.0.1:5052: connect: connection refused")}))
	case 1:
		return eth2client.ErrNotSynced
	case 2:
		return eth2client.ErrNotActive
	case 3:
		return apiErr(kind, 500, "")
	default:
		return errors.Join(errors.New(ep[0]), errors.Join(errors.New("failed to call POST endpoint"),
			&url.Error{Op: "Post", URL: "http://node:5052" + ep[1], Err: context.DeadlineExceeded}))
	}
}

// failureBody renders the indexed-failures error body in the dialect of the client.
func failureBody(client string, idx []int, msgs []string) string {
	type f struct {
		Index   any    `json:"index"`
		Message string `json:"message"`
	}
	type b struct {
		Code     any    `json:"code"`
		Message  string `json:"message"`
		Failures []f    `json:"failures"`
	}
	out := b{Code: 400, Message: "BAD_REQUEST: some items could not be processed"}
	if client == "teku" {
		out.Code = "400"
		out.Message = "Some items failed to publish, refer to errors for details"
	}
	for i := range idx {
		var index any = idx[i]
		if client == "teku" {
			index = strconv.Itoa(idx[i])
		}
		out.Failures = append(out.Failures, f{Index: index, Message: msgs[i]})
	}
	js, err := json.Marshal(out)
	if err != nil {
		panic(err)
	}
	return string(js)
}

func ctxErr(kind string, err error) error {
	ep := endpoints[kind]
	return errors.Join(errors.New(ep[0]), errors.Join(errors.New("failed to call POST endpoint"),
		&url.Error{Op: "Post", URL: "http://node:5052" + ep[1], Err: err}))
}

// locate finds the step a call belongs to (by the identity of the offered
// objects) and the item numbers offered; objects that were never submitted are
// reported as -1.
func locate[T comparable](w *world, offered []T, submitted func(*payload) []T) (int, []int) {
	step := -1
	ids := make([]int, len(offered))
	for i, o := range offered {
		ids[i] = -1
		for s, p := range w.pls {
			if p == nil || (step >= 0 && s != step) {
				continue
			}
			for j, x := range submitted(p) {
				if o == x {
					ids[i] = j
					step = s
					break
				}
			}
			if ids[i] >= 0 {
				break
			}
		}
	}
	return step, ids
}

// serve is the body of every submit method.
func (n *node) serve(ctx context.Context, method string, step int, ids []int) error {
	w := n.w
	if n.id == nil {
		w.flag("%s: %s called on a node that is not configured for it", n.name, method)
		return errors.New("decoy")
	}
	if step < 0 {
		w.flag("%s: %s called with objects that were never submitted", n.name, method)
		return errors.New("foreign objects")
	}
	st := &w.c.Steps[step]
	if method != st.Kind {
		w.flag("%s: %s called with the payload of a %s submission", n.name, method, st.Kind)
		return errors.New("wrong method")
	}
	script := &st.Nodes[n.idx]
	start := w.starts[step]
	rec := &callRec{step: step, ids: ids, enter: time.Since(start)}
	n.mu.Lock()
	n.calls = append(n.calls, rec)
	n.mu.Unlock()

	var ctxDone <-chan struct{}
	aborted := false
	if script.CtxAware {
		ctxDone = ctx.Done()
		if ctx.Err() != nil {
			aborted = true
		}
	}
	if !aborted {
		switch script.Delay {
		case "slow":
			d := time.Duration(script.SlowMs) * time.Millisecond
			select {
			case <-time.After(d):
			case <-w.stepRelease[step]:
			case <-ctxDone:
				aborted = true
			}
		case "late":
			select {
			case <-time.After(time.Until(start.Add(lateAfter))):
			case <-w.releaseAll:
			case <-ctxDone:
				aborted = true
			}
		case "hang":
			select {
			case <-time.After(hangCeiling):
			case <-w.releaseAll:
			case <-ctxDone:
				aborted = true
			}
		}
	}

	var err error
	switch {
	case aborted:
		err = ctxErr(st.Kind, context.Cause(ctx))
	case script.Outcome == "generic":
		err = genericErr(st.Kind, script.Variant)
	case script.Outcome == "nofailures":
		b := noFailureBodies[script.Variant]
		err = apiErr(st.Kind, b.Status, b.Data)
	case script.Outcome == "malformed":
		b := malformedBodies[script.Variant]
		err = apiErr(st.Kind, b.Status, b.Data)
	case script.Outcome == "items":
		var idx []int
		var msgs []string
		for pos, id := range ids {
			if id < 0 || id >= len(script.Items) {
				continue
			}
			switch d := script.Items[id]; d.D {
			case "tol":
				idx = append(idx, pos)
				msgs = append(msgs, toleratedTable[d.T].Text)
			case "real":
				idx = append(idx, pos)
				msgs = append(msgs, realFailures[d.T])
			}
		}
		if len(idx) > 0 {
			err = apiErr(st.Kind, 400, failureBody(n.id.Client, idx, msgs))
		}
	}
	n.mu.Lock()
	rec.aborted = aborted
	rec.leave = time.Since(start)
	if rec.leave <= 0 {
		rec.leave = 1
	}
	n.mu.Unlock()
	return err
}

type snap struct {
	ids       []int
	inflight  int
	lastLeave time.Duration
	ncalls    int
	aborted   bool
}

// snapshot summarises the calls of one step.
func (n *node) snapshot(step int) snap {
	var s snap
	n.mu.Lock()
	defer n.mu.Unlock()
	for _, r := range n.calls {
		if r.step != step {
			continue
		}
		s.ncalls++
		s.ids = append(s.ids, r.ids...)
		s.aborted = s.aborted || r.aborted
		if r.leave == 0 {
			s.inflight++
		} else if r.leave > s.lastLeave {
			s.lastLeave = r.leave
		}
	}
	return s
}

// payload holds the submitted objects; item i carries the number i in one of
// its fields and is also identified by pointer.
type payload struct {
	atts     []*phase0.Attestation
	proposal *api.VersionedSignedProposal
	aggs     []*phase0.SignedAggregateAndProof
	msgs     []*altair.SyncCommitteeMessage
	contribs []*altair.SignedContributionAndProof
	bsubs    []*apiv1.BeaconCommitteeSubscription
	ssubs    []*apiv1.SyncCommitteeSubscription
	preps    []*apiv1.ProposalPreparation
	digest   string
}

func att(i int) *phase0.Attestation {
	bits := bitfield.NewBitlist(8)
	bits.SetBitAt(uint64(i%8), true)
	return &phase0.Attestation{
		AggregationBits: bits,
		Data: &phase0.AttestationData{Slot: 12345, Index: phase0.CommitteeIndex(i),
			Source: &phase0.Checkpoint{Epoch: 384}, Target: &phase0.Checkpoint{Epoch: 385}},
	}
}

func newPayload(c *Step, pc int) *payload {
	p := &payload{}
	for i := 0; i < c.Items; i++ {
		switch c.Kind {
		case "attestations":
			p.atts = append(p.atts, att(i))
		case "proposal":
			// phase0/altair proposals are refused by this go-eth2-client version itself
			// (VersionedSignedProposal.Slot: unsupported version), so only the forks a
			// live chain can deliver today are generated.
			switch pc % 4 {
			case 0:
				p.proposal = &api.VersionedSignedProposal{Version: spec.DataVersionBellatrix,
					Bellatrix: &bellatrix.SignedBeaconBlock{Message: &bellatrix.BeaconBlock{Slot: 12345, ProposerIndex: 77}}}
			case 1:
				p.proposal = &api.VersionedSignedProposal{Version: spec.DataVersionDeneb,
					Deneb: &apiv1deneb.SignedBlockContents{SignedBlock: &deneb.SignedBeaconBlock{Message: &deneb.BeaconBlock{Slot: 12345, ProposerIndex: 77}}}}
			case 2:
				p.proposal = &api.VersionedSignedProposal{Version: spec.DataVersionCapella,
					Capella: &capella.SignedBeaconBlock{Message: &capella.BeaconBlock{Slot: 12345, ProposerIndex: 77}}}
			default:
				p.proposal = &api.VersionedSignedProposal{Version: spec.DataVersionDeneb, Blinded: true,
					DenebBlinded: &apiv1deneb.SignedBlindedBeaconBlock{Message: &apiv1deneb.BlindedBeaconBlock{Slot: 12345, ProposerIndex: 77}}}
			}
		case "aggregates":
			p.aggs = append(p.aggs, &phase0.SignedAggregateAndProof{Message: &phase0.AggregateAndProof{AggregatorIndex: phase0.ValidatorIndex(i), Aggregate: att(i)}})
		case "syncmessages":
			p.msgs = append(p.msgs, &altair.SyncCommitteeMessage{Slot: 12345, ValidatorIndex: phase0.ValidatorIndex(i)})
		case "contributions":
			p.contribs = append(p.contribs, &altair.SignedContributionAndProof{Message: &altair.ContributionAndProof{AggregatorIndex: phase0.ValidatorIndex(i),
				Contribution: &altair.SyncCommitteeContribution{Slot: 12345, SubcommitteeIndex: uint64(i % 4), AggregationBits: bitfield.NewBitvector128()}}})
		case "beaconsubs":
			p.bsubs = append(p.bsubs, &apiv1.BeaconCommitteeSubscription{ValidatorIndex: phase0.ValidatorIndex(i), Slot: 12345, CommitteeIndex: 3, CommitteesAtSlot: 64, IsAggregator: i%2 == 0})
		case "syncsubs":
			p.ssubs = append(p.ssubs, &apiv1.SyncCommitteeSubscription{ValidatorIndex: phase0.ValidatorIndex(i), SyncCommitteeIndices: []phase0.CommitteeIndex{1, 2}, UntilEpoch: 512})
		case "preparations":
			p.preps = append(p.preps, &apiv1.ProposalPreparation{ValidatorIndex: phase0.ValidatorIndex(i)})
		}
	}
	return p
}

// dump renders the payload so that a mutation of a submitted object is noticed.
func (p *payload) dump() string {
	return fmt.Sprintf("%v|%v|%v|%v|%v|%v|%v|%v", p.atts, p.proposal, p.aggs, p.msgs, p.contribs, p.bsubs, p.ssubs, p.preps)
}

func (n *node) SubmitAttestations(ctx context.Context, in []*phase0.Attestation) error {
	step, ids := locate(n.w, in, func(p *payload) []*phase0.Attestation { return p.atts })
	return n.serve(ctx, "attestations", step, ids)
}

func (n *node) SubmitProposal(ctx context.Context, opts *api.SubmitProposalOpts) error {
	step, ids := -1, []int{-1}
	if opts != nil && opts.Proposal != nil {
		step, ids = locate(n.w, []*api.VersionedSignedProposal{opts.Proposal}, func(p *payload) []*api.VersionedSignedProposal {
			if p.proposal == nil {
				return nil
			}
			return []*api.VersionedSignedProposal{p.proposal}
		})
	}
	return n.serve(ctx, "proposal", step, ids)
}

func (n *node) SubmitAggregateAttestations(ctx context.Context, in []*phase0.SignedAggregateAndProof) error {
	step, ids := locate(n.w, in, func(p *payload) []*phase0.SignedAggregateAndProof { return p.aggs })
	return n.serve(ctx, "aggregates", step, ids)
}

func (n *node) SubmitSyncCommitteeMessages(ctx context.Context, in []*altair.SyncCommitteeMessage) error {
	step, ids := locate(n.w, in, func(p *payload) []*altair.SyncCommitteeMessage { return p.msgs })
	return n.serve(ctx, "syncmessages", step, ids)
}

func (n *node) SubmitSyncCommitteeContributions(ctx context.Context, in []*altair.SignedContributionAndProof) error {
	step, ids := locate(n.w, in, func(p *payload) []*altair.SignedContributionAndProof { return p.contribs })
	return n.serve(ctx, "contributions", step, ids)
}

func (n *node) SubmitBeaconCommitteeSubscriptions(ctx context.Context, in []*apiv1.BeaconCommitteeSubscription) error {
	step, ids := locate(n.w, in, func(p *payload) []*apiv1.BeaconCommitteeSubscription { return p.bsubs })
	return n.serve(ctx, "beaconsubs", step, ids)
}

func (n *node) SubmitSyncCommitteeSubscriptions(ctx context.Context, in []*apiv1.SyncCommitteeSubscription) error {
	step, ids := locate(n.w, in, func(p *payload) []*apiv1.SyncCommitteeSubscription { return p.ssubs })
	return n.serve(ctx, "syncsubs", step, ids)
}

func (n *node) SubmitProposalPreparations(ctx context.Context, in []*apiv1.ProposalPreparation) error {
	step, ids := locate(n.w, in, func(p *payload) []*apiv1.ProposalPreparation { return p.preps })
	return n.serve(ctx, "preparations", step, ids)
}

type allSubmitters interface {
	eth2client.Service
	eth2client.AttestationsSubmitter
	eth2client.ProposalSubmitter
	eth2client.AggregateAttestationsSubmitter
	eth2client.SyncCommitteeMessagesSubmitter
	eth2client.SyncCommitteeContributionsSubmitter
	eth2client.BeaconCommitteeSubscriptionsSubmitter
	eth2client.SyncCommitteeSubscriptionsSubmitter
	eth2client.ProposalPreparationsSubmitter
}

func (n *node) iface() allSubmitters {
	if n.id != nil && n.id.NoVersion {
		return n
	}
	return nodeV{n}
}

// mapOf: the nodes for the kinds the history uses, the decoy for the others.
func mapOf[T any](used map[string]bool, want string, nodes []*node, decoy *node) map[string]T {
	m := map[string]T{}
	if used[want] {
		for _, n := range nodes {
			m[n.name] = n.iface().(T)
		}
	} else {
		m[decoy.name] = decoy.iface().(T)
	}
	return m
}

type submitter interface {
	SubmitAttestations(ctx context.Context, attestations []*phase0.Attestation) error
	SubmitProposal(ctx context.Context, proposal *api.VersionedSignedProposal) error
	SubmitAggregateAttestations(ctx context.Context, aggregates []*phase0.SignedAggregateAndProof) error
	SubmitSyncCommitteeMessages(ctx context.Context, messages []*altair.SyncCommitteeMessage) error
	SubmitSyncCommitteeContributions(ctx context.Context, contributionAndProofs []*altair.SignedContributionAndProof) error
	SubmitBeaconCommitteeSubscriptions(ctx context.Context, subscriptions []*apiv1.BeaconCommitteeSubscription) error
	SubmitSyncCommitteeSubscriptions(ctx context.Context, subscriptions []*apiv1.SyncCommitteeSubscription) error
	SubmitProposalPreparations(ctx context.Context, preparations []*apiv1.ProposalPreparation) error
}

func submit(ctx context.Context, s submitter, kind string, p *payload) error {
	switch kind {
	case "attestations":
		return s.SubmitAttestations(ctx, p.atts)
	case "proposal":
		return s.SubmitProposal(ctx, p.proposal)
	case "aggregates":
		return s.SubmitAggregateAttestations(ctx, p.aggs)
	case "syncmessages":
		return s.SubmitSyncCommitteeMessages(ctx, p.msgs)
	case "contributions":
		return s.SubmitSyncCommitteeContributions(ctx, p.contribs)
	case "beaconsubs":
		return s.SubmitBeaconCommitteeSubscriptions(ctx, p.bsubs)
	case "syncsubs":
		return s.SubmitSyncCommitteeSubscriptions(ctx, p.ssubs)
	case "preparations":
		return s.SubmitProposalPreparations(ctx, p.preps)
	}
	panic("unknown kind " + kind)
}

// ---------------------------------------------------------------- run+judge

type nodeObs struct {
	class     string
	ok        string // yes | no | either
	ids       []int
	full      bool          // offered exactly the submitted items
	sound     bool          // offered only submitted items, none twice
	fullEarly bool          // full already while late/hanging nodes were still pending
	finished  time.Duration // instant the last call returned (valid if done)
	done      bool
	ncalls    int
}

type stepObs struct {
	ran        bool
	returned   bool
	r          time.Duration
	err        error
	panicked   string
	nodes      []nodeObs
	mutated    bool
	releasedAt time.Duration
	maxGap     time.Duration // longest scheduling gap the harness' heartbeat saw during the step
}

type obs struct {
	harness string
	steps   []stepObs
	wrong   []string
}

func exact(ids []int, items int) bool {
	if len(ids) != items {
		return false
	}
	s := append([]int(nil), ids...)
	sort.Ints(s)
	for i, v := range s {
		if v != i {
			return false
		}
	}
	return true
}

func soundIDs(ids []int, items int) bool {
	seen := map[int]bool{}
	for _, v := range ids {
		if v < 0 || v >= items || seen[v] {
			return false
		}
		seen[v] = true
	}
	return true
}

func validCase(c *Case) string {
	if c.Service != "multinode" && c.Service != "immediate" {
		return "service"
	}
	if c.PC < 1 || len(c.Nodes) < 1 || len(c.Steps) < 1 || len(c.Steps) > 8 || (c.Service == "immediate" && len(c.Nodes) != 1) {
		return "sizes"
	}
	for i := range c.Nodes {
		if _, ok := versions[c.Nodes[i].Client]; !ok || c.Nodes[i].Version < 0 || c.Nodes[i].Version > 1 {
			return "client"
		}
	}
	for s := range c.Steps {
		st := &c.Steps[s]
		if _, ok := endpoints[st.Kind]; !ok {
			return "kind"
		}
		if st.Items < 1 || len(st.Nodes) != len(c.Nodes) || (st.Kind == "proposal" && st.Items != 1) {
			return "step sizes"
		}
		if _, ok := cancelAt[st.Cancel]; !ok && st.Cancel != "" {
			return "cancel"
		}
		switch st.Deadline {
		case "":
		case "before", "near", "far":
			if st.DeadlineMs < 1 || st.DeadlineMs > 10000 || st.Cancel != "" {
				return "deadline"
			}
		default:
			return "deadline"
		}
		for i := range st.Nodes {
			n := &st.Nodes[i]
			switch n.Outcome {
			case "accept":
			case "generic":
				if n.Variant < 0 || n.Variant >= nGeneric {
					return "variant"
				}
			case "nofailures":
				if n.Variant < 0 || n.Variant >= len(noFailureBodies) {
					return "variant"
				}
			case "malformed":
				if n.Variant < 0 || n.Variant >= len(malformedBodies) {
					return "variant"
				}
			case "items":
				if len(n.Items) != st.Items {
					return "items"
				}
				for _, d := range n.Items {
					if d.D == "tol" && (d.T < 0 || d.T >= len(toleratedTable)) || d.D == "real" && (d.T < 0 || d.T >= len(realFailures)) {
						return "disp"
					}
				}
			default:
				return "outcome"
			}
			switch n.Delay {
			case "none", "slow":
			case "late", "hang":
				if c.Service == "immediate" {
					return "delay"
				}
			default:
				return "delay"
			}
			switch n.VersionDelay {
			case "", "stall", "hang":
			case "slow":
				if n.VersionMs < 1 || n.VersionMs > 120 {
					return "version delay"
				}
			default:
				return "version delay"
			}
		}
	}
	return ""
}

func run(c *Case) *obs {
	o := &obs{steps: make([]stepObs, len(c.Steps))}
	zerolog.SetGlobalLevel(zerolog.Disabled)
	parent, cancelAll := context.WithCancel(context.Background())
	defer cancelAll()

	w := &world{c: c, releaseAll: make(chan struct{}), starts: make([]time.Time, len(c.Steps))}
	var before []string
	used := map[string]bool{}
	for s := range c.Steps {
		p := newPayload(&c.Steps[s], c.PC+s)
		w.pls = append(w.pls, p)
		before = append(before, p.dump())
		w.stepRelease = append(w.stepRelease, make(chan struct{}))
		used[c.Steps[s].Kind] = true
	}
	var nodes []*node
	for i := range c.Nodes {
		nodes = append(nodes, &node{w: w, idx: i, name: fmt.Sprintf("node-%d", i), id: &c.Nodes[i]})
	}
	decoy := &node{w: w, name: "decoy"}

	var svc submitter
	if c.Service == "immediate" {
		// the immediate submitter has one node for everything
		n := nodes[0].iface()
		s, err := immediate.New(parent,
			immediate.WithLogLevel(zerolog.Disabled),
			immediate.WithAttestationsSubmitter(n), immediate.WithProposalSubmitter(n), immediate.WithAggregateAttestationsSubmitter(n),
			immediate.WithSyncCommitteeMessagesSubmitter(n), immediate.WithSyncCommitteeContributionsSubmitter(n),
			immediate.WithBeaconCommitteeSubscriptionsSubmitter(n), immediate.WithSyncCommitteeSubscriptionsSubmitter(n),
			immediate.WithProposalPreparationsSubmitter(n))
		if err != nil {
			o.harness = "cannot construct immediate submitter: " + err.Error()
			return o
		}
		svc = s
	} else {
		s, err := multinode.New(parent,
			multinode.WithLogLevel(zerolog.Disabled),
			multinode.WithTimeout(timeout),
			multinode.WithProcessConcurrency(int64(c.PC)),
			multinode.WithAttestationsSubmitters(mapOf[eth2client.AttestationsSubmitter](used, "attestations", nodes, decoy)),
			multinode.WithProposalSubmitters(mapOf[eth2client.ProposalSubmitter](used, "proposal", nodes, decoy)),
			multinode.WithAggregateAttestationsSubmitters(mapOf[eth2client.AggregateAttestationsSubmitter](used, "aggregates", nodes, decoy)),
			multinode.WithSyncCommitteeMessagesSubmitters(mapOf[eth2client.SyncCommitteeMessagesSubmitter](used, "syncmessages", nodes, decoy)),
			multinode.WithSyncCommitteeContributionsSubmitters(mapOf[eth2client.SyncCommitteeContributionsSubmitter](used, "contributions", nodes, decoy)),
			multinode.WithBeaconCommitteeSubscriptionsSubmitters(mapOf[eth2client.BeaconCommitteeSubscriptionsSubmitter](used, "beaconsubs", nodes, decoy)),
			multinode.WithSyncCommitteeSubscriptionsSubmitters(mapOf[eth2client.SyncCommitteeSubscriptionsSubmitter](used, "syncsubs", nodes, decoy)),
			multinode.WithProposalPreparationsSubmitters(mapOf[eth2client.ProposalPreparationsSubmitter](used, "preparations", nodes, decoy)),
		)
		if err != nil {
			o.harness = "cannot construct multinode submitter: " + err.Error()
			return o
		}
		svc = s
	}

	type result struct {
		err      error
		r        time.Duration
		panicked string
	}
	// heartbeat: how badly is this process being starved right now?  Timing-based judgements are
	// only made for steps during which the heartbeat never paused for more than stallGap.
	var maxGap, lastBeat atomic.Int64 // lastBeat: nanoseconds since t0
	t0 := time.Now()
	stopBeat := make(chan struct{})
	defer close(stopBeat)
	go func() {
		for {
			select {
			case <-stopBeat:
				return
			case <-time.After(5 * time.Millisecond):
			}
			now := int64(time.Since(t0))
			if g := now - lastBeat.Load(); g > maxGap.Load() {
				maxGap.Store(g)
			}
			lastBeat.Store(now)
		}
	}()
	// longest pause seen since the last reset, including one that is still going on (after a pause
	// everything becomes runnable at once and the heartbeat may not have had its turn yet)
	pause := func() time.Duration {
		g := maxGap.Load()
		if cur := int64(time.Since(t0)) - lastBeat.Load(); cur > g {
			g = cur
		}
		return time.Duration(g)
	}
	limit := timeout + returnGuard
	if c.Service == "immediate" {
		limit = immediateSlow + returnGuard
	}
	enough := c.Service == "multinode" && c.PC >= len(nodes)
	abandoned := false
	for s := range c.Steps {
		st := &c.Steps[s]
		so := &o.steps[s]
		so.ran = true
		so.nodes = make([]nodeObs, len(nodes))
		p := w.pls[s]
		ctx, cancel := context.WithCancel(parent)
		deadlineAfter := time.Duration(st.DeadlineMs) * time.Millisecond
		defer cancel()
		done := make(chan result, 1)
		if st.Cancel == "pre" {
			cancel()
		}
		start := time.Now()
		if st.Deadline != "" {
			var cancelDeadline context.CancelFunc
			ctx, cancelDeadline = context.WithDeadline(ctx, start.Add(deadlineAfter))
			defer cancelDeadline()
		}
		w.starts[s] = start
		w.cur.Store(int64(s))
		if st.Cancel != "" && st.Cancel != "pre" {
			tm := time.AfterFunc(cancelAt[st.Cancel], cancel)
			defer tm.Stop()
		}
		go func() {
			var res result
			defer func() {
				if x := recover(); x != nil {
					res.panicked = fmt.Sprintf("%v\n%s", x, debug.Stack())
					res.r = time.Since(start)
				}
				done <- res
			}()
			res.err = submit(ctx, svc, st.Kind, p)
			res.r = time.Since(start)
		}()
		maxGap.Store(0)
		// Watchdog in *effective* time: a pause of the whole process (loaded machine) counts for at
		// most 30 ms, so the limit only expires after the submitter really had that much time to run.
		var res result
		for eff, last := time.Duration(0), start; eff < limit && !so.returned; {
			select {
			case res = <-done:
				so.returned = true
			case <-time.After(10 * time.Millisecond):
				now := time.Now()
				g := now.Sub(last)
				if g > 30*time.Millisecond {
					g = 30 * time.Millisecond
				}
				eff += g
				last = now
			}
		}
		pauseAtReturn := pause()
		fullAll := func() bool {
			all := true
			for i, n := range nodes {
				if exact(n.snapshot(s).ids, st.Items) {
					so.nodes[i].fullEarly = true
				} else if !versionPending(&st.Nodes[i]) {
					all = false
				}
			}
			return all
		}
		if so.returned && enough && !st.ctxEndsEarly() && st.Deadline != "near" {
			// isolation: with enough process concurrency every node is offered everything
			// while the bad nodes (of this and of earlier submissions) are still bad
			for eff, last := time.Duration(0), time.Now(); !fullAll() && eff < deliverCeil; {
				time.Sleep(500 * time.Microsecond)
				now := time.Now()
				g := now.Sub(last)
				if g > 20*time.Millisecond {
					g = 20 * time.Millisecond
				}
				eff += g
				last = now
			}
		} else {
			fullAll()
		}
		so.releasedAt = time.Since(start)
		so.maxGap = pause()
		if pauseAtReturn > so.maxGap {
			so.maxGap = pauseAtReturn
		}
		close(w.stepRelease[s])
		so.r, so.err, so.panicked = res.r, res.err, res.panicked
		if !so.returned {
			// The call has not returned by timeout + guard: a violation of the time bound whatever
			// happens now.  Its goroutine is abandoned and the history ends here.
			abandoned = true
			break
		}
		// let the answers of the nodes that are not meant to stay pending come in before the next step
		deadline := time.Now().Add(quiesceCeil)
		for time.Now().Before(deadline) {
			busy := false
			for i, n := range nodes {
				if d := st.Nodes[i].Delay; d == "late" || d == "hang" {
					continue
				}
				if n.snapshot(s).inflight > 0 {
					busy = true
				}
			}
			if !busy {
				break
			}
			time.Sleep(200 * time.Microsecond)
		}
	}
	close(w.releaseAll)

	// quiescence: nothing in flight and (every node offered everything, or nothing moves any more);
	// both ceilings in effective time (a pause of the process counts for at most 20 ms)
	lastCalls := -1
	var eff, still time.Duration
	for last := time.Now(); eff < quiesceCeil; {
		inflight, complete, calls := 0, true, 0
		for s := range c.Steps {
			if !o.steps[s].ran {
				continue
			}
			for _, n := range nodes {
				sn := n.snapshot(s)
				inflight += sn.inflight
				calls += sn.ncalls
				if len(sn.ids) < c.Steps[s].Items && c.Steps[s].plain() && o.steps[s].returned {
					complete = false
				}
			}
		}
		if inflight == 0 && complete {
			break
		}
		time.Sleep(time.Millisecond)
		now := time.Now()
		g := now.Sub(last)
		if g > 20*time.Millisecond {
			g = 20 * time.Millisecond
		}
		last = now
		eff += g
		if inflight == 0 && calls == lastCalls {
			// nothing has moved for 1.5 s: vouch is not going to call anybody any more
			if still += g; still > 1500*time.Millisecond {
				break
			}
		} else {
			still = 0
		}
		lastCalls = calls
	}
	time.Sleep(2 * time.Millisecond) // room for a surplus call to show up
	for s := range c.Steps {
		so := &o.steps[s]
		if !so.ran {
			continue
		}
		for i, n := range nodes {
			sn := n.snapshot(s)
			no := &so.nodes[i]
			no.class, no.ok = classOf(c.Steps[s].Kind, n.id, &c.Steps[s].Nodes[i])
			if sn.aborted {
				no.class, no.ok = "aborted", "no"
			}
			no.ids = sn.ids
			no.full = exact(sn.ids, c.Steps[s].Items)
			no.sound = soundIDs(sn.ids, c.Steps[s].Items)
			no.done = sn.inflight == 0 && sn.ncalls > 0
			no.finished = sn.lastLeave
			no.ncalls = sn.ncalls
			if sn.inflight != 0 && !abandoned && c.Steps[s].plain() {
				// (in a step whose context was cancelled a node may be called arbitrarily late or
				// never; such a call is simply not part of the judgement: done == false)
				o.harness = "a node call is still in flight after release"
			}
		}
		so.mutated = w.pls[s].dump() != before[s]
	}
	w.mu.Lock()
	o.wrong = append(o.wrong, w.wrong...)
	w.mu.Unlock()
	return o
}

func judge(t ev.TB, c *Case, o *obs) {
	if len(o.wrong) > 0 {
		violation(t, "wrong-node-called", c, "%s", strings.Join(o.wrong, "; "))
	}
	for s := range c.Steps {
		if o.steps[s].ran && !judgeStep(t, c, o, s) {
			return
		}
	}
}

// judgeStep returns false when the rest of the history cannot be judged.
func judgeStep(t ev.TB, c *Case, o *obs, s int) bool {
	st := &c.Steps[s]
	so := &o.steps[s]
	k := st.Kind
	where := fmt.Sprintf("step %d/%d (%s", s+1, len(c.Steps), k)
	if !st.plain() {
		where += ", caller's context " + st.ctxShape()
	}
	where += ")"
	svcTag := ""
	if c.Service == "immediate" {
		svcTag = "immediate-"
	}
	if so.panicked != "" {
		violation(t, "panic:"+svcTag+k, c, "%s: submission panicked: %s", where, so.panicked)
		return false
	}
	if so.mutated {
		violation(t, svcTag+"payload-mutated:"+k, c, "%s: the submitted objects were modified by the submitter", where)
	}

	// (c) time bound -- whatever the caller's context does
	if c.Service == "multinode" && (!so.returned || so.r > timeout+returnGuard) {
		if so.maxGap > 2*stallGap {
			// the whole process was paused for a sizeable part of the timeout during this step
			// (loaded machine): the submitter's own goroutines were paused too, nothing can be said
			ev.Label("stalled-not-judged")
			return false
		}
		violation(t, "late-return:"+k, c, "%s: timeout %v but the call had not returned after %v (returned=%v at %v wall; watchdog in effective time; longest pause of the process during the step %v; nodes: %s)", where, timeout, timeout+returnGuard, so.returned, so.r, so.maxGap, describe(so))
		return false
	}
	if c.Service == "immediate" && !so.returned {
		violation(t, "immediate-no-return:"+k, c, "%s: node answered within 100 ms but the call had not returned after %v", where, immediateSlow+returnGuard)
		return false
	}

	// (a)+(d) delivery
	enough := c.Service == "immediate" || c.PC >= len(c.Nodes)
	for i := range so.nodes {
		no := &so.nodes[i]
		if !st.plain() && (st.ctxEndsEarly() || st.Deadline == "near" || !enough) {
			// only soundness: what was offered is part of the submission, nothing twice (a node that
			// is reached after the context has ended may not be called at all)
			if !no.sound {
				violation(t, svcTag+"payload-mismatch:"+k, c, "%s: node %d was offered items %v over %d call(s); submitted were 0..%d", where, i, no.ids, no.ncalls, st.Items-1)
				return false
			}
			continue
		}
		if enough && !no.fullEarly && !versionPending(&st.Nodes[i]) {
			violation(t, svcTag+"not-delivered:"+k, c, "%s: process concurrency %d >= %d nodes, but node %d had been offered items %v of 0..%d while the slow/hanging nodes were still pending (%v after the call returned at %v with %v); nodes: %s",
				where, c.PC, len(c.Nodes), i, no.ids, st.Items-1, deliverCeil, so.r, so.err, describe(so))
			return false
		}
		if no.ncalls > 0 && !no.full {
			violation(t, svcTag+"payload-mismatch:"+k, c, "%s: node %d was offered items %v over %d call(s); submitted were 0..%d exactly once", where, i, no.ids, no.ncalls, st.Items-1)
			return false
		}
	}

	// (b) outcome
	success := so.err == nil
	var okEarly, okBeforeReturn bool
	suspects := map[string]bool{}
	for i := range so.nodes {
		no := &so.nodes[i]
		if !no.done || !no.full {
			continue
		}
		if no.ok != "no" && no.finished < so.r {
			okBeforeReturn = true
		}
		if no.ok == "yes" && no.finished <= earlyLimit(&st.Nodes[i], no.class) {
			okEarly = true
		}
		if no.ok == "no" && no.finished < so.r {
			suspects[no.class] = true
		}
	}
	if c.Service == "immediate" {
		no := &so.nodes[0]
		switch {
		case no.class == "accept" && !success:
			violation(t, "immediate-missed-success:"+k, c, "%s: the node accepted but the submitter returned %v", where, so.err)
		case no.class == "tolerated" || no.class == "tolerated-version-unavailable":
			// the immediate submitter tolerates nothing; the statement's toleration clause is about
			// what Vouch deliberately tolerates, so either answer is taken
			ev.Label("immediate-tolerated-text-not-judged")
		case no.ok == "no" && success:
			violation(t, "immediate-false-success:"+k+":"+no.class, c, "%s: the node rejected (%s) but the submitter reported success", where, no.class)
		}
		return true
	}
	if success && !okBeforeReturn {
		order := []string{"mixed", "nofailures", "malformed", "misplaced", "reject", "aborted"}
		var present []string
		for _, cl := range order {
			if suspects[cl] {
				present = append(present, cl)
			}
		}
		detail := fmt.Sprintf("%s: success reported at %v although no node had, by then, accepted or rejected only for a tolerated reason; nodes finished before that: %v; all nodes: %s", where, so.r, present, describe(so))
		if len(present) == 0 {
			violation(t, "false-success:"+k+":nobody-finished", c, "%s", detail)
			return true
		}
		// A listed open finding explains the false success of every case that contains its class;
		// such a case cannot tell anything about the other classes present.
		for _, cl := range present {
			if sig := "false-success:" + k + ":" + cl; ev.IsKnown(sig) {
				violation(t, sig, c, "%s", detail)
				return true
			}
		}
		violation(t, "false-success:"+k+":"+present[0], c, "%s", detail)
		return true
	}
	if !success && okEarly && !st.ctxEndsEarly() && so.maxGap > stallGap {
		// the process was paused for longer than the guard band tolerates: not judged
		ev.Label("stalled-not-judged")
	} else if !success && okEarly && !st.ctxEndsEarly() {
		cl := ""
		for i := range so.nodes {
			if no := &so.nodes[i]; no.ok == "yes" && no.done && no.full && no.finished <= earlyLimit(&st.Nodes[i], no.class) {
				cl = no.class
				break
			}
		}
		violation(t, "missed-success:"+k+":"+cl, c, "%s: error %q returned at %v although a node had answered (%s) within %v of a %v timeout; nodes: %s", where, so.err, so.r, cl, earlyBy, timeout, describe(so))
	}
	return true
}

// versionPending: the node does not answer the version request before the timeout during this
// step.  Vouch asks a node for its version in that node's own goroutine before it submits to it, so
// such a node is itself one of the "bad" nodes: it gets the payload when the version request ends.
// earlyLimit: a tolerated rejection can only be recognised after another (possibly slow) version
// request, which eats into the guard band.
func earlyLimit(n *NodeScript, class string) time.Duration {
	if class == "tolerated" && n.VersionDelay == "slow" {
		return earlyBy - time.Duration(n.VersionMs)*time.Millisecond
	}
	return earlyBy
}

func versionPending(n *NodeScript) bool {
	return n.VersionDelay == "stall" || n.VersionDelay == "hang"
}

func notReturned(o *obs) int {
	for s := range o.steps {
		if o.steps[s].ran && !o.steps[s].returned {
			return s
		}
	}
	return -1
}

func describe(so *stepObs) string {
	var b strings.Builder
	for i := range so.nodes {
		no := &so.nodes[i]
		fmt.Fprintf(&b, "[%d %s ok=%s done=%v at=%v calls=%d]", i, no.class, no.ok, no.done, no.finished, no.ncalls)
	}
	return b.String()
}

// Shrink-cost control.  A failing case of this check can cost seconds (a call
// that never returns is only known to be late after timeout + guard), and
// rapid's shrinker tries hundreds of candidates per block.  Two measures keep a
// failing run inside the budget, neither of which can make a silent tree fail:
// a case that was already judged as violating is re-reported from memory when
// rapid presents it again, and once shrinkBudget has passed since the first
// violation of this process further (new) candidates are not executed, which
// ends the shrinking with the smallest failing case found so far.
const shrinkBudget = 15 * time.Second

// stallGap: a step during which the harness' 5 ms heartbeat paused for longer
// than this is not judged on guard-band timing (missed success).
const stallGap = 100 * time.Millisecond

var (
	shrinkMu       sync.Mutex
	firstViolation time.Time
	memo           = map[uint64][2]string{}
)

func violation(t ev.TB, sig string, c *Case, format string, args ...any) bool {
	detail := fmt.Sprintf(format, args...)
	if !ev.IsKnown(sig) {
		shrinkMu.Lock()
		if firstViolation.IsZero() {
			firstViolation = time.Now()
		}
		memo[ev.Hash(c)] = [2]string{sig, detail}
		shrinkMu.Unlock()
	}
	return ev.Violation(t, sig, c, "%s", detail)
}

func check(t ev.TB, c *Case) {
	if why := validCase(c); why != "" {
		t.Fatalf("harness: invalid case (%s)", why)
	}
	if ev.ReplayFile() == "" {
		shrinkMu.Lock()
		m, seen := memo[ev.Hash(c)]
		exhausted := !firstViolation.IsZero() && time.Since(firstViolation) > shrinkBudget
		shrinkMu.Unlock()
		if seen {
			ev.Violation(t, m[0], c, "%s", m[1])
			return
		}
		if exhausted {
			ev.Label("not-executed:shrink-budget-exhausted")
			return
		}
	}
	o := run(c)
	if o.harness != "" {
		ev.Inconclusive(o.harness)
		t.Fatalf("harness: %s", o.harness)
	}
	if s := notReturned(o); s >= 0 {
		// "Did not return by timeout + guard" is only believed when it happens again on an
		// immediate second execution of the same history (a call that is never woken up does so
		// every time; a machine that was stalled does not).
		o2 := run(c)
		if o2.harness != "" {
			ev.Inconclusive(o2.harness)
			t.Fatalf("harness: %s", o2.harness)
		}
		if notReturned(o2) != s {
			ev.Label("late-return-not-reproduced")
		}
		o = o2
	}

	// evidence
	labelSet := map[string]bool{"service:" + c.Service: true, "nodes:" + strconv.Itoa(len(c.Nodes)): true, "steps:" + strconv.Itoa(len(c.Steps)): true}
	nontrivial := len(c.Steps) >= 2
	if c.PC < len(c.Nodes) {
		labelSet["pc<nodes"] = true
	} else if c.PC == len(c.Nodes) {
		labelSet["pc=nodes"] = true
	}
	kindsSeen := map[string]int{}
	pendingBefore := false // a late/hanging node of an earlier step is still pending
	for s := range c.Steps {
		st := &c.Steps[s]
		so := &o.steps[s]
		kindsSeen[st.Kind]++
		labelSet["kind:"+st.Kind] = true
		if st.Cancel != "" {
			labelSet["cancel:"+st.Cancel] = true
		}
		if st.Deadline != "" {
			labelSet["deadline:"+st.Deadline] = true
		}
		if !st.plain() && c.Service == "immediate" {
			labelSet["immediate-with-ending-context"] = true
		}
		if pendingBefore {
			labelSet["step-with-node-still-pending-from-earlier-step"] = true
		}
		behaviours := map[string]bool{}
		for i := range st.Nodes {
			cl, _ := classOf(st.Kind, &c.Nodes[i], &st.Nodes[i])
			behaviours[cl+"/"+st.Nodes[i].Delay] = true
			labelSet["class:"+cl] = true
			labelSet["delay:"+st.Nodes[i].Delay] = true
			if cl == "tolerated" {
				nontrivial = true
				for e := 0; e < s; e++ {
					if c.Steps[e].Nodes[i].VersionFail {
						labelSet["tolerated-after-version-failure-in-earlier-step"] = true
					}
				}
			}
			if st.Nodes[i].VersionFail {
				labelSet["version-fail"] = true
			}
			if vd := st.Nodes[i].VersionDelay; vd != "" && c.Service == "multinode" {
				labelSet["version-delay:"+vd] = true
			}
			if d := st.Nodes[i].Delay; d == "late" || d == "hang" {
				pendingBefore = true
			}
		}
		if len(behaviours) >= 2 {
			nontrivial = true
		}
		if st.Kind == "attestations" && st.Items > c.PC && c.PC > 1 {
			labelSet["chunked"] = true
			nontrivial = true
		}
		if !so.ran {
			continue
		}
		if so.returned {
			if so.err == nil {
				labelSet["result:success"] = true
				if so.r < timeout-50*time.Millisecond {
					labelSet["returned-early"] = true
				}
			} else {
				labelSet["result:failure"] = true
			}
		}
		okPlanned, okEarly, okBand := false, false, false
		for i := range so.nodes {
			no := &so.nodes[i]
			if no.ok == "yes" && (st.Nodes[i].Delay == "none" || st.Nodes[i].Delay == "slow") && st.Nodes[i].VersionDelay == "" && c.PC >= len(c.Nodes) && !st.ctxEndsEarly() {
				okPlanned = true
			}
			if no.ok == "yes" && no.done && no.full {
				if no.finished <= earlyBy {
					okEarly = true
				} else if no.finished < so.r {
					okBand = true
				}
			}
		}
		if okPlanned && !okEarly {
			labelSet["perturbed"] = true
		}
		if okBand && !okEarly {
			labelSet["band-not-judged"] = true
		}
	}
	for _, n := range kindsSeen {
		if n >= 2 {
			labelSet["same-kind-repeated"] = true
		}
	}
	if len(kindsSeen) >= 2 {
		labelSet["mixed-kinds"] = true
	}
	var labels []string
	for l := range labelSet {
		labels = append(labels, l)
	}
	sort.Strings(labels)
	ev.Case(nontrivial, ev.Hash(c), labels...)
	if nontrivial {
		ev.Sample(c)
	}
	judge(t, c, o)
}

func TestSubmission(t *testing.T) {
	rapid.Check(t, func(t *rapid.T) {
		c := genCase(t)
		check(t, &c)
	})
}

// TestReplay re-executes a saved case without the property library.
func TestReplay(t *testing.T) {
	f := ev.ReplayFile()
	if f == "" {
		t.Skip("no replay file")
	}
	raw := struct {
		Length *int `json:"length"`
	}{}
	if _, err := ev.LoadCase(f, &raw); err == nil && raw.Length != nil {
		var c ScatterCase
		if _, err := ev.LoadCase(f, &c); err != nil {
			t.Fatalf("cannot load %s: %v", f, err)
		}
		checkScatter(t, &c)
		ev.ReplayPassed()
		return
	}
	var c Case
	if _, err := ev.LoadCase(f, &c); err != nil {
		t.Fatalf("cannot load %s: %v", f, err)
	}
	check(t, &c)
	ev.ReplayPassed()
}
