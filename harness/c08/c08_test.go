// Package c08 decides property C08: a submission is offered in full to every
// configured beacon node, succeeds exactly when (within the timeout) a node
// accepted it or rejected it only for a tolerated reason, and returns no later
// than the timeout; a bad node never disturbs the others when the process
// concurrency is not below the number of nodes.
//
// Subject: the real services/submitter/multinode (all eight kinds),
// services/submitter/immediate and util.Scatter (scatter_test.go).
package c08

import (
	"context"
	"encoding/json"
	"errors"
	"fmt"
	"net/url"
	"runtime/debug"
	"sort"
	"strconv"
	"strings"
	"sync"
	"testing"
	"time"

	eth2client "github.com/attestantio/go-eth2-client"
	"github.com/attestantio/go-eth2-client/api"
	apiv1 "github.com/attestantio/go-eth2-client/api/v1"
	apiv1deneb "github.com/attestantio/go-eth2-client/api/v1/deneb"
	"github.com/attestantio/go-eth2-client/spec"
	"github.com/attestantio/go-eth2-client/spec/altair"
	"github.com/attestantio/go-eth2-client/spec/bellatrix"
	"github.com/attestantio/go-eth2-client/spec/capella"
	"github.com/attestantio/go-eth2-client/spec/deneb"
	"github.com/attestantio/go-eth2-client/spec/phase0"
	"github.com/attestantio/vouch/services/submitter/immediate"
	"github.com/attestantio/vouch/services/submitter/multinode"
	"github.com/prysmaticlabs/go-bitfield"
	"github.com/rs/zerolog"
	"pgregory.net/rapid"

	"verifharness/internal/ev"
)

// Timing.  All classes are far from the decision boundary (the submitter
// timeout): a node answers at once, after 10-100 ms ("slow"), or not before
// timeout+2.5 s ("late") / never ("hang"); late and hanging nodes are released
// as soon as the submitter has returned and delivery has been observed, so they
// cost nothing on correct code.  Judgement uses measured instants only.
const (
	timeout       = 400 * time.Millisecond
	earlyBy       = 150 * time.Millisecond  // success is demanded only if an acceptable node had finished by then (guard band 250 ms)
	returnGuard   = 1000 * time.Millisecond // the call must have returned by timeout + returnGuard
	lateAfter     = timeout + 2500*time.Millisecond
	hangCeiling   = 12 * time.Second
	deliverCeil   = 2 * time.Second // with pc >= n every node must have been offered everything by then, hangers still hanging
	quiesceCeil   = 6 * time.Second
	immediateSlow = 3 * time.Second
)

var kinds = []string{"attestations", "proposal", "aggregates", "syncmessages", "contributions", "beaconsubs", "syncsubs", "preparations"}

var clients = []string{"lighthouse", "teku", "nimbus", "prysm", "lodestar", "unknown"}

// versions: what /eth/v1/node/version of the respective client looks like.
var versions = map[string][]string{
	"lighthouse": {"Lighthouse/v5.1.3-3058b96/x86_64-linux", "lighthouse/v4.6.0-1be5253/aarch64-linux"},
	"teku":       {"teku/v24.3.0/linux-x86_64/-eclipseadoptium-openjdk64bitservervm-java-17", "Teku/v23.12.1/linux-aarch_64/-na-openjdk64bitservervm-java-21"},
	"nimbus":     {"Nimbus/v24.2.2-fc9bc1-stateofus", "Nimbus/v23.11.0-a35c16-stateofus"},
	"prysm":      {"Prysm/v5.0.1 (linux amd64)", "Prysm/v4.2.1 (linux arm64)"},
	"lodestar":   {"Lodestar/v1.17.0/0d9d4ed", "Lodestar/v1.15.1/fa3dcd6"},
	"unknown":    {"Grandine/0.4.0-1a2b3c4/x86_64-linux", "caplin/v2.59.0"},
}

// tmpl is one row of the table of rejections Vouch deliberately tolerates:
// the per-item failure message a client of that kind gives for a submission
// kind when the item is already known or the node is behind the head.  It is
// *data* (the property statement plus the client strings); the oracle's label
// "tolerated" is: the message was drawn from the row of this very (kind,
// client).  The classifier under test is never consulted.
type tmpl struct{ Kind, Client, Reason, Text string }

var toleratedTable = []tmpl{
	{"attestations", "lighthouse", "already-known", "PriorAttestationKnown { validator_index: 7, epoch: Epoch(3) }"},
	{"attestations", "lighthouse", "behind-head", "UnknownHeadBlock { beacon_block_root: 0x5c1b7a3e0f2d4c6b8a9e1d3f5b7c9e0a2c4e6f8091a3b5c7d9e1f3a5b7c9d1e3 }"},
	{"attestations", "nimbus", "behind-head", "Attempt to send attestation for unknown target"},
	{"syncmessages", "lighthouse", "already-known", "Verification: PriorSyncCommitteeMessageKnown { validator_index: 7, slot: Slot(9) }"},
	{"syncmessages", "teku", "already-known", "Ignoring sync committee message as a duplicate was processed during validation"},
	{"contributions", "lighthouse", "already-known", "Verification: AggregatorAlreadyKnown(7)"},
}

// realFailures are per-item failure messages that are not tolerated anywhere.
var realFailures = []string{
	"InvalidSignature",
	"Verification: InvalidSignature",
	"UnknownTargetRoot(0x2222222222222222222222222222222222222222222222222222222222222222)",
	"PastSlot { attestation_slot: Slot(1), earliest_permissible_slot: Slot(5) }",
	"Invalid signature",
	"Validator is not in the sync committee",
}

type body struct {
	Status int
	Data   string
}

// noFailureBodies: well-formed JSON error bodies that name no per-item failure
// at all, so they cannot be "rejected only for a tolerated reason".
var noFailureBodies = []body{
	{500, `{"code":500,"message":"INTERNAL_SERVER_ERROR: unhandled error","stacktraces":[]}`},
	{400, `{"code":400,"message":"BAD_REQUEST: body deserialize error","failures":[]}`},
	{400, `{}`},
	{503, `{"code":503,"message":"Beacon node is currently syncing and not serving request on that endpoint"}`},
	{400, `{"code":400,"message":"Invalid request","failures":null}`},
	{500, `{"code":"500","message":"Internal server error"}`},
	{503, `{"code":"503","message":"Service unavailable","failures":[]}`},
}

// malformedBodies: not (or not entirely) JSON, or JSON of the wrong shape.
var malformedBodies = []body{
	{502, "<html><head><title>502 Bad Gateway</title></head><body>nginx</body></html>"},
	{503, "upstream connect error or disconnect/reset before headers"},
	{400, `{"code":400,"message":"BAD_REQ`},
	{400, `{"code":400,"message":"x","failures":{"index":0,"message":"bad"}}`},
	{400, `{"code":400,"message":"x"} trailing`},
	{400, `[{"index":0}]`},
	{500, ""},
}

const nGeneric = 5

// ItemDisp says what a node does with one item of the payload.
type ItemDisp struct {
	D string `json:"d"`           // ok | tol | real
	T int    `json:"t,omitempty"` // row of toleratedTable (tol) or realFailures (real)
}

// Node is the script of one beacon node double.
type Node struct {
	Client    string     `json:"client"`
	Version   int        `json:"version"`
	NoVersion bool       `json:"no_version,omitempty"` // the double does not implement NodeVersionProvider
	Delay     string     `json:"delay"`                // none | slow | late | hang
	SlowMs    int        `json:"slow_ms,omitempty"`
	Outcome   string     `json:"outcome"` // accept | items | generic | nofailures | malformed
	Variant   int        `json:"variant,omitempty"`
	Items     []ItemDisp `json:"items,omitempty"` // Outcome == items: per item of the payload
}

// Case is one submission.
type Case struct {
	Service string `json:"service"` // multinode | immediate
	Kind    string `json:"kind"`
	PC      int    `json:"pc"`
	Items   int    `json:"items"`
	Nodes   []Node `json:"nodes"`
}

// classOf is the generator-side label of a node: its class and whether the
// statement counts a completed answer of this node as "accepted or rejected
// only for a tolerated reason".
func classOf(kind string, n *Node) (string, bool) {
	switch n.Outcome {
	case "accept":
		return "accept", true
	case "generic":
		return "reject", false
	case "nofailures":
		return "nofailures", false
	case "malformed":
		return "malformed", false
	}
	var tol, foreign, real int
	for _, d := range n.Items {
		switch d.D {
		case "tol":
			row := toleratedTable[d.T]
			if row.Kind == kind && row.Client == n.Client && !n.NoVersion {
				tol++
			} else {
				foreign++
			}
		case "real":
			real++
		}
	}
	switch {
	case tol+foreign+real == 0:
		return "accept", true
	case foreign+real == 0:
		return "tolerated", true
	case tol > 0:
		return "mixed", false
	case foreign > 0:
		return "misplaced", false
	default:
		return "reject", false
	}
}

// ---------------------------------------------------------------- generator

func genNode(t *rapid.T, kind string, items int, immediateSvc bool) Node {
	n := Node{
		Client:  rapid.SampledFrom([]string{"lighthouse", "lighthouse", "lighthouse", "teku", "teku", "nimbus", "nimbus", "prysm", "lodestar", "unknown"}).Draw(t, "client"),
		Version: rapid.IntRange(0, 1).Draw(t, "version"),
	}
	// half of the time prefer a client that has a tolerated reason for this kind
	var withRow []string
	for _, row := range toleratedTable {
		if row.Kind == kind {
			withRow = append(withRow, row.Client)
		}
	}
	if len(withRow) > 0 && rapid.Bool().Draw(t, "clientWithToleration") {
		n.Client = rapid.SampledFrom(withRow).Draw(t, "tolClient")
	}
	n.NoVersion = rapid.IntRange(0, 14).Draw(t, "noVersion") == 0
	if immediateSvc {
		n.Delay = rapid.SampledFrom([]string{"none", "none", "slow"}).Draw(t, "delay")
	} else {
		n.Delay = rapid.SampledFrom([]string{"none", "none", "none", "none", "none", "slow", "slow", "slow", "late", "hang", "hang"}).Draw(t, "delay")
	}
	if n.Delay == "slow" {
		n.SlowMs = rapid.IntRange(10, 100).Draw(t, "slowMs")
	}
	n.Outcome = rapid.SampledFrom([]string{"accept", "accept", "accept", "items", "items", "items", "items", "items", "items", "generic", "generic", "nofailures", "nofailures", "malformed", "malformed"}).Draw(t, "outcome")
	switch n.Outcome {
	case "generic":
		n.Variant = rapid.IntRange(0, nGeneric-1).Draw(t, "variant")
	case "nofailures":
		n.Variant = rapid.IntRange(0, len(noFailureBodies)-1).Draw(t, "variant")
	case "malformed":
		n.Variant = rapid.IntRange(0, len(malformedBodies)-1).Draw(t, "variant")
	case "items":
		var valid, foreign []int
		for i, row := range toleratedTable {
			if row.Kind == kind && row.Client == n.Client {
				valid = append(valid, i)
			} else {
				foreign = append(foreign, i)
			}
		}
		mode := rapid.SampledFrom([]string{"tolerated", "tolerated", "tolerated", "misplaced", "mixed", "mixed", "mixed", "real"}).Draw(t, "itemsMode")
		if mode == "tolerated" && len(valid) == 0 {
			// a node of this client has no tolerated reason for this kind: the text of another client / kind
			mode = "misplaced"
		}
		tolPool := valid
		if mode == "misplaced" || len(valid) == 0 {
			tolPool = foreign
		}
		n.Items = make([]ItemDisp, items)
		forced := rapid.IntRange(0, items-1).Draw(t, "forcedFailure")
		forced2 := -1
		if mode == "mixed" && items > 1 {
			forced2 = rapid.IntRange(0, items-2).Draw(t, "forcedReal")
			if forced2 >= forced {
				forced2++
			}
		}
		for i := range n.Items {
			var what string
			switch {
			case i == forced && mode == "real":
				what = "real"
			case i == forced:
				what = "tol"
			case i == forced2:
				what = "real"
			default:
				switch mode {
				case "tolerated", "misplaced":
					what = rapid.SampledFrom([]string{"ok", "ok", "tol"}).Draw(t, "disp")
				case "real":
					what = rapid.SampledFrom([]string{"ok", "ok", "real"}).Draw(t, "disp")
				default:
					what = rapid.SampledFrom([]string{"ok", "ok", "ok", "tol", "real"}).Draw(t, "disp")
				}
			}
			switch what {
			case "ok":
				n.Items[i] = ItemDisp{D: "ok"}
			case "tol":
				n.Items[i] = ItemDisp{D: "tol", T: rapid.SampledFrom(tolPool).Draw(t, "tmpl")}
			case "real":
				n.Items[i] = ItemDisp{D: "real", T: rapid.SampledFrom([]int{0, 1, 1, 1, 2, 3, 4, 5}).Draw(t, "realMsg")}
			}
		}
	}
	return n
}

func genCase(t *rapid.T) Case {
	c := Case{
		Service: rapid.SampledFrom([]string{"multinode", "multinode", "multinode", "multinode", "multinode", "multinode", "multinode", "multinode", "multinode", "multinode", "multinode", "immediate"}).Draw(t, "service"),
		Kind: rapid.SampledFrom([]string{"attestations", "attestations", "attestations", "attestations", "syncmessages", "syncmessages", "syncmessages",
			"contributions", "contributions", "contributions", "proposal", "aggregates", "beaconsubs", "syncsubs", "preparations"}).Draw(t, "kind"),
	}
	nNodes := rapid.IntRange(1, 5).Draw(t, "nodes")
	if c.Service == "immediate" {
		nNodes = 1
	}
	c.PC = rapid.IntRange(1, nNodes+3).Draw(t, "pc")
	c.Items = rapid.IntRange(1, 3*c.PC+2).Draw(t, "items")
	if c.Kind == "proposal" {
		c.Items = 1
	}
	for i := 0; i < nNodes; i++ {
		c.Nodes = append(c.Nodes, genNode(t, c.Kind, c.Items, c.Service == "immediate"))
	}
	return c
}

// ------------------------------------------------------------------ doubles

type callRec struct {
	method string
	ids    []int
	enter  time.Duration
	leave  time.Duration // 0 while in flight
}

type world struct {
	c       *Case
	p       *payload
	start   time.Time
	release chan struct{}
	mu      sync.Mutex
	wrong   []string // calls that must not have happened (decoy, wrong method, foreign object)
}

func (w *world) flag(format string, args ...any) {
	w.mu.Lock()
	w.wrong = append(w.wrong, fmt.Sprintf(format, args...))
	w.mu.Unlock()
}

// node is a beacon node double.  It implements every submitter interface, and
// eth2client.Service; nodeV adds NodeVersionProvider.
type node struct {
	w     *world
	name  string
	spec  *Node // nil: decoy (configured for the other submission kinds; must never be called)
	mu    sync.Mutex
	calls []*callRec
}

type nodeV struct{ *node }

func (n nodeV) NodeVersion(_ context.Context, opts *api.NodeVersionOpts) (*api.Response[string], error) {
	if opts == nil {
		return nil, errors.Join(errors.New("no options specified"), eth2client.ErrInvalidOptions)
	}
	v := "decoy/v0"
	if n.spec != nil {
		v = versions[n.spec.Client][n.spec.Version]
	}
	return &api.Response[string]{Data: v, Metadata: map[string]any{}}, nil
}

func (n *node) Name() string    { return n.name }
func (n *node) Address() string { return n.name + ":5052" }
func (n *node) IsActive() bool  { return true }
func (n *node) IsSynced() bool  { return true }

var endpoints = map[string][2]string{
	"attestations":  {"failed to submit beacon attestations", "/eth/v1/beacon/pool/attestations"},
	"proposal":      {"failed to submit proposal", "/eth/v2/beacon/blocks"},
	"aggregates":    {"failed to submit aggregate and proofs", "/eth/v1/validator/aggregate_and_proofs"},
	"syncmessages":  {"failed to submit sync committee messages", "/eth/v1/beacon/pool/sync_committees"},
	"contributions": {"failed to submit contribution and proofs", "/eth/v1/validator/contribution_and_proofs"},
	"beaconsubs":    {"failed to request beacon committee subscriptions", "/eth/v1/validator/beacon_committee_subscriptions"},
	"syncsubs":      {"failed to request sync committee subscriptions", "/eth/v1/validator/sync_committee_subscriptions"},
	"preparations":  {"failed to submit proposal preparations", "/eth/v1/validator/prepare_beacon_proposer"},
}

// apiErr is what go-eth2-client's http layer returns for a non-2xx answer:
// errors.Join(<call specific text>, &api.Error{...}).
func apiErr(kind string, status int, data string) error {
	ep := endpoints[kind]
	var d []byte
	if data != "" {
		d = []byte(data)
	}
	return errors.Join(errors.New(ep[0]), &api.Error{Method: "POST", Endpoint: ep[1], StatusCode: status, Data: d})
}

func genericErr(kind string, v int) error {
	ep := endpoints[kind]
	switch v {
	case 0:
		return errors.Join(errors.New(ep[0]), errors.Join(errors.New("failed to call POST endpoint"),
			&url.Error{Op: "Post", URL: "http://node:5052" + ep[1], Err: errors.New("dial tcp 10.0.0.1:5052: connect: connection refused")}))
	case 1:
		return eth2client.ErrNotSynced
	case 2:
		return eth2client.ErrNotActive
	case 3:
		return apiErr(kind, 500, "")
	default:
		return errors.Join(errors.New(ep[0]), errors.Join(errors.New("failed to call POST endpoint"),
			&url.Error{Op: "Post", URL: "http://node:5052" + ep[1], Err: context.DeadlineExceeded}))
	}
}

// failureBody renders the indexed-failures error body in the dialect of the client.
func failureBody(client string, idx []int, msgs []string) string {
	type f struct {
		Index   any    `json:"index"`
		Message string `json:"message"`
	}
	type b struct {
		Code     any    `json:"code"`
		Message  string `json:"message"`
		Failures []f    `json:"failures"`
	}
	out := b{Code: 400, Message: "BAD_REQUEST: some items could not be processed"}
	if client == "teku" {
		out.Code = "400"
		out.Message = "Some items failed to publish, refer to errors for details"
	}
	for i := range idx {
		var index any = idx[i]
		if client == "teku" {
			index = strconv.Itoa(idx[i])
		}
		out.Failures = append(out.Failures, f{Index: index, Message: msgs[i]})
	}
	js, err := json.Marshal(out)
	if err != nil {
		panic(err)
	}
	return string(js)
}

// serve is the body of every submit method.
func (n *node) serve(method string, ids []int) error {
	w := n.w
	if n.spec == nil {
		w.flag("%s: %s called on a node that is not configured for %s", n.name, method, w.c.Kind)
		return errors.New("decoy")
	}
	if method != w.c.Kind {
		w.flag("%s: %s called during a %s submission", n.name, method, w.c.Kind)
		return errors.New("wrong method")
	}
	rec := &callRec{method: method, ids: ids, enter: time.Since(w.start)}
	n.mu.Lock()
	n.calls = append(n.calls, rec)
	n.mu.Unlock()

	switch n.spec.Delay {
	case "slow":
		d := time.Duration(n.spec.SlowMs) * time.Millisecond
		if w.c.Service == "immediate" {
			time.Sleep(d)
		} else {
			select {
			case <-time.After(d):
			case <-w.release:
			}
		}
	case "late":
		select {
		case <-time.After(time.Until(w.start.Add(lateAfter))):
		case <-w.release:
		}
	case "hang":
		select {
		case <-time.After(hangCeiling):
		case <-w.release:
		}
	}

	var err error
	switch n.spec.Outcome {
	case "accept":
	case "generic":
		err = genericErr(w.c.Kind, n.spec.Variant)
	case "nofailures":
		b := noFailureBodies[n.spec.Variant]
		err = apiErr(w.c.Kind, b.Status, b.Data)
	case "malformed":
		b := malformedBodies[n.spec.Variant]
		err = apiErr(w.c.Kind, b.Status, b.Data)
	case "items":
		var idx []int
		var msgs []string
		for pos, id := range ids {
			if id < 0 || id >= len(n.spec.Items) {
				continue
			}
			switch d := n.spec.Items[id]; d.D {
			case "tol":
				idx = append(idx, pos)
				msgs = append(msgs, toleratedTable[d.T].Text)
			case "real":
				idx = append(idx, pos)
				msgs = append(msgs, realFailures[d.T])
			}
		}
		if len(idx) > 0 {
			err = apiErr(w.c.Kind, 400, failureBody(n.spec.Client, idx, msgs))
		}
	}
	n.mu.Lock()
	rec.leave = time.Since(w.start)
	if rec.leave == 0 {
		rec.leave = 1
	}
	n.mu.Unlock()
	return err
}

// snapshot returns (ids offered so far, calls in flight, instant the last call returned).
func (n *node) snapshot() (ids []int, inflight int, lastLeave time.Duration, ncalls int) {
	n.mu.Lock()
	defer n.mu.Unlock()
	for _, r := range n.calls {
		ids = append(ids, r.ids...)
		if r.leave == 0 {
			inflight++
		} else if r.leave > lastLeave {
			lastLeave = r.leave
		}
	}
	return ids, inflight, lastLeave, len(n.calls)
}

// payload holds the submitted objects; item i carries the number i in one of
// its fields and is also identified by pointer.
type payload struct {
	atts     []*phase0.Attestation
	proposal *api.VersionedSignedProposal
	aggs     []*phase0.SignedAggregateAndProof
	msgs     []*altair.SyncCommitteeMessage
	contribs []*altair.SignedContributionAndProof
	bsubs    []*apiv1.BeaconCommitteeSubscription
	ssubs    []*apiv1.SyncCommitteeSubscription
	preps    []*apiv1.ProposalPreparation
	digest   string
}

func att(i int) *phase0.Attestation {
	bits := bitfield.NewBitlist(8)
	bits.SetBitAt(uint64(i%8), true)
	return &phase0.Attestation{
		AggregationBits: bits,
		Data: &phase0.AttestationData{Slot: 12345, Index: phase0.CommitteeIndex(i),
			Source: &phase0.Checkpoint{Epoch: 384}, Target: &phase0.Checkpoint{Epoch: 385}},
	}
}

func newPayload(c *Case) *payload {
	p := &payload{}
	for i := 0; i < c.Items; i++ {
		switch c.Kind {
		case "attestations":
			p.atts = append(p.atts, att(i))
		case "proposal":
			// phase0/altair proposals are refused by this go-eth2-client version itself
			// (VersionedSignedProposal.Slot: unsupported version), so only the forks a
			// live chain can deliver today are generated.
			switch c.PC % 4 {
			case 0:
				p.proposal = &api.VersionedSignedProposal{Version: spec.DataVersionBellatrix,
					Bellatrix: &bellatrix.SignedBeaconBlock{Message: &bellatrix.BeaconBlock{Slot: 12345, ProposerIndex: 77}}}
			case 1:
				p.proposal = &api.VersionedSignedProposal{Version: spec.DataVersionDeneb,
					Deneb: &apiv1deneb.SignedBlockContents{SignedBlock: &deneb.SignedBeaconBlock{Message: &deneb.BeaconBlock{Slot: 12345, ProposerIndex: 77}}}}
			case 2:
				p.proposal = &api.VersionedSignedProposal{Version: spec.DataVersionCapella,
					Capella: &capella.SignedBeaconBlock{Message: &capella.BeaconBlock{Slot: 12345, ProposerIndex: 77}}}
			default:
				p.proposal = &api.VersionedSignedProposal{Version: spec.DataVersionDeneb, Blinded: true,
					DenebBlinded: &apiv1deneb.SignedBlindedBeaconBlock{Message: &apiv1deneb.BlindedBeaconBlock{Slot: 12345, ProposerIndex: 77}}}
			}
		case "aggregates":
			p.aggs = append(p.aggs, &phase0.SignedAggregateAndProof{Message: &phase0.AggregateAndProof{AggregatorIndex: phase0.ValidatorIndex(i), Aggregate: att(i)}})
		case "syncmessages":
			p.msgs = append(p.msgs, &altair.SyncCommitteeMessage{Slot: 12345, ValidatorIndex: phase0.ValidatorIndex(i)})
		case "contributions":
			p.contribs = append(p.contribs, &altair.SignedContributionAndProof{Message: &altair.ContributionAndProof{AggregatorIndex: phase0.ValidatorIndex(i),
				Contribution: &altair.SyncCommitteeContribution{Slot: 12345, SubcommitteeIndex: uint64(i % 4), AggregationBits: bitfield.NewBitvector128()}}})
		case "beaconsubs":
			p.bsubs = append(p.bsubs, &apiv1.BeaconCommitteeSubscription{ValidatorIndex: phase0.ValidatorIndex(i), Slot: 12345, CommitteeIndex: 3, CommitteesAtSlot: 64, IsAggregator: i%2 == 0})
		case "syncsubs":
			p.ssubs = append(p.ssubs, &apiv1.SyncCommitteeSubscription{ValidatorIndex: phase0.ValidatorIndex(i), SyncCommitteeIndices: []phase0.CommitteeIndex{1, 2}, UntilEpoch: 512})
		case "preparations":
			p.preps = append(p.preps, &apiv1.ProposalPreparation{ValidatorIndex: phase0.ValidatorIndex(i)})
		}
	}
	return p
}

// dump renders the payload so that a mutation of a submitted object is noticed.
func (p *payload) dump() string {
	return fmt.Sprintf("%v|%v|%v|%v|%v|%v|%v|%v", p.atts, p.proposal, p.aggs, p.msgs, p.contribs, p.bsubs, p.ssubs, p.preps)
}

// idsOf maps offered objects back to item numbers; an object that was not
// submitted is reported as -1.
func idsOf[T comparable](offered []T, submitted []T) []int {
	ids := make([]int, len(offered))
	for i, o := range offered {
		ids[i] = -1
		for j, s := range submitted {
			if o == s {
				ids[i] = j
				break
			}
		}
	}
	return ids
}

func (n *node) SubmitAttestations(_ context.Context, in []*phase0.Attestation) error {
	return n.serve("attestations", idsOf(in, n.w.pl().atts))
}

func (n *node) SubmitProposal(_ context.Context, opts *api.SubmitProposalOpts) error {
	ids := []int{-1}
	if opts != nil && opts.Proposal == n.w.pl().proposal && opts.Proposal != nil {
		ids[0] = 0
	}
	return n.serve("proposal", ids)
}

func (n *node) SubmitAggregateAttestations(_ context.Context, in []*phase0.SignedAggregateAndProof) error {
	return n.serve("aggregates", idsOf(in, n.w.pl().aggs))
}

func (n *node) SubmitSyncCommitteeMessages(_ context.Context, in []*altair.SyncCommitteeMessage) error {
	return n.serve("syncmessages", idsOf(in, n.w.pl().msgs))
}

func (n *node) SubmitSyncCommitteeContributions(_ context.Context, in []*altair.SignedContributionAndProof) error {
	return n.serve("contributions", idsOf(in, n.w.pl().contribs))
}

func (n *node) SubmitBeaconCommitteeSubscriptions(_ context.Context, in []*apiv1.BeaconCommitteeSubscription) error {
	return n.serve("beaconsubs", idsOf(in, n.w.pl().bsubs))
}

func (n *node) SubmitSyncCommitteeSubscriptions(_ context.Context, in []*apiv1.SyncCommitteeSubscription) error {
	return n.serve("syncsubs", idsOf(in, n.w.pl().ssubs))
}

func (n *node) SubmitProposalPreparations(_ context.Context, in []*apiv1.ProposalPreparation) error {
	return n.serve("preparations", idsOf(in, n.w.pl().preps))
}

func (w *world) pl() *payload { return w.p }

type allSubmitters interface {
	eth2client.Service
	eth2client.AttestationsSubmitter
	eth2client.ProposalSubmitter
	eth2client.AggregateAttestationsSubmitter
	eth2client.SyncCommitteeMessagesSubmitter
	eth2client.SyncCommitteeContributionsSubmitter
	eth2client.BeaconCommitteeSubscriptionsSubmitter
	eth2client.SyncCommitteeSubscriptionsSubmitter
	eth2client.ProposalPreparationsSubmitter
}

func (n *node) iface() allSubmitters {
	if n.spec != nil && n.spec.NoVersion {
		return n
	}
	return nodeV{n}
}

func mapOf[T any](kind, want string, nodes []*node, decoy *node) map[string]T {
	m := map[string]T{}
	if kind == want {
		for _, n := range nodes {
			m[n.name] = n.iface().(T)
		}
	} else {
		m[decoy.name] = decoy.iface().(T)
	}
	return m
}

type submitter interface {
	SubmitAttestations(ctx context.Context, attestations []*phase0.Attestation) error
	SubmitProposal(ctx context.Context, proposal *api.VersionedSignedProposal) error
	SubmitAggregateAttestations(ctx context.Context, aggregates []*phase0.SignedAggregateAndProof) error
	SubmitSyncCommitteeMessages(ctx context.Context, messages []*altair.SyncCommitteeMessage) error
	SubmitSyncCommitteeContributions(ctx context.Context, contributionAndProofs []*altair.SignedContributionAndProof) error
	SubmitBeaconCommitteeSubscriptions(ctx context.Context, subscriptions []*apiv1.BeaconCommitteeSubscription) error
	SubmitSyncCommitteeSubscriptions(ctx context.Context, subscriptions []*apiv1.SyncCommitteeSubscription) error
	SubmitProposalPreparations(ctx context.Context, preparations []*apiv1.ProposalPreparation) error
}

func submit(ctx context.Context, s submitter, kind string, p *payload) error {
	switch kind {
	case "attestations":
		return s.SubmitAttestations(ctx, p.atts)
	case "proposal":
		return s.SubmitProposal(ctx, p.proposal)
	case "aggregates":
		return s.SubmitAggregateAttestations(ctx, p.aggs)
	case "syncmessages":
		return s.SubmitSyncCommitteeMessages(ctx, p.msgs)
	case "contributions":
		return s.SubmitSyncCommitteeContributions(ctx, p.contribs)
	case "beaconsubs":
		return s.SubmitBeaconCommitteeSubscriptions(ctx, p.bsubs)
	case "syncsubs":
		return s.SubmitSyncCommitteeSubscriptions(ctx, p.ssubs)
	case "preparations":
		return s.SubmitProposalPreparations(ctx, p.preps)
	}
	panic("unknown kind " + kind)
}

// ---------------------------------------------------------------- run+judge

type nodeObs struct {
	class     string
	ok        bool
	ids       []int
	full      bool          // offered exactly the submitted items
	fullEarly bool          // ... already before late/hanging nodes were released
	finished  time.Duration // instant the last call returned (valid if done)
	done      bool
	ncalls    int
}

type obs struct {
	harness    string
	returned   bool
	r          time.Duration
	err        error
	panicked   string
	nodes      []nodeObs
	wrong      []string
	mutated    bool
	releasedAt time.Duration
}

func exact(ids []int, items int) bool {
	if len(ids) != items {
		return false
	}
	s := append([]int(nil), ids...)
	sort.Ints(s)
	for i, v := range s {
		if v != i {
			return false
		}
	}
	return true
}

func validCase(c *Case) string {
	if c.Service != "multinode" && c.Service != "immediate" {
		return "service"
	}
	if _, ok := endpoints[c.Kind]; !ok {
		return "kind"
	}
	if c.PC < 1 || c.Items < 1 || len(c.Nodes) < 1 || (c.Service == "immediate" && len(c.Nodes) != 1) || (c.Kind == "proposal" && c.Items != 1) {
		return "sizes"
	}
	for i := range c.Nodes {
		n := &c.Nodes[i]
		if _, ok := versions[n.Client]; !ok || n.Version < 0 || n.Version > 1 {
			return "client"
		}
		switch n.Outcome {
		case "accept":
		case "generic":
			if n.Variant < 0 || n.Variant >= nGeneric {
				return "variant"
			}
		case "nofailures":
			if n.Variant < 0 || n.Variant >= len(noFailureBodies) {
				return "variant"
			}
		case "malformed":
			if n.Variant < 0 || n.Variant >= len(malformedBodies) {
				return "variant"
			}
		case "items":
			if len(n.Items) != c.Items {
				return "items"
			}
			for _, d := range n.Items {
				if d.D == "tol" && (d.T < 0 || d.T >= len(toleratedTable)) || d.D == "real" && (d.T < 0 || d.T >= len(realFailures)) {
					return "disp"
				}
			}
		default:
			return "outcome"
		}
		switch n.Delay {
		case "none", "slow":
		case "late", "hang":
			if c.Service == "immediate" {
				return "delay"
			}
		default:
			return "delay"
		}
	}
	return ""
}

func run(c *Case) *obs {
	o := &obs{}
	zerolog.SetGlobalLevel(zerolog.Disabled)
	ctx, cancel := context.WithCancel(context.Background())
	defer cancel()

	p := newPayload(c)
	w := &world{c: c, p: p, release: make(chan struct{})}
	before := p.dump()
	var nodes []*node
	for i := range c.Nodes {
		nodes = append(nodes, &node{w: w, name: fmt.Sprintf("node-%d", i), spec: &c.Nodes[i]})
	}
	decoy := &node{w: w, name: "decoy"}

	var svc submitter
	if c.Service == "immediate" {
		// the immediate submitter has one node for everything
		n := nodes[0].iface()
		s, err := immediate.New(ctx,
			immediate.WithLogLevel(zerolog.Disabled),
			immediate.WithAttestationsSubmitter(n), immediate.WithProposalSubmitter(n), immediate.WithAggregateAttestationsSubmitter(n),
			immediate.WithSyncCommitteeMessagesSubmitter(n), immediate.WithSyncCommitteeContributionsSubmitter(n),
			immediate.WithBeaconCommitteeSubscriptionsSubmitter(n), immediate.WithSyncCommitteeSubscriptionsSubmitter(n),
			immediate.WithProposalPreparationsSubmitter(n))
		if err != nil {
			o.harness = "cannot construct immediate submitter: " + err.Error()
			return o
		}
		svc = s
	} else {
		k := c.Kind
		s, err := multinode.New(ctx,
			multinode.WithLogLevel(zerolog.Disabled),
			multinode.WithTimeout(timeout),
			multinode.WithProcessConcurrency(int64(c.PC)),
			multinode.WithAttestationsSubmitters(mapOf[eth2client.AttestationsSubmitter](k, "attestations", nodes, decoy)),
			multinode.WithProposalSubmitters(mapOf[eth2client.ProposalSubmitter](k, "proposal", nodes, decoy)),
			multinode.WithAggregateAttestationsSubmitters(mapOf[eth2client.AggregateAttestationsSubmitter](k, "aggregates", nodes, decoy)),
			multinode.WithSyncCommitteeMessagesSubmitters(mapOf[eth2client.SyncCommitteeMessagesSubmitter](k, "syncmessages", nodes, decoy)),
			multinode.WithSyncCommitteeContributionsSubmitters(mapOf[eth2client.SyncCommitteeContributionsSubmitter](k, "contributions", nodes, decoy)),
			multinode.WithBeaconCommitteeSubscriptionsSubmitters(mapOf[eth2client.BeaconCommitteeSubscriptionsSubmitter](k, "beaconsubs", nodes, decoy)),
			multinode.WithSyncCommitteeSubscriptionsSubmitters(mapOf[eth2client.SyncCommitteeSubscriptionsSubmitter](k, "syncsubs", nodes, decoy)),
			multinode.WithProposalPreparationsSubmitters(mapOf[eth2client.ProposalPreparationsSubmitter](k, "preparations", nodes, decoy)),
		)
		if err != nil {
			o.harness = "cannot construct multinode submitter: " + err.Error()
			return o
		}
		svc = s
	}

	type result struct {
		err      error
		r        time.Duration
		panicked string
	}
	done := make(chan result, 1)
	w.start = time.Now()
	go func() {
		var res result
		defer func() {
			if x := recover(); x != nil {
				res.panicked = fmt.Sprintf("%v\n%s", x, debug.Stack())
				res.r = time.Since(w.start)
			}
			done <- res
		}()
		res.err = submit(ctx, svc, c.Kind, p)
		res.r = time.Since(w.start)
	}()

	limit := timeout + returnGuard
	if c.Service == "immediate" {
		limit = immediateSlow + returnGuard
	}
	var res result
	select {
	case res = <-done:
		o.returned = true
	case <-time.After(time.Until(w.start.Add(limit))):
	}

	o.nodes = make([]nodeObs, len(nodes))
	fullAll := func() bool {
		all := true
		for i, n := range nodes {
			ids, _, _, _ := n.snapshot()
			if exact(ids, c.Items) {
				o.nodes[i].fullEarly = true
			} else {
				all = false
			}
		}
		return all
	}
	if o.returned && c.Service == "multinode" && c.PC >= len(nodes) {
		// (d): with enough process concurrency every node is offered everything
		// while the bad nodes are still bad.
		deadline := time.Now().Add(deliverCeil)
		for !fullAll() && time.Now().Before(deadline) {
			time.Sleep(500 * time.Microsecond)
		}
	} else {
		fullAll()
	}
	o.releasedAt = time.Since(w.start)
	close(w.release)
	if !o.returned {
		// it had not returned by the limit (a violation of the time bound whatever happens now);
		// give it the chance to finish so that nothing is left behind
		select {
		case res = <-done:
		case <-time.After(quiesceCeil):
		}
		res.r = time.Since(w.start)
	}
	o.r, o.err, o.panicked = res.r, res.err, res.panicked

	// quiescence: nothing in flight and (every node offered everything, or nothing moves any more)
	deadline := time.Now().Add(quiesceCeil)
	lastMove := time.Now()
	lastCalls := -1
	for time.Now().Before(deadline) {
		inflight, complete, calls := 0, true, 0
		for _, n := range nodes {
			ids, inf, _, nc := n.snapshot()
			inflight += inf
			calls += nc
			if len(ids) < c.Items {
				complete = false
			}
		}
		if inflight == 0 && complete {
			break
		}
		if inflight == 0 && calls == lastCalls {
			// nothing has moved for 1.5 s: vouch is not going to call anybody any more
			if time.Since(lastMove) > 1500*time.Millisecond {
				break
			}
		} else {
			lastMove = time.Now()
		}
		lastCalls = calls
		time.Sleep(time.Millisecond)
	}
	time.Sleep(2 * time.Millisecond) // room for a surplus call to show up
	for i, n := range nodes {
		ids, inf, last, nc := n.snapshot()
		no := &o.nodes[i]
		no.class, no.ok = classOf(c.Kind, n.spec)
		no.ids = ids
		no.full = exact(ids, c.Items)
		no.done = inf == 0 && nc > 0
		no.finished = last
		no.ncalls = nc
		if inf != 0 {
			o.harness = "a node call is still in flight after release"
		}
	}
	w.mu.Lock()
	o.wrong = append(o.wrong, w.wrong...)
	w.mu.Unlock()
	o.mutated = p.dump() != before
	return o
}

func judge(t ev.TB, c *Case, o *obs) {
	k := c.Kind
	svcTag := ""
	if c.Service == "immediate" {
		svcTag = "immediate-"
	}
	if o.panicked != "" {
		ev.Violation(t, "panic:"+svcTag+k, c, "submission panicked: %s", o.panicked)
		return
	}
	if len(o.wrong) > 0 {
		ev.Violation(t, svcTag+"wrong-node-called:"+k, c, "%s", strings.Join(o.wrong, "; "))
	}
	if o.mutated {
		ev.Violation(t, svcTag+"payload-mutated:"+k, c, "the submitted objects were modified by the submitter")
	}

	// (c) time bound
	if c.Service == "multinode" && (!o.returned || o.r > timeout+returnGuard) {
		ev.Violation(t, "late-return:"+k, c, "timeout %v but the call had not returned after %v (released nodes at %v)", timeout, timeout+returnGuard, o.releasedAt)
		return
	}
	if c.Service == "immediate" && !o.returned {
		ev.Violation(t, "immediate-no-return:"+k, c, "node answered within 100 ms but the call had not returned after %v", immediateSlow+returnGuard)
		return
	}

	// (a)+(d) delivery
	enough := c.Service == "immediate" || c.PC >= len(c.Nodes)
	for i := range o.nodes {
		no := &o.nodes[i]
		if enough && !no.fullEarly {
			ev.Violation(t, svcTag+"not-delivered:"+k, c, "process concurrency %d >= %d nodes, but node %d had been offered items %v of 0..%d while the slow/hanging nodes were still pending (%v after the call returned at %v)",
				c.PC, len(c.Nodes), i, no.ids, c.Items-1, deliverCeil, o.r)
			return
		}
		if no.ncalls > 0 && !no.full {
			ev.Violation(t, svcTag+"payload-mismatch:"+k, c, "node %d was offered items %v over %d call(s); submitted were 0..%d exactly once", i, no.ids, no.ncalls, c.Items-1)
			return
		}
	}

	// (b) outcome
	success := o.err == nil
	var okEarly, okBeforeReturn bool
	suspects := map[string]bool{}
	for i := range o.nodes {
		no := &o.nodes[i]
		if !no.done || !no.full {
			continue
		}
		if no.ok {
			if no.finished < o.r {
				okBeforeReturn = true
			}
			if no.finished <= earlyBy {
				okEarly = true
			}
		} else if no.finished < o.r {
			suspects[no.class] = true
		}
	}
	if c.Service == "immediate" {
		no := &o.nodes[0]
		switch {
		case no.class == "accept" && !success:
			ev.Violation(t, "immediate-missed-success:"+k, c, "the node accepted but the submitter returned %v", o.err)
		case no.class == "tolerated":
			// the immediate submitter tolerates nothing; the statement's toleration clause is about
			// what Vouch deliberately tolerates, so either answer is taken
			ev.Label("immediate-tolerated-text-not-judged")
		case !no.ok && success:
			ev.Violation(t, "immediate-false-success:"+k+":"+no.class, c, "the node rejected (%s) but the submitter reported success", no.class)
		}
		return
	}
	if success && !okBeforeReturn {
		order := []string{"mixed", "nofailures", "malformed", "misplaced", "reject"}
		var present []string
		for _, cl := range order {
			if suspects[cl] {
				present = append(present, cl)
			}
		}
		detail := fmt.Sprintf("success reported at %v although no node had, by then, accepted or rejected only for a tolerated reason; nodes finished before that: %v; all nodes: %s", o.r, present, describe(o))
		if len(present) == 0 {
			ev.Violation(t, "false-success:"+k+":nobody-finished", c, "%s", detail)
			return
		}
		// A listed open finding explains the false success of every case that contains its class;
		// such a case cannot tell anything about the other classes present.
		for _, cl := range present {
			if sig := "false-success:" + k + ":" + cl; ev.IsKnown(sig) {
				ev.Violation(t, sig, c, "%s", detail)
				return
			}
		}
		ev.Violation(t, "false-success:"+k+":"+present[0], c, "%s", detail)
		return
	}
	if !success && okEarly {
		cl := ""
		for i := range o.nodes {
			if no := &o.nodes[i]; no.ok && no.done && no.full && no.finished <= earlyBy {
				cl = no.class
				break
			}
		}
		ev.Violation(t, "missed-success:"+k+":"+cl, c, "error %q returned at %v although a node had answered (%s) within %v of a %v timeout; nodes: %s", o.err, o.r, cl, earlyBy, timeout, describe(o))
	}
}

func describe(o *obs) string {
	var b strings.Builder
	for i := range o.nodes {
		no := &o.nodes[i]
		fmt.Fprintf(&b, "[%d %s ok=%v done=%v at=%v calls=%d]", i, no.class, no.ok, no.done, no.finished, no.ncalls)
	}
	return b.String()
}

func check(t ev.TB, c *Case) {
	if why := validCase(c); why != "" {
		t.Fatalf("harness: invalid case (%s)", why)
	}
	o := run(c)
	if o.harness != "" {
		ev.Inconclusive(o.harness)
		t.Fatalf("harness: %s", o.harness)
	}

	// evidence
	classes := map[string]bool{}
	behaviours := map[string]bool{}
	tolerated := false
	labels := []string{"service:" + c.Service, "kind:" + c.Kind, "nodes:" + strconv.Itoa(len(c.Nodes))}
	for i := range c.Nodes {
		cl, _ := classOf(c.Kind, &c.Nodes[i])
		classes[cl] = true
		behaviours[cl+"/"+c.Nodes[i].Delay] = true
		if cl == "tolerated" {
			tolerated = true
		}
	}
	for cl := range classes {
		labels = append(labels, "class:"+cl)
	}
	for i := range c.Nodes {
		labels = append(labels, "delay:"+c.Nodes[i].Delay)
	}
	sort.Strings(labels)
	chunked := c.Kind == "attestations" && c.Items > c.PC && c.PC > 1
	if chunked {
		labels = append(labels, "chunked")
	}
	if c.PC < len(c.Nodes) {
		labels = append(labels, "pc<nodes")
	}
	if o.returned {
		if o.err == nil {
			labels = append(labels, "result:success")
			if o.r < timeout-50*time.Millisecond {
				labels = append(labels, "returned-early")
			}
		} else {
			labels = append(labels, "result:failure")
		}
	}
	okPlanned, okEarly, okBand := false, false, false
	for i := range o.nodes {
		no := &o.nodes[i]
		if no.ok && (c.Nodes[i].Delay == "none" || c.Nodes[i].Delay == "slow") && c.PC >= len(c.Nodes) {
			okPlanned = true
		}
		if no.ok && no.done && no.full {
			if no.finished <= earlyBy {
				okEarly = true
			} else if no.finished < o.r {
				okBand = true
			}
		}
	}
	if okPlanned && !okEarly {
		labels = append(labels, "perturbed")
	}
	if okBand && !okEarly {
		labels = append(labels, "band-not-judged")
	}
	nontrivial := len(behaviours) >= 2 || chunked || tolerated
	ev.Case(nontrivial, ev.Hash(c), labels...)
	if nontrivial {
		ev.Sample(c)
	}
	judge(t, c, o)
}

func TestSubmission(t *testing.T) {
	rapid.Check(t, func(t *rapid.T) {
		c := genCase(t)
		check(t, &c)
	})
}

// TestReplay re-executes a saved case without the property library.
func TestReplay(t *testing.T) {
	f := ev.ReplayFile()
	if f == "" {
		t.Skip("no replay file")
	}
	raw := struct {
		Length *int `json:"length"`
	}{}
	if _, err := ev.LoadCase(f, &raw); err == nil && raw.Length != nil {
		var c ScatterCase
		if _, err := ev.LoadCase(f, &c); err != nil {
			t.Fatalf("cannot load %s: %v", f, err)
		}
		checkScatter(t, &c)
		ev.ReplayPassed()
		return
	}
	var c Case
	if _, err := ev.LoadCase(f, &c); err != nil {
		t.Fatalf("cannot load %s: %v", f, err)
	}
	check(t, &c)
	ev.ReplayPassed()
}
