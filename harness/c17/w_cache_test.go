package c17

import (
	"context"
	"fmt"

	"github.com/anishathalye/porcupine"
	consensusclient "github.com/attestantio/go-eth2-client"
	"github.com/attestantio/go-eth2-client/api"
	apiv1 "github.com/attestantio/go-eth2-client/api/v1"
	"github.com/attestantio/go-eth2-client/spec"
	"github.com/attestantio/go-eth2-client/spec/deneb"
	"github.com/attestantio/go-eth2-client/spec/phase0"
	cache "github.com/attestantio/vouch/services/cache/standard"
	"github.com/rs/zerolog"
	"pgregory.net/rapid"

	"verifharness/internal/ev"
	"verifharness/internal/fakes"
)

// World of the real services/cache/standard.
//
// Roles (why each has a goroutine of its own in production):
//
//	blockStream  cache.New subscribes handleBlock to the "block" topic
//	             (service.go: eventsProvider.Events(ctx, {"block"}, s.handleBlock));
//	             the client delivers the events of one subscription sequentially
//	             from that subscription's goroutine.
//	ctlBlock     the controller has a "block" subscription of its own
//	             (controller/standard/service.go: Events(ctx, {"block"}, s.HandleBlockEvent))
//	             whose handler calls cache.SetBlockRootToSlot.
//	headStream   cache.New subscribes handleHead to the "head" topic (own stream).
//	lookup       BlockRootToSlot is called by the attestation-data and block-root
//	             strategies, from attestation jobs ("Attestations for slot N")
//	             and from one goroutine per beacon node inside them.
//	execHead     ExecutionChainHead is called by the proposer
//	             (beaconblockproposer/standard/propose.go) on the proposal job.
//	clean        periodic scheduler job "Clean block root to slot cache".
type cacheWorld struct {
	sc      *Scenario
	clock   *clock
	svc     *cache.Service
	cancel  context.CancelFunc
	onBlock consensusclient.EventHandlerFunc
	onHead  consensusclient.EventHandlerFunc
	clean   func(context.Context)
	spe     uint64
	slots   []uint64
	fail    uint64
	f       faults
	hist    *history
	minSlot uint64 // of the current repetition, by the documented 64-epoch retention
}

const cacheRetentionEpochs = 64 // "Keep 64 epochs of information around"

type cacheHeaders struct{ w *cacheWorld }

func (h cacheHeaders) BeaconBlockHeader(_ context.Context, opts *api.BeaconBlockHeaderOpts) (*api.Response[*apiv1.BeaconBlockHeader], error) {
	for i, s := range h.w.slots {
		if rootOf(uint64(i)).String() == opts.Block {
			if h.w.fail&(1<<uint(i)) != 0 {
				return nil, strErr("scripted header failure")
			}
			return &api.Response[*apiv1.BeaconBlockHeader]{Data: &apiv1.BeaconBlockHeader{
				Root:      rootOf(uint64(i)),
				Canonical: true,
				Header:    &phase0.SignedBeaconBlockHeader{Message: &phase0.BeaconBlockHeader{Slot: phase0.Slot(s)}},
			}, Metadata: map[string]any{}}, nil
		}
	}
	return nil, strErr("unknown block")
}

func execHashOf(i uint64) phase0.Hash32 {
	var h phase0.Hash32
	for k := range h {
		h[k] = byte(i + 1)
	}
	return h
}

type cacheBlocks struct{ w *cacheWorld }

// headBlockFails: the cache fetches the head block from a context of its own,
// so the root and the clock of the repetition identify the call.
func (w *cacheWorld) headBlockFails(root uint64) bool {
	return w.f.hit("headblock-err", w.clock.slot.Load()<<8^root)
}

func (b cacheBlocks) SignedBeaconBlock(_ context.Context, opts *api.SignedBeaconBlockOpts) (*api.Response[*spec.VersionedSignedBeaconBlock], error) {
	for i := range b.w.slots {
		if rootOf(uint64(i)).String() == opts.Block {
			if b.w.headBlockFails(uint64(i)) {
				return nil, strErr("scripted block failure")
			}
			return &api.Response[*spec.VersionedSignedBeaconBlock]{Data: &spec.VersionedSignedBeaconBlock{
				Version: spec.DataVersionDeneb,
				Deneb: &deneb.SignedBeaconBlock{Message: &deneb.BeaconBlock{Body: &deneb.BeaconBlockBody{ExecutionPayload: &deneb.ExecutionPayload{
					StateRoot:   phase0.Root{1},
					BlockNumber: 1000 + uint64(i),
					BlockHash:   execHashOf(uint64(i)),
				}}}},
			}, Metadata: map[string]any{}}, nil
		}
	}
	return nil, strErr("no such block")
}

func buildCache(sc *Scenario) (world, error) {
	w := &cacheWorld{sc: sc, spe: sc.P["spe"], fail: sc.P["fail"], f: newFaults(sc.P), hist: newHistory(len(sc.Roles))}
	for i := uint64(0); i < sc.P["n"]; i++ {
		w.slots = append(w.slots, sc.P[fmt.Sprintf("r%d", i)])
	}
	if w.spe == 0 || len(w.slots) == 0 {
		return nil, fmt.Errorf("bad parameters")
	}
	w.clock = newClock(w.spe, sc.P["epoch"]*w.spe)
	ctx, cancel := context.WithCancel(context.Background())
	w.cancel = cancel
	sched := fakes.NewSched()
	evp := newEventsCapture()
	svc, err := cache.New(ctx,
		cache.WithLogLevel(zerolog.Disabled),
		cache.WithChainTime(w.clock),
		cache.WithScheduler(sched),
		cache.WithEventsProvider(evp),
		cache.WithSignedBeaconBlockProvider(cacheBlocks{w}),
		cache.WithBeaconBlockHeadersProvider(cacheHeaders{w}),
	)
	if err != nil {
		cancel()
		return nil, err
	}
	w.svc = svc
	job := sched.Get("Clean block root to slot cache")
	if job == nil || len(evp.handlers["block"]) != 1 || len(evp.handlers["head"]) != 1 {
		cancel()
		return nil, fmt.Errorf("the cache did not register its handlers and clean job as expected")
	}
	w.clean = job.Func
	w.onBlock = evp.handlers["block"][0]
	w.onHead = evp.handlers["head"][0]
	// Other blocks of the retention window (64 epochs of 32 slots are some 2 000
	// entries in production): roots outside the universe, never looked up, slots
	// spread over the window, so that a clean has work to do.
	for i := uint64(0); i < sc.P["fill"]; i++ {
		var r [32]byte
		r[0], r[1], r[2], r[31] = 0xfe, byte(i>>8), byte(i), 0xc2
		epoch := sc.P["epoch"] + 19*sc.P["estep"]
		slot := uint64(0)
		if span := (epoch + 1) * w.spe; span > 0 {
			slot = (i * 7919) % span
		}
		svc.SetBlockRootToSlot(r, phase0.Slot(slot))
	}
	return w, nil
}

func (w *cacheWorld) prepare(rep int) {
	epoch := w.sc.P["epoch"] + uint64(rep)*w.sc.P["estep"]
	w.clock.slot.Store(epoch * w.spe)
	w.minSlot = 0
	if epoch > cacheRetentionEpochs {
		w.minSlot = (epoch - cacheRetentionEpochs) * w.spe
	}
}

type cacheIn struct {
	op   string
	root uint64
	slot uint64 // the slot of the root's block
	fail bool   // the header provider fails for this root
	min  uint64 // clean: entries below this slot go
}

type cacheOut struct {
	slot   uint64
	err    bool
	hash   phase0.Hash32
	height uint64
}

func (w *cacheWorld) run(_ int, ri int, _ *Role, op *Op, _ uint64) {
	ctx := context.Background()
	root := op.A % uint64(len(w.slots))
	in := cacheIn{op: op.K, root: root, slot: w.slots[root], fail: w.fail&(1<<uint(root)) != 0}
	var out cacheOut
	call := stamp()
	switch op.K {
	case "block":
		w.onBlock(&apiv1.Event{Topic: "block", Data: &apiv1.BlockEvent{Slot: phase0.Slot(w.slots[root]), Block: rootOf(root)}})
	case "set":
		w.svc.SetBlockRootToSlot(rootOf(root), phase0.Slot(w.slots[root]))
		in.op = "block"
	case "head":
		in.fail = w.headBlockFails(root)
		w.onHead(&apiv1.Event{Topic: "head", Data: &apiv1.HeadEvent{Slot: phase0.Slot(w.slots[root]), Block: rootOf(root)}})
	case "lookup":
		slot, err := w.svc.BlockRootToSlot(ctx, rootOf(root))
		out = cacheOut{slot: uint64(slot), err: err != nil}
	case "exec":
		hash, height := w.svc.ExecutionChainHead(ctx)
		out = cacheOut{hash: hash, height: height}
	case "clean":
		in.min = w.minSlot
		w.clean(ctx)
	default:
		panic("harness: unknown cache op " + op.K)
	}
	w.hist.add(ri, in, out, call, stamp())
}

func (w *cacheWorld) finish(int) string { return "" }

func (w *cacheWorld) close() { w.cancel() }

// Sequential model.  Block roots: a partial map root -> slot per root
// (state: -1 = absent); the execution head: a register.
func (w *cacheWorld) judge(t ev.TB, sc *Scenario) {
	parts := map[string][]porcupine.Operation{}
	for _, o := range w.hist.all() {
		in := o.Input.(cacheIn)
		switch in.op {
		case "block", "lookup":
			k := fmt.Sprintf("root%d", in.root)
			parts[k] = append(parts[k], o)
		case "clean":
			for i := range w.slots {
				k := fmt.Sprintf("root%d", i)
				parts[k] = append(parts[k], o)
			}
		case "head", "exec":
			parts["exechead"] = append(parts["exechead"], o)
		}
	}
	type reg struct {
		hash   phase0.Hash32
		height uint64
	}
	rootModel := porcupine.Model{
		Init: func() any { return int64(-1) },
		Step: func(state, input, output any) (bool, any) {
			st := state.(int64)
			in := input.(cacheIn)
			out := output.(cacheOut)
			switch in.op {
			case "block":
				return true, int64(in.slot)
			case "lookup":
				if st >= 0 {
					return !out.err && out.slot == uint64(st), st
				}
				if in.fail {
					return out.err, st
				}
				return !out.err && out.slot == in.slot, int64(in.slot)
			case "clean":
				if st >= 0 && uint64(st) < in.min {
					return true, int64(-1)
				}
				return true, st
			}
			return false, st
		},
		DescribeOperation: func(input, output any) string {
			in := input.(cacheIn)
			out := output.(cacheOut)
			switch in.op {
			case "block":
				return fmt.Sprintf("block(root%d, slot %d)", in.root, in.slot)
			case "lookup":
				return fmt.Sprintf("lookup(root%d; block at slot %d, provider fails=%v) -> slot %d err=%v", in.root, in.slot, in.fail, out.slot, out.err)
			}
			return fmt.Sprintf("clean(below slot %d)", in.min)
		},
	}
	headModel := porcupine.Model{
		Init: func() any { return reg{} },
		Step: func(state, input, output any) (bool, any) {
			in := input.(cacheIn)
			out := output.(cacheOut)
			if in.op == "head" {
				if in.fail {
					return true, state // the block could not be fetched: nothing changes
				}
				return true, reg{hash: execHashOf(in.root), height: 1000 + in.root}
			}
			st := state.(reg)
			return out.hash == st.hash && out.height == st.height, st
		},
		DescribeOperation: func(input, output any) string {
			in := input.(cacheIn)
			out := output.(cacheOut)
			if in.op == "head" {
				return fmt.Sprintf("head(root%d: height %d)", in.root, 1000+in.root)
			}
			return fmt.Sprintf("exechead() -> %x.. height %d", out.hash[:2], out.height)
		},
	}
	head := parts["exechead"]
	delete(parts, "exechead")
	checkPartitions(t, sc, "cache", rootModel, parts)
	if len(head) > 0 {
		checkPartitions(t, sc, "cache", headModel, map[string][]porcupine.Operation{"exechead": head})
	}
}

func init() {
	genRootOps := func(kind string, lo, hi int) func(t *rapid.T, p map[string]uint64, inst, n int) []Op {
		return func(t *rapid.T, p map[string]uint64, _, _ int) []Op {
			n := rapid.IntRange(lo, hi).Draw(t, "nOps")
			ops := make([]Op, n)
			for i := range ops {
				ops[i] = Op{K: kind, A: rapid.Uint64Range(0, p["n"]-1).Draw(t, "root")}
			}
			return ops
		}
	}
	fixed := func(kind string, lo, hi int) func(t *rapid.T, p map[string]uint64, inst, n int) []Op {
		return func(t *rapid.T, _ map[string]uint64, _, _ int) []Op {
			n := rapid.IntRange(lo, hi).Draw(t, "nOps")
			ops := make([]Op, n)
			for i := range ops {
				ops[i] = Op{K: kind}
			}
			return ops
		}
	}
	register(&svcDef{
		name:   "cache",
		weight: 3,
		reps:   30,
		roles: []roleDef{
			{kind: "blockStream", max: 1, why: "cache's own block-event subscription", gen: genRootOps("block", 1, 6)},
			{kind: "ctlBlock", max: 1, why: "controller's block-event subscription -> SetBlockRootToSlot", gen: genRootOps("set", 1, 6)},
			{kind: "headStream", max: 1, why: "cache's head-event subscription", gen: genRootOps("head", 1, 4)},
			{kind: "lookup", max: 3, why: "BlockRootToSlot from attestation jobs / per-node strategy goroutines", gen: genRootOps("lookup", 1, 8)},
			{kind: "execHead", max: 2, why: "ExecutionChainHead from proposal jobs", gen: fixed("exec", 1, 4)},
			{kind: "clean", max: 1, why: "periodic job 'Clean block root to slot cache'", gen: fixed("clean", 1, 6)},
		},
		params: func(t *rapid.T) map[string]uint64 {
			p := map[string]uint64{}
			p["spe"] = rapid.SampledFrom([]uint64{2, 8, 32}).Draw(t, "spe")
			p["epoch"] = rapid.SampledFrom([]uint64{0, 60, 64, 65, 70, 200}).Draw(t, "epoch")
			p["estep"] = rapid.SampledFrom([]uint64{0, 1, 1, 3, 20}).Draw(t, "estep")
			genFaults(t, p)
			p["fill"] = rapid.SampledFrom([]uint64{0, 300, 3000}).Draw(t, "fill")
			n := rapid.Uint64Range(1, 6).Draw(t, "nRoots")
			p["n"] = n
			p["fail"] = rapid.Uint64Range(0, (1<<n)-1).Draw(t, "failMask")
			for i := uint64(0); i < n; i++ {
				// around the retention boundary of the clock of some repetition
				ref := p["epoch"] + rapid.Uint64Range(0, 19).Draw(t, "refRep")*p["estep"]
				back := rapid.SampledFrom([]uint64{0, 1, 63, 64, 65, 66, 80}).Draw(t, "back")
				var slot uint64
				if back <= ref {
					slot = (ref-back)*p["spe"] + rapid.Uint64Range(0, p["spe"]-1).Draw(t, "inEpoch")
				}
				p[fmt.Sprintf("r%d", i)] = slot
			}
			return p
		},
		build: buildCache,
	})
}
