package c17

import (
	"context"
	"crypto/sha256"
	"fmt"
	"math"
	"os"
	"path/filepath"
	"sync"
	"testing"
	"time"

	"github.com/attestantio/go-eth2-client/api"
	apiv1 "github.com/attestantio/go-eth2-client/api/v1"
	"github.com/attestantio/go-eth2-client/spec/phase0"
	walletam "github.com/attestantio/vouch/services/accountmanager/wallet"
	nullmetrics "github.com/attestantio/vouch/services/metrics/null"
	validatorsmanager "github.com/attestantio/vouch/services/validatorsmanager/standard"
	"github.com/rs/zerolog"
	e2types "github.com/wealdtech/go-eth2-types/v2"
	e2wallet "github.com/wealdtech/go-eth2-wallet"
	keystorev4 "github.com/wealdtech/go-eth2-wallet-encryptor-keystorev4"
	filesystem "github.com/wealdtech/go-eth2-wallet-store-filesystem"
	e2wtypes "github.com/wealdtech/go-eth2-wallet-types/v2"
	"pgregory.net/rapid"

	"verifharness/internal/ev"
)

// Worlds of the real services/accountmanager/wallet (over filesystem wallets
// with cost-1 keystores, written once per process) and of the real
// services/validatorsmanager/standard.
//
// Roles of "wallet" (why each has a goroutine of its own in production):
//
//	refresh      periodic scheduler job "Account refresh ticker"
//	             (controller/standard/accountsrefresher.go) -> Refresh.
//	validating   ValidatingAccountsForEpoch from the controller's epoch ticker
//	             job, the "Prepare for epoch N" jobs, the block relay's periodic
//	             "Fetch execution configuration" and "Submit validator
//	             registrations" jobs and the proposal preparer's job.
//	byIndex      ValidatingAccountsForEpochByIndex from every attestation job
//	             (attester.Attest, controller.AttestAndScheduleAggregate).
//	sync         SyncCommitteeAccountsForEpoch(ByIndex) from the epoch ticker and
//	             the goroutines it starts (scheduleSyncCommitteeMessages).
//	byPubKey     AccountByPublicKey from blockrelay.AuctionBlock on proposal jobs.
//
// Roles of "vm": refresh = RefreshValidatorsFromBeaconNode (only reached from
// the account refresh job), byPubKey = ValidatorsByPubKey (reached from every
// account query above).  ValidatorsByIndex and ValidatorStateAtEpoch have no
// caller in vouch and are not generated.

const far = uint64(math.MaxUint64)

type wAcct struct {
	id     int
	wallet string
	name   string
	pubKey phase0.BLSPubKey
	priv   []byte
}

var (
	wUniverseOnce sync.Once
	wUniverse     []*wAcct
	wLocations    []string
	wUniverseErr  error
)

var wWallets = []string{"w1", "w2"}
var wNames = []string{"a", "b", "c", "d"}

func walletUniverse() ([]*wAcct, []string, error) {
	wUniverseOnce.Do(func() {
		if err := e2types.InitBLS(); err != nil {
			wUniverseErr = err
			return
		}
		dir, err := os.MkdirTemp(".", "c17-wallets-")
		if err != nil {
			wUniverseErr = err
			return
		}
		dir, _ = filepath.Abs(dir)
		ctx := context.Background()
		encryptor := keystorev4.New(keystorev4.WithCost(new(testing.T), 1))
		for wi, wn := range wWallets {
			loc := filepath.Join(dir, fmt.Sprintf("store%d", wi))
			wLocations = append(wLocations, loc)
			store := filesystem.New(filesystem.WithLocation(loc))
			wallet, err := e2wallet.CreateWallet(wn, e2wallet.WithType("nd"), e2wallet.WithStore(store), e2wallet.WithEncryptor(encryptor))
			if err != nil {
				wUniverseErr = err
				return
			}
			if err := wallet.(e2wtypes.WalletLocker).Unlock(ctx, nil); err != nil {
				wUniverseErr = err
				return
			}
			for _, n := range wNames {
				h := sha256.Sum256([]byte("verif-c17-key|" + wn + "|" + n))
				h[0] = 0
				if h[31] == 0 {
					h[31] = 1
				}
				sk, err := e2types.BLSPrivateKeyFromBytes(h[:])
				if err != nil {
					wUniverseErr = err
					return
				}
				a := &wAcct{id: len(wUniverse), wallet: wn, name: n, priv: h[:]}
				copy(a.pubKey[:], sk.PublicKey().Marshal())
				if _, err := wallet.(e2wtypes.WalletAccountImporter).ImportAccount(ctx, n, a.priv, []byte("p1")); err != nil {
					wUniverseErr = err
					return
				}
				wUniverse = append(wUniverse, a)
			}
		}
	})
	return wUniverse, wLocations, wUniverseErr
}

// valTable is an immutable validators provider.  Validator of account i has
// index 100+i, is activated at epoch i%3 and (if bit i of exited is set) exits
// at epoch 6.
type valTable struct {
	accts  []*wAcct
	exited uint64
	f      faults
}

func (p *valTable) record(a *wAcct) *apiv1.Validator {
	exit := far
	if p.exited&(1<<uint(a.id)) != 0 {
		exit = 6
	}
	return &apiv1.Validator{
		Index:   phase0.ValidatorIndex(100 + a.id),
		Balance: 32_000_000_000,
		Validator: &phase0.Validator{
			PublicKey:                  a.pubKey,
			WithdrawalCredentials:      make([]byte, 32),
			EffectiveBalance:           32_000_000_000,
			ActivationEligibilityEpoch: 0,
			ActivationEpoch:            phase0.Epoch(a.id % 3),
			ExitEpoch:                  phase0.Epoch(exit),
			WithdrawableEpoch:          phase0.Epoch(far),
		},
	}
}

// Validators: scripted per operation (the refresh passes its context down):
// the beacon node fails, answers with nothing, or with every other validator.
func (p *valTable) Validators(ctx context.Context, opts *api.ValidatorsOpts) (*api.Response[map[phase0.ValidatorIndex]*apiv1.Validator], error) {
	call := callOf(ctx)
	subset := false
	if call != 0 {
		switch {
		case p.f.hit("validators-err", call):
			return nil, strErr("scripted validators failure")
		case p.f.hit("validators-empty", call):
			return &api.Response[map[phase0.ValidatorIndex]*apiv1.Validator]{Data: map[phase0.ValidatorIndex]*apiv1.Validator{}, Metadata: map[string]any{}}, nil
		}
		subset = p.f.hit("validators-subset", call)
	}
	want := map[phase0.BLSPubKey]bool{}
	for _, k := range opts.PubKeys {
		want[k] = true
	}
	data := map[phase0.ValidatorIndex]*apiv1.Validator{}
	for _, a := range p.accts {
		if len(want) > 0 && !want[a.pubKey] {
			continue
		}
		if subset && a.id%2 == 1 {
			continue
		}
		v := p.record(a)
		data[v.Index] = v
	}
	return &api.Response[map[phase0.ValidatorIndex]*apiv1.Validator]{Data: data, Metadata: map[string]any{}}, nil
}

type farProvider struct{}

func (farProvider) FarFutureEpoch(context.Context) (phase0.Epoch, error) {
	return phase0.Epoch(far), nil
}

type domainProvider struct{}

func (domainProvider) Domain(context.Context, phase0.DomainType, phase0.Epoch) (phase0.Domain, error) {
	return phase0.Domain{}, nil
}

func (domainProvider) GenesisDomain(context.Context, phase0.DomainType) (phase0.Domain, error) {
	return phase0.Domain{}, nil
}

func newValidatorsManager(vp *valTable) (*validatorsmanager.Service, error) {
	return validatorsmanager.New(context.Background(),
		validatorsmanager.WithLogLevel(zerolog.Disabled),
		validatorsmanager.WithMonitor(nullmetrics.New()),
		validatorsmanager.WithClientMonitor(nullmetrics.New()),
		validatorsmanager.WithValidatorsProvider(vp),
		validatorsmanager.WithFarFutureEpoch(phase0.Epoch(far)),
	)
}

// laggingVM is the real validators manager behind a delay: a lookup over
// thousands of validators, or one that has to wait for the manager's lock while
// a refresh installs its result, takes its time in production too.  The delay
// (scenario parameter "vmlag", microseconds) orders nothing; it only widens the
// time an account query spends between its steps.
type laggingVM struct {
	inner *validatorsmanager.Service
	lag   time.Duration
}

func (l laggingVM) RefreshValidatorsFromBeaconNode(ctx context.Context, pubKeys []phase0.BLSPubKey) error {
	return l.inner.RefreshValidatorsFromBeaconNode(ctx, pubKeys)
}

func (l laggingVM) ValidatorsByIndex(ctx context.Context, indices []phase0.ValidatorIndex) map[phase0.ValidatorIndex]*phase0.Validator {
	return l.inner.ValidatorsByIndex(ctx, indices)
}

func (l laggingVM) ValidatorsByPubKey(ctx context.Context, pubKeys []phase0.BLSPubKey) map[phase0.ValidatorIndex]*phase0.Validator {
	res := l.inner.ValidatorsByPubKey(ctx, pubKeys)
	if l.lag > 0 {
		time.Sleep(l.lag)
	}
	return res
}

func (l laggingVM) ValidatorStateAtEpoch(ctx context.Context, index phase0.ValidatorIndex, epoch phase0.Epoch) (apiv1.ValidatorState, error) {
	return l.inner.ValidatorStateAtEpoch(ctx, index, epoch)
}

// accountManager is what the rest of vouch uses of an account manager.
type accountManager interface {
	Refresh(ctx context.Context)
	ValidatingAccountsForEpoch(ctx context.Context, epoch phase0.Epoch) (map[phase0.ValidatorIndex]e2wtypes.Account, error)
	ValidatingAccountsForEpochByIndex(ctx context.Context, epoch phase0.Epoch, indices []phase0.ValidatorIndex) (map[phase0.ValidatorIndex]e2wtypes.Account, error)
	SyncCommitteeAccountsForEpoch(ctx context.Context, epoch phase0.Epoch) (map[phase0.ValidatorIndex]e2wtypes.Account, error)
	SyncCommitteeAccountsForEpochByIndex(ctx context.Context, epoch phase0.Epoch, indices []phase0.ValidatorIndex) (map[phase0.ValidatorIndex]e2wtypes.Account, error)
	AccountByPublicKey(ctx context.Context, pubkey phase0.BLSPubKey) (e2wtypes.Account, error)
}

type amWorld struct {
	accts []*wAcct
	mgr   accountManager
	stop  func()
	// beforeRep runs single-threaded before a repetition: scripted changes of
	// what the account source delivers (a wallet store that has lost a wallet, a
	// signer that lists fewer accounts).
	beforeRep func(rep int)
	name      string
	// nilSeen: per role (own goroutine only) the first query that handed out a
	// nil account: no sequential order of refreshes and queries produces that.
	nilSeen []string
}

var wSpecs = [][]string{
	{"w1", "w2"},
	{"w1/[ab]", "w2"},
	{"w1", "w2/(a|d)"},
	{"w2/.*"},
}

func buildWallet(sc *Scenario) (world, error) {
	accts, locations, err := walletUniverse()
	if err != nil {
		return nil, err
	}
	f := newFaults(sc.P)
	setWalletStore(locations, true)
	vp := &valTable{accts: accts, exited: sc.P["exited"], f: f}
	vm, err := newValidatorsManager(vp)
	if err != nil {
		return nil, err
	}
	mgr, err := walletam.New(context.Background(),
		walletam.WithLogLevel(zerolog.Disabled),
		walletam.WithMonitor(nullmetrics.New()),
		walletam.WithProcessConcurrency(4),
		walletam.WithLocations(locations),
		walletam.WithAccountPaths(wSpecs[sc.P["specs"]%uint64(len(wSpecs))]),
		walletam.WithPassphrases([][]byte{[]byte("p1")}),
		walletam.WithValidatorsManager(laggingVM{vm, time.Duration(sc.P["vmlag"]) * time.Microsecond}),
		walletam.WithSpecProvider(newSpec(32)),
		walletam.WithFarFutureEpochProvider(farProvider{}),
		walletam.WithDomainProvider(domainProvider{}),
		walletam.WithCurrentEpochProvider(newClock(32, sc.P["epoch"]*32)),
	)
	if err != nil {
		return nil, err
	}
	if got, err := mgr.ValidatingAccountsForEpoch(context.Background(), 3); err != nil || len(got) == 0 {
		return nil, fmt.Errorf("the wallet account manager knows no validating account after construction (%v)", err)
	}
	return &amWorld{accts: accts, mgr: mgr, name: "wallet", nilSeen: make([]string, len(sc.Roles)),
		beforeRep: func(rep int) { setWalletStore(locations, !f.hit("store-off", uint64(rep))) },
		stop:      func() { setWalletStore(locations, true) },
	}, nil
}

// setWalletStore makes the second store (wallet w2) present or absent: a store
// that has lost a wallet delivers fewer accounts at the next refresh.  Only
// called while no role runs.
func setWalletStore(locations []string, present bool) {
	on, off := locations[1], locations[1]+".off"
	if present {
		if _, err := os.Stat(off); err == nil {
			_ = os.Rename(off, on)
		}
		return
	}
	if _, err := os.Stat(on); err == nil {
		_ = os.Rename(on, off)
	}
}

func (w *amWorld) prepare(rep int) {
	if w.beforeRep != nil {
		w.beforeRep(rep)
	}
}

func indicesOf(mask uint64, n int) []phase0.ValidatorIndex {
	var res []phase0.ValidatorIndex
	for i := 0; i < n; i++ {
		if mask&(1<<uint(i)) != 0 {
			res = append(res, phase0.ValidatorIndex(100+i))
		}
	}
	return res
}

func (w *amWorld) run(rep int, ri int, _ *Role, op *Op, call uint64) {
	ctx := withCall(context.Background(), call)
	var got map[phase0.ValidatorIndex]e2wtypes.Account
	switch op.K {
	case "refresh":
		w.mgr.Refresh(ctx)
	case "validating":
		got, _ = w.mgr.ValidatingAccountsForEpoch(ctx, phase0.Epoch(op.A))
	case "byindex":
		got, _ = w.mgr.ValidatingAccountsForEpochByIndex(ctx, phase0.Epoch(op.A), indicesOf(op.B, len(w.accts)))
	case "sync":
		got, _ = w.mgr.SyncCommitteeAccountsForEpoch(ctx, phase0.Epoch(op.A))
	case "syncbyindex":
		got, _ = w.mgr.SyncCommitteeAccountsForEpochByIndex(ctx, phase0.Epoch(op.A), indicesOf(op.B, len(w.accts)))
	case "pubkey":
		_, _ = w.mgr.AccountByPublicKey(ctx, w.accts[op.A%uint64(len(w.accts))].pubKey)
	case "pubkeys":
		// a busy proposer / relay: op.B lookups in a row, over all accounts
		for k := uint64(0); k < op.B; k++ {
			_, _ = w.mgr.AccountByPublicKey(ctx, w.accts[(op.A+k)%uint64(len(w.accts))].pubKey)
		}
	default:
		panic("harness: unknown account manager op " + op.K)
	}
	for index, account := range got {
		if account == nil && ri < len(w.nilSeen) && w.nilSeen[ri] == "" {
			w.nilSeen[ri] = fmt.Sprintf("%s (repetition %d) returned a nil account for validator %d", op.K, rep, index)
		}
	}
}

func (w *amWorld) finish(int) string { return "" }
func (w *amWorld) judge(t ev.TB, sc *Scenario) {
	for _, what := range w.nilSeen {
		if what != "" {
			ev.Violation(t, "nil-account:"+w.name, sc, "%s", what)
		}
	}
}
func (w *amWorld) close() {
	if w.stop != nil {
		w.stop()
	}
}

// ---- validators manager on its own

type vmWorld struct {
	accts []*wAcct
	vm    *validatorsmanager.Service
}

func buildVM(sc *Scenario) (world, error) {
	accts, _, err := walletUniverse()
	if err != nil {
		return nil, err
	}
	vm, err := newValidatorsManager(&valTable{accts: accts, exited: sc.P["exited"], f: newFaults(sc.P)})
	if err != nil {
		return nil, err
	}
	w := &vmWorld{accts: accts, vm: vm}
	if sc.P["warm"] == 1 {
		if err := vm.RefreshValidatorsFromBeaconNode(context.Background(), w.keys(math.MaxUint64)); err != nil {
			return nil, err
		}
	}
	return w, nil
}

func (w *vmWorld) keys(mask uint64) []phase0.BLSPubKey {
	var res []phase0.BLSPubKey
	for i, a := range w.accts {
		if mask&(1<<uint(i)) != 0 {
			res = append(res, a.pubKey)
		}
	}
	return res
}

func (w *vmWorld) prepare(int) {}

func (w *vmWorld) run(_ int, _ int, _ *Role, op *Op, call uint64) {
	ctx := withCall(context.Background(), call)
	switch op.K {
	case "refresh":
		_ = w.vm.RefreshValidatorsFromBeaconNode(ctx, w.keys(op.B))
	case "bypubkey":
		_ = w.vm.ValidatorsByPubKey(ctx, w.keys(op.B))
	default:
		panic("harness: unknown validators manager op " + op.K)
	}
}

func (w *vmWorld) finish(int) string      { return "" }
func (w *vmWorld) judge(ev.TB, *Scenario) {}
func (w *vmWorld) close()                 {}

func accountManagerRoles() []roleDef {
	epoch := func(t *rapid.T) uint64 { return rapid.SampledFrom([]uint64{0, 1, 2, 5, 6, 7, 100}).Draw(t, "epoch") }
	rep := func(lo, hi int, one func(t *rapid.T) Op) func(t *rapid.T, p map[string]uint64, inst, n int) []Op {
		return func(t *rapid.T, _ map[string]uint64, _, _ int) []Op {
			n := rapid.IntRange(lo, hi).Draw(t, "nOps")
			ops := make([]Op, n)
			for i := range ops {
				ops[i] = one(t)
			}
			return ops
		}
	}
	return []roleDef{
		{kind: "refresh", max: 1, why: "periodic job 'Account refresh ticker'", gen: rep(1, 3, func(*rapid.T) Op { return Op{K: "refresh"} })},
		{kind: "validating", max: 3, why: "epoch ticker / prepare-for-epoch jobs / block relay periodic jobs / proposal preparer job",
			gen: rep(1, 6, func(t *rapid.T) Op { return Op{K: "validating", A: epoch(t)} })},
		{kind: "byIndex", max: 3, why: "attestation jobs (Attest, AttestAndScheduleAggregate)",
			gen: rep(1, 6, func(t *rapid.T) Op {
				return Op{K: "byindex", A: epoch(t), B: rapid.Uint64Range(1, 255).Draw(t, "mask")}
			})},
		{kind: "sync", max: 2, why: "epoch ticker job and the goroutines it starts for sync committee scheduling",
			gen: rep(1, 6, func(t *rapid.T) Op {
				if rapid.Bool().Draw(t, "byIndex") {
					return Op{K: "syncbyindex", A: epoch(t), B: rapid.Uint64Range(1, 255).Draw(t, "mask")}
				}
				return Op{K: "sync", A: epoch(t)}
			})},
		{kind: "byPubKey", max: 4, why: "blockrelay.AuctionBlock on proposal jobs, the REST daemon's builder-bid requests (one goroutine per request)",
			gen: rep(1, 4, func(t *rapid.T) Op {
				if rapid.IntRange(0, 2).Draw(t, "burst") == 0 {
					return Op{K: "pubkeys", A: rapid.Uint64Range(0, 7).Draw(t, "acct"), B: rapid.SampledFrom([]uint64{500, 2000, 6000}).Draw(t, "lookups")}
				}
				return Op{K: "pubkey", A: rapid.Uint64Range(0, 7).Draw(t, "acct")}
			})},
	}
}

func init() {
	register(&svcDef{
		name:   "wallet",
		weight: 3,
		reps:   12,
		roles:  accountManagerRoles(),
		params: func(t *rapid.T) map[string]uint64 {
			p := map[string]uint64{
				"specs":  rapid.Uint64Range(0, uint64(len(wSpecs)-1)).Draw(t, "specs"),
				"exited": rapid.Uint64Range(0, 255).Draw(t, "exited"),
				"epoch":  rapid.SampledFrom([]uint64{0, 5, 6}).Draw(t, "epoch"),
				"vmlag":  rapid.SampledFrom([]uint64{0, 0, 200}).Draw(t, "vmlag"),
			}
			genFaults(t, p)
			return p
		},
		build: buildWallet,
	})
	register(&svcDef{
		name:   "vm",
		weight: 1,
		reps:   20,
		roles: []roleDef{
			{kind: "refresh", max: 1, why: "RefreshValidatorsFromBeaconNode, only from the periodic account refresh job",
				gen: func(t *rapid.T, _ map[string]uint64, _, _ int) []Op {
					n := rapid.IntRange(1, 3).Draw(t, "nOps")
					ops := make([]Op, n)
					for i := range ops {
						ops[i] = Op{K: "refresh", B: rapid.Uint64Range(0, 255).Draw(t, "mask")}
					}
					return ops
				}},
			{kind: "byPubKey", max: 4, why: "ValidatorsByPubKey below every account query (duty jobs, periodic jobs)",
				gen: func(t *rapid.T, _ map[string]uint64, _, _ int) []Op {
					n := rapid.IntRange(1, 8).Draw(t, "nOps")
					ops := make([]Op, n)
					for i := range ops {
						ops[i] = Op{K: "bypubkey", B: rapid.Uint64Range(0, 255).Draw(t, "mask")}
					}
					return ops
				}},
		},
		params: func(t *rapid.T) map[string]uint64 {
			p := map[string]uint64{
				"exited": rapid.Uint64Range(0, 255).Draw(t, "exited"),
				"warm":   rapid.Uint64Range(0, 1).Draw(t, "warm"),
			}
			genFaults(t, p)
			return p
		},
		build: buildVM,
	})
}
