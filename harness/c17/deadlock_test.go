package c17

import (
	"fmt"
	"regexp"
	"runtime"
	"sort"
	"strconv"
	"strings"
	"sync/atomic"
	"time"
)

// Structural deadlock oracle.  The statement of C17 says that the results of
// overlapping operations are those of some sequential order; an overlap after
// which the operations never return has no such order.  The roles of a
// repetition do microseconds to milliseconds of work.  When they have not all
// returned after deadlockBound the executor takes two goroutine dumps
// deadlockGap apart and calls it a deadlock iff
//
//   - every unfinished role goroutine is parked on a lock, semaphore, wait
//     group, condition or channel operation whose innermost frame outside
//     runtime/sync is vouch code (not a double, not the network, not a timer),
//   - every other goroutine that has a vouch frame is parked in the same way
//     (so nothing of vouch can still make progress),
//   - both dumps agree on that, goroutine by goroutine, and
//   - a canary goroutine got its share of the processor in between (the
//     process was being scheduled).
//
// Anything else keeps waiting for the watchdog as before.  The judgement does
// not depend on how long anything took, only on nothing being able to move.

const (
	deadlockBound = 2500 * time.Millisecond
	deadlockGap   = 300 * time.Millisecond
)

func goroutineID() int64 {
	buf := make([]byte, 64)
	buf = buf[:runtime.Stack(buf, false)]
	// "goroutine 123 [running]:"
	f := strings.Fields(string(buf))
	if len(f) < 2 {
		return -1
	}
	id, err := strconv.ParseInt(f[1], 10, 64)
	if err != nil {
		return -1
	}
	return id
}

type parkedGoroutine struct {
	id    int64
	state string
	// vouch: innermost vouch function, "" if the goroutine has no vouch frame
	vouch string
	// direct: everything inside the innermost vouch frame is runtime / sync
	direct bool
	text   string
}

var goroutineHeader = regexp.MustCompile(`^goroutine (\d+) \[([^\],]+)`)

var waitStates = map[string]bool{
	"sync.Mutex.Lock": true, "sync.RWMutex.Lock": true, "sync.RWMutex.RLock": true, "semacquire": true,
	"sync.WaitGroup.Wait": true, "sync.Cond.Wait": true, "chan receive": true, "chan send": true,
	"chan receive (nil chan)": true, "chan send (nil chan)": true, "select (no cases)": true,
}

func parseGoroutines(dump string) map[int64]*parkedGoroutine {
	res := map[int64]*parkedGoroutine{}
	for _, block := range strings.Split(dump, "\n\n") {
		lines := strings.Split(strings.TrimSpace(block), "\n")
		m := goroutineHeader.FindStringSubmatch(lines[0])
		if m == nil {
			continue
		}
		id, _ := strconv.ParseInt(m[1], 10, 64)
		g := &parkedGoroutine{id: id, state: m[2], direct: true, text: block}
		for _, l := range lines[1:] {
			if strings.HasPrefix(l, "\t") || strings.HasPrefix(l, "created by ") {
				continue
			}
			fn := l
			if k := strings.LastIndex(fn, "("); k > 0 {
				fn = fn[:k]
			}
			if strings.HasPrefix(fn, "github.com/attestantio/vouch/") {
				g.vouch = strings.TrimPrefix(fn, "github.com/attestantio/vouch/")
				g.vouch = regexp.MustCompile(`\.func\d+(\.\d+)*$`).ReplaceAllString(g.vouch, "")
				break
			}
			if !(strings.HasPrefix(fn, "runtime.") || strings.HasPrefix(fn, "sync.") || strings.HasPrefix(fn, "internal/") ||
				strings.HasPrefix(fn, "golang.org/x/sync/semaphore.")) {
				g.direct = false
			}
		}
		res[id] = g
	}
	return res
}

func allGoroutines() string {
	buf := make([]byte, 1<<20)
	for {
		n := runtime.Stack(buf, true)
		if n < len(buf) {
			return string(buf[:n])
		}
		buf = make([]byte, 2*len(buf))
	}
}

// stuck: goroutine g can only be woken by other vouch code.
func (g *parkedGoroutine) stuck() bool {
	return g.vouch != "" && g.direct && waitStates[g.state]
}

// detectDeadlock: ids are the goroutine ids of the unfinished roles.  Returns
// the signature and a description, or "" if this is not (provably) a deadlock.
func detectDeadlock(ids []int64) (string, string) {
	first := parseGoroutines(allGoroutines())
	var beats atomic.Int32
	stop := make(chan struct{})
	go func() {
		for {
			select {
			case <-stop:
				return
			default:
			}
			time.Sleep(10 * time.Millisecond)
			beats.Add(1)
		}
	}()
	time.Sleep(deadlockGap)
	second := parseGoroutines(allGoroutines())
	close(stop)
	if beats.Load() < 5 {
		return "", "" // the process itself is starved: no judgement
	}
	for _, id := range ids {
		a, b := first[id], second[id]
		if a == nil || b == nil || !a.stuck() || !b.stuck() || a.state != b.state || a.vouch != b.vouch {
			return "", ""
		}
	}
	// nothing else of vouch may be able to move
	for id, b := range second {
		if b.vouch == "" {
			continue
		}
		a := first[id]
		if a == nil || !a.stuck() || !b.stuck() || a.state != b.state || a.vouch != b.vouch {
			return "", ""
		}
	}
	funcs := map[string]bool{}
	var detail strings.Builder
	for _, id := range ids {
		g := second[id]
		funcs[g.vouch] = true
		fmt.Fprintf(&detail, "%s\n\n", g.text)
	}
	names := make([]string, 0, len(funcs))
	for f := range funcs {
		names = append(names, f)
	}
	sort.Strings(names)
	return "deadlock:" + strings.Join(names, " | "), detail.String()
}
