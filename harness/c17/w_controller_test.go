package c17

import (
	"context"
	"fmt"
	"runtime"
	"sort"
	"strings"
	"sync"
	"sync/atomic"
	"time"
	"verifharness/internal/fakes"

	consensusclient "github.com/attestantio/go-eth2-client"
	"github.com/attestantio/go-eth2-client/api"
	apiv1 "github.com/attestantio/go-eth2-client/api/v1"
	"github.com/attestantio/go-eth2-client/spec"
	"github.com/attestantio/go-eth2-client/spec/altair"
	"github.com/attestantio/go-eth2-client/spec/deneb"
	"github.com/attestantio/go-eth2-client/spec/phase0"
	"github.com/attestantio/vouch/services/attestationaggregator"
	standardattester "github.com/attestantio/vouch/services/attester/standard"
	"github.com/attestantio/vouch/services/beaconblockproposer"
	"github.com/attestantio/vouch/services/beaconcommitteesubscriber"
	controller "github.com/attestantio/vouch/services/controller/standard"
	nullmetrics "github.com/attestantio/vouch/services/metrics/null"
	"github.com/attestantio/vouch/services/scheduler"
	"github.com/prysmaticlabs/go-bitfield"
	"github.com/rs/zerolog"
	e2wtypes "github.com/wealdtech/go-eth2-wallet-types/v2"
	"pgregory.net/rapid"

	"verifharness/internal/ev"
)

// World of the real services/controller/standard in front of the real
// attester, sync committee messenger and sync committee aggregator; stateless
// beacon-node and subscriber doubles; a scheduler double that, like the real
// scheduler, guards its job table with a mutex, runs nothing by itself and
// starts a goroutine for a job that is asked to run now (RunJobIfExists).
//
// Roles (why each has a goroutine of its own in production; controller/standard):
//
//	headStream      HandleHeadEvent on the "head" subscription (service.go:New).
//	blockStream     HandleBlockEvent on the "block" subscription (service.go:New).
//	epochTicker     periodic job "Epoch ticker" (startEpochTicker).
//	accountsRefresh periodic job "Account refresh ticker" (accountsrefresher.go).
//	proposalsPrep   periodic job "Prepare proposals ticker" (proposalspreparer.go).
//	jobs            the one-off jobs the controller itself has scheduled, each
//	                fired on a goroutine of its own by the scheduler:
//	                "Attestations for slot N" (AttestAndScheduleAggregate),
//	                "Prepare sync committee messages for slot N", "Sync committee
//	                messages for slot N", "Sync committee aggregation for slot
//	                N", "(Early) beacon block proposal for slot N", "Beacon block
//	                attestation aggregation ...", "Prepare for epoch N".  A job
//	                is taken from the table before it runs, so no job runs twice.
//	shutdownQuery   HasPendingAttestations from the main goroutine (main.go,
//	                waiting for attestations on shutdown).
//
// The clock advances by one slot per repetition; goroutines started by the
// controller (go s.schedule..., go s.handle...DependentRootChanged) are awaited
// after every repetition.
type ctlWorld struct {
	sc     *Scenario
	clock  *clock
	spe    uint64
	nVals  uint64
	start  uint64
	f      faults
	sched  *ctlSched
	svc    *controller.Service
	onHead consensusclient.EventHandlerFunc
	onBlk  consensusclient.EventHandlerFunc
	cancel context.CancelFunc
	baseG  int
	// per role (only touched by the role's goroutine): one-off jobs found / not found in the table
	hit, miss []int64
	staleMark string
}

// ---- scheduler double

type ctlJob struct {
	fn       scheduler.JobFunc
	runtime  scheduler.RuntimeFunc
	ctx      context.Context
	periodic bool
}

type ctlSched struct {
	mu   sync.Mutex
	jobs map[string]*ctlJob
	// running counts the goroutines the scheduler has started for jobs (not a
	// WaitGroup: jobs are started while the world is waiting for quiescence)
	running atomic.Int64
	// now is the scheduler's idea of the time; due says what happens to a job
	// whose run time is not after now when it is scheduled: 0 it waits to be
	// fired like any other job, 1 its goroutine runs it at once (what the real
	// scheduler does: the timer of a job that is already due fires immediately),
	// 2 as 1 and the job has run to completion by the time ScheduleJob returns (a
	// legal schedule of 1 - the job's goroutine simply was faster than the
	// caller).
	now func() time.Time
	due uint64
}

func (s *ctlSched) ScheduleJob(ctx context.Context, _ string, name string, runtime time.Time, job scheduler.JobFunc) error {
	s.mu.Lock()
	if _, ok := s.jobs[name]; ok {
		s.mu.Unlock()
		return scheduler.ErrJobAlreadyExists
	}
	s.jobs[name] = &ctlJob{fn: job, ctx: ctx}
	s.mu.Unlock()
	if s.due != 0 && s.now != nil && !runtime.After(s.now()) {
		finished := make(chan struct{})
		s.running.Add(1)
		go func() {
			defer s.running.Add(-1)
			defer close(finished)
			if j := s.take(name); j != nil { // unless it was cancelled or fired meanwhile
				j.fn(j.ctx)
			}
		}()
		if s.due == 2 {
			<-finished
		}
	}
	return nil
}

// SchedulePeriodicJob: like the real scheduler it starts the job's goroutine at
// once, and that goroutine begins by asking the runtime function when to run;
// after every run the runtime function is asked again on the job's goroutine
// (see fire).
func (s *ctlSched) SchedulePeriodicJob(ctx context.Context, _ string, name string, runtime scheduler.RuntimeFunc, job scheduler.JobFunc) error {
	s.mu.Lock()
	defer s.mu.Unlock()
	if _, ok := s.jobs[name]; ok {
		return scheduler.ErrJobAlreadyExists
	}
	s.jobs[name] = &ctlJob{fn: job, runtime: runtime, ctx: ctx, periodic: true}
	s.running.Add(1)
	go func() {
		defer s.running.Add(-1)
		_, _ = runtime(ctx)
	}()
	return nil
}

func (s *ctlSched) CancelJob(_ context.Context, name string) error {
	s.mu.Lock()
	defer s.mu.Unlock()
	if _, ok := s.jobs[name]; !ok {
		return scheduler.ErrNoSuchJob
	}
	delete(s.jobs, name)
	return nil
}

func (s *ctlSched) CancelJobIfExists(ctx context.Context, name string) { _ = s.CancelJob(ctx, name) }

func (s *ctlSched) CancelJobs(_ context.Context, prefix string) {
	s.mu.Lock()
	defer s.mu.Unlock()
	for name := range s.jobs {
		if strings.HasPrefix(name, prefix) {
			delete(s.jobs, name)
		}
	}
}

// take claims a job: a one-off job leaves the table.
func (s *ctlSched) take(name string) *ctlJob {
	s.mu.Lock()
	defer s.mu.Unlock()
	j := s.jobs[name]
	if j != nil && !j.periodic {
		delete(s.jobs, name)
	}
	return j
}

func (s *ctlSched) RunJob(_ context.Context, name string) error {
	j := s.take(name)
	if j == nil {
		return scheduler.ErrNoSuchJob
	}
	s.running.Add(1)
	go func() {
		defer s.running.Add(-1)
		j.fn(j.ctx)
	}()
	return nil
}

func (s *ctlSched) RunJobIfExists(ctx context.Context, name string) { _ = s.RunJob(ctx, name) }

func (s *ctlSched) JobExists(_ context.Context, name string) bool {
	s.mu.Lock()
	defer s.mu.Unlock()
	_, ok := s.jobs[name]
	return ok
}

func (s *ctlSched) ListJobs(context.Context) []string {
	s.mu.Lock()
	defer s.mu.Unlock()
	names := make([]string, 0, len(s.jobs))
	for n := range s.jobs {
		names = append(names, n)
	}
	sort.Strings(names)
	return names
}

// fire runs a job on the calling goroutine (its timer expired).
func (s *ctlSched) fire(name string) bool {
	j := s.take(name)
	if j == nil {
		return false
	}
	j.fn(j.ctx)
	if j.periodic {
		_, _ = j.runtime(j.ctx)
	}
	return true
}

// ---- beacon node double (stateless)

type ctlNode struct {
	w *ctlWorld
}

func (n ctlNode) attesterDuty(epoch uint64, v uint64) *apiv1.AttesterDuty {
	return &apiv1.AttesterDuty{
		PubKey:                  pubKeyOf(v),
		Slot:                    phase0.Slot(epoch*n.w.spe + (v*3+epoch)%n.w.spe),
		ValidatorIndex:          phase0.ValidatorIndex(v),
		CommitteeIndex:          phase0.CommitteeIndex(v % 2),
		CommitteeLength:         8,
		CommitteesAtSlot:        2,
		ValidatorCommitteeIndex: v / 2,
	}
}

// nodeFault: the controller calls its beacon node from contexts of its own, so
// the slot of the repetition and the request identify the call.
func (n ctlNode) nodeFault(kind string, x uint64) error {
	if n.w.f.hit(kind, n.w.clock.slot.Load()<<16^x) {
		return strErr("scripted beacon node failure: " + kind)
	}
	return nil
}

func (n ctlNode) AttesterDuties(_ context.Context, opts *api.AttesterDutiesOpts) (*api.Response[[]*apiv1.AttesterDuty], error) {
	if err := n.nodeFault("attduties-err", uint64(opts.Epoch)<<4^uint64(len(opts.Indices))); err != nil {
		return nil, err
	}
	var res []*apiv1.AttesterDuty
	for _, v := range opts.Indices {
		res = append(res, n.attesterDuty(uint64(opts.Epoch), uint64(v)))
	}
	return &api.Response[[]*apiv1.AttesterDuty]{Data: res, Metadata: map[string]any{}}, nil
}

func (n ctlNode) ProposerDuties(_ context.Context, opts *api.ProposerDutiesOpts) (*api.Response[[]*apiv1.ProposerDuty], error) {
	if err := n.nodeFault("propduties-err", uint64(opts.Epoch)); err != nil {
		return nil, err
	}
	var res []*apiv1.ProposerDuty
	for i := uint64(0); i < n.w.spe; i += 2 {
		v := (uint64(opts.Epoch) + i) % n.w.nVals
		for _, want := range opts.Indices {
			if uint64(want) == v {
				res = append(res, &apiv1.ProposerDuty{PubKey: pubKeyOf(v), Slot: phase0.Slot(uint64(opts.Epoch)*n.w.spe + i), ValidatorIndex: want})
			}
		}
	}
	return &api.Response[[]*apiv1.ProposerDuty]{Data: res, Metadata: map[string]any{}}, nil
}

func (n ctlNode) SyncCommitteeDuties(_ context.Context, opts *api.SyncCommitteeDutiesOpts) (*api.Response[[]*apiv1.SyncCommitteeDuty], error) {
	if err := n.nodeFault("syncduties-err", uint64(opts.Epoch)); err != nil {
		return nil, err
	}
	var res []*apiv1.SyncCommitteeDuty
	for _, v := range opts.Indices {
		res = append(res, &apiv1.SyncCommitteeDuty{PubKey: pubKeyOf(uint64(v)), ValidatorIndex: v,
			ValidatorSyncCommitteeIndices: []phase0.CommitteeIndex{phase0.CommitteeIndex(v), phase0.CommitteeIndex(v + 8)}})
	}
	return &api.Response[[]*apiv1.SyncCommitteeDuty]{Data: res, Metadata: map[string]any{}}, nil
}

func (n ctlNode) BeaconBlockHeader(context.Context, *api.BeaconBlockHeaderOpts) (*api.Response[*apiv1.BeaconBlockHeader], error) {
	if err := n.nodeFault("header-err", 0); err != nil {
		return nil, err
	}
	slot := n.w.clock.CurrentSlot()
	if slot > 0 {
		slot--
	}
	return &api.Response[*apiv1.BeaconBlockHeader]{Data: &apiv1.BeaconBlockHeader{
		Root: rootOf(uint64(slot)), Canonical: true,
		Header: &phase0.SignedBeaconBlockHeader{Message: &phase0.BeaconBlockHeader{Slot: slot}},
	}, Metadata: map[string]any{}}, nil
}

func (n ctlNode) SignedBeaconBlock(context.Context, *api.SignedBeaconBlockOpts) (*api.Response[*spec.VersionedSignedBeaconBlock], error) {
	if err := n.nodeFault("headblock-err", 0); err != nil {
		return nil, err
	}
	bits := bitfield.NewBitvector512()
	for i := uint64(0); i < 16; i += 2 {
		bits.SetBitAt(i, true)
	}
	return &api.Response[*spec.VersionedSignedBeaconBlock]{Data: &spec.VersionedSignedBeaconBlock{
		Version: spec.DataVersionDeneb,
		Deneb: &deneb.SignedBeaconBlock{Message: &deneb.BeaconBlock{
			ParentRoot: rootOf(7), // what scmRoots reports as head
			Body:       &deneb.BeaconBlockBody{SyncAggregate: &altair.SyncAggregate{SyncCommitteeBits: bits}},
		}},
	}, Metadata: map[string]any{}}, nil
}

// ---- service doubles (stateless)

type ctlProposer struct{}

func (ctlProposer) Prepare(context.Context, *beaconblockproposer.Duty) error { return nil }
func (ctlProposer) Propose(context.Context, *beaconblockproposer.Duty)       {}

type ctlAttAggregator struct{}

func (ctlAttAggregator) Aggregate(context.Context, *attestationaggregator.Duty) {}
func (ctlAttAggregator) AggregatorsAndSignatures(_ context.Context, accounts []e2wtypes.Account, _ phase0.Slot, _ []uint64) ([]phase0.BLSSignature, []bool, error) {
	return make([]phase0.BLSSignature, len(accounts)), make([]bool, len(accounts)), nil
}

type ctlCommitteeSubscriber struct{ n ctlNode }

func (s ctlCommitteeSubscriber) Subscribe(_ context.Context, epoch phase0.Epoch, accounts map[phase0.ValidatorIndex]e2wtypes.Account) (map[phase0.Slot]map[phase0.CommitteeIndex]*beaconcommitteesubscriber.Subscription, error) {
	if err := s.n.nodeFault("subscribe-err", uint64(epoch)); err != nil {
		return nil, err
	}
	res := map[phase0.Slot]map[phase0.CommitteeIndex]*beaconcommitteesubscriber.Subscription{}
	for v := range accounts {
		d := s.n.attesterDuty(uint64(epoch), uint64(v))
		if res[d.Slot] == nil {
			res[d.Slot] = map[phase0.CommitteeIndex]*beaconcommitteesubscriber.Subscription{}
		}
		res[d.Slot][d.CommitteeIndex] = &beaconcommitteesubscriber.Subscription{Duty: d, IsAggregator: v%2 == 0, Signature: phase0.BLSSignature{0x5e}}
	}
	return res, nil
}

type ctlSyncSubscriber struct{}

func (ctlSyncSubscriber) Subscribe(context.Context, phase0.Epoch, []*apiv1.SyncCommitteeDuty) error {
	return nil
}

type ctlPreparer struct{}

func (ctlPreparer) UpdatePreparations(context.Context) error { return nil }

type ctlBlockToSlot struct{}

func (ctlBlockToSlot) SetBlockRootToSlot(phase0.Root, phase0.Slot) {}

func buildController(sc *Scenario) (world, error) {
	w := &ctlWorld{sc: sc, spe: 8, nVals: sc.P["vals"], hit: make([]int64, len(sc.Roles)), miss: make([]int64, len(sc.Roles))}
	if w.nVals == 0 || w.nVals > 8 {
		return nil, fmt.Errorf("bad parameters")
	}
	w.start = 40*w.spe + sc.P["start"]%w.spe
	w.clock = newClock(w.spe, w.start)
	w.f = newFaults(sc.P)
	accts := newFixedAccounts(int(w.nVals))
	accts.f = w.f
	node := ctlNode{w}
	att, err := standardattester.New(context.Background(),
		standardattester.WithLogLevel(zerolog.Disabled),
		standardattester.WithProcessConcurrency(2),
		standardattester.WithMonitor(nullmetrics.New()),
		standardattester.WithChainTime(w.clock),
		standardattester.WithSpecProvider(newSpec(w.spe)),
		standardattester.WithAttestationDataProvider(attData{w.spe, w.f}),
		standardattester.WithAttestationsSubmitter(attSubmitter{w.f}),
		standardattester.WithValidatingAccountsProvider(accts),
		standardattester.WithBeaconAttestationsSigner(attSigner{w.f}),
	)
	if err != nil {
		return nil, err
	}
	msgr, agg, err := buildSCMServices(w.clock, accts, w.spe, w.f)
	if err != nil {
		return nil, err
	}
	// sync committee records of earlier slots, so that the clean-up of old records has something to do
	for i := uint64(0); i < sc.P["pre"]; i++ {
		_, _ = msgr.Message(context.Background(), newSyncDuty(accts, w.nVals, w.start-sc.P["pre"]+i, w.f, nil))
	}
	w.sched = &ctlSched{jobs: map[string]*ctlJob{}, due: sc.P["due"],
		now: func() time.Time {
			return w.clock.StartOfSlot(w.clock.CurrentSlot()).Add(time.Duration(sc.P["offset"]) * time.Second)
		}}
	evp := newEventsCapture()
	ctx, cancel := context.WithCancel(context.Background())
	w.cancel = cancel
	w.baseG = fakes.GoroutineCount()
	svc, err := controller.New(ctx,
		controller.WithLogLevel(zerolog.Disabled),
		controller.WithMonitor(nullmetrics.New()),
		controller.WithSpecProvider(newSpec(w.spe)),
		controller.WithChainTimeService(w.clock),
		controller.WithWaitedForGenesis(false),
		controller.WithProposerDutiesProvider(node),
		controller.WithAttesterDutiesProvider(node),
		controller.WithSyncCommitteeDutiesProvider(node),
		controller.WithSyncCommitteeSubscriber(ctlSyncSubscriber{}),
		controller.WithEventsProvider(evp),
		controller.WithValidatingAccountsProvider(accts),
		controller.WithProposalsPreparer(ctlPreparer{}),
		controller.WithScheduler(w.sched),
		controller.WithAttester(att),
		controller.WithSyncCommitteeMessenger(newGuardedMessenger(msgr)),
		controller.WithSyncCommitteeAggregator(agg),
		controller.WithBeaconBlockHeadersProvider(node),
		controller.WithSignedBeaconBlockProvider(node),
		controller.WithBeaconBlockProposer(ctlProposer{}),
		controller.WithAttestationAggregator(ctlAttAggregator{}),
		controller.WithBeaconCommitteeSubscriber(ctlCommitteeSubscriber{node}),
		controller.WithAccountsRefresher(accts),
		controller.WithBlockToSlotSetter(ctlBlockToSlot{}),
		controller.WithMaxProposalDelay(time.Duration(sc.P["proposalDelay"])*time.Second),
		controller.WithMaxAttestationDelay(4*time.Second),
		controller.WithAttestationAggregationDelay(8*time.Second),
		controller.WithMaxSyncCommitteeMessageDelay(4*time.Second),
		controller.WithSyncCommitteeAggregationDelay(8*time.Second),
		controller.WithVerifySyncCommitteeInclusion(true),
		controller.WithFastTrackAttestations(sc.P["fastAtt"] == 1),
		controller.WithFastTrackSyncCommittees(sc.P["fastSync"] == 1),
		controller.WithFastTrackGrace(0),
	)
	if err != nil {
		cancel()
		return nil, err
	}
	w.svc = svc
	if len(evp.handlers["head"]) != 1 || len(evp.handlers["block"]) != 1 {
		cancel()
		return nil, fmt.Errorf("the controller did not subscribe to head and block events as expected")
	}
	w.onHead, w.onBlk = evp.handlers["head"][0], evp.handlers["block"][0]
	if why := w.quiesce(); why != "" {
		cancel()
		return nil, fmt.Errorf("%s", why)
	}
	for _, name := range []string{"Epoch ticker", "Account refresh ticker", "Prepare proposals ticker"} {
		if !w.sched.JobExists(ctx, name) {
			cancel()
			return nil, fmt.Errorf("the controller did not schedule %q", name)
		}
	}
	return w, nil
}

func (w *ctlWorld) quiesce() string {
	if !waitGoroutines(w.baseG, 60*time.Second) || w.sched.running.Load() != 0 {
		buf := make([]byte, 1<<19)
		buf = buf[:runtime.Stack(buf, true)]
		return fmt.Sprintf("goroutines started by the controller did not finish (%d > %d)\n%s", runtime.NumGoroutine(), w.baseG, buf)
	}
	return ""
}

func (w *ctlWorld) prepare(rep int) { w.clock.slot.Store(w.start + uint64(rep)) }

var ctlJobKinds = []string{
	"Attestations for slot %d",
	"Prepare sync committee messages for slot %d",
	"Sync committee messages for slot %d",
	"Sync committee aggregation for slot %d",
	"Beacon block proposal for slot %d",
	"Early beacon block proposal for slot %d",
	"Beacon block attestation aggregation for slot %d committee 0",
	"Beacon block attestation aggregation for slot %d committee 1",
	"Prepare for epoch %d",
}

func depRoot(tag byte, epoch uint64, variant uint64) phase0.Root {
	var r phase0.Root
	r[0], r[1], r[2], r[31] = tag, byte(epoch), byte(variant), 0xd0
	return r
}

func (w *ctlWorld) run(rep int, ri int, _ *Role, op *Op, call uint64) {
	ctx := context.Background()
	cur := w.start + uint64(rep)
	epoch := cur / w.spe
	switch op.K {
	case "head":
		slot := cur
		if op.A == 1 && slot > 0 {
			slot-- // a late event for the previous slot
		}
		// B: 0 = the canonical dependent roots, 1 = another current root, 2 = another previous root
		curV, prevV := uint64(0), uint64(0)
		if op.B == 1 {
			curV = 1
		}
		if op.B == 2 {
			prevV = 1
		}
		w.onHead(&apiv1.Event{Topic: "head", Data: &apiv1.HeadEvent{
			Slot: phase0.Slot(slot), Block: rootOf(slot), State: rootOf(slot + 1),
			CurrentDutyDependentRoot:  depRoot(1, epoch, curV),
			PreviousDutyDependentRoot: depRoot(1, epoch-1, prevV),
		}})
	case "block":
		w.onBlk(&apiv1.Event{Topic: "block", Data: &apiv1.BlockEvent{Slot: phase0.Slot(cur), Block: rootOf(cur)}})
	case "tick":
		w.sched.fire("Epoch ticker")
	case "refreshaccounts":
		w.sched.fire("Account refresh ticker")
	case "prepproposals":
		w.sched.fire("Prepare proposals ticker")
	case "fire":
		kind := ctlJobKinds[op.A%uint64(len(ctlJobKinds))]
		n := cur + op.B%3
		if strings.HasPrefix(kind, "Prepare for epoch") {
			n = epoch + 1
		}
		if w.sched.fire(fmt.Sprintf(kind, n)) {
			w.hit[ri]++
		} else {
			w.miss[ri]++
		}
	case "syncchain":
		// the three jobs of one slot follow each other in production too
		n := cur + op.B%3
		for _, kind := range ctlJobKinds[1:4] {
			if w.sched.fire(fmt.Sprintf(kind, n)) {
				w.hit[ri]++
			} else {
				w.miss[ri]++
			}
		}
	case "attchain":
		n := cur + op.B%3
		for _, kind := range []string{ctlJobKinds[0], ctlJobKinds[6], ctlJobKinds[7]} {
			if w.sched.fire(fmt.Sprintf(kind, n)) {
				w.hit[ri]++
			} else {
				w.miss[ri]++
			}
		}
	case "pending":
		_ = w.svc.HasPendingAttestations(ctx, phase0.Slot(cur+op.B%3))
	default:
		panic("harness: unknown controller op " + op.K)
	}
}

func (w *ctlWorld) finish(rep int) string {
	if why := w.quiesce(); why != "" {
		return why
	}
	// At quiescence no attestation job is executing: a slot that is still marked
	// as having pending attestations must have its job in the table, or the mark
	// stays for ever (main.go waits for it before shutting down).
	ctx := context.Background()
	for slot := w.start - 1; slot <= w.start+uint64(rep)+2*w.spe; slot++ {
		if w.svc.HasPendingAttestations(ctx, phase0.Slot(slot)) && !w.sched.JobExists(ctx, fmt.Sprintf("Attestations for slot %d", slot)) {
			if w.staleMark == "" {
				w.staleMark = fmt.Sprintf("after repetition %d (clock at slot %d): slot %d is marked as having pending attestations but no attestation job for it is scheduled or running", rep, w.start+uint64(rep), slot)
			}
		}
	}
	return ""
}

func (w *ctlWorld) judge(t ev.TB, sc *Scenario) {
	var hit, miss int64
	for i := range w.hit {
		hit += w.hit[i]
		miss += w.miss[i]
	}
	if w.staleMark != "" {
		ev.Violation(t, "pending-attestations-mark-without-job", sc, "%s", w.staleMark)
	}
	ev.LabelN("controller-job-fired", hit)
	ev.LabelN("controller-job-absent", miss)
}
func (w *ctlWorld) close() { w.cancel() }

func init() {
	rep := func(lo, hi int, one func(t *rapid.T) Op) func(t *rapid.T, p map[string]uint64, inst, n int) []Op {
		return func(t *rapid.T, _ map[string]uint64, _, _ int) []Op {
			n := rapid.IntRange(lo, hi).Draw(t, "nOps")
			ops := make([]Op, n)
			for i := range ops {
				ops[i] = one(t)
			}
			return ops
		}
	}
	register(&svcDef{
		name:   "controller",
		weight: 0, // searched by TestControllerScenarios in a process of its own
		reps:   8,
		roles: []roleDef{
			{kind: "headStream", max: 1, why: "head-event subscription goroutine",
				gen: rep(1, 3, func(t *rapid.T) Op {
					return Op{K: "head", A: rapid.SampledFrom([]uint64{0, 0, 0, 1}).Draw(t, "late"), B: rapid.SampledFrom([]uint64{0, 0, 1, 2}).Draw(t, "roots")}
				})},
			{kind: "blockStream", max: 1, why: "block-event subscription goroutine", gen: rep(1, 3, func(*rapid.T) Op { return Op{K: "block"} })},
			{kind: "epochTicker", max: 1, why: "periodic job 'Epoch ticker'", gen: rep(1, 1, func(*rapid.T) Op { return Op{K: "tick"} })},
			{kind: "accountsRefresh", max: 1, why: "periodic job 'Account refresh ticker'", gen: rep(1, 2, func(*rapid.T) Op { return Op{K: "refreshaccounts"} })},
			{kind: "proposalsPrep", max: 1, why: "periodic job 'Prepare proposals ticker'", gen: rep(1, 2, func(*rapid.T) Op { return Op{K: "prepproposals"} })},
			{kind: "jobs", max: 3, why: "one-off jobs scheduled by the controller, one goroutine each",
				gen: rep(1, 5, func(t *rapid.T) Op {
					k := rapid.SampledFrom([]string{"fire", "syncchain", "attchain"}).Draw(t, "jobOp")
					op := Op{K: k, B: rapid.Uint64Range(0, 2).Draw(t, "ahead")}
					if k == "fire" {
						op.A = rapid.Uint64Range(0, uint64(len(ctlJobKinds)-1)).Draw(t, "job")
					}
					return op
				})},
			{kind: "shutdownQuery", max: 1, why: "main goroutine: HasPendingAttestations while shutting down",
				gen: rep(1, 4, func(t *rapid.T) Op { return Op{K: "pending", B: rapid.Uint64Range(0, 2).Draw(t, "ahead")} })},
		},
		params: func(t *rapid.T) map[string]uint64 {
			p := map[string]uint64{
				"vals":          rapid.Uint64Range(1, 6).Draw(t, "vals"),
				"start":         rapid.SampledFrom([]uint64{0, 3, 5, 6, 7}).Draw(t, "start"),
				"proposalDelay": rapid.SampledFrom([]uint64{0, 2}).Draw(t, "proposalDelay"),
				"fastAtt":       rapid.Uint64Range(0, 1).Draw(t, "fastAtt"),
				"fastSync":      rapid.Uint64Range(0, 1).Draw(t, "fastSync"),
				"pre":           rapid.SampledFrom([]uint64{0, 98, 110}).Draw(t, "pre"),
				"due":           rapid.SampledFrom([]uint64{0, 1, 2, 2}).Draw(t, "due"),
				"offset":        rapid.SampledFrom([]uint64{0, 5, 11}).Draw(t, "offset"),
			}
			genFaults(t, p)
			return p
		},
		build: buildController,
	})
}
