package c17

import (
	"context"

	"pgregory.net/rapid"
)

// Scripted faults.  Whether a double fails a given call is a pure function of
// the scenario: of its fault seed and rate (parameters "fseed", "frate"), of
// the kind of fault, and of a key that identifies the call - the operation of
// the role that caused it (carried in the context where vouch passes the
// context through) and/or the arguments of the call (slot, epoch, account).
// No state, no randomness of its own, no ordering between goroutines.

type faults struct{ seed, rate uint64 }

func newFaults(p map[string]uint64) faults { return faults{seed: p["fseed"], rate: p["frate"]} }

func (f faults) hit(kind string, key uint64) bool {
	if f.rate == 0 {
		return false
	}
	h := uint64(14695981039346656037) ^ f.seed
	for i := 0; i < len(kind); i++ {
		h = (h ^ uint64(kind[i])) * 1099511628211
	}
	for i := 0; i < 8; i++ {
		h = (h ^ (key >> (8 * uint(i)) & 0xff)) * 1099511628211
	}
	h ^= h >> 29
	return h%100 < f.rate
}

type callKey struct{}

func withCall(ctx context.Context, call uint64) context.Context {
	return context.WithValue(ctx, callKey{}, call)
}

// callOf: the operation a call belongs to, 0 if the context does not carry one
// (vouch started from a context of its own).
func callOf(ctx context.Context) uint64 {
	c, _ := ctx.Value(callKey{}).(uint64)
	return c
}

// genFaults draws the fault parameters of a scenario.
func genFaults(t *rapid.T, p map[string]uint64) {
	p["frate"] = rapid.SampledFrom([]uint64{0, 0, 10, 25, 50}).Draw(t, "faultRate")
	if p["frate"] > 0 {
		p["fseed"] = rapid.Uint64Range(1, 1<<20).Draw(t, "faultSeed")
	}
}
