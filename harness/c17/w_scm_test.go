package c17

import (
	"context"
	"crypto/sha256"
	"fmt"
	"sync"

	"github.com/attestantio/go-eth2-client/api"
	"github.com/attestantio/go-eth2-client/spec/altair"
	"github.com/attestantio/go-eth2-client/spec/phase0"
	nullmetrics "github.com/attestantio/vouch/services/metrics/null"
	"github.com/attestantio/vouch/services/synccommitteeaggregator"
	standardaggregator "github.com/attestantio/vouch/services/synccommitteeaggregator/standard"
	"github.com/attestantio/vouch/services/synccommitteemessenger"
	standardmessenger "github.com/attestantio/vouch/services/synccommitteemessenger/standard"
	"github.com/prysmaticlabs/go-bitfield"
	"github.com/rs/zerolog"
	e2wtypes "github.com/wealdtech/go-eth2-wallet-types/v2"
	"pgregory.net/rapid"

	"verifharness/internal/ev"
)

// World of the real services/synccommitteemessenger/standard together with the
// real services/synccommitteeaggregator/standard.
//
// Roles (why each has a goroutine of its own in production):
//
//	slotJobs   the controller (controller/standard/synccommitteemessenger.go)
//	           schedules per slot the one-off jobs "Prepare sync committee
//	           messages for slot N" -> Prepare, then "Sync committee messages
//	           for slot N" -> Message, then "Sync committee aggregation for slot
//	           N" -> Aggregate.  The three jobs of one slot follow each other
//	           (each is scheduled when its predecessor has finished); the jobs
//	           of different slots are independent goroutines (prepare runs 1.5
//	           slots ahead of the message job of an earlier slot).  A role owns
//	           its slots: no slot is worked on by two roles.
//	headEvent  controller.HandleHeadEvent on the head-event subscription's
//	           goroutine: VerifySyncCommitteeMessages -> GetDataUsedForSlot(slot-1),
//	           then RemoveHistoricDataUsedForSlotVerification(slot).
//
// scmCrashSig: on a tree where the slot records are read without the lock the
// overlap of a head event with a message job can abort the process (Go's
// "concurrent map read and map write").  While that is a listed open finding
// the overlap is excluded by construction - the record lookup and Message are
// serialised by a lock of the harness - because a dead shard cannot be counted
// as a known finding.  The race reports of the same root cause are listed
// separately; everything else is searched as usual.
const scmCrashSig = "fatal:concurrent-map-read-and-map-write:services/synccommitteemessenger/standard.(*Service).GetDataUsedForSlot"

// guardedMessenger is what the controller (or the scm world) talks to.
type guardedMessenger struct {
	inner *standardmessenger.Service
	guard bool
	mu    sync.Mutex
}

func (g *guardedMessenger) Prepare(ctx context.Context, duty *synccommitteemessenger.Duty) error {
	return g.inner.Prepare(ctx, duty)
}

func (g *guardedMessenger) Message(ctx context.Context, duty *synccommitteemessenger.Duty) ([]*altair.SyncCommitteeMessage, error) {
	if g.guard {
		g.mu.Lock()
		defer g.mu.Unlock()
	}
	return g.inner.Message(ctx, duty)
}

func (g *guardedMessenger) GetDataUsedForSlot(slot phase0.Slot) (synccommitteemessenger.SlotData, bool) {
	if g.guard {
		g.mu.Lock()
		defer g.mu.Unlock()
	}
	return g.inner.GetDataUsedForSlot(slot)
}

func (g *guardedMessenger) RemoveHistoricDataUsedForSlotVerification(slot phase0.Slot) {
	g.inner.RemoveHistoricDataUsedForSlotVerification(slot)
}

func newGuardedMessenger(inner *standardmessenger.Service) *guardedMessenger {
	g := &guardedMessenger{inner: inner, guard: ev.IsKnown(scmCrashSig)}
	if g.guard {
		ev.KnownHit(scmCrashSig)
	}
	return g
}

type scmWorld struct {
	sc     *Scenario
	clock  *clock
	accts  *fixedAccounts
	msgr   *guardedMessenger
	agg    *standardaggregator.Service
	nVals  uint64
	f      faults
	base   uint64
	duties map[uint64]*synccommitteemessenger.Duty // by slot, rebuilt before each repetition
	// period: the contribution indices shared by all duties of the repetition
	// (inspected at quiescence only); altered: first difference found.
	period  map[phase0.ValidatorIndex][]phase0.CommitteeIndex
	altered string
}

const scmSlotsPerRep = 8

// scmFaults: what the doubles of the sync committee services need to decide
// their scripted faults (see faults_test.go): the scenario's fault function and
// the clock (the controller starts its jobs from a context of its own, so there
// the slot of the repetition stands in for the operation).
type scmFaults struct {
	f   faults
	clk *clock
}

func (s scmFaults) key(ctx context.Context, x uint64) uint64 {
	return callOf(ctx)<<24 ^ s.clk.slot.Load()<<8 ^ x
}

type scmRoots struct{ scmFaults }

func (d scmRoots) BeaconBlockRoot(ctx context.Context, _ *api.BeaconBlockRootOpts) (*api.Response[*phase0.Root], error) {
	if d.f.hit("headroot-err", d.key(ctx, 0)) {
		return nil, strErr("scripted head root failure")
	}
	r := rootOf(7)
	return &api.Response[*phase0.Root]{Data: &r, Metadata: map[string]any{}}, nil
}

type scmSubmitter struct{ scmFaults }

func (d scmSubmitter) SubmitSyncCommitteeMessages(ctx context.Context, msgs []*altair.SyncCommitteeMessage) error {
	if d.f.hit("submitmsg-err", d.key(ctx, uint64(len(msgs)))) {
		return strErr("scripted submission failure")
	}
	return nil
}

func (d scmSubmitter) SubmitSyncCommitteeContributions(ctx context.Context, c []*altair.SignedContributionAndProof) error {
	if d.f.hit("submitcontrib-err", d.key(ctx, uint64(len(c)))) {
		return strErr("scripted submission failure")
	}
	return nil
}

type scmSigner struct{ scmFaults }

func sigFor(tag byte, a e2wtypes.Account, x uint64) phase0.BLSSignature {
	h := sha256.Sum256([]byte(fmt.Sprintf("%d|%d|%d", tag, a.(*fakeAccount).index, x)))
	var s phase0.BLSSignature
	copy(s[:], h[:])
	s[95] = 1
	return s
}

func (d scmSigner) SignSyncCommitteeSelections(ctx context.Context, accounts []e2wtypes.Account, slot phase0.Slot, subcommittees []uint64) ([]phase0.BLSSignature, error) {
	if d.f.hit("signsel-err", d.key(ctx, uint64(slot)%256)) {
		return nil, strErr("scripted signer failure")
	}
	sigs := make([]phase0.BLSSignature, len(accounts))
	for i, a := range accounts {
		sigs[i] = sigFor(1, a, uint64(slot)*16+subcommittees[i])
	}
	return sigs, nil
}

func (d scmSigner) SignSyncCommitteeRoots(ctx context.Context, accounts []e2wtypes.Account, epoch phase0.Epoch, _ phase0.Root) ([]phase0.BLSSignature, error) {
	if d.f.hit("signroots-err", d.key(ctx, uint64(len(accounts)))) {
		return nil, strErr("scripted signer failure")
	}
	sigs := make([]phase0.BLSSignature, len(accounts))
	for i, a := range accounts {
		if a != nil && !d.f.hit("signroots-zero", d.key(ctx, uint64(i))) {
			sigs[i] = sigFor(2, a, uint64(epoch))
		}
	}
	return sigs, nil
}

func (d scmSigner) SignContributionAndProofs(ctx context.Context, accounts []e2wtypes.Account, _ []*altair.ContributionAndProof) ([]phase0.BLSSignature, error) {
	if d.f.hit("signcontrib-err", d.key(ctx, uint64(len(accounts)))) {
		return nil, strErr("scripted signer failure")
	}
	sigs := make([]phase0.BLSSignature, len(accounts))
	for i, a := range accounts {
		sigs[i] = sigFor(3, a, 0)
	}
	return sigs, nil
}

type scmContributions struct{ scmFaults }

func (d scmContributions) SyncCommitteeContribution(ctx context.Context, opts *api.SyncCommitteeContributionOpts) (*api.Response[*altair.SyncCommitteeContribution], error) {
	if d.f.hit("contribution-err", d.key(ctx, uint64(opts.Slot)%64<<2^opts.SubcommitteeIndex)) {
		return nil, strErr("scripted contribution failure")
	}
	bits := bitfield.NewBitvector128()
	bits.SetBitAt(1, true)
	return &api.Response[*altair.SyncCommitteeContribution]{Data: &altair.SyncCommitteeContribution{
		Slot:              opts.Slot,
		BeaconBlockRoot:   opts.BeaconBlockRoot,
		SubcommitteeIndex: opts.SubcommitteeIndex,
		AggregationBits:   bits,
	}, Metadata: map[string]any{}}, nil
}

func buildSCMServices(clk *clock, accts *fixedAccounts, spe uint64, f faults) (*standardmessenger.Service, *standardaggregator.Service, error) {
	ctx := context.Background()
	sf := scmFaults{f: f, clk: clk}
	agg, err := standardaggregator.New(ctx,
		standardaggregator.WithLogLevel(zerolog.Disabled),
		standardaggregator.WithMonitor(nullmetrics.New()),
		standardaggregator.WithSpecProvider(newSpec(spe)),
		standardaggregator.WithBeaconBlockRootProvider(scmRoots{sf}),
		standardaggregator.WithContributionAndProofSigner(scmSigner{sf}),
		standardaggregator.WithValidatingAccountsProvider(accts),
		standardaggregator.WithSyncCommitteeContributionProvider(scmContributions{sf}),
		standardaggregator.WithSyncCommitteeContributionsSubmitter(scmSubmitter{sf}),
		standardaggregator.WithChainTime(clk),
	)
	if err != nil {
		return nil, nil, fmt.Errorf("aggregator: %w", err)
	}
	msgr, err := standardmessenger.New(ctx,
		standardmessenger.WithLogLevel(zerolog.Disabled),
		standardmessenger.WithMonitor(nullmetrics.New()),
		standardmessenger.WithProcessConcurrency(2),
		standardmessenger.WithSpecProvider(newSpec(spe)),
		standardmessenger.WithChainTimeService(clk),
		standardmessenger.WithSyncCommitteeAggregator(agg),
		standardmessenger.WithBeaconBlockRootProvider(scmRoots{sf}),
		standardmessenger.WithSyncCommitteeMessagesSubmitter(scmSubmitter{sf}),
		standardmessenger.WithSyncCommitteeSubscriptionsSubmitter(nopSubscriptions{}),
		standardmessenger.WithValidatingAccountsProvider(accts),
		standardmessenger.WithSyncCommitteeSelectionSigner(scmSigner{sf}),
		standardmessenger.WithSyncCommitteeRootSigner(scmSigner{sf}),
	)
	if err != nil {
		return nil, nil, fmt.Errorf("messenger: %w", err)
	}
	return msgr, agg, nil
}

// newSyncDuty: a validator's account is missing (exited validator still in the
// committee) where the fault script says so.
//
// indices is the validator -> committee indices map of the period.  The
// controller (scheduleSyncCommitteeMessages) builds it once per period and gives
// the SAME map to the duty of every slot, and the messenger keeps it as the
// slot's verification record; so do the worlds here.  The harness never touches
// a map it has handed over while roles run.
func newSyncDuty(accts *fixedAccounts, nVals uint64, slot uint64, f faults, indices map[phase0.ValidatorIndex][]phase0.CommitteeIndex) *synccommitteemessenger.Duty {
	if indices == nil {
		indices = periodIndices(nVals)
	}
	d := synccommitteemessenger.NewDuty(phase0.Slot(slot), indices)
	for v := uint64(0); v < nVals; v++ {
		if f.hit("no-account", slot<<4^v) {
			continue
		}
		d.SetAccount(phase0.ValidatorIndex(v), accts.accts[v])
	}
	return d
}

func periodIndices(nVals uint64) map[phase0.ValidatorIndex][]phase0.CommitteeIndex {
	indices := make(map[phase0.ValidatorIndex][]phase0.CommitteeIndex, nVals)
	for v := uint64(0); v < nVals; v++ {
		indices[phase0.ValidatorIndex(v)] = []phase0.CommitteeIndex{phase0.CommitteeIndex(v), phase0.CommitteeIndex(v + 8)}
	}
	return indices
}

// indicesAltered compares a period's map with what it was built as ("" = equal).
func indicesAltered(indices map[phase0.ValidatorIndex][]phase0.CommitteeIndex, nVals uint64) string {
	want := periodIndices(nVals)
	for v, w := range want {
		got, ok := indices[v]
		if !ok {
			return fmt.Sprintf("validator %d has been removed", v)
		}
		if len(got) != len(w) || got[0] != w[0] || got[1] != w[1] {
			return fmt.Sprintf("validator %d: %v instead of %v", v, got, w)
		}
	}
	if len(indices) != len(want) {
		return fmt.Sprintf("%d entries instead of %d", len(indices), len(want))
	}
	return ""
}

func (w *scmWorld) newDuty(slot uint64) *synccommitteemessenger.Duty {
	return newSyncDuty(w.accts, w.nVals, slot, w.f, w.period)
}

func buildSCM(sc *Scenario) (world, error) {
	w := &scmWorld{sc: sc, nVals: sc.P["vals"], base: 3200, f: newFaults(sc.P)}
	if w.nVals == 0 || w.nVals > 8 {
		return nil, fmt.Errorf("bad parameters")
	}
	w.clock = newClock(32, w.base)
	w.accts = newFixedAccounts(int(w.nVals))
	msgr, agg, err := buildSCMServices(w.clock, w.accts, 32, w.f)
	if err != nil {
		return nil, err
	}
	w.msgr, w.agg = newGuardedMessenger(msgr), agg
	// history of earlier slots (sequential), one period map for all of them
	w.period = periodIndices(w.nVals)
	for i := uint64(0); i < sc.P["pre"]; i++ {
		slot := w.base - sc.P["pre"] + i
		// (a scripted fault may make one of these fail: then that slot has no record)
		_, _ = w.msgr.Message(context.Background(), w.newDuty(slot))
	}
	return w, nil
}

func (w *scmWorld) slotOf(rep int, offset uint64) uint64 {
	return w.base + uint64(rep)*scmSlotsPerRep + offset%scmSlotsPerRep
}

func (w *scmWorld) prepare(rep int) {
	w.clock.slot.Store(w.slotOf(rep, 0))
	w.duties = map[uint64]*synccommitteemessenger.Duty{}
	w.period = periodIndices(w.nVals)
	for o := uint64(0); o < scmSlotsPerRep; o++ {
		w.duties[w.slotOf(rep, o)] = w.newDuty(w.slotOf(rep, o))
	}
}

const (
	stagePrepare = 1 << iota
	stageMessage
	stageAggregate
)

func (w *scmWorld) run(rep int, _ int, _ *Role, op *Op, call uint64) {
	ctx := withCall(context.Background(), call)
	slot := w.slotOf(rep, op.A)
	switch op.K {
	case "slot":
		duty := w.duties[slot]
		if op.B&stagePrepare != 0 {
			if err := w.msgr.Prepare(ctx, duty); err != nil {
				return // the controller does not schedule the message job then
			}
		}
		if op.B&stageMessage != 0 {
			if _, err := w.msgr.Message(ctx, duty); err != nil {
				return
			}
		}
		if op.B&stageAggregate != 0 {
			// what controller.messageSyncCommittee builds after Message
			var vals []phase0.ValidatorIndex
			proofs := map[phase0.ValidatorIndex]map[uint64]phase0.BLSSignature{}
			for _, v := range duty.ValidatorIndices() {
				if sub := duty.AggregatorSubcommittees(v); len(sub) > 0 {
					vals = append(vals, v)
					proofs[v] = sub
				}
			}
			if len(vals) > 0 {
				w.agg.Aggregate(ctx, &synccommitteeaggregator.Duty{Slot: duty.Slot(), ValidatorIndices: vals, SelectionProofs: proofs, Accounts: duty.Accounts()})
			}
		}
	case "verify":
		// (what the record holds is vouch's to read - the controller does - not the harness')
		_, _ = w.msgr.GetDataUsedForSlot(phase0.Slot(slot - 1))
		w.msgr.RemoveHistoricDataUsedForSlotVerification(phase0.Slot(slot))
	default:
		panic("harness: unknown sync committee op " + op.K)
	}
}

// finish: at quiescence the period's contribution indices must be what the
// controller built: a duty is input to Prepare / Message / the verification of
// the next head, shared by every slot of the period, not theirs to alter.
func (w *scmWorld) finish(rep int) string {
	if why := indicesAltered(w.period, w.nVals); why != "" && w.altered == "" {
		w.altered = fmt.Sprintf("after repetition %d: %s", rep, why)
	}
	return ""
}

func (w *scmWorld) judge(t ev.TB, sc *Scenario) {
	if w.altered != "" {
		ev.Violation(t, "duty-contribution-indices-altered", sc, "the contribution indices shared by the duties of a period were altered by the messenger: %s", w.altered)
	}
}
func (w *scmWorld) close() {}

func init() {
	register(&svcDef{
		name:   "scm",
		weight: 2,
		reps:   20,
		roles: []roleDef{
			{kind: "slotJobs", max: 3, why: "per-slot one-off jobs prepare -> message -> aggregate, one goroutine per job, slots independent",
				gen: func(t *rapid.T, _ map[string]uint64, inst, n int) []Op {
					nOps := rapid.IntRange(1, 3).Draw(t, "nOps")
					ops := make([]Op, nOps)
					for i := range ops {
						k := rapid.Uint64Range(0, (scmSlotsPerRep-1-uint64(inst))/uint64(n)).Draw(t, "slotK")
						ops[i] = Op{K: "slot", A: k*uint64(n) + uint64(inst), B: rapid.Uint64Range(1, 7).Draw(t, "stages")}
					}
					return ops
				}},
			{kind: "headEvent", max: 1, why: "head-event handler goroutine (VerifySyncCommitteeMessages, RemoveHistoricDataUsedForSlotVerification)",
				gen: func(t *rapid.T, _ map[string]uint64, _, _ int) []Op {
					nOps := rapid.IntRange(1, 4).Draw(t, "nOps")
					ops := make([]Op, nOps)
					for i := range ops {
						ops[i] = Op{K: "verify", A: rapid.Uint64Range(0, scmSlotsPerRep-1).Draw(t, "slot")}
					}
					return ops
				}},
		},
		params: func(t *rapid.T) map[string]uint64 {
			p := map[string]uint64{
				"vals": rapid.Uint64Range(1, 6).Draw(t, "vals"),
				"pre":  rapid.SampledFrom([]uint64{0, 0, 40, 99, 120}).Draw(t, "pre"),
			}
			genFaults(t, p)
			return p
		},
		build: buildSCM,
	})
}
