package c17

import (
	"context"
	"crypto/ecdsa"
	"crypto/elliptic"
	"crypto/rand"
	"crypto/tls"
	"crypto/x509"
	"crypto/x509/pkix"
	"encoding/pem"
	"fmt"
	"math/big"
	"net"
	"strings"
	"sync"
	"sync/atomic"
	"time"

	dirkam "github.com/attestantio/vouch/services/accountmanager/dirk"
	nullmetrics "github.com/attestantio/vouch/services/metrics/null"
	"github.com/rs/zerolog"
	pb "github.com/wealdtech/eth2-signer-api/pb/v1"
	"google.golang.org/grpc"
	"google.golang.org/grpc/credentials"
	"pgregory.net/rapid"
)

// World of the real services/accountmanager/dirk against an in-process remote
// signer (gRPC Lister service behind mutual TLS, certificates made at run
// time; after harness/c13).  Roles: those of the wallet account manager (see
// w_wallet_test.go) - the callers are the same.

type dirkSigner struct {
	pb.UnimplementedListerServer
	accts []*wAcct

	endpoint   string
	caPEM      []byte
	clientCert []byte
	clientKey  []byte
}

// dirkListMode is what the signer does with wallet w2: 0 lists it, 1 lists it
// as empty, 2 fails.  It is only stored between repetitions (scripted by the
// scenario); the server only loads it.
var dirkListMode atomic.Uint32

// ListAccounts lists the whole wallet of every path.
func (s *dirkSigner) ListAccounts(_ context.Context, in *pb.ListAccountsRequest) (*pb.ListAccountsResponse, error) {
	resp := &pb.ListAccountsResponse{State: pb.ResponseState_SUCCEEDED}
	for _, path := range in.GetPaths() {
		wallet := path
		if i := strings.Index(path, "/"); i >= 0 {
			wallet = path[:i]
		}
		if wallet == "w2" {
			switch dirkListMode.Load() {
			case 1:
				continue
			case 2:
				return nil, strErr("scripted signer failure")
			}
		}
		for _, a := range s.accts {
			if a.wallet != wallet {
				continue
			}
			id := make([]byte, 16)
			id[0], id[15] = 0xc1, byte(a.id)
			resp.Accounts = append(resp.Accounts, &pb.Account{Name: a.wallet + "/" + a.name, PublicKey: a.pubKey[:], Uuid: id})
		}
	}
	return resp, nil
}

var (
	dirkOnce sync.Once
	dirkSig  *dirkSigner
	dirkErr  error
)

func pemBlock(typ string, der []byte) []byte {
	return pem.EncodeToMemory(&pem.Block{Type: typ, Bytes: der})
}

func makeCert(tmpl *x509.Certificate, parent *x509.Certificate, parentKey *ecdsa.PrivateKey) (*x509.Certificate, *ecdsa.PrivateKey, []byte, error) {
	key, err := ecdsa.GenerateKey(elliptic.P256(), rand.Reader)
	if err != nil {
		return nil, nil, nil, err
	}
	signer, signerKey := parent, parentKey
	if parent == nil {
		signer, signerKey = tmpl, key
	}
	der, err := x509.CreateCertificate(rand.Reader, tmpl, signer, &key.PublicKey, signerKey)
	if err != nil {
		return nil, nil, nil, err
	}
	cert, err := x509.ParseCertificate(der)
	return cert, key, der, err
}

func startDirkSigner(accts []*wAcct) (*dirkSigner, error) {
	now := time.Now()
	ca, caKey, caDER, err := makeCert(&x509.Certificate{
		SerialNumber: big.NewInt(1), Subject: pkix.Name{CommonName: "verif C17 CA"},
		NotBefore: now.Add(-time.Hour), NotAfter: now.Add(48 * time.Hour),
		IsCA: true, BasicConstraintsValid: true, KeyUsage: x509.KeyUsageCertSign | x509.KeyUsageDigitalSignature,
	}, nil, nil)
	if err != nil {
		return nil, err
	}
	_, srvKey, srvDER, err := makeCert(&x509.Certificate{
		SerialNumber: big.NewInt(2), Subject: pkix.Name{CommonName: "localhost"},
		NotBefore: now.Add(-time.Hour), NotAfter: now.Add(48 * time.Hour),
		DNSNames: []string{"localhost"}, IPAddresses: []net.IP{net.IPv4(127, 0, 0, 1)},
		KeyUsage: x509.KeyUsageDigitalSignature, ExtKeyUsage: []x509.ExtKeyUsage{x509.ExtKeyUsageServerAuth},
	}, ca, caKey)
	if err != nil {
		return nil, err
	}
	_, cliKey, cliDER, err := makeCert(&x509.Certificate{
		SerialNumber: big.NewInt(3), Subject: pkix.Name{CommonName: "vouch-under-test"},
		NotBefore: now.Add(-time.Hour), NotAfter: now.Add(48 * time.Hour),
		KeyUsage: x509.KeyUsageDigitalSignature, ExtKeyUsage: []x509.ExtKeyUsage{x509.ExtKeyUsageClientAuth},
	}, ca, caKey)
	if err != nil {
		return nil, err
	}
	cliKeyDER, err := x509.MarshalPKCS8PrivateKey(cliKey)
	if err != nil {
		return nil, err
	}
	pool := x509.NewCertPool()
	pool.AddCert(ca)
	tlsCfg := &tls.Config{
		Certificates: []tls.Certificate{{Certificate: [][]byte{srvDER}, PrivateKey: srvKey}},
		ClientAuth:   tls.RequireAndVerifyClientCert,
		ClientCAs:    pool,
		MinVersion:   tls.VersionTLS13,
	}
	lis, err := net.Listen("tcp", "127.0.0.1:0")
	if err != nil {
		return nil, err
	}
	s := &dirkSigner{
		accts:      accts,
		endpoint:   fmt.Sprintf("127.0.0.1:%d", lis.Addr().(*net.TCPAddr).Port),
		caPEM:      pemBlock("CERTIFICATE", caDER),
		clientCert: pemBlock("CERTIFICATE", cliDER),
		clientKey:  pemBlock("PRIVATE KEY", cliKeyDER),
	}
	srv := grpc.NewServer(grpc.Creds(credentials.NewTLS(tlsCfg)))
	pb.RegisterListerServer(srv, s)
	go func() { _ = srv.Serve(lis) }()
	return s, nil
}

func buildDirk(sc *Scenario) (world, error) {
	accts, _, err := walletUniverse()
	if err != nil {
		return nil, err
	}
	// one signer per process: the dirk wallet library pools its connections per
	// address for the life of the process
	dirkOnce.Do(func() { dirkSig, dirkErr = startDirkSigner(accts) })
	if dirkErr != nil {
		return nil, dirkErr
	}
	f := newFaults(sc.P)
	dirkListMode.Store(0)
	vm, err := newValidatorsManager(&valTable{accts: accts, exited: sc.P["exited"], f: f})
	if err != nil {
		return nil, err
	}
	mgr, err := dirkam.New(context.Background(),
		dirkam.WithLogLevel(zerolog.Disabled),
		dirkam.WithMonitor(nullmetrics.New()),
		dirkam.WithClientMonitor(nullmetrics.New()),
		dirkam.WithTimeout(30*time.Second),
		dirkam.WithProcessConcurrency(4),
		dirkam.WithEndpoints([]string{dirkSig.endpoint}),
		dirkam.WithAccountPaths(wSpecs[sc.P["specs"]%uint64(len(wSpecs))]),
		dirkam.WithClientCert(dirkSig.clientCert),
		dirkam.WithClientKey(dirkSig.clientKey),
		dirkam.WithCACert(dirkSig.caPEM),
		dirkam.WithValidatorsManager(laggingVM{vm, time.Duration(sc.P["vmlag"]) * time.Microsecond}),
		dirkam.WithDomainProvider(domainProvider{}),
		dirkam.WithFarFutureEpochProvider(farProvider{}),
		dirkam.WithCurrentEpochProvider(newClock(32, sc.P["epoch"]*32)),
	)
	if err != nil {
		return nil, err
	}
	if got, err := mgr.ValidatingAccountsForEpoch(context.Background(), 3); err != nil || len(got) == 0 {
		return nil, fmt.Errorf("the dirk account manager knows no validating account after construction (%v)", err)
	}
	return &amWorld{accts: accts, mgr: mgr, name: "dirk", nilSeen: make([]string, len(sc.Roles)),
		beforeRep: func(rep int) {
			mode := uint32(0)
			if f.hit("dirk-list-empty", uint64(rep)) {
				mode = 1
			} else if f.hit("dirk-list-err", uint64(rep)) {
				mode = 2
			}
			dirkListMode.Store(mode)
		},
		stop: func() { dirkListMode.Store(0) },
	}, nil
}

func init() {
	register(&svcDef{
		name:   "dirk",
		weight: 2,
		reps:   12,
		roles:  accountManagerRoles(),
		params: func(t *rapid.T) map[string]uint64 {
			p := map[string]uint64{
				"specs":  rapid.Uint64Range(0, uint64(len(wSpecs)-1)).Draw(t, "specs"),
				"exited": rapid.Uint64Range(0, 255).Draw(t, "exited"),
				"epoch":  rapid.SampledFrom([]uint64{0, 5, 6}).Draw(t, "epoch"),
				"vmlag":  rapid.SampledFrom([]uint64{0, 0, 200}).Draw(t, "vmlag"),
			}
			genFaults(t, p)
			return p
		},
		build: buildDirk,
	})
}
