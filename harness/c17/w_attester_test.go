package c17

import (
	"context"
	"fmt"

	"github.com/anishathalye/porcupine"
	"github.com/attestantio/go-eth2-client/api"
	"github.com/attestantio/go-eth2-client/spec/phase0"
	"github.com/attestantio/vouch/services/attester"
	standardattester "github.com/attestantio/vouch/services/attester/standard"
	nullmetrics "github.com/attestantio/vouch/services/metrics/null"
	"github.com/rs/zerolog"
	e2wtypes "github.com/wealdtech/go-eth2-wallet-types/v2"
	"pgregory.net/rapid"

	"verifharness/internal/ev"
)

// World of the real services/attester/standard.
//
// Role attestJob: the controller schedules one job per slot, "Attestations for
// slot N" (controller/standard/attester.go: ScheduleJob(... AttestAndScheduleAggregate)),
// and every job runs on a goroutine of its own; the job of slot N can still be
// running (slow beacon node, slow signer) or be fast-tracked by a head event
// when the job of slot N+1 fires.  After a reorganisation a validator's duty
// can move to another slot of the epoch, so jobs of different slots can name
// the same validator.  Two roles never attest for the same slot at the same
// time (job names are unique per slot); a role may repeat a slot (redelivery
// after a duty refresh).  The epochs of repetition r are E+2r and E+2r+1: like
// production the instance moves forward in time and never sees an epoch more
// than one behind the newest.
type attesterWorld struct {
	sc    *Scenario
	svc   *standardattester.Service
	clock *clock
	accts *fixedAccounts
	spe   uint64
	nVals uint64
	f     faults
	hist  *history
}

type attData struct {
	spe uint64
	f   faults
}

func (d attData) AttestationData(ctx context.Context, opts *api.AttestationDataOpts) (*api.Response[*phase0.AttestationData], error) {
	if d.f.hit("attdata-err", callOf(ctx)<<20^uint64(opts.Slot)) {
		return nil, strErr("scripted attestation data failure")
	}
	epoch := uint64(opts.Slot) / d.spe
	var source uint64
	if epoch > 0 {
		source = epoch - 1
	}
	return &api.Response[*phase0.AttestationData]{Data: &phase0.AttestationData{
		Slot:            opts.Slot,
		Index:           opts.CommitteeIndex,
		BeaconBlockRoot: rootOf(uint64(opts.Slot)),
		Source:          &phase0.Checkpoint{Epoch: phase0.Epoch(source), Root: rootOf(source)},
		Target:          &phase0.Checkpoint{Epoch: phase0.Epoch(epoch), Root: rootOf(epoch)},
	}, Metadata: map[string]any{}}, nil
}

type attSigner struct{ f faults }

func (d attSigner) SignBeaconAttestations(ctx context.Context, accounts []e2wtypes.Account, slot phase0.Slot, _ []phase0.CommitteeIndex,
	_ phase0.Root, _ phase0.Epoch, _ phase0.Root, _ phase0.Epoch, _ phase0.Root,
) ([]phase0.BLSSignature, error) {
	key := callOf(ctx)<<20 ^ uint64(slot)
	if d.f.hit("attsign-err", key) {
		return nil, strErr("scripted signer failure")
	}
	sigs := make([]phase0.BLSSignature, len(accounts))
	for i, a := range accounts {
		if d.f.hit("attsign-zero", key<<5^a.(*fakeAccount).index) {
			continue
		}
		sigs[i][0] = 0x51
		sigs[i][1] = byte(a.(*fakeAccount).index + 1)
	}
	return sigs, nil
}

type attSubmitter struct{ f faults }

func (d attSubmitter) SubmitAttestations(ctx context.Context, atts []*phase0.Attestation) error {
	if len(atts) > 0 && d.f.hit("attsubmit-err", callOf(ctx)<<20^uint64(atts[0].Data.Slot)) {
		return strErr("scripted submission failure")
	}
	return nil
}

func buildAttester(sc *Scenario) (world, error) {
	w := &attesterWorld{sc: sc, spe: sc.P["spe"], nVals: sc.P["vals"], hist: newHistory(len(sc.Roles))}
	if w.spe == 0 || w.nVals == 0 || w.nVals > 16 {
		return nil, fmt.Errorf("bad parameters")
	}
	w.clock = newClock(w.spe, sc.P["epoch"]*w.spe)
	w.f = newFaults(sc.P)
	w.accts = newFixedAccounts(int(w.nVals))
	w.accts.f = w.f
	svc, err := standardattester.New(context.Background(),
		standardattester.WithLogLevel(zerolog.Disabled),
		standardattester.WithProcessConcurrency(2),
		standardattester.WithMonitor(nullmetrics.New()),
		standardattester.WithChainTime(w.clock),
		standardattester.WithSpecProvider(newSpec(w.spe)),
		standardattester.WithAttestationDataProvider(attData{w.spe, w.f}),
		standardattester.WithAttestationsSubmitter(attSubmitter{w.f}),
		standardattester.WithValidatingAccountsProvider(w.accts),
		standardattester.WithBeaconAttestationsSigner(attSigner{w.f}),
	)
	if err != nil {
		return nil, err
	}
	w.svc = svc
	return w, nil
}

func (w *attesterWorld) prepare(rep int) {
	w.clock.slot.Store((w.sc.P["epoch"] + 2*uint64(rep)) * w.spe)
}

type attIn struct {
	epoch uint64
	val   uint64
	slot  uint64
	// faults: the scenario scripts failures of the data provider, signer,
	// submitter or accounts provider, so a call may come back without an
	// attestation for a validator it was the first to claim.
	faults bool
}

// run: op.A = slot offset inside the two epochs of the repetition, op.B = bit
// mask of the validators of the duty.  Validator v sits in committee v%3 at
// position v/3 (distinct per validator, so that the validator of a returned
// attestation can be told from its committee index and aggregation bit).
func (w *attesterWorld) run(rep int, ri int, _ *Role, op *Op, callID uint64) {
	slot := (w.sc.P["epoch"]+2*uint64(rep))*w.spe + op.A%(2*w.spe)
	var vals []phase0.ValidatorIndex
	var committees []phase0.CommitteeIndex
	var positions []uint64
	sizes := map[phase0.CommitteeIndex]uint64{}
	for v := uint64(0); v < w.nVals; v++ {
		if op.B&(1<<v) == 0 {
			continue
		}
		vals = append(vals, phase0.ValidatorIndex(v))
		committees = append(committees, phase0.CommitteeIndex(v%3))
		positions = append(positions, v/3)
		sizes[phase0.CommitteeIndex(v%3)] = 8
	}
	if len(vals) == 0 {
		return
	}
	duty, err := attester.NewDuty(context.Background(), phase0.Slot(slot), 3, vals, committees, positions, sizes)
	if err != nil {
		panic("harness: " + err.Error())
	}
	call := stamp()
	atts, _ := w.svc.Attest(withCall(context.Background(), callID), duty)
	ret := stamp()
	attested := map[uint64]bool{}
	for _, a := range atts {
		for pos := uint64(0); pos < 8; pos++ {
			if a.AggregationBits.BitAt(pos) {
				attested[pos*3+uint64(a.Data.Index)] = true
			}
		}
	}
	for _, v := range vals {
		w.hist.add(ri, attIn{epoch: slot / w.spe, val: uint64(v), slot: slot, faults: w.f.rate > 0}, attested[uint64(v)], call, ret)
	}
}

func (w *attesterWorld) finish(int) string { return "" }
func (w *attesterWorld) close()            {}

// Sequential model of the attested set, per (epoch, validator): test-and-set.
// A call attests for a validator iff no earlier call did so in that epoch.  The
// unit is the (call, validator) pair: the statement of C01/C17 promises one
// attestation per validator and epoch, not that a duty is marked as a whole.
func (w *attesterWorld) judge(t ev.TB, sc *Scenario) {
	parts := map[string][]porcupine.Operation{}
	for _, o := range w.hist.all() {
		in := o.Input.(attIn)
		k := fmt.Sprintf("epoch%d/validator%d", in.epoch, in.val)
		parts[k] = append(parts[k], o)
	}
	model := porcupine.Model{
		Init: func() any { return false },
		Step: func(state, input any, output any) (bool, any) {
			if state.(bool) {
				return !output.(bool), true // never a second attestation
			}
			if input.(attIn).faults {
				return true, true // claimed; whether it was attested depends on the scripted fault
			}
			return output.(bool), true
		},
		DescribeOperation: func(input, output any) string {
			in := input.(attIn)
			return fmt.Sprintf("attest(slot %d, validator %d) -> attested=%v", in.slot, in.val, output.(bool))
		},
	}
	checkPartitions(t, sc, "attester", model, parts)
}

func init() {
	register(&svcDef{
		name:   "attester",
		weight: 2,
		reps:   20,
		roles: []roleDef{
			{kind: "attestJob", max: 4, why: "one-off scheduler jobs 'Attestations for slot N', one goroutine each",
				gen: func(t *rapid.T, p map[string]uint64, inst, n int) []Op {
					nOps := rapid.IntRange(1, 4).Draw(t, "nOps")
					ops := make([]Op, nOps)
					window := 2 * p["spe"]
					for i := range ops {
						// slots congruent to the instance number: two roles never work on the same slot
						k := rapid.Uint64Range(0, (window-1-uint64(inst))/uint64(n)).Draw(t, "slotK")
						mask := rapid.Uint64Range(1, (1<<p["vals"])-1).Draw(t, "valMask")
						ops[i] = Op{K: "attest", A: k*uint64(n) + uint64(inst), B: mask}
					}
					return ops
				}},
		},
		params: func(t *rapid.T) map[string]uint64 {
			p := map[string]uint64{
				"spe":   rapid.SampledFrom([]uint64{4, 8}).Draw(t, "spe"),
				"vals":  rapid.Uint64Range(1, 6).Draw(t, "vals"),
				"epoch": rapid.SampledFrom([]uint64{0, 1, 2, 10}).Draw(t, "epoch"),
			}
			genFaults(t, p)
			return p
		},
		build: buildAttester,
	})
}
