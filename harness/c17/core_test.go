// Package c17 decides property C17: vouch's own concurrency never corrupts its
// state.
//
// A scenario is 2-6 roles.  A role is one of the operations that run on a
// goroutine of their own in production (a scheduler job, the handler of one
// event stream, one REST request, the main goroutine) with a short generated
// list of operations.  All roles of a scenario are released together by a
// barrier and the scenario is repeated against ONE live instance of the real
// service.  The test binary is built with -race.
//
// Oracle:
//
//	(i)   the race detector (judged by the driver from the log: a report whose
//	      two accesses are both in vouch code is a violation),
//	(ii)  no "fatal error: concurrent map ..." (driver),
//	(iii) for the block-root cache and the attester's attested set the recorded
//	      call history is linearizable w.r.t. a sequential map / set model
//	      (porcupine), reported through ev.Violation("not-linearizable:<svc>").
//
// Only overlaps that vouch itself can create are generated: a periodic job and
// the handler of a single event stream appear at most once in a scenario
// (roleDef.max = 1), constructor-only paths run before the roles start.
//
// TestScenarios searches every service but the controller, TestControllerScenarios
// the controller world (a process of its own, see there); C17_ONLY=<svc>[,<svc>]
// restricts the search while developing.
//
// Doubles are stateless or immutable while roles run (no mutex, no shared
// counters) so that they do not add happens-before edges that would hide a race
// from the detector; where production has a lock of its own (the scheduler)
// the double has one too.
package c17

import (
	"encoding/json"
	"fmt"
	"os"
	"path/filepath"
	"runtime"
	"runtime/debug"
	"sort"
	"strings"
	"sync"
	"sync/atomic"
	"testing"
	"time"
	"verifharness/internal/fakes"

	"pgregory.net/rapid"

	"verifharness/internal/ev"
)

// Op is one operation of a role.  The meaning of A and B depends on K.
type Op struct {
	K string `json:"k"`
	A uint64 `json:"a,omitempty"`
	B uint64 `json:"b,omitempty"`
}

// Role is what one goroutine does in every repetition.
type Role struct {
	Kind string `json:"kind"`
	Ops  []Op   `json:"ops"`
}

// Scenario is the reproducible unit.
type Scenario struct {
	Service string            `json:"service"`
	P       map[string]uint64 `json:"p,omitempty"`
	Roles   []Role            `json:"roles"`
	Reps    int               `json:"reps"`
}

// roleDef describes a role kind of a service.
type roleDef struct {
	kind string
	// max: how many goroutines of this kind vouch can have running at once
	// (1 for a periodic job, which the scheduler never overlaps with itself,
	// and for the handler of a single event stream, which is called
	// sequentially).
	max int
	// why: which goroutine runs this in production.
	why string
	// gen draws the op list; inst is the instance number of this kind in the
	// scenario, n the number of instances of this kind.
	gen func(t *rapid.T, p map[string]uint64, inst, n int) []Op
}

// world is one live service instance plus its doubles.
type world interface {
	// prepare runs single-threaded before each repetition.
	prepare(rep int)
	// run executes one op on the calling (role) goroutine.
	// call identifies the operation (repetition, role, position): the doubles derive
	// their scripted faults from it.
	run(rep int, roleIdx int, role *Role, op *Op, call uint64)
	// finish runs single-threaded after all roles of the repetition returned:
	// waits for goroutines started by vouch.  Returns "" or a harness problem.
	finish(rep int) string
	// judge runs after the last repetition (oracle iii).
	judge(t ev.TB, sc *Scenario)
	close()
}

type svcDef struct {
	name   string
	weight int
	reps   int
	roles  []roleDef
	params func(t *rapid.T) map[string]uint64
	build  func(sc *Scenario) (world, error)
}

var services = map[string]*svcDef{}

func register(d *svcDef) { services[d.name] = d }

// serviceNames: the services in a fixed order.  rapid's SampledFrom prefers
// early entries, so the services with the most shared state come first.
func serviceNames() []string {
	order := []string{"relay", "wallet", "bidbest", "strategy", "propbest", "scm", "cache", "dirk", "attester", "vm", "biddeadline", "controller"}
	names := make([]string, 0, len(services))
	for _, n := range order {
		if services[n] != nil {
			names = append(names, n)
		}
	}
	var rest []string
	for n := range services {
		known := false
		for _, o := range order {
			known = known || o == n
		}
		if !known {
			rest = append(rest, n)
		}
	}
	sort.Strings(rest)
	return append(names, rest...)
}

func (d *svcDef) role(kind string) *roleDef {
	for i := range d.roles {
		if d.roles[i].kind == kind {
			return &d.roles[i]
		}
	}
	return nil
}

// ---------------------------------------------------------------------------
// generator

func genScenario(t *rapid.T, names []string) Scenario {
	if only := os.Getenv("C17_ONLY"); only != "" {
		names = strings.Split(only, ",")
	}
	var weighted []string
	for _, n := range names {
		w := services[n].weight
		if w == 0 && len(names) == 1 {
			w = 1
		}
		for i := 0; i < w; i++ {
			weighted = append(weighted, n)
		}
	}
	def := services[rapid.SampledFrom(weighted).Draw(t, "service")]
	sc := Scenario{Service: def.name, Reps: def.reps}
	if def.params != nil {
		sc.P = def.params(t)
	}
	capacity := 0
	for _, r := range def.roles {
		capacity += r.max
	}
	hi := 6
	if capacity < hi {
		hi = capacity
	}
	n := rapid.IntRange(2, hi).Draw(t, "nRoles")
	count := map[string]int{}
	var kinds []string
	for len(kinds) < n {
		var avail []string
		for _, r := range def.roles {
			// weighted by the remaining capacity: a kind that can have three
			// goroutines at once is drawn three times as often
			for k := count[r.kind]; k < r.max; k++ {
				avail = append(avail, r.kind)
			}
		}
		k := rapid.SampledFrom(avail).Draw(t, "role")
		count[k]++
		kinds = append(kinds, k)
	}
	inst := map[string]int{}
	for _, k := range kinds {
		ops := def.role(k).gen(t, sc.P, inst[k], count[k])
		inst[k]++
		sc.Roles = append(sc.Roles, Role{Kind: k, Ops: ops})
	}
	return sc
}

func validate(sc *Scenario) error {
	def := services[sc.Service]
	if def == nil {
		return fmt.Errorf("unknown service %q", sc.Service)
	}
	if len(sc.Roles) < 1 || sc.Reps < 1 {
		return fmt.Errorf("scenario without roles or repetitions")
	}
	count := map[string]int{}
	for _, r := range sc.Roles {
		rd := def.role(r.Kind)
		if rd == nil {
			return fmt.Errorf("unknown role %q of %s", r.Kind, sc.Service)
		}
		count[r.Kind]++
		if count[r.Kind] > rd.max {
			return fmt.Errorf("role %q more than %d times: not an overlap vouch can create", r.Kind, rd.max)
		}
	}
	return nil
}

// nontrivial: at least two roles that differ in kind or in what they do, i.e.
// two different production goroutines working on the same service instance.
func nontrivial(sc *Scenario) bool {
	seen := map[string]bool{}
	for _, r := range sc.Roles {
		if len(r.Ops) == 0 {
			continue
		}
		b, _ := json.Marshal(r)
		seen[string(b)] = true
	}
	return len(seen) >= 2
}

func labels(sc *Scenario) []string {
	l := []string{"service=" + sc.Service, fmt.Sprintf("roles=%d", len(sc.Roles)), fmt.Sprintf("fault-rate=%d%%", sc.P["frate"])}
	kinds := map[string]bool{}
	for _, r := range sc.Roles {
		if !kinds[r.Kind] {
			l = append(l, "role="+sc.Service+"."+r.Kind)
		}
		kinds[r.Kind] = true
	}
	ks := make([]string, 0, len(kinds))
	for k := range kinds {
		ks = append(ks, k)
	}
	sort.Strings(ks)
	if len(ks) >= 2 {
		// every unordered pair of kinds that overlap in this scenario
		for i := range ks {
			for j := i + 1; j < len(ks); j++ {
				l = append(l, "pair="+sc.Service+":"+ks[i]+"+"+ks[j])
			}
		}
	}
	return l
}

// ---------------------------------------------------------------------------
// execution

func announce(sc *Scenario) string {
	h := fmt.Sprintf("%016x", ev.Hash(sc))
	if dir := os.Getenv("VERIF_SCENARIO_DIR"); dir != "" {
		if b, err := json.MarshalIndent(sc, "", " "); err == nil {
			p := filepath.Join(dir, h+".json")
			if _, err := os.Stat(p); err != nil {
				_ = os.WriteFile(p, b, 0o644)
			}
		}
	}
	// The driver attributes the race reports that follow in the log to this scenario.
	fmt.Fprintln(os.Stdout, "C17-SCENARIO "+h)
	return h
}

// topVouchFrame returns the innermost non-test vouch function of a stack dump.
func topVouchFrame(stack string) string {
	lines := strings.Split(stack, "\n")
	for i, l := range lines {
		if strings.HasPrefix(l, "github.com/attestantio/vouch/") {
			if i+1 < len(lines) && strings.Contains(lines[i+1], "_test.go") {
				continue
			}
			fn := strings.TrimPrefix(l, "github.com/attestantio/vouch/")
			if k := strings.LastIndex(fn, "("); k > 0 {
				fn = fn[:k]
			}
			return fn
		}
	}
	return "?"
}

const watchdog = 120 * time.Second

// execute builds the world and runs the scenario reps times.
func execute(t ev.TB, sc *Scenario, reps int) {
	if err := validate(sc); err != nil {
		t.Fatalf("harness: invalid scenario: %v", err)
	}
	def := services[sc.Service]
	announce(sc)
	w, err := def.build(sc)
	if err != nil {
		t.Fatalf("harness: cannot build %s: %v", sc.Service, err)
	}
	defer w.close()
	for rep := 0; rep < reps; rep++ {
		w.prepare(rep)
		start := make(chan struct{})
		var wg sync.WaitGroup
		// A panic in a role is recovered (and reported); vouch may have been holding a
		// lock at that point, so the rest of the scenario cannot be trusted to return.
		panics := make([]atomic.Pointer[string], len(sc.Roles))
		gids := make([]atomic.Int64, len(sc.Roles))    // goroutine id of each role
		returned := make([]atomic.Bool, len(sc.Roles)) // set when the role is through
		for i := range sc.Roles {
			wg.Add(1)
			go func(i int) {
				defer wg.Done()
				defer returned[i].Store(true)
				gids[i].Store(goroutineID())
				defer func() {
					if r := recover(); r != nil {
						p := fmt.Sprintf("%v\n%s", r, debug.Stack())
						panics[i].Store(&p)
					}
				}()
				role := &sc.Roles[i]
				<-start
				for j := range role.Ops {
					w.run(rep, i, role, &role.Ops[j], uint64(rep+1)<<24|uint64(i+1)<<12|uint64(j+1))
				}
			}(i)
		}
		close(start)
		done := make(chan struct{})
		go func() { wg.Wait(); close(done) }()
		panicked := func() bool {
			for i := range panics {
				if panics[i].Load() != nil {
					return true
				}
			}
			return false
		}
		began := time.Now()
		var sincePanic, lastDeadlockCheck time.Time
		tick := time.NewTicker(50 * time.Millisecond)
	wait:
		for {
			select {
			case <-done:
				break wait
			case <-tick.C:
				if panicked() {
					if sincePanic.IsZero() {
						sincePanic = time.Now()
					} else if time.Since(sincePanic) > 500*time.Millisecond {
						break wait // the other roles are stuck behind what the panic left behind
					}
				}
				if !panicked() && time.Since(began) > deadlockBound && time.Since(lastDeadlockCheck) > time.Second {
					var stuck []int64
					for i := range gids {
						if !returned[i].Load() {
							stuck = append(stuck, gids[i].Load())
						}
					}
					sig, detail := detectDeadlock(stuck)
					lastDeadlockCheck = time.Now()
					if sig != "" {
						select {
						case <-done: // it did return after all
							break wait
						default:
						}
						tick.Stop()
						ev.Violation(t, sig, sc, "repetition %d: %d of %d roles never return; every goroutine of vouch is parked on a lock, semaphore or channel inside vouch:\n%s", rep, len(stuck), len(sc.Roles), detail)
						// (a listed open finding: counted) nothing more can be learnt from this instance
						ev.Label("scenario-abandoned-after-deadlock")
						return
					}
				}
				if time.Since(began) > watchdog {
					buf := make([]byte, 1<<20)
					buf = buf[:runtime.Stack(buf, true)]
					tick.Stop()
					t.Fatalf("harness: watchdog: roles of repetition %d did not return within %s\n%s", rep, watchdog, buf)
				}
			}
		}
		tick.Stop()
		if panicked() {
			for i := range panics {
				if p := panics[i].Load(); p != nil {
					ev.Violation(t, "panic:"+topVouchFrame(*p), sc, "role %d (%s) panicked in repetition %d: %s", i, sc.Roles[i].Kind, rep, *p)
				}
			}
			// (a listed open finding: counted) the instance is in an undefined state, give the scenario up
			ev.Label("scenario-abandoned-after-panic")
			return
		}
		if why := w.finish(rep); why != "" {
			t.Fatalf("harness: %s (repetition %d)", why, rep)
		}
	}
	w.judge(t, sc)
}

// check is what the property and the replay share.
func check(t ev.TB, sc *Scenario) {
	execute(t, sc, sc.Reps)
	nt := nontrivial(sc)
	ev.Case(nt, ev.Hash(sc), labels(sc)...)
	if nt {
		ev.Sample(sc)
	}
}

// ---------------------------------------------------------------------------
// goroutine quiescence for worlds in which vouch starts goroutines of its own

// waitGoroutines waits until the number of goroutines has been <= base for
// three consecutive polls.
func waitGoroutines(base int, limit time.Duration) bool {
	deadline := time.Now().Add(limit)
	ok := 0
	for i := 0; ; i++ {
		if runtime.NumGoroutine() <= base {
			ok++
			if ok >= 3 {
				// confirm with a consistent (stop-the-world) count: NumGoroutine can be transiently too low
				if fakes.GoroutineCount() <= base {
					return true
				}
				ok = 0
			}
		} else {
			ok = 0
		}
		if time.Now().After(deadline) {
			return false
		}
		if i < 50 {
			runtime.Gosched()
		} else {
			time.Sleep(200 * time.Microsecond)
		}
	}
}

// ---------------------------------------------------------------------------
// tests

// TestScenarios is the search over every service but the controller.
func TestScenarios(t *testing.T) {
	names := serviceNames()
	rapid.Check(t, func(rt *rapid.T) {
		sc := genScenario(rt, names)
		check(rt, &sc)
	})
}

// TestControllerScenarios is the search over the controller world.  It has a
// process of its own because the world waits for the goroutines the controller
// starts by watching the goroutine count, which the HTTP and gRPC machinery of
// the other worlds would disturb.
func TestControllerScenarios(t *testing.T) {
	rapid.Check(t, func(rt *rapid.T) {
		sc := genScenario(rt, []string{"controller"})
		check(rt, &sc)
	})
}

// TestReplay re-executes a saved scenario many times (races are schedule
// dependent).  The file is either the scenario as written by announce or a
// case wrapped by ev.Violation.
func TestReplay(t *testing.T) {
	f := ev.ReplayFile()
	if f == "" {
		t.Skip("no replay file")
	}
	b, err := os.ReadFile(f)
	if err != nil {
		t.Fatalf("harness: cannot read %s: %v", f, err)
	}
	var sc Scenario
	var wrapped struct {
		Case *Scenario `json:"case"`
	}
	if err := json.Unmarshal(b, &wrapped); err == nil && wrapped.Case != nil {
		sc = *wrapped.Case
	} else if err := json.Unmarshal(b, &sc); err != nil {
		t.Fatalf("harness: cannot parse %s: %v", f, err)
	}
	rounds := 10
	if ev.Tier() == "thorough" {
		rounds = 40
	}
	for i := 0; i < rounds; i++ {
		// a fresh service instance per round, the scenario's repetitions each
		execute(t, &sc, sc.Reps)
	}
	ev.Case(nontrivial(&sc), ev.Hash(&sc), labels(&sc)...)
	ev.ReplayPassed()
}
