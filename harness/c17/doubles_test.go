package c17

import (
	"context"
	"sync/atomic"
	"time"

	consensusclient "github.com/attestantio/go-eth2-client"
	"github.com/attestantio/go-eth2-client/api"
	apiv1 "github.com/attestantio/go-eth2-client/api/v1"
	"github.com/attestantio/go-eth2-client/spec/phase0"
	"github.com/google/uuid"
	e2types "github.com/wealdtech/go-eth2-types/v2"
	e2wtypes "github.com/wealdtech/go-eth2-wallet-types/v2"
)

// clock implements chaintime.Service without a lock (the real chaintime
// service has none either: it computes from time.Now()).  The current slot is
// only stored between repetitions; role goroutines only load it.
type clock struct {
	genesis time.Time
	slotDur time.Duration
	spe     uint64
	slot    atomic.Uint64
}

func newClock(spe uint64, slot uint64) *clock {
	c := &clock{genesis: time.Unix(1600000000, 0), slotDur: 12 * time.Second, spe: spe}
	c.slot.Store(slot)
	return c
}

func (c *clock) GenesisTime() time.Time { return c.genesis }
func (c *clock) StartOfSlot(slot phase0.Slot) time.Time {
	return c.genesis.Add(time.Duration(slot) * c.slotDur)
}
func (c *clock) StartOfEpoch(epoch phase0.Epoch) time.Time {
	return c.genesis.Add(time.Duration(uint64(epoch)*c.spe) * c.slotDur)
}
func (c *clock) CurrentSlot() phase0.Slot   { return phase0.Slot(c.slot.Load()) }
func (c *clock) CurrentEpoch() phase0.Epoch { return phase0.Epoch(c.slot.Load() / c.spe) }
func (c *clock) SlotToEpoch(slot phase0.Slot) phase0.Epoch {
	return phase0.Epoch(uint64(slot) / c.spe)
}
func (c *clock) FirstSlotOfEpoch(epoch phase0.Epoch) phase0.Slot {
	return phase0.Slot(uint64(epoch) * c.spe)
}

// ---- accounts (immutable)

type fakeKey []byte

func (k fakeKey) Marshal() []byte             { return []byte(k) }
func (k fakeKey) Aggregate(e2types.PublicKey) {}
func (k fakeKey) Copy() e2types.PublicKey     { return append(fakeKey(nil), k...) }

type fakeWallet struct{ name string }

func (w *fakeWallet) ID() uuid.UUID { return uuid.UUID{} }
func (w *fakeWallet) Type() string  { return "fake" }
func (w *fakeWallet) Name() string  { return w.name }
func (w *fakeWallet) Version() uint { return 1 }
func (w *fakeWallet) Accounts(context.Context) <-chan e2wtypes.Account {
	ch := make(chan e2wtypes.Account)
	close(ch)
	return ch
}

type fakeAccount struct {
	index  uint64
	name   string
	wallet *fakeWallet
	key    fakeKey
}

func (a *fakeAccount) ID() uuid.UUID                { return uuid.UUID{} }
func (a *fakeAccount) Name() string                 { return a.name }
func (a *fakeAccount) PublicKey() e2types.PublicKey { return a.key }
func (a *fakeAccount) Wallet() e2wtypes.Wallet      { return a.wallet }

func pubKeyOf(index uint64) phase0.BLSPubKey {
	var k phase0.BLSPubKey
	k[0] = 0xa0
	k[1] = byte(index >> 8)
	k[2] = byte(index)
	k[47] = 0x17
	return k
}

func newFakeAccount(index uint64) *fakeAccount {
	k := pubKeyOf(index)
	return &fakeAccount{index: index, name: "acct" + string(rune('a'+index%26)), wallet: &fakeWallet{name: "wallet"}, key: fakeKey(k[:])}
}

// fixedAccounts is an immutable accounts provider: every account validates in
// every epoch.
type fixedAccounts struct {
	accts []*fakeAccount
	f     faults
}

func newFixedAccounts(n int) *fixedAccounts {
	f := &fixedAccounts{}
	for i := 0; i < n; i++ {
		f.accts = append(f.accts, newFakeAccount(uint64(i)))
	}
	return f
}

func (f *fixedAccounts) all() map[phase0.ValidatorIndex]e2wtypes.Account {
	res := make(map[phase0.ValidatorIndex]e2wtypes.Account, len(f.accts))
	for _, a := range f.accts {
		res[phase0.ValidatorIndex(a.index)] = a
	}
	return res
}

func (f *fixedAccounts) byIndex(indices []phase0.ValidatorIndex) map[phase0.ValidatorIndex]e2wtypes.Account {
	res := make(map[phase0.ValidatorIndex]e2wtypes.Account, len(indices))
	for _, i := range indices {
		if int(i) < len(f.accts) {
			res[i] = f.accts[i]
		}
	}
	return res
}

func (f *fixedAccounts) ValidatingAccountsForEpoch(context.Context, phase0.Epoch) (map[phase0.ValidatorIndex]e2wtypes.Account, error) {
	return f.all(), nil
}

func (f *fixedAccounts) ValidatingAccountsForEpochByIndex(ctx context.Context, epoch phase0.Epoch, indices []phase0.ValidatorIndex) (map[phase0.ValidatorIndex]e2wtypes.Account, error) {
	if f.f.hit("accounts-err", callOf(ctx)<<16^uint64(epoch)<<4^uint64(len(indices))) {
		return nil, strErr("scripted accounts failure")
	}
	return f.byIndex(indices), nil
}

func (f *fixedAccounts) SyncCommitteeAccountsForEpoch(context.Context, phase0.Epoch) (map[phase0.ValidatorIndex]e2wtypes.Account, error) {
	return f.all(), nil
}

// SyncCommitteeAccountsForEpochByIndex: a validator that is still in the sync
// committee may have no account any more (exited); scripted by the scenario.
func (f *fixedAccounts) SyncCommitteeAccountsForEpochByIndex(_ context.Context, epoch phase0.Epoch, indices []phase0.ValidatorIndex) (map[phase0.ValidatorIndex]e2wtypes.Account, error) {
	res := f.byIndex(indices)
	for v := range res {
		if f.f.hit("no-account", uint64(epoch)<<4^uint64(v)) {
			delete(res, v)
		}
	}
	return res, nil
}

func (f *fixedAccounts) AccountByPublicKey(_ context.Context, pubkey phase0.BLSPubKey) (e2wtypes.Account, error) {
	for _, a := range f.accts {
		if pubKeyOf(a.index) == pubkey {
			return a, nil
		}
	}
	return nil, errUnknown
}

func (f *fixedAccounts) Refresh(context.Context) {}

type strErr string

func (e strErr) Error() string { return string(e) }

const errUnknown = strErr("unknown")

// ---- event subscriptions: captured at construction, read-only afterwards

type eventsCapture struct {
	handlers map[string][]consensusclient.EventHandlerFunc
}

func newEventsCapture() *eventsCapture {
	return &eventsCapture{handlers: map[string][]consensusclient.EventHandlerFunc{}}
}

func (e *eventsCapture) Events(_ context.Context, topics []string, handler consensusclient.EventHandlerFunc) error {
	for _, t := range topics {
		e.handlers[t] = append(e.handlers[t], handler)
	}
	return nil
}

// ---- spec

type specProvider struct{ m map[string]any }

func (s specProvider) Spec(context.Context, *api.SpecOpts) (*api.Response[map[string]any], error) {
	return &api.Response[map[string]any]{Data: s.m, Metadata: map[string]any{}}, nil
}

func newSpec(spe uint64) specProvider {
	return specProvider{m: map[string]any{
		"SECONDS_PER_SLOT":                         12 * time.Second,
		"SLOTS_PER_EPOCH":                          spe,
		"EPOCHS_PER_SYNC_COMMITTEE_PERIOD":         uint64(4),
		"SYNC_COMMITTEE_SIZE":                      uint64(32),
		"SYNC_COMMITTEE_SUBNET_COUNT":              uint64(4),
		"TARGET_AGGREGATORS_PER_SYNC_SUBCOMMITTEE": uint64(4),
		"TARGET_AGGREGATORS_PER_COMMITTEE":         uint64(16),
		"ALTAIR_FORK_EPOCH":                        uint64(0),
		"BELLATRIX_FORK_EPOCH":                     uint64(0),
		"CAPELLA_FORK_EPOCH":                       uint64(0),
	}}
}

func rootOf(i uint64) phase0.Root {
	var r phase0.Root
	r[0] = byte(i + 1)
	r[1] = byte((i + 1) >> 8)
	r[31] = 0xc1
	return r
}

type nopSubscriptions struct{}

func (nopSubscriptions) SubmitSyncCommitteeSubscriptions(context.Context, []*apiv1.SyncCommitteeSubscription) error {
	return nil
}
