package c17

import (
	"testing"

	"github.com/rs/zerolog"
	"go.opentelemetry.io/otel"
	"go.opentelemetry.io/otel/trace/noop"

	"verifharness/internal/ev"
)

func TestMain(m *testing.M) {
	zerolog.SetGlobalLevel(zerolog.Disabled)
	// The default global tracer provider of otel takes a mutex on every
	// otel.Tracer() call.  That mutex is not part of vouch's synchronisation
	// (with tracing configured vouch installs the SDK provider, which has no
	// such lock on this path), but it would add happens-before edges between
	// all goroutines that enter a traced function and so hide races from the
	// detector.  A no-op provider is installed instead: a plain atomic load.
	otel.SetTracerProvider(noop.NewTracerProvider())
	ev.Main(m, "C17")
}
