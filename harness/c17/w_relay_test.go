package c17

import (
	"context"
	"fmt"
	"math/big"
	"net/http"
	"net/http/httptest"
	"reflect"
	"sync"
	"sync/atomic"
	"time"
	"unsafe"

	"github.com/attestantio/go-block-relay/services/blockauctioneer"
	relaytypes "github.com/attestantio/go-block-relay/types"
	builderclient "github.com/attestantio/go-builder-client"
	builderapi "github.com/attestantio/go-builder-client/api"
	"github.com/attestantio/go-builder-client/api/deneb"
	builderspec "github.com/attestantio/go-builder-client/spec"
	consensusclient "github.com/attestantio/go-eth2-client"
	"github.com/attestantio/go-eth2-client/api"
	apiv1 "github.com/attestantio/go-eth2-client/api/v1"
	"github.com/attestantio/go-eth2-client/spec"
	"github.com/attestantio/go-eth2-client/spec/bellatrix"
	"github.com/attestantio/go-eth2-client/spec/phase0"
	"github.com/attestantio/vouch/services/beaconblockproposer"
	"github.com/attestantio/vouch/services/blockrelay"
	standardrelay "github.com/attestantio/vouch/services/blockrelay/standard"
	nullmetrics "github.com/attestantio/vouch/services/metrics/null"
	"github.com/holiman/uint256"
	"github.com/rs/zerolog"
	"github.com/spf13/viper"
	e2wtypes "github.com/wealdtech/go-eth2-wallet-types/v2"
	"golang.org/x/sync/semaphore"
	"pgregory.net/rapid"

	"verifharness/internal/ev"
	"verifharness/internal/fakes"
)

// World of the real services/blockrelay/standard (with the real v1 and v2
// configuration types behind it).
//
// Roles (why each has a goroutine of its own in production; all in
// blockrelay/standard/service.go:New unless said otherwise):
//
//	cfgRefresh     periodic scheduler job "Fetch execution configuration".
//	registrations  periodic scheduler job "Submit validator registrations".
//	proposerConfig ProposerConfig from the proposer's "Beacon block proposal for
//	               slot N" jobs (beaconblockproposer/standard) and the proposal
//	               preparer's periodic job.
//	auction        AuctionBlock from the "Early beacon block proposal" jobs.
//	explicitRegs   SubmitValidatorRegistrations(ctx, accounts): the public entry
//	               point of the registration logic (interface
//	               blockrelay.ValidatorRegistrationsSubmitter).  Nothing in vouch
//	               calls it today, but it is exported API that is not behind the
//	               round's activity semaphore, so it is generated (at the lead's
//	               request) against the scheduled round and against itself, with
//	               accounts that are new in every repetition.
//	restBid        BuilderBid: one goroutine per HTTP request of the REST daemon
//	               (restdaemon.WithBuilderBidProvider(s)); several beacon nodes ask.
//	restRegs       ValidatorRegistrations: REST daemon request goroutine
//	               (restdaemon.WithValidatorRegistrar(s)).
//
// The goroutine that New starts for the initial registration round is awaited
// before the roles start.  The configuration source answers with the bodies
// of the scenario's sequence in turn (a configuration file / URL can change
// between two refreshes), including legacy (unversioned, v1) bodies.
type relayWorld struct {
	sc      *Scenario
	svc     *standardrelay.Service
	cancel  context.CancelFunc
	clock   *clock
	accts   *fixedAccounts
	bodies  [][]byte
	fetches atomic.Uint64 // only touched by the construction and by the cfgRefresh role
	f       faults
	fetchFn func(context.Context)

	// sequential-consistency oracle for REST builder-bid requests (parameter "seqbid")
	seq          bool
	seqMu        sync.Mutex
	auctions     map[bidTriple]int  // all auctions per triple
	restAuctions map[bidTriple]int  // those started by a REST request
	bidObs       [][]bidObservation // per role (own goroutine only)
	regFn        func(context.Context)

	constructing atomic.Bool
	accountCalls atomic.Uint64
}

var (
	relayOnce sync.Once
	relayURLs []string
)

func relayServers() []string {
	relayOnce.Do(func() {
		viper.SetDefault("timeout", 10*time.Second)
		for i := 0; i < 3; i++ {
			status := http.StatusOK
			if i == 2 {
				status = http.StatusServiceUnavailable // the third relay is down
			}
			srv := httptest.NewServer(http.HandlerFunc(func(w http.ResponseWriter, _ *http.Request) {
				w.Header().Set("Content-Type", "application/json")
				w.WriteHeader(status)
				_, _ = w.Write([]byte("{}"))
			}))
			relayURLs = append(relayURLs, srv.URL)
		}
	})
	return relayURLs
}

// Fetch implements majordomo.Service.
func (w *relayWorld) Fetch(ctx context.Context, _ string) ([]byte, error) {
	n := w.fetches.Add(1) - 1
	if !w.constructing.Load() && w.f.hit("fetch-err", callOf(ctx)<<8^n) {
		return nil, strErr("scripted configuration source failure")
	}
	body := w.bodies[n%uint64(len(w.bodies))]
	if body == nil {
		return nil, strErr("scripted configuration source failure")
	}
	return append([]byte(nil), body...), nil
}

type relayAccounts struct {
	*fixedAccounts
	w *relayWorld
}

func (a relayAccounts) ValidatingAccountsForEpoch(ctx context.Context, epoch phase0.Epoch) (map[phase0.ValidatorIndex]e2wtypes.Account, error) {
	if a.w.constructing.Load() {
		a.w.accountCalls.Add(1)
	} else if a.w.f.hit("accounts-err", callOf(ctx)<<8^uint64(epoch)) {
		return nil, strErr("scripted accounts failure")
	}
	return a.fixedAccounts.ValidatingAccountsForEpoch(ctx, epoch)
}

type relaySigner struct{ f faults }

func (s relaySigner) SignValidatorRegistration(ctx context.Context, account e2wtypes.Account, _ *builderapi.VersionedValidatorRegistration) (phase0.BLSSignature, error) {
	if s.f.hit("regsign-err", callOf(ctx)<<8^account.(*fakeAccount).index) {
		return phase0.BLSSignature{}, strErr("scripted signer failure")
	}
	return phase0.BLSSignature{0xc1, 0x7}, nil
}

type relayValidators struct{}

func (relayValidators) Validators(context.Context, *api.ValidatorsOpts) (*api.Response[map[phase0.ValidatorIndex]*apiv1.Validator], error) {
	return nil, strErr("not available")
}

// relaySecondary is a beacon node that receives the consensus registrations.
type relaySecondary struct{}

func (relaySecondary) Name() string    { return "secondary" }
func (relaySecondary) Address() string { return "secondary:5052" }
func (relaySecondary) IsActive() bool  { return true }
func (relaySecondary) IsSynced() bool  { return true }
func (relaySecondary) SubmitValidatorRegistrations(context.Context, []*api.VersionedSignedValidatorRegistration) error {
	return nil
}

// relayBids implements builderbid.Provider: reads all of the settings it is
// given (as the real provider does) and answers by slot.
//
// In scenarios with parameter "seqbid" it is the counting provider of the
// sequential-consistency oracle for REST builder-bid requests (see judge): every
// auction takes 2 ms (so that requests released together overlap), always has a
// winner, and the winner's value tells the auctions of one (slot, parent,
// proposer) apart.  That needs a counter per triple, hence a lock of the
// harness - only in those scenarios.
type relayBids struct{ w *relayWorld }

type bidTriple struct {
	slot   uint64
	parent byte
	pubkey phase0.BLSPubKey
}

func (b relayBids) BuilderBid(ctx context.Context, slot phase0.Slot, parent phase0.Hash32, pubkey phase0.BLSPubKey,
	proposerConfig *beaconblockproposer.ProposerConfig, _ map[phase0.BLSPubKey]*blockrelay.BuilderConfig,
) (*blockauctioneer.Results, error) {
	sum := uint64(proposerConfig.FeeRecipient[0])
	for _, r := range proposerConfig.Relays {
		sum += r.GasLimit + uint64(len(r.Address)) + uint64(r.FeeRecipient[0]) + uint64(r.Grace)
	}
	_ = sum
	if b.w.seq {
		k := bidTriple{uint64(slot), parent[0], pubkey}
		b.w.seqMu.Lock()
		b.w.auctions[k]++
		n := b.w.auctions[k]
		if b.w.roleKindOf(callOf(ctx)) == "restBid" {
			b.w.restAuctions[k]++
		}
		b.w.seqMu.Unlock()
		time.Sleep(2 * time.Millisecond)
		p := &blockauctioneer.Participation{
			Category: "standard",
			Score:    big.NewInt(int64(1_000_000 + n)),
			Bid: &builderspec.VersionedSignedBuilderBid{
				Version: spec.DataVersionDeneb,
				Deneb:   &deneb.SignedBuilderBid{Message: &deneb.BuilderBid{Value: uint256.NewInt(1_000_000 + uint64(n)), Pubkey: phase0.BLSPubKey{0xb1}}},
			},
		}
		return &blockauctioneer.Results{
			Participation:        map[string]*blockauctioneer.Participation{"relay": p},
			AllProviders:         []builderclient.BuilderBidProvider{},
			WinningParticipation: p,
			Providers:            []builderclient.BuilderBidProvider{},
		}, nil
	}
	switch uint64(slot) % 3 {
	case 0:
		return &blockauctioneer.Results{
			Participation: map[string]*blockauctioneer.Participation{},
			AllProviders:  []builderclient.BuilderBidProvider{},
			Providers:     []builderclient.BuilderBidProvider{},
		}, nil
	case 1:
		return nil, strErr("scripted auction failure")
	}
	p := &blockauctioneer.Participation{
		Category: "standard",
		Score:    big.NewInt(12345),
		Bid: &builderspec.VersionedSignedBuilderBid{
			Version: spec.DataVersionDeneb,
			Deneb:   &deneb.SignedBuilderBid{Message: &deneb.BuilderBid{Value: uint256.NewInt(12345), Pubkey: phase0.BLSPubKey{0xb1}}},
		},
	}
	return &blockauctioneer.Results{
		Participation:        map[string]*blockauctioneer.Participation{"relay": p},
		AllProviders:         []builderclient.BuilderBidProvider{},
		WinningParticipation: p,
		Providers:            []builderclient.BuilderBidProvider{},
	}, nil
}

const relayVals = 4 // validators 0-3 are vouch's; 4 and 5 are strangers (REST only)

func relayBodies(seq uint64) [][]byte {
	urls := relayServers()
	fee := func(b byte) string { return fmt.Sprintf("0x%02x00000000000000000000000000000000000000", b) }
	v2a := fmt.Sprintf(`{"version":2,"fee_recipient":"%s","gas_limit":"30000000","relays":{"%s":{"grace":"10"},"%s":{}},
 "proposers":[{"proposer":"%#x","fee_recipient":"%s","relays":{"%s":{"disabled":true},"%s":{"gas_limit":"26000000","min_value":"0.01"}}},{"proposer":"^wallet/acct[bc]$","gas_limit":"25000000"}]}`,
		fee(0x11), urls[0], urls[1], pubKeyOf(0), fee(0x12), urls[1], urls[0])
	v2b := fmt.Sprintf(`{"version":2,"fee_recipient":"%s","relays":{"%s":{"gas_limit":"20000000"},"%s":{}},"proposers":[{"proposer":"%#x","reset_relays":true,"relays":{"%s":{"fee_recipient":"%s"}}}]}`,
		fee(0x21), urls[0], urls[2], pubKeyOf(4), urls[1], fee(0x22))
	// legacy: neither gas_limit nor builder in the default entry, no gas_limit in a proposer entry
	v1open := fmt.Sprintf(`{"proposer_config":{"%#x":{"fee_recipient":"%s","builder":{"enabled":true,"relays":["%s"]}},"%#x":{"fee_recipient":"%s"}},"default_config":{"fee_recipient":"%s"}}`,
		pubKeyOf(1), fee(0x31), urls[0], pubKeyOf(2), fee(0x32), fee(0x33))
	// legacy: everything spelled out
	v1full := fmt.Sprintf(`{"proposer_config":{"%#x":{"fee_recipient":"%s","gas_limit":"28000000","builder":{"enabled":true,"grace":"50","relays":["%s","%s"]}}},"default_config":{"fee_recipient":"%s","gas_limit":"29000000","builder":{"enabled":true,"relays":["%s"]}}}`,
		pubKeyOf(1), fee(0x41), urls[0], urls[2], fee(0x42), urls[1])
	switch seq {
	case 0:
		return [][]byte{[]byte(v2a), []byte(v2b)}
	case 1:
		return [][]byte{[]byte(v1open)}
	case 2:
		return [][]byte{[]byte(v1full)}
	case 3:
		return [][]byte{[]byte(v1open), []byte(v2a)}
	case 4:
		return [][]byte{[]byte(v2a), nil, []byte(v1full), []byte(`{"version":3}`)}
	}
	return [][]byte{[]byte(v2a)}
}

const relaySeqs = 5

func buildRelay(sc *Scenario) (world, error) {
	relayServers()
	w := &relayWorld{sc: sc, accts: newFixedAccounts(relayVals), bodies: relayBodies(sc.P["cfgs"]), f: newFaults(sc.P),
		seq: sc.P["seqbid"] == 1, auctions: map[bidTriple]int{}, restAuctions: map[bidTriple]int{}, bidObs: make([][]bidObservation, len(sc.Roles))}
	w.clock = newClock(32, 32*10)
	ctx, cancel := context.WithCancel(context.Background())
	w.cancel = cancel
	sched := fakes.NewSched()
	w.constructing.Store(true)
	svc, err := standardrelay.New(ctx,
		standardrelay.WithLogLevel(zerolog.Disabled),
		standardrelay.WithMonitor(nullmetrics.New()),
		standardrelay.WithMajordomo(w),
		standardrelay.WithScheduler(sched),
		standardrelay.WithChainTime(w.clock),
		standardrelay.WithListenAddress("127.0.0.1:0"),
		standardrelay.WithConfigURL("file:///verif/config.json"),
		standardrelay.WithFallbackFeeRecipient(bellatrix.ExecutionAddress{0xfa}),
		standardrelay.WithFallbackGasLimit(sc.P["fallbackGas"]),
		standardrelay.WithAccountsProvider(w.accts),
		standardrelay.WithValidatorsProvider(relayValidators{}),
		standardrelay.WithValidatingAccountsProvider(relayAccounts{w.accts, w}),
		standardrelay.WithValidatorRegistrationSigner(relaySigner{w.f}),
		standardrelay.WithSecondaryValidatorRegistrationsSubmitters([]consensusclient.ValidatorRegistrationsSubmitter{relaySecondary{}}),
		standardrelay.WithReleaseVersion("verif"),
		standardrelay.WithBuilderBidProvider(relayBids{w}),
	)
	if err != nil {
		cancel()
		return nil, err
	}
	w.svc = svc
	fj, rj := sched.Get("Fetch execution configuration"), sched.Get("Submit validator registrations")
	if fj == nil || rj == nil {
		cancel()
		return nil, fmt.Errorf("the block relay did not schedule its periodic jobs under the expected names")
	}
	w.fetchFn, w.regFn = fj.Func, rj.Func
	// New started the initial registration round on a goroutine of its own:
	// wait until it has begun (it holds the activity semaphore by the time it
	// asks for the accounts), then until it has released the semaphore.
	deadline := time.Now().Add(60 * time.Second)
	for w.accountCalls.Load() < 2 { // one call by the inline configuration fetch, one by the round
		if time.Now().After(deadline) {
			cancel()
			return nil, fmt.Errorf("the initial registration round did not start")
		}
		time.Sleep(100 * time.Microsecond)
	}
	sem := relaySemaphore(svc)
	if sem == nil {
		cancel()
		return nil, fmt.Errorf("no activity semaphore found in the block relay service")
	}
	actx, acancel := context.WithTimeout(ctx, 60*time.Second)
	defer acancel()
	if err := sem.Acquire(actx, 1); err != nil {
		cancel()
		return nil, fmt.Errorf("the initial registration round did not finish")
	}
	sem.Release(1)
	w.constructing.Store(false)
	return w, nil
}

func relaySemaphore(svc *standardrelay.Service) *semaphore.Weighted {
	v := reflect.ValueOf(svc).Elem()
	for i := 0; i < v.NumField(); i++ {
		f := v.Field(i)
		if f.Type() == reflect.TypeOf((*semaphore.Weighted)(nil)) {
			return *(**semaphore.Weighted)(unsafe.Pointer(f.UnsafeAddr()))
		}
	}
	return nil
}

type bidObservation struct {
	k     bidTriple
	rep   int
	value uint64 // 0: no bid
}

// roleKindOf: the kind of the role an operation (call id) belongs to.
func (w *relayWorld) roleKindOf(call uint64) string {
	i := int(call>>12&0xfff) - 1
	if call == 0 || i < 0 || i >= len(w.sc.Roles) {
		return ""
	}
	return w.sc.Roles[i].Kind
}

func (w *relayWorld) prepare(int) {
	if w.sc.P["fresh"] == 1 {
		// a refresh that completed before the overlapping operations start
		w.fetchFn(context.Background())
	}
}

func (w *relayWorld) run(rep int, ri int, _ *Role, op *Op, call uint64) {
	ctx := withCall(context.Background(), call)
	slot := phase0.Slot(uint64(rep)*4 + op.A%4 + 320)
	val := op.B % 6
	switch op.K {
	case "fetchcfg":
		w.fetchFn(ctx)
	case "register":
		w.regFn(ctx)
	case "pcfg":
		var acct e2wtypes.Account
		if val < relayVals {
			acct = w.accts.accts[val]
		}
		cfg, err := w.svc.ProposerConfig(ctx, acct, pubKeyOf(val))
		if err == nil && cfg != nil {
			// the proposer reads what it gets
			n := uint64(cfg.FeeRecipient[0])
			for _, r := range cfg.Relays {
				n += r.GasLimit + uint64(len(r.Address))
			}
			_ = n
		}
	case "auction":
		_, _ = w.svc.AuctionBlock(ctx, slot, phase0.Hash32{byte(op.A)}, pubKeyOf(val%relayVals))
	case "bid":
		bid, err := w.svc.BuilderBid(ctx, slot, phase0.Hash32{byte(op.A)}, pubKeyOf(val))
		if w.seq && err == nil {
			o := bidObservation{k: bidTriple{uint64(slot), byte(op.A), pubKeyOf(val)}, rep: rep}
			if bid != nil {
				if v, err := bid.Value(); err == nil {
					o.value = v.Uint64()
				}
			}
			w.bidObs[ri] = append(w.bidObs[ri], o)
		}
	case "submit":
		// explicit round: positions 0-3 of the mask are vouch's accounts (mostly signed
		// already), 4-5 accounts that are new in this repetition, so that signing
		// really happens and two explicit rounds can sign for the same new validator
		accounts := map[phase0.ValidatorIndex]e2wtypes.Account{}
		for i := uint64(0); i < 6; i++ {
			if op.B&(1<<i) == 0 {
				continue
			}
			if i < relayVals {
				accounts[phase0.ValidatorIndex(i)] = w.accts.accts[i]
			} else {
				idx := 1000 + uint64(rep)*2 + (i - relayVals)
				accounts[phase0.ValidatorIndex(idx)] = newFakeAccount(idx)
			}
		}
		_ = w.svc.SubmitValidatorRegistrations(ctx, accounts)
	case "regs":
		var regs []*relaytypes.SignedValidatorRegistration
		for i := uint64(0); i < 6; i++ {
			if op.B&(1<<i) != 0 {
				regs = append(regs, &relaytypes.SignedValidatorRegistration{
					Message:   &relaytypes.ValidatorRegistration{FeeRecipient: bellatrix.ExecutionAddress{0x77}, GasLimit: 30000000, Timestamp: time.Unix(1700000000, 0), Pubkey: pubKeyOf(i)},
					Signature: phase0.BLSSignature{0x99},
				})
			}
		}
		_, _ = w.svc.ValidatorRegistrations(ctx, regs)
	default:
		panic("harness: unknown block relay op " + op.K)
	}
}

func (w *relayWorld) finish(int) string { return "" }

// judge: REST builder-bid requests for one (slot, parent, proposer) are
// serialised by vouch (builderBidMu, re-check of the cache under it): whatever
// the overlap, at most one of them runs an auction and all of them are served
// that auction's bid - the result of running them one after the other.  Triples
// that a proposal job auctions too are left out: that auction legitimately
// replaces the cached bid between two requests.
func (w *relayWorld) judge(t ev.TB, sc *Scenario) {
	if !w.seq {
		return
	}
	byJob := map[[2]uint64]bool{} // (slot offset = parent byte, validator)
	for _, r := range sc.Roles {
		for _, op := range r.Ops {
			if op.K == "auction" {
				byJob[[2]uint64{op.A % 4, (op.B % 6) % relayVals}] = true
			}
		}
	}
	values := map[bidTriple]map[uint64]bool{}
	for _, obs := range w.bidObs {
		for _, o := range obs {
			if o.value == 0 {
				continue
			}
			if values[o.k] == nil {
				values[o.k] = map[uint64]bool{}
			}
			values[o.k][o.value] = true
		}
	}
	checked := int64(0)
	for k, vs := range values {
		excluded := false
		for v := uint64(0); v < relayVals; v++ {
			if pubKeyOf(v) == k.pubkey && byJob[[2]uint64{uint64(k.parent) % 4, v}] {
				excluded = true
			}
		}
		if excluded {
			continue
		}
		checked++
		if n := w.restAuctions[k]; n > 1 || len(vs) > 1 {
			ev.Violation(t, "not-sequentially-consistent:builderbid", sc,
				"REST builder-bid requests for slot %d parent %#02x.. proposer %#x..: %d auctions were run for them and they were served %d different bids %v; served one after the other they share one auction and one bid",
				k.slot, k.parent, k.pubkey[:3], n, len(vs), vs)
		}
	}
	ev.LabelN("builderbid-triples-checked", checked)
}
func (w *relayWorld) close() { w.cancel() }

func init() {
	rep := func(lo, hi int, one func(t *rapid.T) Op) func(t *rapid.T, p map[string]uint64, inst, n int) []Op {
		return func(t *rapid.T, _ map[string]uint64, _, _ int) []Op {
			n := rapid.IntRange(lo, hi).Draw(t, "nOps")
			ops := make([]Op, n)
			for i := range ops {
				ops[i] = one(t)
			}
			return ops
		}
	}
	val := func(t *rapid.T) uint64 { return rapid.Uint64Range(0, 5).Draw(t, "validator") }
	slot := func(t *rapid.T) uint64 { return rapid.Uint64Range(0, 3).Draw(t, "slot") }
	register(&svcDef{
		name:   "relay",
		weight: 4,
		reps:   10,
		roles: []roleDef{
			{kind: "cfgRefresh", max: 1, why: "periodic job 'Fetch execution configuration'", gen: rep(1, 2, func(*rapid.T) Op { return Op{K: "fetchcfg"} })},
			{kind: "registrations", max: 1, why: "periodic job 'Submit validator registrations'", gen: rep(1, 1, func(*rapid.T) Op { return Op{K: "register"} })},
			{kind: "proposerConfig", max: 3, why: "proposal jobs and the proposal preparer's periodic job",
				gen: rep(1, 6, func(t *rapid.T) Op { return Op{K: "pcfg", B: val(t)} })},
			{kind: "auction", max: 2, why: "'Early beacon block proposal for slot N' jobs",
				gen: rep(1, 3, func(t *rapid.T) Op { return Op{K: "auction", A: slot(t), B: val(t)} })},
			{kind: "restBid", max: 4, why: "REST daemon: one goroutine per builder-bid request of a beacon node",
				gen: func(t *rapid.T, p map[string]uint64, _, _ int) []Op {
					n := rapid.IntRange(1, 3).Draw(t, "nOps")
					ops := make([]Op, n)
					for i := range ops {
						// several beacon nodes ask for the same proposal: half of the requests are for the scenario's hot triple
						if rapid.Bool().Draw(t, "hot") {
							ops[i] = Op{K: "bid", A: p["hotSlot"], B: p["hotVal"]}
						} else {
							ops[i] = Op{K: "bid", A: slot(t), B: val(t)}
						}
					}
					return ops
				}},
			{kind: "explicitRegs", max: 2, why: "SubmitValidatorRegistrations(ctx, accounts), the service's public entry point (blockrelay.ValidatorRegistrationsSubmitter): not behind activitySem, so it overlaps the scheduled round and itself",
				gen: rep(1, 2, func(t *rapid.T) Op { return Op{K: "submit", B: rapid.Uint64Range(1, 63).Draw(t, "mask")} })},
			{kind: "restRegs", max: 2, why: "REST daemon: one goroutine per validator-registrations request",
				gen: rep(1, 2, func(t *rapid.T) Op { return Op{K: "regs", B: rapid.Uint64Range(1, 63).Draw(t, "mask")} })},
		},
		params: func(t *rapid.T) map[string]uint64 {
			p := map[string]uint64{
				"cfgs":        rapid.Uint64Range(0, relaySeqs-1).Draw(t, "cfgs"),
				"fresh":       rapid.Uint64Range(0, 1).Draw(t, "fresh"),
				"fallbackGas": rapid.SampledFrom([]uint64{30000000, 36000000}).Draw(t, "fallbackGas"),
				"seqbid":      rapid.Uint64Range(0, 1).Draw(t, "seqbid"),
				"hotSlot":     rapid.Uint64Range(0, 3).Draw(t, "hotSlot"),
				"hotVal":      rapid.Uint64Range(0, 5).Draw(t, "hotVal"),
			}
			genFaults(t, p)
			return p
		},
		build: buildRelay,
	})
}
