package c17

import (
	"context"
	"crypto/sha256"
	"encoding/hex"
	"encoding/json"
	"fmt"
	"net/http"
	"net/http/httptest"
	"strconv"
	"strings"
	"sync"
	"time"

	builderdeneb "github.com/attestantio/go-builder-client/api/deneb"
	"github.com/attestantio/go-eth2-client/api"
	"github.com/attestantio/go-eth2-client/spec/bellatrix"
	"github.com/attestantio/go-eth2-client/spec/deneb"
	"github.com/attestantio/go-eth2-client/spec/phase0"
	"github.com/attestantio/vouch/services/beaconblockproposer"
	"github.com/attestantio/vouch/services/blockrelay"
	"github.com/attestantio/vouch/services/chaintime"
	nullmetrics "github.com/attestantio/vouch/services/metrics/null"
	bidbest "github.com/attestantio/vouch/strategies/builderbid/best"
	biddeadline "github.com/attestantio/vouch/strategies/builderbid/deadline"
	"github.com/holiman/uint256"
	"github.com/rs/zerolog"
	"github.com/shopspring/decimal"
	e2types "github.com/wealdtech/go-eth2-types/v2"
	"pgregory.net/rapid"

	"verifharness/internal/ev"
)

// Worlds of the real strategies/builderbid/best and .../deadline over 4 MEV relay
// doubles (httptest servers that sign their bids with a BLS key of their own).
//
// Every auction starts one goroutine per relay inside the strategy
// (issueBuilderBidRequests / BuilderBid: `go s.builderBid(...)`); those
// goroutines share the strategy instance (relay public key cache) and the
// auction's result channels.  On top of that two auctions can overlap
// (blockrelay/standard):
//
//	proposalAuction  the proposer's job (beaconblockproposer/standard/propose.go
//	                 -> blockrelay.AuctionBlock -> auctionBlock) calls the strategy
//	                 without holding builderBidMu.
//	restAuction      a beacon node asks the REST daemon for a bid that is not
//	                 cached (builderbid.go: BuilderBid -> immediateBuilderBid ->
//	                 auctionBlock); these are serialised among themselves by
//	                 builderBidMu (hence max 1) but not against the proposer's.
//
// The relays' public keys come from the execution configuration
// (RelayConfig.PublicKey); whether a key is configured is a parameter.  The
// strategy instance is fresh per scenario (no key cached) and, by parameter,
// renewed before every repetition (vouch restart / first auction) or kept
// (keys cached after the first auction).

const bidRelayCount = 4

type bidRelay struct {
	idx     int
	srv     *httptest.Server
	key     *e2types.BLSPrivateKey
	pub     phase0.BLSPubKey
	startOf func(slot uint64) time.Time

	mu    sync.Mutex
	cache map[string][]byte
}

var bidDomain = phase0.Domain{0x00, 0x00, 0x00, 0x01, 0xb1, 0xd0}

func (r *bidRelay) body(slot uint64, parent phase0.Hash32) ([]byte, error) {
	k := fmt.Sprintf("%d/%x", slot, parent[:4])
	r.mu.Lock()
	defer r.mu.Unlock()
	if b, ok := r.cache[k]; ok {
		return b, nil
	}
	if len(r.cache) > 4096 {
		r.cache = map[string][]byte{}
	}
	bid := &builderdeneb.SignedBuilderBid{Message: &builderdeneb.BuilderBid{
		Header: &deneb.ExecutionPayloadHeader{
			ParentHash:    parent,
			FeeRecipient:  bellatrix.ExecutionAddress{0xfe, byte(r.idx + 1)},
			BlockNumber:   1000 + slot,
			GasLimit:      30000000,
			GasUsed:       1234,
			Timestamp:     uint64(r.startOf(slot).Unix()),
			ExtraData:     []byte{},
			BaseFeePerGas: uint256.NewInt(7),
			BlockHash:     phase0.Hash32{0xb0, byte(r.idx), byte(slot)},
		},
		BlobKZGCommitments: []deneb.KZGCommitment{},
		Value:              uint256.NewInt(1_000_000 + uint64(r.idx)*7 + slot%5),
		Pubkey:             pubKeyOf(100 + uint64(r.idx%2)),
	}}
	root, err := bid.Message.HashTreeRoot()
	if err != nil {
		return nil, err
	}
	signingRoot, err := (&phase0.SigningData{ObjectRoot: root, Domain: bidDomain}).HashTreeRoot()
	if err != nil {
		return nil, err
	}
	copy(bid.Signature[:], r.key.Sign(signingRoot[:]).Marshal())
	data, err := json.Marshal(bid)
	if err != nil {
		return nil, err
	}
	b := []byte(`{"version":"deneb","data":` + string(data) + `}`)
	r.cache[k] = b
	return b, nil
}

func (r *bidRelay) handle(w http.ResponseWriter, req *http.Request) {
	const prefix = "/eth/v1/builder/header/"
	if !strings.HasPrefix(req.URL.Path, prefix) {
		w.Header().Set("Content-Type", "application/json")
		w.WriteHeader(http.StatusOK)
		_, _ = w.Write([]byte("{}"))
		return
	}
	parts := strings.Split(strings.TrimPrefix(req.URL.Path, prefix), "/")
	if len(parts) != 3 {
		w.WriteHeader(http.StatusBadRequest)
		return
	}
	slot, err := strconv.ParseUint(parts[0], 10, 64)
	if err != nil {
		w.WriteHeader(http.StatusBadRequest)
		return
	}
	// relay 3 has no bid for every third slot, relay 2 is unavailable for every fourth
	if r.idx == 3 && slot%3 == 0 {
		w.WriteHeader(http.StatusNoContent)
		return
	}
	if r.idx == 2 && slot%4 == 1 {
		w.WriteHeader(http.StatusServiceUnavailable)
		return
	}
	var parent phase0.Hash32
	ph, err := hex.DecodeString(strings.TrimPrefix(parts[1], "0x"))
	if err != nil || len(ph) != 32 {
		w.WriteHeader(http.StatusBadRequest)
		return
	}
	copy(parent[:], ph)
	body, err := r.body(slot, parent)
	if err != nil {
		w.WriteHeader(http.StatusInternalServerError)
		return
	}
	w.Header().Set("Content-Type", "application/json")
	w.WriteHeader(http.StatusOK)
	_, _ = w.Write(body)
}

// rtClock: slots of 50 ms anchored at the start of the process, so that the
// deadline strategy (which compares chain time with the wall clock) can run an
// auction in a tenth of a second.  Nothing is judged by time.
type rtClock struct {
	anchor  time.Time
	slotDur time.Duration
}

func (c *rtClock) GenesisTime() time.Time { return c.anchor }
func (c *rtClock) StartOfSlot(slot phase0.Slot) time.Time {
	return c.anchor.Add(time.Duration(slot) * c.slotDur)
}
func (c *rtClock) StartOfEpoch(epoch phase0.Epoch) time.Time {
	return c.StartOfSlot(phase0.Slot(uint64(epoch) * 32))
}
func (c *rtClock) CurrentSlot() phase0.Slot {
	return phase0.Slot(time.Since(c.anchor) / c.slotDur)
}
func (c *rtClock) CurrentEpoch() phase0.Epoch                { return phase0.Epoch(uint64(c.CurrentSlot()) / 32) }
func (c *rtClock) SlotToEpoch(slot phase0.Slot) phase0.Epoch { return phase0.Epoch(uint64(slot) / 32) }
func (c *rtClock) FirstSlotOfEpoch(epoch phase0.Epoch) phase0.Slot {
	return phase0.Slot(uint64(epoch) * 32)
}

var (
	bidRelaysOnce sync.Once
	bidRelays     map[string][]*bidRelay // by flavour: "best" (fixed clock) and "deadline" (real-time clock)
	bidRTClock    *rtClock
	bidFixedClock *clock
	bidRelaysErr  error
)

func bidRelaySets() (map[string][]*bidRelay, error) {
	bidRelaysOnce.Do(func() {
		relayServers() // sets the builder client's default timeout in viper, once
		if err := e2types.InitBLS(); err != nil {
			bidRelaysErr = err
			return
		}
		bidRTClock = &rtClock{anchor: time.Now().Truncate(time.Second), slotDur: 50 * time.Millisecond}
		bidFixedClock = newClock(32, 3200)
		bidRelays = map[string][]*bidRelay{}
		for _, flavour := range []string{"best", "deadline"} {
			var ck chaintime.Service = bidFixedClock
			if flavour == "deadline" {
				ck = bidRTClock
			}
			for i := 0; i < bidRelayCount; i++ {
				h := sha256.Sum256([]byte(fmt.Sprintf("verif-c17-relay-key-%d", i)))
				h[0] &= 0x3f
				key, err := e2types.BLSPrivateKeyFromBytes(h[:])
				if err != nil {
					bidRelaysErr = err
					return
				}
				ckk := ck
				r := &bidRelay{idx: i, key: key, cache: map[string][]byte{}, startOf: func(slot uint64) time.Time { return ckk.StartOfSlot(phase0.Slot(slot)) }}
				copy(r.pub[:], key.PublicKey().Marshal())
				r.srv = httptest.NewServer(http.HandlerFunc(r.handle))
				bidRelays[flavour] = append(bidRelays[flavour], r)
			}
		}
	})
	return bidRelays, bidRelaysErr
}

type bidSpec struct{}

func (bidSpec) Spec(context.Context, *api.SpecOpts) (*api.Response[map[string]any], error) {
	return &api.Response[map[string]any]{Data: map[string]any{"DOMAIN_APPLICATION_BUILDER": phase0.DomainType{0, 0, 0, 1}}, Metadata: map[string]any{}}, nil
}

type bidDomains struct{}

func (bidDomains) Domain(context.Context, phase0.DomainType, phase0.Epoch) (phase0.Domain, error) {
	return bidDomain, nil
}
func (bidDomains) GenesisDomain(context.Context, phase0.DomainType) (phase0.Domain, error) {
	return bidDomain, nil
}

type bidWorld struct {
	sc      *Scenario
	flavour string
	relays  []*bidRelay
	svc     func(ctx context.Context, slot phase0.Slot, parent phase0.Hash32, pubkey phase0.BLSPubKey, cfg *beaconblockproposer.ProposerConfig) error
	// per role (own goroutine only)
	ok, failed []int64
	lastEnd    []time.Time
}

func (w *bidWorld) newStrategy() error {
	ctx := context.Background()
	builderConfigs := map[phase0.BLSPubKey]*blockrelay.BuilderConfig{}
	if w.flavour == "best" {
		s, err := bidbest.New(ctx,
			bidbest.WithLogLevel(zerolog.Disabled),
			bidbest.WithMonitor(nullmetrics.New()),
			bidbest.WithSpecProvider(bidSpec{}),
			bidbest.WithDomainProvider(bidDomains{}),
			bidbest.WithChainTime(bidFixedClock),
			bidbest.WithTimeout(4*time.Second),
			bidbest.WithReleaseVersion("verif"),
		)
		if err != nil {
			return err
		}
		w.svc = func(ctx context.Context, slot phase0.Slot, parent phase0.Hash32, pubkey phase0.BLSPubKey, cfg *beaconblockproposer.ProposerConfig) error {
			res, err := s.BuilderBid(ctx, slot, parent, pubkey, cfg, builderConfigs)
			if err == nil && res.WinningParticipation == nil {
				return strErr("no winner")
			}
			return err
		}
		return nil
	}
	s, err := biddeadline.New(ctx,
		biddeadline.WithLogLevel(zerolog.Disabled),
		biddeadline.WithMonitor(nullmetrics.New()),
		biddeadline.WithSpecProvider(bidSpec{}),
		biddeadline.WithDomainProvider(bidDomains{}),
		biddeadline.WithChainTime(bidRTClock),
		biddeadline.WithDeadline(60*time.Millisecond),
		biddeadline.WithBidGap(15*time.Millisecond),
		biddeadline.WithReleaseVersion("verif"),
	)
	if err != nil {
		return err
	}
	w.svc = func(ctx context.Context, slot phase0.Slot, parent phase0.Hash32, pubkey phase0.BLSPubKey, cfg *beaconblockproposer.ProposerConfig) error {
		res, err := s.BuilderBid(ctx, slot, parent, pubkey, cfg, builderConfigs)
		if err == nil && res.WinningParticipation == nil {
			return strErr("no winner")
		}
		return err
	}
	return nil
}

func buildBid(flavour string) func(sc *Scenario) (world, error) {
	return func(sc *Scenario) (world, error) {
		sets, err := bidRelaySets()
		if err != nil {
			return nil, err
		}
		w := &bidWorld{sc: sc, flavour: flavour, relays: sets[flavour],
			ok: make([]int64, len(sc.Roles)), failed: make([]int64, len(sc.Roles)), lastEnd: make([]time.Time, len(sc.Roles))}
		if err := w.newStrategy(); err != nil {
			return nil, err
		}
		return w, nil
	}
}

func (w *bidWorld) prepare(rep int) {
	if rep > 0 && w.sc.P["renew"] == 1 {
		if err := w.newStrategy(); err != nil {
			panic("harness: " + err.Error())
		}
	}
}

// run: op.A = slot offset, op.B = mask of the relays of the proposer's configuration.
func (w *bidWorld) run(rep int, ri int, _ *Role, op *Op, call uint64) {
	cfg := &beaconblockproposer.ProposerConfig{FeeRecipient: bellatrix.ExecutionAddress{0xfe}}
	for i, r := range w.relays {
		if op.B&(1<<uint(i)) == 0 {
			continue
		}
		rc := &beaconblockproposer.RelayConfig{Address: r.srv.URL, FeeRecipient: bellatrix.ExecutionAddress{0xfe}, GasLimit: 30000000, MinValue: decimal.Zero}
		if w.sc.P["keys"]&(1<<uint(i)) != 0 {
			pk := r.pub
			rc.PublicKey = &pk
		}
		cfg.Relays = append(cfg.Relays, rc)
	}
	var slot uint64
	if w.flavour == "best" {
		slot = 3200 + uint64(rep)*4 + op.A%4
	} else {
		// the slot that is about to begin: the auction runs until 60 ms into it
		slot = uint64(bidRTClock.CurrentSlot()) + 1
	}
	err := w.svc(context.Background(), phase0.Slot(slot), phase0.Hash32{0x9a, byte(op.A)}, pubKeyOf(op.A%4), cfg)
	if err != nil {
		w.failed[ri]++
	} else {
		w.ok[ri]++
	}
	w.lastEnd[ri] = time.Now()
}

func (w *bidWorld) finish(int) string {
	if w.flavour == "deadline" {
		// the per-relay goroutines of the deadline strategy stop within one bid gap of the deadline
		time.Sleep(40 * time.Millisecond)
	}
	return ""
}

func (w *bidWorld) judge(ev.TB, *Scenario) {
	var ok, failed int64
	for i := range w.ok {
		ok += w.ok[i]
		failed += w.failed[i]
	}
	ev.LabelN("auction-with-winner="+w.flavour, ok)
	ev.LabelN("auction-without-winner="+w.flavour, failed)
}

func (w *bidWorld) close() {}

func init() {
	auction := func(lo, hi int) func(t *rapid.T, p map[string]uint64, inst, n int) []Op {
		return func(t *rapid.T, _ map[string]uint64, _, _ int) []Op {
			n := rapid.IntRange(lo, hi).Draw(t, "nOps")
			ops := make([]Op, n)
			for i := range ops {
				mask := rapid.Uint64Range(1, (1<<bidRelayCount)-1).Draw(t, "relays")
				if mask&(mask-1) == 0 {
					mask |= 1 << ((rapid.Uint64Range(1, bidRelayCount-1).Draw(t, "second") + uint64(trailingZeros(mask))) % bidRelayCount)
				}
				ops[i] = Op{K: "auction", A: rapid.Uint64Range(0, 3).Draw(t, "slot"), B: mask}
			}
			return ops
		}
	}
	params := func(t *rapid.T) map[string]uint64 {
		return map[string]uint64{
			"keys":  rapid.SampledFrom([]uint64{15, 15, 7, 5, 3, 0}).Draw(t, "keys"),
			"renew": rapid.Uint64Range(0, 1).Draw(t, "renew"),
		}
	}
	for _, f := range []struct {
		name    string
		weight  int
		reps    int
		lo, hi  int
		flavour string
	}{{"bidbest", 3, 8, 1, 3, "best"}, {"biddeadline", 1, 3, 1, 1, "deadline"}} {
		register(&svcDef{
			name:   f.name,
			weight: f.weight,
			reps:   f.reps,
			roles: []roleDef{
				{kind: "proposalAuction", max: 1, why: "proposal job -> blockrelay.AuctionBlock -> strategy (no builderBidMu); one goroutine per relay inside", gen: auction(f.lo, f.hi)},
				{kind: "restAuction", max: 1, why: "REST BuilderBid -> immediateBuilderBid -> strategy (under builderBidMu); one goroutine per relay inside", gen: auction(f.lo, f.hi)},
			},
			params: params,
			build:  buildBid(f.flavour),
		})
	}
}

func trailingZeros(x uint64) int {
	n := 0
	for x&1 == 0 && n < 64 {
		x >>= 1
		n++
	}
	return n
}
