package c17

import (
	"fmt"
	"sort"
	"strings"
	"time"

	"github.com/anishathalye/porcupine"

	"verifharness/internal/ev"
)

// History recording for oracle (iii).  Every role goroutine appends to a slice
// of its own (no shared recorder, no lock, no atomic: nothing that would order
// the goroutines for the race detector).  Timestamps are readings of the
// process' monotonic clock; they are only used as a witness of "returned
// before the other was invoked", never compared with a duration.

var linBase = time.Now()

func stamp() int64 { return int64(time.Since(linBase)) }

type history struct {
	perRole [][]porcupine.Operation
}

func newHistory(roles int) *history {
	return &history{perRole: make([][]porcupine.Operation, roles)}
}

func (h *history) add(role int, in, out any, call, ret int64) {
	h.perRole[role] = append(h.perRole[role], porcupine.Operation{ClientId: role, Input: in, Output: out, Call: call, Return: ret})
}

func (h *history) all() []porcupine.Operation {
	var res []porcupine.Operation
	for _, ops := range h.perRole {
		res = append(res, ops...)
	}
	return res
}

func describe(ops []porcupine.Operation, d func(in, out any) string) string {
	sorted := append([]porcupine.Operation(nil), ops...)
	sort.Slice(sorted, func(i, j int) bool { return sorted[i].Call < sorted[j].Call })
	var b strings.Builder
	for i, o := range sorted {
		if i >= 60 {
			fmt.Fprintf(&b, "... %d more\n", len(sorted)-i)
			break
		}
		fmt.Fprintf(&b, "  g%d [%d,%d] %s\n", o.ClientId, o.Call, o.Return, d(o.Input, o.Output))
	}
	return b.String()
}

// checkPartitions checks every partition on its own so that the report names
// the key that is not linearizable.
func checkPartitions(t ev.TB, sc *Scenario, svc string, model porcupine.Model, parts map[string][]porcupine.Operation) {
	keys := make([]string, 0, len(parts))
	for k := range parts {
		keys = append(keys, k)
	}
	sort.Strings(keys)
	for _, k := range keys {
		ops := parts[k]
		ev.LabelN("lin-ops="+svc, int64(len(ops)))
		switch porcupine.CheckOperationsTimeout(model, ops, 20*time.Second) {
		case porcupine.Ok:
		case porcupine.Unknown:
			ev.Inconclusive(fmt.Sprintf("linearizability check of %s key %s (%d ops) did not finish", svc, k, len(ops)))
		case porcupine.Illegal:
			ev.Violation(t, "not-linearizable:"+svc, sc, "history of key %s has no sequential explanation:\n%s", k, describe(ops, model.DescribeOperation))
		}
	}
}
