package c17

import (
	"context"
	"encoding/binary"
	"encoding/hex"
	"fmt"
	"math/big"
	"strings"
	"sync/atomic"
	"time"

	consensusclient "github.com/attestantio/go-eth2-client"
	"github.com/attestantio/go-eth2-client/api"
	apiv1 "github.com/attestantio/go-eth2-client/api/v1"
	apiv1deneb "github.com/attestantio/go-eth2-client/api/v1/deneb"
	"github.com/attestantio/go-eth2-client/spec"
	"github.com/attestantio/go-eth2-client/spec/altair"
	"github.com/attestantio/go-eth2-client/spec/bellatrix"
	"github.com/attestantio/go-eth2-client/spec/deneb"
	"github.com/attestantio/go-eth2-client/spec/phase0"
	aggbest "github.com/attestantio/vouch/strategies/aggregateattestation/best"
	aggfirst "github.com/attestantio/vouch/strategies/aggregateattestation/first"
	attbest "github.com/attestantio/vouch/strategies/attestationdata/best"
	attfirst "github.com/attestantio/vouch/strategies/attestationdata/first"
	attmajority "github.com/attestantio/vouch/strategies/attestationdata/majority"
	headerfirst "github.com/attestantio/vouch/strategies/beaconblockheader/first"
	propbest "github.com/attestantio/vouch/strategies/beaconblockproposal/best"
	propfirst "github.com/attestantio/vouch/strategies/beaconblockproposal/first"
	rootfirst "github.com/attestantio/vouch/strategies/beaconblockroot/first"
	rootlatest "github.com/attestantio/vouch/strategies/beaconblockroot/latest"
	rootmajority "github.com/attestantio/vouch/strategies/beaconblockroot/majority"
	blockfirst "github.com/attestantio/vouch/strategies/signedbeaconblock/first"
	syncbest "github.com/attestantio/vouch/strategies/synccommitteecontribution/best"
	syncfirst "github.com/attestantio/vouch/strategies/synccommitteecontribution/first"
	"github.com/prysmaticlabs/go-bitfield"
	"github.com/rs/zerolog"
	"pgregory.net/rapid"

	"verifharness/internal/ev"
)

// World of the 14 real beacon-node strategies (strategies/*/{best,majority,
// latest,first}) over 2-5 stateless node doubles.
//
// Every call starts one goroutine per node inside the strategy; those
// goroutines share the call's channels / local tallies and the strategy
// instance.  The node doubles of one call answer together: they meet at a
// barrier that travels in the call's context (no state shared between calls).
//
// Role call (max 3): concurrent calls on ONE strategy instance, which
// production has wherever two duty jobs of a kind run together:
// attestation data - "Attestations for slot N" jobs of consecutive slots (a
// slow node keeps the first one busy) ; aggregate attestation - the
// aggregation jobs of one slot, one per committee ("Beacon block attestation
// aggregation for slot N committee C") ; sync committee contribution - the
// aggregation jobs of consecutive slots ; block root - sync committee message
// and aggregation jobs ; block header - "Early beacon block proposal" jobs ;
// signed block - the cache's and the controller's head-event handlers (two
// subscriptions) ; proposal - proposal jobs of consecutive slots.
// Role headStream (propbest only, max 1): the strategy's own head-event
// subscription (beaconblockproposal/best/service.go: Events(ctx, {"head"},
// s.HandleHeadEvent)), which maintains the prior block votes.
var stratNames = []string{
	"attestationdata/best", "attestationdata/majority", "attestationdata/first",
	"aggregateattestation/best", "aggregateattestation/first",
	"synccommitteecontribution/best", "synccommitteecontribution/first",
	"beaconblockroot/first", "beaconblockroot/latest", "beaconblockroot/majority",
	"beaconblockheader/first", "signedbeaconblock/first",
	"beaconblockproposal/first", "beaconblockproposal/best",
}

const stratBaseSlot = 32 * 1000

// ---- per-call barrier in the context

type barrierKey struct{}

type callBarrier struct {
	left atomic.Int32
	ch   chan struct{}
}

func withBarrier(ctx context.Context, n int) context.Context {
	b := &callBarrier{ch: make(chan struct{})}
	b.left.Store(int32(n))
	return context.WithValue(ctx, barrierKey{}, b)
}

// meet waits until all nodes of the call have been asked (or the call is over).
func meet(ctx context.Context) {
	b, ok := ctx.Value(barrierKey{}).(*callBarrier)
	if !ok {
		return
	}
	if b.left.Add(-1) == 0 {
		close(b.ch)
		return
	}
	select {
	case <-b.ch:
	case <-ctx.Done():
	}
}

// ---- values

func slotRoot(slot uint64) phase0.Root {
	var r phase0.Root
	r[0] = 0xa7
	binary.BigEndian.PutUint64(r[8:16], slot)
	r[31] = 0xc7
	return r
}

func slotOfRoot(r phase0.Root) (uint64, bool) {
	if r[0] != 0xa7 || r[31] != 0xc7 {
		return 0, false
	}
	return binary.BigEndian.Uint64(r[8:16]), true
}

type stratCache struct{}

func (stratCache) BlockRootToSlot(_ context.Context, root phase0.Root) (phase0.Slot, error) {
	s, ok := slotOfRoot(root)
	if !ok {
		return 0, strErr("unknown root")
	}
	return phase0.Slot(s), nil
}

// stratNode is one beacon node: stateless, its answers depend on its index and
// on the request only.
type stratNode struct {
	i   uint64
	err bool
	f   faults
	// spare: the one node that never fails, so that no call has to wait for the
	// strategy's timeout (the 'first' strategies only return early on a success).
	spare bool
}

func (n *stratNode) head(slot uint64) phase0.Root {
	if n.i%2 == 1 && slot > 0 {
		return slotRoot(slot - 1) // this node has not seen the latest block yet
	}
	return slotRoot(slot)
}

func (n *stratNode) fail(ctx context.Context) error {
	// failing for the whole scenario, or for this call (scripted)
	if n.err || (!n.spare && n.f.hit("node-err", callOf(ctx)<<4^n.i)) {
		return strErr("scripted node failure")
	}
	return nil
}

func (n *stratNode) AttestationData(ctx context.Context, opts *api.AttestationDataOpts) (*api.Response[*phase0.AttestationData], error) {
	meet(ctx)
	if err := n.fail(ctx); err != nil {
		return nil, err
	}
	slot := uint64(opts.Slot)
	epoch := slot / 32
	return &api.Response[*phase0.AttestationData]{Data: &phase0.AttestationData{
		Slot:            opts.Slot,
		Index:           opts.CommitteeIndex,
		BeaconBlockRoot: n.head(slot),
		Source:          &phase0.Checkpoint{Epoch: phase0.Epoch(epoch - 1), Root: slotRoot((epoch - 1) * 32)},
		Target:          &phase0.Checkpoint{Epoch: phase0.Epoch(epoch), Root: slotRoot(epoch * 32)},
	}, Metadata: map[string]any{}}, nil
}

func (n *stratNode) AggregateAttestation(ctx context.Context, opts *api.AggregateAttestationOpts) (*api.Response[*phase0.Attestation], error) {
	meet(ctx)
	if err := n.fail(ctx); err != nil {
		return nil, err
	}
	bits := bitfield.NewBitlist(16)
	for k := uint64(0); k <= n.i*2; k++ {
		bits.SetBitAt(k%16, true)
	}
	epoch := uint64(opts.Slot) / 32
	a := &phase0.Attestation{AggregationBits: bits, Data: &phase0.AttestationData{Slot: opts.Slot, Index: 3,
		Source: &phase0.Checkpoint{Epoch: phase0.Epoch(epoch - 1)}, Target: &phase0.Checkpoint{Epoch: phase0.Epoch(epoch)}}}
	a.Signature[0] = byte(n.i + 1)
	return &api.Response[*phase0.Attestation]{Data: a, Metadata: map[string]any{}}, nil
}

func (n *stratNode) SyncCommitteeContribution(ctx context.Context, opts *api.SyncCommitteeContributionOpts) (*api.Response[*altair.SyncCommitteeContribution], error) {
	meet(ctx)
	if err := n.fail(ctx); err != nil {
		return nil, err
	}
	c := &altair.SyncCommitteeContribution{Slot: opts.Slot, BeaconBlockRoot: opts.BeaconBlockRoot, SubcommitteeIndex: opts.SubcommitteeIndex, AggregationBits: bitfield.NewBitvector128()}
	for k := uint64(0); k <= n.i*3; k++ {
		c.AggregationBits.SetBitAt(k, true)
	}
	c.Signature[0] = byte(n.i + 1)
	return &api.Response[*altair.SyncCommitteeContribution]{Data: c, Metadata: map[string]any{}}, nil
}

func (n *stratNode) Proposal(ctx context.Context, opts *api.ProposalOpts) (*api.Response[*api.VersionedProposal], error) {
	meet(ctx)
	if err := n.fail(ctx); err != nil {
		return nil, err
	}
	p := &api.VersionedProposal{
		Version:        spec.DataVersionDeneb,
		ConsensusValue: big.NewInt(100 + int64(n.i)),
		ExecutionValue: big.NewInt(1000 * int64(n.i%3)),
		Deneb: &apiv1deneb.BlockContents{Block: &deneb.BeaconBlock{Slot: opts.Slot, ProposerIndex: phase0.ValidatorIndex(n.i + 1),
			Body: &deneb.BeaconBlockBody{Graffiti: opts.Graffiti, ExecutionPayload: &deneb.ExecutionPayload{FeeRecipient: bellatrix.ExecutionAddress{0xfe, byte(n.i + 1)}}}}},
	}
	return &api.Response[*api.VersionedProposal]{Data: p, Metadata: map[string]any{}}, nil
}

func blockSlot(block string) uint64 {
	var s uint64
	if _, err := fmt.Sscanf(block, "%d", &s); err == nil && !strings.HasPrefix(block, "0x") {
		return s
	}
	if b, err := hex.DecodeString(strings.TrimPrefix(block, "0x")); err == nil && len(b) == 32 {
		var r phase0.Root
		copy(r[:], b)
		if s, ok := slotOfRoot(r); ok {
			return s
		}
	}
	return stratBaseSlot
}

func (n *stratNode) BeaconBlockRoot(ctx context.Context, opts *api.BeaconBlockRootOpts) (*api.Response[*phase0.Root], error) {
	meet(ctx)
	if err := n.fail(ctx); err != nil {
		return nil, err
	}
	r := n.head(blockSlot(opts.Block))
	return &api.Response[*phase0.Root]{Data: &r, Metadata: map[string]any{}}, nil
}

func (n *stratNode) BeaconBlockHeader(ctx context.Context, opts *api.BeaconBlockHeaderOpts) (*api.Response[*apiv1.BeaconBlockHeader], error) {
	meet(ctx)
	if err := n.fail(ctx); err != nil {
		return nil, err
	}
	slot := blockSlot(opts.Block)
	return &api.Response[*apiv1.BeaconBlockHeader]{Data: &apiv1.BeaconBlockHeader{Root: n.head(slot), Canonical: true,
		Header: &phase0.SignedBeaconBlockHeader{Message: &phase0.BeaconBlockHeader{Slot: phase0.Slot(slot), ProposerIndex: phase0.ValidatorIndex(n.i + 1)}}}, Metadata: map[string]any{}}, nil
}

func votedBlock(slot uint64, proposer uint64) *spec.VersionedSignedBeaconBlock {
	att := func(committee uint64, bits ...uint64) *phase0.Attestation {
		b := bitfield.NewBitlist(8)
		for _, k := range bits {
			b.SetBitAt(k, true)
		}
		epoch := (slot - 1) / 32
		return &phase0.Attestation{AggregationBits: b, Data: &phase0.AttestationData{Slot: phase0.Slot(slot - 1), Index: phase0.CommitteeIndex(committee),
			BeaconBlockRoot: slotRoot(slot - 1), Source: &phase0.Checkpoint{Epoch: phase0.Epoch(epoch - 1)}, Target: &phase0.Checkpoint{Epoch: phase0.Epoch(epoch)}}}
	}
	return &spec.VersionedSignedBeaconBlock{Version: spec.DataVersionPhase0, Phase0: &phase0.SignedBeaconBlock{Message: &phase0.BeaconBlock{
		Slot: phase0.Slot(slot), ProposerIndex: phase0.ValidatorIndex(proposer), ParentRoot: slotRoot(slot - 1),
		Body: &phase0.BeaconBlockBody{ETH1Data: &phase0.ETH1Data{BlockHash: make([]byte, 32)},
			Attestations: []*phase0.Attestation{att(0, 1, 2), att(1, 3), att(0, 5)}},
	}}}
}

func (n *stratNode) SignedBeaconBlock(ctx context.Context, opts *api.SignedBeaconBlockOpts) (*api.Response[*spec.VersionedSignedBeaconBlock], error) {
	meet(ctx)
	if err := n.fail(ctx); err != nil {
		return nil, err
	}
	return &api.Response[*spec.VersionedSignedBeaconBlock]{Data: votedBlock(blockSlot(opts.Block), n.i+1), Metadata: map[string]any{}}, nil
}

// ---- world

type stratWorld struct {
	sc     *Scenario
	name   string
	nNodes int
	clock  *clock
	call   func(ctx context.Context, slot uint64) error
	onHead consensusclient.EventHandlerFunc
	ok     []int64
	failed []int64
}

func buildStrategy(sc *Scenario) (world, error) {
	w := &stratWorld{sc: sc, nNodes: int(sc.P["nodes"]), ok: make([]int64, len(sc.Roles)), failed: make([]int64, len(sc.Roles))}
	if sc.Service == "propbest" {
		w.name = "beaconblockproposal/best"
	} else {
		w.name = stratNames[sc.P["strat"]%uint64(len(stratNames)-1)]
	}
	if w.nNodes < 2 || w.nNodes > 5 {
		return nil, fmt.Errorf("bad parameters")
	}
	w.clock = newClock(32, stratBaseSlot)
	ctx := context.Background()
	timeout := 4 * time.Second
	nodes := make([]*stratNode, w.nNodes)
	for i := range nodes {
		nodes[i] = &stratNode{i: uint64(i), err: sc.P["err"]&(1<<uint(i)) != 0, f: newFaults(sc.P)}
	}
	if nodes[0].err && w.nNodes == 2 && nodes[1].err {
		nodes[1].err = false
	}
	for _, n := range nodes {
		if !n.err {
			n.spare = true
			break
		}
	}
	name := func(i int) string { return fmt.Sprintf("node-%d", i) }
	cache := stratCache{}
	var err error
	switch w.name {
	case "attestationdata/best", "attestationdata/majority", "attestationdata/first":
		provs := map[string]consensusclient.AttestationDataProvider{}
		for i, n := range nodes {
			provs[name(i)] = n
		}
		var svc consensusclient.AttestationDataProvider
		switch w.name {
		case "attestationdata/best":
			svc, err = attbest.New(ctx, attbest.WithLogLevel(zerolog.Disabled), attbest.WithTimeout(timeout),
				attbest.WithAttestationDataProviders(provs), attbest.WithChainTime(w.clock), attbest.WithBlockRootToSlotCache(cache))
		case "attestationdata/majority":
			svc, err = attmajority.New(ctx, attmajority.WithLogLevel(zerolog.Disabled), attmajority.WithTimeout(timeout),
				attmajority.WithAttestationDataProviders(provs), attmajority.WithChainTime(w.clock), attmajority.WithBlockRootToSlotCache(cache),
				attmajority.WithThreshold(w.nNodes/2+1))
		default:
			svc, err = attfirst.New(ctx, attfirst.WithLogLevel(zerolog.Disabled), attfirst.WithTimeout(timeout), attfirst.WithAttestationDataProviders(provs))
		}
		if err == nil {
			w.call = func(ctx context.Context, slot uint64) error {
				_, err := svc.AttestationData(ctx, &api.AttestationDataOpts{Slot: phase0.Slot(slot), CommitteeIndex: 3})
				return err
			}
		}
	case "aggregateattestation/best", "aggregateattestation/first":
		provs := map[string]consensusclient.AggregateAttestationProvider{}
		for i, n := range nodes {
			provs[name(i)] = n
		}
		var svc consensusclient.AggregateAttestationProvider
		if w.name == "aggregateattestation/best" {
			svc, err = aggbest.New(ctx, aggbest.WithLogLevel(zerolog.Disabled), aggbest.WithTimeout(timeout), aggbest.WithAggregateAttestationProviders(provs))
		} else {
			svc, err = aggfirst.New(ctx, aggfirst.WithLogLevel(zerolog.Disabled), aggfirst.WithTimeout(timeout), aggfirst.WithAggregateAttestationProviders(provs))
		}
		if err == nil {
			w.call = func(ctx context.Context, slot uint64) error {
				_, err := svc.AggregateAttestation(ctx, &api.AggregateAttestationOpts{Slot: phase0.Slot(slot), AttestationDataRoot: phase0.Root{1}})
				return err
			}
		}
	case "synccommitteecontribution/best", "synccommitteecontribution/first":
		provs := map[string]consensusclient.SyncCommitteeContributionProvider{}
		for i, n := range nodes {
			provs[name(i)] = n
		}
		var svc consensusclient.SyncCommitteeContributionProvider
		if w.name == "synccommitteecontribution/best" {
			svc, err = syncbest.New(ctx, syncbest.WithLogLevel(zerolog.Disabled), syncbest.WithTimeout(timeout), syncbest.WithSyncCommitteeContributionProviders(provs))
		} else {
			svc, err = syncfirst.New(ctx, syncfirst.WithLogLevel(zerolog.Disabled), syncfirst.WithTimeout(timeout), syncfirst.WithSyncCommitteeContributionProviders(provs))
		}
		if err == nil {
			w.call = func(ctx context.Context, slot uint64) error {
				_, err := svc.SyncCommitteeContribution(ctx, &api.SyncCommitteeContributionOpts{Slot: phase0.Slot(slot), SubcommitteeIndex: 2, BeaconBlockRoot: slotRoot(slot)})
				return err
			}
		}
	case "beaconblockproposal/best", "beaconblockproposal/first":
		provs := map[string]consensusclient.ProposalProvider{}
		for i, n := range nodes {
			provs[name(i)] = n
		}
		var svc consensusclient.ProposalProvider
		if w.name == "beaconblockproposal/best" {
			evp := newEventsCapture()
			svc, err = propbest.New(ctx, propbest.WithLogLevel(zerolog.Disabled), propbest.WithTimeout(timeout), propbest.WithProposalProviders(provs),
				propbest.WithProcessConcurrency(2), propbest.WithEventsProvider(evp), propbest.WithChainTimeService(w.clock),
				propbest.WithSpecProvider(newSpec(32)), propbest.WithSignedBeaconBlockProvider(nodes[0]), propbest.WithBlockRootToSlotCache(cache))
			if err == nil {
				if len(evp.handlers["head"]) != 1 {
					return nil, fmt.Errorf("beaconblockproposal/best did not subscribe to head events")
				}
				w.onHead = evp.handlers["head"][0]
			}
		} else {
			svc, err = propfirst.New(ctx, propfirst.WithLogLevel(zerolog.Disabled), propfirst.WithTimeout(timeout), propfirst.WithProposalProviders(provs))
		}
		if err == nil {
			w.call = func(ctx context.Context, slot uint64) error {
				_, err := svc.Proposal(ctx, &api.ProposalOpts{Slot: phase0.Slot(slot), RandaoReveal: phase0.BLSSignature{1}, Graffiti: [32]byte{'c', '1', '7'}})
				return err
			}
		}
	case "beaconblockroot/first", "beaconblockroot/latest", "beaconblockroot/majority":
		provs := map[string]consensusclient.BeaconBlockRootProvider{}
		for i, n := range nodes {
			provs[name(i)] = n
		}
		var svc consensusclient.BeaconBlockRootProvider
		switch w.name {
		case "beaconblockroot/first":
			svc, err = rootfirst.New(ctx, rootfirst.WithLogLevel(zerolog.Disabled), rootfirst.WithTimeout(timeout), rootfirst.WithBeaconBlockRootProviders(provs))
		case "beaconblockroot/latest":
			svc, err = rootlatest.New(ctx, rootlatest.WithLogLevel(zerolog.Disabled), rootlatest.WithTimeout(timeout), rootlatest.WithBeaconBlockRootProviders(provs),
				rootlatest.WithBlockRootToSlotCache(cache))
		default:
			svc, err = rootmajority.New(ctx, rootmajority.WithLogLevel(zerolog.Disabled), rootmajority.WithTimeout(timeout), rootmajority.WithBeaconBlockRootProviders(provs),
				rootmajority.WithBlockRootToSlotCache(cache))
		}
		if err == nil {
			w.call = func(ctx context.Context, slot uint64) error {
				_, err := svc.BeaconBlockRoot(ctx, &api.BeaconBlockRootOpts{Block: fmt.Sprintf("%d", slot)})
				return err
			}
		}
	case "beaconblockheader/first":
		provs := map[string]consensusclient.BeaconBlockHeadersProvider{}
		for i, n := range nodes {
			provs[name(i)] = n
		}
		var svc *headerfirst.Service
		svc, err = headerfirst.New(ctx, headerfirst.WithLogLevel(zerolog.Disabled), headerfirst.WithTimeout(timeout), headerfirst.WithBeaconBlockHeadersProviders(provs))
		if err == nil {
			w.call = func(ctx context.Context, slot uint64) error {
				_, err := svc.BeaconBlockHeader(ctx, &api.BeaconBlockHeaderOpts{Block: fmt.Sprintf("%d", slot)})
				return err
			}
		}
	case "signedbeaconblock/first":
		provs := map[string]consensusclient.SignedBeaconBlockProvider{}
		for i, n := range nodes {
			provs[name(i)] = n
		}
		var svc *blockfirst.Service
		svc, err = blockfirst.New(ctx, blockfirst.WithLogLevel(zerolog.Disabled), blockfirst.WithTimeout(timeout), blockfirst.WithSignedBeaconBlockProviders(provs))
		if err == nil {
			w.call = func(ctx context.Context, slot uint64) error {
				_, err := svc.SignedBeaconBlock(ctx, &api.SignedBeaconBlockOpts{Block: fmt.Sprintf("%d", slot)})
				return err
			}
		}
	default:
		return nil, fmt.Errorf("unknown strategy %q", w.name)
	}
	if err != nil {
		return nil, err
	}
	return w, nil
}

func (w *stratWorld) prepare(rep int) { w.clock.slot.Store(stratBaseSlot + uint64(rep)*4) }

func (w *stratWorld) run(rep int, ri int, _ *Role, op *Op, call uint64) {
	slot := stratBaseSlot + uint64(rep)*4 + op.A%4
	switch op.K {
	case "call":
		if err := w.call(withBarrier(withCall(context.Background(), call), w.nNodes), slot); err != nil {
			w.failed[ri]++
		} else {
			w.ok[ri]++
		}
	case "head":
		if w.onHead != nil {
			w.onHead(&apiv1.Event{Topic: "head", Data: &apiv1.HeadEvent{Slot: phase0.Slot(slot), Block: slotRoot(slot)}})
		}
	default:
		panic("harness: unknown strategy op " + op.K)
	}
}

// finish: the 'first' strategies return at the first answer; the goroutines of
// the other nodes end as soon as their (cancelled) call returns.
func (w *stratWorld) finish(int) string { return "" }

func (w *stratWorld) judge(ev.TB, *Scenario) {
	var ok, failed int64
	for i := range w.ok {
		ok += w.ok[i]
		failed += w.failed[i]
	}
	ev.LabelN("strategy="+w.name, 1)
	ev.LabelN("strategy-call-ok="+w.name, ok)
	ev.LabelN("strategy-call-error="+w.name, failed)
}

func (w *stratWorld) close() {}

func init() {
	calls := func(t *rapid.T, _ map[string]uint64, _, _ int) []Op {
		n := rapid.IntRange(1, 4).Draw(t, "nOps")
		ops := make([]Op, n)
		for i := range ops {
			ops[i] = Op{K: "call", A: rapid.Uint64Range(0, 3).Draw(t, "slot")}
		}
		return ops
	}
	heads := func(t *rapid.T, _ map[string]uint64, _, _ int) []Op {
		n := rapid.IntRange(1, 4).Draw(t, "nOps")
		ops := make([]Op, n)
		for i := range ops {
			ops[i] = Op{K: "head", A: rapid.Uint64Range(0, 3).Draw(t, "slot")}
		}
		return ops
	}
	params := func(withStrat bool) func(t *rapid.T) map[string]uint64 {
		return func(t *rapid.T) map[string]uint64 {
			p := map[string]uint64{}
			if withStrat {
				// uniform over the strategies (SampledFrom prefers early entries)
				p["strat"] = uint64(rapid.IntRange(0, 1<<16).Draw(t, "strat") % (len(stratNames) - 1))
			}
			n := rapid.Uint64Range(2, 5).Draw(t, "nodes")
			p["nodes"] = n
			p["err"] = rapid.SampledFrom([]uint64{0, 0, 0, 1, 2, 4, 5}).Draw(t, "errMask") & ((1 << n) - 1)
			if p["err"] == (1<<n)-1 {
				p["err"] = 0
			}
			genFaults(t, p)
			return p
		}
	}
	register(&svcDef{
		name:   "strategy",
		weight: 4,
		reps:   10,
		roles: []roleDef{
			{kind: "call", max: 3, why: "duty jobs of one kind running together, each a goroutine; one goroutine per node inside each call", gen: calls},
		},
		params: params(true),
		build:  buildStrategy,
	})
	register(&svcDef{
		name:   "propbest",
		weight: 1,
		reps:   10,
		roles: []roleDef{
			{kind: "call", max: 2, why: "proposal jobs; one goroutine per node inside each call", gen: calls},
			{kind: "headStream", max: 1, why: "the strategy's own head-event subscription (prior block votes)", gen: heads},
		},
		params: params(false),
		build:  buildStrategy,
	})
}
