package c20

import (
	"reflect"
	"regexp"
	"runtime"
	"sort"
	"strconv"
	"strings"
)

const vouchPath = "github.com/attestantio/vouch/"

// sizes walks everything reachable from the given service values and returns,
// per container (map, slice, chan) identified by "<package>.<Type>.<field path>",
// the largest entry count among its instances.  Only structs declared in vouch
// packages are entered (not the harness doubles, loggers, mutexes ...), so what
// is measured is vouch's own bookkeeping.  Fields are found by kind, not by name.
func sizes(roots ...any) map[string]int {
	w := &walker{res: map[string]int{}, seen: map[uintptr]bool{}}
	for _, r := range roots {
		if r == nil {
			continue
		}
		w.walk(reflect.ValueOf(r), "", 0)
	}
	return w.res
}

type walker struct {
	res  map[string]int
	seen map[uintptr]bool
}

func (w *walker) record(path string, n int) {
	if path == "" {
		return
	}
	if cur, ok := w.res[path]; !ok || n > cur {
		w.res[path] = n
	}
}

func composite(t reflect.Type) bool {
	switch t.Kind() {
	case reflect.Ptr, reflect.Struct, reflect.Map, reflect.Slice, reflect.Interface, reflect.Array, reflect.Chan:
		if t.Kind() == reflect.Array || t.Kind() == reflect.Slice {
			return composite(t.Elem())
		}
		return true
	}
	return false
}

func (w *walker) walk(v reflect.Value, path string, depth int) {
	if depth > 24 || !v.IsValid() {
		return
	}
	switch v.Kind() {
	case reflect.Ptr:
		if v.IsNil() {
			return
		}
		p := v.Pointer()
		if w.seen[p] {
			return
		}
		w.seen[p] = true
		w.walk(v.Elem(), path, depth+1)
	case reflect.Interface:
		if v.IsNil() {
			return
		}
		w.walk(v.Elem(), path, depth+1)
	case reflect.Struct:
		t := v.Type()
		if !strings.HasPrefix(t.PkgPath(), vouchPath) {
			return
		}
		base := path
		if t.Name() != "" && !strings.Contains(path, "[]") {
			// a named vouch struct starts a new signature: package.Type
			base = strings.TrimPrefix(t.PkgPath(), vouchPath) + "." + t.Name()
		} else if t.Name() != "" {
			base = path + "{" + t.Name() + "}"
		}
		for i := 0; i < t.NumField(); i++ {
			w.walk(v.Field(i), base+"."+t.Field(i).Name, depth+1)
		}
	case reflect.Map:
		w.record(path, v.Len())
		if v.Len() == 0 || !composite(v.Type().Elem()) {
			return
		}
		it := v.MapRange()
		for it.Next() {
			w.walk(it.Value(), path+"[]", depth+1)
		}
	case reflect.Slice:
		if v.IsNil() {
			return
		}
		w.record(path, v.Len())
		if !composite(v.Type().Elem()) {
			return
		}
		for i := 0; i < v.Len() && i < 100000; i++ {
			w.walk(v.Index(i), path+"[]", depth+1)
		}
	case reflect.Array:
		if !composite(v.Type().Elem()) {
			return
		}
		for i := 0; i < v.Len(); i++ {
			w.walk(v.Index(i), path+"[]", depth+1)
		}
	case reflect.Chan:
		if v.IsNil() {
			return
		}
		w.record(path, v.Len())
	}
}

// ---- goroutine inspection ----

type gor struct {
	id    int
	state string
	fn    string // innermost function of vouch code on the stack ("" if none)
	top   string // innermost function at all
}

var gorHeader = regexp.MustCompile(`^goroutine (\d+) \[([^\],]+)`)

// goroutines parses a full stack dump.
func goroutines() []gor {
	buf := make([]byte, 1<<20)
	for {
		n := runtime.Stack(buf, true)
		if n < len(buf) {
			buf = buf[:n]
			break
		}
		buf = make([]byte, 2*len(buf))
	}
	var res []gor
	for _, block := range strings.Split(string(buf), "\n\n") {
		lines := strings.Split(block, "\n")
		m := gorHeader.FindStringSubmatch(lines[0])
		if m == nil {
			continue
		}
		id, _ := strconv.Atoi(m[1])
		g := gor{id: id, state: m[2]}
		for _, l := range lines[1:] {
			if strings.HasPrefix(l, "\t") || strings.HasPrefix(l, "created by") {
				continue
			}
			fn := l
			if i := strings.LastIndex(fn, "("); i > 0 {
				fn = fn[:i]
			}
			if g.top == "" {
				g.top = fn
			}
			if g.fn == "" && strings.HasPrefix(fn, vouchPath) {
				g.fn = strings.TrimPrefix(fn, vouchPath)
			}
		}
		res = append(res, g)
	}
	return res
}

// parkedSenderCounts returns, per vouch function, the number of goroutines that
// are blocked on a channel send directly inside that function.  It uses the
// goroutine profile (program counters only), which is much cheaper than a
// formatted stack dump once thousands of goroutines exist.
var (
	pcNames   = map[uintptr]string{}
	profileBuf []runtime.StackRecord
)

func pcName(pc uintptr) string {
	if n, ok := pcNames[pc]; ok {
		return n
	}
	n := ""
	if f := runtime.FuncForPC(pc - 1); f != nil {
		n = f.Name()
	}
	pcNames[pc] = n
	return n
}

func parkedSenderCounts() map[string]int {
	for {
		n, ok := runtime.GoroutineProfile(profileBuf)
		if ok {
			profileBuf = profileBuf[:n]
			break
		}
		profileBuf = make([]runtime.StackRecord, n+n/4+64)
	}
	res := map[string]int{}
	for i := range profileBuf {
		st := profileBuf[i].Stack()
		// innermost frames: runtime.gopark, runtime.chansend, runtime.chansend1, then the sender
		sending := false
		for _, pc := range st {
			name := pcName(pc)
			if strings.HasPrefix(name, "runtime.") {
				if name == "runtime.chansend" || name == "runtime.chansend1" {
					sending = true
				}
				continue
			}
			if sending && strings.HasPrefix(name, vouchPath) {
				res[strings.TrimPrefix(name, vouchPath)]++
			}
			break
		}
	}
	profileBuf = profileBuf[:cap(profileBuf)]
	return res
}

// parkedSenders returns the goroutines blocked on a channel send inside vouch
// code (ids -> function).
func parkedSenders() map[int]string {
	res := map[int]string{}
	for _, g := range goroutines() {
		if g.state == "chan send" && strings.HasPrefix(g.top, vouchPath) {
			res[g.id] = g.fn
		}
	}
	return res
}

func sortedKeys[V any](m map[string]V) []string {
	ks := make([]string, 0, len(m))
	for k := range m {
		ks = append(ks, k)
	}
	sort.Strings(ks)
	return ks
}
