package c20

import (
	"testing"

	"verifharness/internal/ev"
)

func TestMain(m *testing.M) { ev.Main(m, "C20") }
