package c20

import (
	"context"
	"sort"
	"strings"
	"sync"
	"time"

	nullmetrics "github.com/attestantio/vouch/services/metrics/null"
	"github.com/attestantio/vouch/services/scheduler"
	advanced "github.com/attestantio/vouch/services/scheduler/advanced"
	"github.com/rs/zerolog"

	"verifharness/internal/fakes"
)

// realSched drives the *real* advanced scheduler from virtual time: every job is
// handed to the real scheduler with a run time far in the (real) future, so its
// timer never fires; the harness fires a job through the real RunJob.  All the
// bookkeeping of the real scheduler (job table, per-job goroutine and channels,
// cancel, run, periodic loop) is exercised and visible to the growth oracle.
type realSched struct {
	inner *advanced.Service
	mu    sync.Mutex
	jobs  map[string]*shadow
	seq   int
	// claimed: one-off jobs that vouch itself has told the scheduler to run now and whose
	// goroutine has not finished yet (they are no longer in the table but still alive).
	claimed int
}

type shadow struct {
	fakes.Job
	done    chan struct{} // closed when the execution started by Fire has finished
	claimed bool
}

func newRealSched() (*realSched, error) {
	inner, err := advanced.New(context.Background(), advanced.WithLogLevel(zerolog.Disabled), advanced.WithMonitor(nullmetrics.New()))
	if err != nil {
		return nil, err
	}
	return &realSched{inner: inner, jobs: map[string]*shadow{}}, nil
}

func farFuture() time.Time { return time.Now().Add(2000 * time.Hour) }

func (s *realSched) ScheduleJob(ctx context.Context, class string, name string, runtime time.Time, job scheduler.JobFunc) error {
	if job == nil {
		return s.inner.ScheduleJob(ctx, class, name, farFuture(), nil)
	}
	sh := &shadow{Job: fakes.Job{Class: class, Name: name, Time: runtime, Func: job, Ctx: ctx}}
	wrapped := func(ctx context.Context) {
		// a one-off job leaves the table when it starts
		s.mu.Lock()
		if s.jobs[name] == sh {
			delete(s.jobs, name)
		}
		s.mu.Unlock()
		job(ctx)
		s.mu.Lock()
		if sh.done != nil {
			close(sh.done)
			sh.done = nil
		}
		if sh.claimed {
			sh.claimed = false
			s.claimed--
		}
		s.mu.Unlock()
	}
	s.mu.Lock()
	defer s.mu.Unlock()
	if err := s.inner.ScheduleJob(ctx, class, name, farFuture(), wrapped); err != nil {
		return err
	}
	s.seq++
	sh.Seq = s.seq
	s.jobs[name] = sh
	return nil
}

func (s *realSched) SchedulePeriodicJob(ctx context.Context, class string, name string, runtime scheduler.RuntimeFunc, job scheduler.JobFunc) error {
	if runtime == nil || job == nil {
		return s.inner.SchedulePeriodicJob(ctx, class, name, runtime, job)
	}
	sh := &shadow{Job: fakes.Job{Class: class, Name: name, Periodic: true, Runtime: runtime, Func: job, Ctx: ctx}}
	wrappedRuntime := func(ctx context.Context) (time.Time, error) {
		if _, err := runtime(ctx); err != nil {
			return time.Time{}, err
		}
		return farFuture(), nil
	}
	wrapped := func(ctx context.Context) {
		job(ctx)
		s.mu.Lock()
		if sh.done != nil {
			close(sh.done)
			sh.done = nil
		}
		s.mu.Unlock()
	}
	s.mu.Lock()
	defer s.mu.Unlock()
	if err := s.inner.SchedulePeriodicJob(ctx, class, name, wrappedRuntime, wrapped); err != nil {
		return err
	}
	s.seq++
	sh.Seq = s.seq
	s.jobs[name] = sh
	return nil
}

// CancelJob: the table and the real scheduler change together (under the adapter's
// lock), otherwise a concurrent ScheduleJob of the same name - overlapping duty
// refreshes do that - could have its fresh entry removed by this cancel.
func (s *realSched) CancelJob(ctx context.Context, name string) error {
	s.mu.Lock()
	defer s.mu.Unlock()
	err := s.inner.CancelJob(ctx, name)
	if sh := s.jobs[name]; err == nil || (sh != nil && sh.Ctx != nil && sh.Ctx.Err() != nil) {
		// (a job whose parent context is done has been dropped by the real scheduler itself)
		delete(s.jobs, name)
	}
	return err
}

func (s *realSched) CancelJobIfExists(ctx context.Context, name string) {
	_ = s.CancelJob(ctx, name)
}

func (s *realSched) CancelJobs(ctx context.Context, prefix string) {
	s.mu.Lock()
	defer s.mu.Unlock()
	s.inner.CancelJobs(ctx, prefix)
	for n := range s.jobs {
		if strings.HasPrefix(n, prefix) {
			delete(s.jobs, n)
		}
	}
}

// RunJob is vouch telling the scheduler to run a job now.  The job leaves the table
// at once (as in the real scheduler); its goroutine stays alive until the job is done.
func (s *realSched) RunJob(ctx context.Context, name string) error {
	s.mu.Lock()
	defer s.mu.Unlock()
	sh := s.jobs[name]
	err := s.inner.RunJob(ctx, name) // only signals the job's goroutine
	if sh != nil && !sh.Periodic {
		delete(s.jobs, name)
		if err == nil {
			sh.claimed = true
			s.claimed++
		}
	}
	return err
}

func (s *realSched) RunJobIfExists(ctx context.Context, name string) { _ = s.RunJob(ctx, name) }

func (s *realSched) JobExists(ctx context.Context, name string) bool { return s.inner.JobExists(ctx, name) }

func (s *realSched) ListJobs(ctx context.Context) []string { return s.inner.ListJobs(ctx) }

// Jobs implements c03world.SchedDriver (virtual times).
func (s *realSched) Jobs() []fakes.Job {
	s.mu.Lock()
	defer s.mu.Unlock()
	res := make([]fakes.Job, 0, len(s.jobs))
	for _, j := range s.jobs {
		res = append(res, j.Job)
	}
	sort.Slice(res, func(i, k int) bool {
		if !res[i].Time.Equal(res[k].Time) {
			return res[i].Time.Before(res[k].Time)
		}
		return res[i].Seq < res[k].Seq
	})
	return res
}

// Fire implements c03world.SchedDriver: runs the job through the real RunJob and
// waits until the job function has returned.
func (s *realSched) Fire(name string) bool {
	s.mu.Lock()
	sh := s.jobs[name]
	if sh == nil {
		s.mu.Unlock()
		return false
	}
	done := make(chan struct{})
	sh.done = done
	s.mu.Unlock()
	if err := s.inner.RunJob(context.Background(), name); err != nil {
		s.mu.Lock()
		sh.done = nil
		if !sh.Periodic {
			delete(s.jobs, name)
		}
		s.mu.Unlock()
		return false
	}
	select {
	case <-done:
	case <-time.After(120 * time.Second):
		// harness watchdog; the world's Quiesce will report
	}
	return true
}

// goroutines is the number of goroutines the real scheduler legitimately has: one
// per job.  Counted from the shadow table: asking the real scheduler would take its
// deadlock-detecting mutex, which starts a short-lived helper goroutine of its own
// and so disturbs the very count the caller is about to read.
func (s *realSched) goroutines() int {
	s.mu.Lock()
	defer s.mu.Unlock()
	// a job that vouch has told the scheduler to run now (claimed) is not in the
	// table any more; its goroutine is work in progress, not part of the allowance
	return len(s.jobs)
}
