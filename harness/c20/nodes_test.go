package c20

import (
	"context"
	"crypto/sha256"
	"encoding/binary"
	"errors"
	"sync"
	"sync/atomic"
	"time"

	"github.com/attestantio/go-eth2-client/api"
	apiv1 "github.com/attestantio/go-eth2-client/api/v1"
	"github.com/attestantio/go-eth2-client/spec"
	"github.com/attestantio/go-eth2-client/spec/altair"
	"github.com/attestantio/go-eth2-client/spec/phase0"
	"github.com/prysmaticlabs/go-bitfield"
	e2wtypes "github.com/wealdtech/go-eth2-wallet-types/v2"

	"verifharness/c03world"
)

// ---- beacon node doubles with scripted behaviour ----

type mode int

const (
	mFast    mode = iota // answer at once
	mLate                // answer after a few milliseconds
	mBarrier             // all providers of the call answer at the same instant
	mHangCtx             // hang until the caller's context is done
	mNever               // ignore the context; answer only when the harness releases the doubles
	mError               // fail at once
)

// pool is shared by all node doubles of a run.
type pool struct {
	mix       string
	providers int
	release   chan struct{} // closed at the end of the run
	held      atomic.Int32  // calls blocked in mNever
	hanging   atomic.Int32  // calls blocked in mHangCtx (until their context is done)
	pcalls    map[*pcall]struct{}
	faulty    func(kind string) bool
	clockSlot func() uint64
	inflight  atomic.Int32  // calls inside a double that are not held
	mu        sync.Mutex
	barriers  map[string]*barrier
	// statistics
	simultaneous atomic.Int64 // calls in which >= 3 providers answered at the same instant
	never        atomic.Int64
	calls        atomic.Int64
}

type barrier struct {
	n    int
	got  int
	open chan struct{}
}

func newPool(mix string, providers int) *pool {
	return &pool{mix: mix, providers: providers, release: make(chan struct{}), barriers: map[string]*barrier{}, pcalls: map[*pcall]struct{}{}}
}

// modeFor is a pure function of the case: which behaviour provider idx shows for
// the call identified by (what, key).
func (p *pool) modeFor(what string, key uint64, idx int) mode {
	h := key*7 + uint64(len(what))*13
	switch p.mix {
	case "healthy":
		return mFast
	case "late":
		if (h+uint64(idx))%3 == 0 {
			return mLate
		}
		return mFast
	case "same-instant":
		if h%2 == 0 {
			return mBarrier
		}
		return mFast
	case "some-never":
		// one provider never answers in one call out of eight; another hangs until cancelled
		if h%8 == 3 && idx == int(h/8)%p.providers {
			return mNever
		}
		// ... and in one call out of sixteen a second one does not answer either
		if h%16 == 3 && idx == (int(h/8)+1)%p.providers {
			return mNever
		}
		if h%8 == 5 && idx == int(h/8)%p.providers {
			return mHangCtx
		}
		return mFast
	default: // mixed
		if h%16 == 7 && idx < 2 {
			return mNever // two nodes of the same call never answer
		}
		switch (h + uint64(idx)*3) % 16 {
		case 0:
			return mLate
		case 1:
			if h%4 == 1 {
				return mNever
			}
			return mFast
		case 2:
			return mHangCtx
		case 3:
			return mError
		}
		if h%5 == 0 {
			return mBarrier
		}
		return mFast
	}
}

// do applies the behaviour; a nil error means "answer now".
func (p *pool) do(ctx context.Context, what string, key uint64, idx int) error {
	p.calls.Add(1)
	pc := p.enter(ctx, what, idx)
	defer p.exit(pc)
	if what == "attestationdata" && p.faulty != nil && p.faulty("att-data") {
		return errors.New("scripted: no attestation data available")
	}
	m := p.modeFor(what, key, idx)
	if m == mHangCtx {
		// the node accepted the request and does not answer; only the caller can end it
		p.hanging.Add(1)
		defer p.hanging.Add(-1)
		select {
		case <-ctx.Done():
			return ctx.Err()
		case <-p.release:
			return errors.New("released")
		}
	}
	if m == mNever {
		p.never.Add(1)
		p.held.Add(1)
		<-p.release
		p.held.Add(-1)
		return nil
	}
	p.inflight.Add(1)
	defer p.inflight.Add(-1)
	switch m {
	case mLate:
		select {
		case <-time.After(3 * time.Millisecond):
		case <-p.release:
		}
	case mBarrier:
		// how many providers of this call take part
		n := 0
		for i := 0; i < p.providers; i++ {
			if p.modeFor(what, key, i) == mBarrier {
				n++
			}
		}
		bk := what + "/" + string(binary.LittleEndian.AppendUint64(nil, key))
		p.mu.Lock()
		b := p.barriers[bk]
		if b == nil {
			b = &barrier{n: n, open: make(chan struct{})}
			p.barriers[bk] = b
		}
		b.got++
		if b.got >= b.n {
			close(b.open)
			delete(p.barriers, bk)
			if b.n >= 3 {
				p.simultaneous.Add(1)
			}
		}
		p.mu.Unlock()
		select {
		case <-b.open:
		case <-time.After(200 * time.Millisecond): // a provider of the call was never asked
		case <-p.release:
		}
	case mHangCtx:
		select {
		case <-ctx.Done():
			return ctx.Err()
		case <-p.release:
			return errors.New("released")
		}
	case mError:
		return errors.New("scripted node failure")
	}
	return nil
}

// node is one beacon node double (index idx of the pool).
type node struct {
	p   *pool
	idx int
	w   *c03world.World
}

func headRoot(slot uint64) phase0.Root {
	var r phase0.Root
	r[0] = 0x4e
	binary.LittleEndian.PutUint64(r[8:], slot)
	return r
}

func (n *node) AttestationData(ctx context.Context, opts *api.AttestationDataOpts) (*api.Response[*phase0.AttestationData], error) {
	if err := n.p.do(ctx, "attestationdata", uint64(opts.Slot), n.idx); err != nil {
		return nil, err
	}
	epoch := uint64(opts.Slot) / n.w.P.SlotsPerEpoch
	src := uint64(0)
	if epoch > 0 {
		src = epoch - 1
	}
	return &api.Response[*phase0.AttestationData]{Data: &phase0.AttestationData{
		Slot:            opts.Slot,
		Index:           opts.CommitteeIndex,
		BeaconBlockRoot: headRoot(uint64(opts.Slot)),
		Source:          &phase0.Checkpoint{Epoch: phase0.Epoch(src)},
		Target:          &phase0.Checkpoint{Epoch: phase0.Epoch(epoch)},
	}, Metadata: map[string]any{}}, nil
}

func (n *node) BeaconBlockRoot(ctx context.Context, _ *api.BeaconBlockRootOpts) (*api.Response[*phase0.Root], error) {
	slot := n.w.Slot()
	if err := n.p.do(ctx, "beaconblockroot", slot*4+uint64(n.w.Clock.Now().Sub(n.w.StartOfSlot(slot))*4/n.w.SlotDuration()), n.idx); err != nil {
		return nil, err
	}
	r := headRoot(slot)
	return &api.Response[*phase0.Root]{Data: &r, Metadata: map[string]any{}}, nil
}

func (n *node) SyncCommitteeContribution(ctx context.Context, opts *api.SyncCommitteeContributionOpts) (*api.Response[*altair.SyncCommitteeContribution], error) {
	if err := n.p.do(ctx, "contribution", uint64(opts.Slot)*8+opts.SubcommitteeIndex, n.idx); err != nil {
		return nil, err
	}
	bits := bitfield.NewBitvector128()
	bits.SetBitAt(uint64(n.idx), true)
	return &api.Response[*altair.SyncCommitteeContribution]{Data: &altair.SyncCommitteeContribution{
		Slot: opts.Slot, BeaconBlockRoot: opts.BeaconBlockRoot, SubcommitteeIndex: opts.SubcommitteeIndex, AggregationBits: bits,
	}, Metadata: map[string]any{}}, nil
}

func (n *node) BeaconBlockHeader(ctx context.Context, _ *api.BeaconBlockHeaderOpts) (*api.Response[*apiv1.BeaconBlockHeader], error) {
	if err := n.p.do(ctx, "header", n.w.Slot(), n.idx); err != nil {
		return nil, err
	}
	slot := n.w.Chain.HeadSlot()
	return &api.Response[*apiv1.BeaconBlockHeader]{Data: &apiv1.BeaconBlockHeader{
		Root: headRoot(slot), Canonical: true,
		Header: &phase0.SignedBeaconBlockHeader{Message: &phase0.BeaconBlockHeader{Slot: phase0.Slot(slot)}},
	}, Metadata: map[string]any{}}, nil
}

func (n *node) SignedBeaconBlock(ctx context.Context, _ *api.SignedBeaconBlockOpts) (*api.Response[*spec.VersionedSignedBeaconBlock], error) {
	if err := n.p.do(ctx, "block", n.w.Slot(), n.idx); err != nil {
		return nil, err
	}
	slot := n.w.Slot()
	parent := uint64(0)
	if slot > 0 {
		parent = slot - 1
	}
	return &api.Response[*spec.VersionedSignedBeaconBlock]{Data: &spec.VersionedSignedBeaconBlock{
		Version: spec.DataVersionAltair,
		Altair: &altair.SignedBeaconBlock{Message: &altair.BeaconBlock{
			Slot: phase0.Slot(slot), ParentRoot: headRoot(parent),
			Body: &altair.BeaconBlockBody{SyncAggregate: &altair.SyncAggregate{SyncCommitteeBits: bitfield.NewBitvector512()}},
		}},
	}, Metadata: map[string]any{}}, nil
}

func (n *node) Proposal(ctx context.Context, opts *api.ProposalOpts) (*api.Response[*api.VersionedProposal], error) {
	if err := n.p.do(ctx, "proposal", uint64(opts.Slot), n.idx); err != nil {
		return nil, err
	}
	return &api.Response[*api.VersionedProposal]{Data: &api.VersionedProposal{
		Version: spec.DataVersionPhase0,
		Phase0:  &phase0.BeaconBlock{Slot: opts.Slot, Body: &phase0.BeaconBlockBody{ETH1Data: &phase0.ETH1Data{}}},
	}, Metadata: map[string]any{}}, nil
}

func (n *node) AggregateAttestation(ctx context.Context, opts *api.AggregateAttestationOpts) (*api.Response[*phase0.Attestation], error) {
	if err := n.p.do(ctx, "aggregate", uint64(opts.Slot), n.idx); err != nil {
		return nil, err
	}
	bits := bitfield.NewBitlist(16)
	bits.SetBitAt(uint64(n.idx), true)
	return &api.Response[*phase0.Attestation]{Data: &phase0.Attestation{
		AggregationBits: bits,
		Data:            &phase0.AttestationData{Slot: opts.Slot, Source: &phase0.Checkpoint{}, Target: &phase0.Checkpoint{}},
	}, Metadata: map[string]any{}}, nil
}

// ---- submitters (always accept) ----

type sink struct {
	attestations, syncMessages, contributions, subscriptions atomic.Int64
	faulty                                                   func(kind string) bool
}

func (s *sink) fails(kind string) bool { return s.faulty != nil && s.faulty(kind) }

func (s *sink) SubmitAttestations(_ context.Context, a []*phase0.Attestation) error {
	if s.fails("att-submit") {
		return errors.New("scripted submission failure")
	}
	s.attestations.Add(int64(len(a)))
	return nil
}

func (s *sink) SubmitSyncCommitteeMessages(_ context.Context, m []*altair.SyncCommitteeMessage) error {
	if s.fails("sync-message") {
		return errors.New("scripted submission failure")
	}
	s.syncMessages.Add(int64(len(m)))
	return nil
}

func (s *sink) SubmitSyncCommitteeContributions(_ context.Context, c []*altair.SignedContributionAndProof) error {
	s.contributions.Add(int64(len(c)))
	return nil
}

func (s *sink) SubmitBeaconCommitteeSubscriptions(_ context.Context, b []*apiv1.BeaconCommitteeSubscription) error {
	if s.fails("subscription") {
		return errors.New("scripted subscription failure")
	}
	s.subscriptions.Add(int64(len(b)))
	return nil
}

func (s *sink) SubmitSyncCommitteeSubscriptions(context.Context, []*apiv1.SyncCommitteeSubscription) error {
	return nil
}

// ---- signer double: deterministic non-zero signatures ----

type fakeSigner struct {
	// onAttest is told the slot when the attester asks for its signatures, which it
	// does on the goroutine of the attestation job, i.e. while that job executes.
	onAttest func(slot uint64)
	faulty   func(kind string) bool
}

func sigOf(parts ...[]byte) phase0.BLSSignature {
	h := sha256.New()
	for _, p := range parts {
		h.Write(p)
	}
	var s phase0.BLSSignature
	sum := h.Sum(nil)
	copy(s[:], sum)
	copy(s[32:], sum)
	copy(s[64:], sum)
	s[95] |= 1
	return s
}

func u64(v uint64) []byte { return binary.LittleEndian.AppendUint64(nil, v) }

func (f fakeSigner) SignBeaconAttestations(_ context.Context, accounts []e2wtypes.Account, slot phase0.Slot, committeeIndices []phase0.CommitteeIndex,
	blockRoot phase0.Root, _ phase0.Epoch, _ phase0.Root, _ phase0.Epoch, _ phase0.Root) ([]phase0.BLSSignature, error) {
	if f.onAttest != nil {
		f.onAttest(uint64(slot))
	}
	if f.faulty != nil && f.faulty("att-sign") {
		return nil, errors.New("scripted signing failure")
	}
	res := make([]phase0.BLSSignature, len(accounts))
	for i, a := range accounts {
		res[i] = sigOf(a.PublicKey().Marshal(), u64(uint64(slot)), u64(uint64(committeeIndices[i])), blockRoot[:])
	}
	return res, nil
}

func (fakeSigner) SignSyncCommitteeRoots(_ context.Context, accounts []e2wtypes.Account, epoch phase0.Epoch, root phase0.Root) ([]phase0.BLSSignature, error) {
	res := make([]phase0.BLSSignature, len(accounts))
	for i, a := range accounts {
		if a == nil {
			continue
		}
		res[i] = sigOf(a.PublicKey().Marshal(), u64(uint64(epoch)), root[:])
	}
	return res, nil
}

func (fakeSigner) SignSyncCommitteeSelections(_ context.Context, accounts []e2wtypes.Account, slot phase0.Slot, subcommitteeIndices []uint64) ([]phase0.BLSSignature, error) {
	res := make([]phase0.BLSSignature, len(accounts))
	for i, a := range accounts {
		res[i] = sigOf(a.PublicKey().Marshal(), u64(uint64(slot)), u64(subcommitteeIndices[i]), []byte("selection"))
	}
	return res, nil
}

func (fakeSigner) SignContributionAndProofs(_ context.Context, accounts []e2wtypes.Account, c []*altair.ContributionAndProof) ([]phase0.BLSSignature, error) {
	res := make([]phase0.BLSSignature, len(accounts))
	for i, a := range accounts {
		res[i] = sigOf(a.PublicKey().Marshal(), u64(uint64(c[i].Contribution.Slot)), []byte("contribution"))
	}
	return res, nil
}

// blockRootToSlot is the cache the "best" attestation data strategy scores with.
type blockRootToSlot struct{}

func (blockRootToSlot) BlockRootToSlot(_ context.Context, root phase0.Root) (phase0.Slot, error) {
	if root[0] != 0x4e {
		return 0, errors.New("unknown root")
	}
	return phase0.Slot(binary.LittleEndian.Uint64(root[8:])), nil
}
