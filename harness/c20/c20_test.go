// Package c20 decides property C20: over long runs vouch's per-slot / per-epoch
// / per-job bookkeeping and its goroutines stay bounded, and
// HasPendingAttestations(slot) holds exactly while an attestation job for the
// slot is set up or executing.  Subject: the real controller in the virtual
// world of c03world with the real attester, sync committee messenger, sync
// committee aggregator, beacon committee subscriber and first/best strategies
// behind node doubles, on the reference scheduler or the real advanced scheduler.
package c20

import (
	"context"
	"errors"
	"fmt"
	"os"
	"sync"
	"runtime"
	"sort"
	"strings"
	"testing"
	"time"

	eth2client "github.com/attestantio/go-eth2-client"
	"github.com/attestantio/go-eth2-client/api"
	"github.com/attestantio/go-eth2-client/spec/phase0"
	"github.com/attestantio/vouch/services/attestationaggregator"
	standardattester "github.com/attestantio/vouch/services/attester/standard"
	"github.com/attestantio/vouch/services/beaconblockproposer"
	standardsubscriber "github.com/attestantio/vouch/services/beaconcommitteesubscriber/standard"
	nullmetrics "github.com/attestantio/vouch/services/metrics/null"
	"github.com/attestantio/vouch/services/scheduler"
	standardsyncaggregator "github.com/attestantio/vouch/services/synccommitteeaggregator/standard"
	standardsyncmessenger "github.com/attestantio/vouch/services/synccommitteemessenger/standard"
	bestaggregate "github.com/attestantio/vouch/strategies/aggregateattestation/best"
	firstaggregate "github.com/attestantio/vouch/strategies/aggregateattestation/first"
	bestattdata "github.com/attestantio/vouch/strategies/attestationdata/best"
	firstattdata "github.com/attestantio/vouch/strategies/attestationdata/first"
	majorityattdata "github.com/attestantio/vouch/strategies/attestationdata/majority"
	latestroot "github.com/attestantio/vouch/strategies/beaconblockroot/latest"
	majorityroot "github.com/attestantio/vouch/strategies/beaconblockroot/majority"
	firstheader "github.com/attestantio/vouch/strategies/beaconblockheader/first"
	firstproposal "github.com/attestantio/vouch/strategies/beaconblockproposal/first"
	firstroot "github.com/attestantio/vouch/strategies/beaconblockroot/first"
	firstblock "github.com/attestantio/vouch/strategies/signedbeaconblock/first"
	bestcontribution "github.com/attestantio/vouch/strategies/synccommitteecontribution/best"
	firstcontribution "github.com/attestantio/vouch/strategies/synccommitteecontribution/first"
	"github.com/rs/zerolog"
	e2wtypes "github.com/wealdtech/go-eth2-wallet-types/v2"
	"pgregory.net/rapid"

	"verifharness/c03world"
	"verifharness/internal/ev"
)

// Case is one long run; the history is a pure function of these parameters.
type Case struct {
	P             c03world.Params `json:"params"`
	StartEpoch    uint64          `json:"start_epoch"`
	Epochs        uint64          `json:"epochs"`   // length of the run (2T)
	Strategy      string          `json:"strategy"` // first | best
	RealScheduler bool            `json:"real_scheduler"`
	Providers     int             `json:"providers"`
	NodeMix       string          `json:"node_mix"`     // healthy | late | same-instant | some-never | mixed
	HeadPattern   string          `json:"head_pattern"` // every-slot | gaps | none
	GapEvery      uint64          `json:"gap_every"`    // gaps: every GapEvery-th epoch begins a gap ...
	GapLen        uint64          `json:"gap_len"`      // ... of GapLen epochs without head events
	ReorgEvery    uint64          `json:"reorg_every"`  // a reorg in every ReorgEvery-th epoch (0: none)
	ReorgDepth    string          `json:"reorg_depth"`  // current | previous | alternate
	DutyGapMod    uint64          `json:"duty_gap_mod"` // validator i has no attester duty in epochs with (epoch+i)%mod == 0 (0: never)
	EmptyEvery    uint64          `json:"empty_every"`  // no attester duties at all in every EmptyEvery-th epoch (0: never)
	ProposeEvery  uint64          `json:"propose_every"`
	SyncMembers   int             `json:"sync_members"`
	// DutyOn/DutyOff: attester duties exist for DutyOn epochs, then for DutyOff (>= 2) epochs there are
	// none at all, repeated over the run (0/0: no such gaps).
	DutyOn  uint64 `json:"duty_on"`
	DutyOff uint64 `json:"duty_off"`
	// OverlapEvery: in every OverlapEvery-th epoch the node is slow to return attester duties while
	// (alternately) two root-changing head events arrive close together, or a root-changing head event
	// arrives while the preparation of the next epoch is waiting for its duties (0: never).
	OverlapEvery uint64 `json:"overlap_every"`
	// RootStrategy: strategy for beacon block roots: first (default) | majority | latest
	RootStrategy string `json:"root_strategy,omitempty"`
	// AccountsFaultEvery: at every k-th reorg the accounts provider fails (alternately with an error
	// and with an empty result) while the head event is handled, i.e. during the duty refresh (0: never)
	AccountsFaultEvery uint64 `json:"accounts_fault_every,omitempty"`
	// FaultKind/FaultFrom/FaultLen: a sustained fault: from epoch FaultFrom of the run, for FaultLen epochs,
	// every attestation fails at one point (att-data: no node supplies attestation data; att-sign: the
	// signer fails; att-submit: submission fails), or every sync committee message fails (sync-message),
	// or every beacon committee subscription fails (subscription).  "" : no such phase.
	FaultKind string `json:"fault_kind,omitempty"`
	FaultFrom uint64 `json:"fault_from,omitempty"`
	FaultLen  uint64 `json:"fault_len,omitempty"`
}

// pattern is the node's duty source: plain arithmetic on (epoch, version).
type pattern struct{ c *Case }

func (p pattern) Attester(epoch uint64, version int) []c03world.AttDuty {
	c := p.c
	spe := c.P.SlotsPerEpoch
	if c.EmptyEvery > 0 && epoch%c.EmptyEvery == c.EmptyEvery-1 {
		return nil
	}
	if c.DutyOn > 0 && c.DutyOff > 0 && epoch%(c.DutyOn+c.DutyOff) >= c.DutyOn {
		return nil
	}
	var res []c03world.AttDuty
	for i, v := range c.P.Validators {
		if c.DutyGapMod > 0 && (epoch+uint64(i))%c.DutyGapMod == 0 {
			continue
		}
		s := (v*3 + epoch*5 + uint64(version)*7 + uint64(i)) % spe
		committee := (v + uint64(version)) % 2
		res = append(res, c03world.AttDuty{Validator: v, Slot: epoch*spe + s, Committee: committee, Position: uint64(i), CommitteeLength: 16 + committee,
			CommitteesAtSlot: 2, Aggregator: (v+epoch)%3 == 0})
	}
	return res
}

func (p pattern) Proposer(epoch uint64, version int) []c03world.PropDuty {
	c := p.c
	if c.ProposeEvery == 0 {
		return nil
	}
	var res []c03world.PropDuty
	for k := uint64(0); k < c.P.SlotsPerEpoch; k++ {
		slot := epoch*c.P.SlotsPerEpoch + k
		if slot%c.ProposeEvery == 1 {
			res = append(res, c03world.PropDuty{Slot: slot, Validator: c.P.Validators[(epoch+k+uint64(version))%uint64(len(c.P.Validators))]})
		}
	}
	return res
}

func (p pattern) Sync(period uint64, version int) []c03world.SyncDuty {
	var res []c03world.SyncDuty
	for i, v := range p.c.P.Validators {
		if i >= p.c.SyncMembers {
			break
		}
		res = append(res, c03world.SyncDuty{Validator: v, Indices: []uint64{(v*37 + period*11 + uint64(version)*5) % 512, (v*91 + 7) % 512}})
	}
	return res
}

func watchdog() time.Duration {
	if os.Getenv("VERIF_C20_DEBUG") != "" {
		return 5 * time.Second
	}
	return 90 * time.Second
}

func horizon() (lo, hi uint64) {
	if ev.Tier() == "thorough" {
		return 150, 300
	}
	return 84, 100
}

func genCase(t *rapid.T) Case {
	var c Case
	lo, hi := horizon()
	c.Epochs = rapid.Uint64Range(lo, hi).Draw(t, "epochs")
	spes := []uint64{3, 4}
	if c.Epochs >= 150 {
		spes = []uint64{2, 3, 4}
	}
	p := &c.P
	p.SlotsPerEpoch = rapid.SampledFrom(spes).Draw(t, "spe")
	p.SlotSeconds = rapid.SampledFrom([]uint64{2, 12}).Draw(t, "slotSeconds")
	p.EpochsPerSyncPeriod = rapid.SampledFrom([]uint64{8, 16}).Draw(t, "period")
	p.Altair, p.AltairForkEpoch = true, 0
	p.Bellatrix = rapid.Bool().Draw(t, "bellatrix")
	slotMs := p.SlotSeconds * 1000
	p.MaxAttestationDelayMs = slotMs / 3
	p.AttestationAggregationMs = slotMs * 2 / 3
	p.MaxSyncCommitteeMessageMs = slotMs / 3
	p.SyncCommitteeAggregationMs = slotMs * 2 / 3
	p.MaxProposalDelayMs = rapid.SampledFrom([]uint64{0, slotMs / 6}).Draw(t, "proposalDelay")
	p.FastTrackAttestations = rapid.Bool().Draw(t, "fastTrackAtt")
	p.FastTrackSyncCommittees = rapid.Bool().Draw(t, "fastTrackSync")
	p.VerifySyncCommitteeInclusion = rapid.Bool().Draw(t, "verifySync")
	nv := rapid.IntRange(2, 6).Draw(t, "nValidators")
	base := rapid.Uint64Range(0, 500).Draw(t, "validatorBase")
	for i := 0; i < nv; i++ {
		p.Validators = append(p.Validators, base+uint64(i*i+i))
	}
	c.StartEpoch = rapid.SampledFrom([]uint64{1, 3, 7, 20}).Draw(t, "startEpoch")
	c.Strategy = rapid.SampledFrom([]string{"first", "first", "best", "best", "majority"}).Draw(t, "strategy")
	c.RootStrategy = rapid.SampledFrom([]string{"first", "first", "majority", "latest"}).Draw(t, "rootStrategy")
	c.AccountsFaultEvery = rapid.SampledFrom([]uint64{0, 1, 2, 3}).Draw(t, "accountsFaultEvery")
	c.FaultKind = rapid.SampledFrom([]string{"", "", "", "att-data", "att-sign", "att-submit", "sync-message", "subscription"}).Draw(t, "faultKind")
	if c.FaultKind != "" {
		// from some point in the second quarter of the run to its end (or nearly: then recovery), so that
		// each of the quarters the growth oracle compares sees more of the fault than the one before
		c.FaultFrom = c.Epochs/4 + rapid.Uint64Range(0, c.Epochs/8).Draw(t, "faultFrom")
		c.FaultLen = c.Epochs - c.FaultFrom
		if rapid.Bool().Draw(t, "faultRecovers") {
			c.FaultLen -= rapid.Uint64Range(2, 6).Draw(t, "recoveryEpochs")
		}
	}
	c.RealScheduler = rapid.IntRange(0, 2).Draw(t, "realScheduler") == 0
	c.Providers = rapid.IntRange(2, 4).Draw(t, "providers")
	c.NodeMix = rapid.SampledFrom([]string{"healthy", "late", "same-instant", "some-never", "mixed", "mixed"}).Draw(t, "nodeMix")
	c.HeadPattern = rapid.SampledFrom([]string{"every-slot", "every-slot", "gaps", "gaps", "none"}).Draw(t, "heads")
	c.GapEvery = rapid.Uint64Range(3, 9).Draw(t, "gapEvery")
	c.GapLen = rapid.Uint64Range(1, 3).Draw(t, "gapLen")
	c.ReorgEvery = rapid.SampledFrom([]uint64{0, 1, 2, 3, 5}).Draw(t, "reorgEvery")
	c.ReorgDepth = rapid.SampledFrom([]string{"current", "previous", "alternate"}).Draw(t, "reorgDepth")
	c.DutyGapMod = rapid.SampledFrom([]uint64{0, 0, 3, 4, 7}).Draw(t, "dutyGapMod")
	c.EmptyEvery = rapid.SampledFrom([]uint64{0, 0, 3, 5}).Draw(t, "emptyEvery")
	c.ProposeEvery = rapid.SampledFrom([]uint64{0, 2, 5, 9}).Draw(t, "proposeEvery")
	c.SyncMembers = rapid.IntRange(0, nv).Draw(t, "syncMembers")
	if rapid.Bool().Draw(t, "dutyGaps") {
		c.DutyOn = rapid.Uint64Range(1, 4).Draw(t, "dutyOn")
		c.DutyOff = rapid.Uint64Range(2, 4).Draw(t, "dutyOff")
	}
	c.OverlapEvery = rapid.SampledFrom([]uint64{0, 1, 2, 3}).Draw(t, "overlapEvery")
	return c
}

// ---- doubles that keep the remaining strategies in the loop ----

// stratProposer is a beaconblockproposer.Service that asks the real
// beaconblockproposal "first" strategy for a block when it proposes.
type stratProposer struct {
	w   *c03world.World
	prv eth2client.ProposalProvider
}

func (p *stratProposer) Prepare(_ context.Context, duty *beaconblockproposer.Duty) error {
	p.w.LogCall(c03world.Call{Kind: "propose-prepare", Slot: uint64(duty.Slot()), Validator: uint64(duty.ValidatorIndex())})
	return nil
}

func (p *stratProposer) Propose(ctx context.Context, duty *beaconblockproposer.Duty) {
	p.w.LogCall(c03world.Call{Kind: "propose", Slot: uint64(duty.Slot()), Validator: uint64(duty.ValidatorIndex())})
	_, _ = p.prv.Proposal(ctx, &api.ProposalOpts{Slot: duty.Slot()})
}

// stratAttAggregator is an attestationaggregator.Service that asks the real
// aggregateattestation strategy for the aggregate.
type stratAttAggregator struct {
	w      *c03world.World
	prv    eth2client.AggregateAttestationProvider
	faulty func(string) bool
}

func (a *stratAttAggregator) Aggregate(ctx context.Context, d *attestationaggregator.Duty) {
	a.w.LogCall(c03world.Call{Kind: "att-aggregate", Slot: uint64(d.Slot), Validator: uint64(d.ValidatorIndex)})
	_, _ = a.prv.AggregateAttestation(ctx, &api.AggregateAttestationOpts{Slot: d.Slot, AttestationDataRoot: d.AttestationDataRoot})
}

func (a *stratAttAggregator) AggregatorsAndSignatures(_ context.Context, accounts []e2wtypes.Account, slot phase0.Slot, _ []uint64) ([]phase0.BLSSignature, []bool, error) {
	if a.faulty != nil && a.faulty("subscription") {
		return nil, nil, errors.New("scripted slot selection failure")
	}
	sigs := make([]phase0.BLSSignature, len(accounts))
	is := make([]bool, len(accounts))
	for i, acc := range accounts {
		sigs[i] = sigOf(acc.PublicKey().Marshal(), u64(uint64(slot)), []byte("slot-selection"))
		is[i] = (sigs[i][0]+byte(slot))%3 == 0
	}
	return sigs, is, nil
}

// run state
type runner struct {
	c      *Case
	w      *c03world.World
	pool   *pool
	sink   *sink
	rs     *realSched
	roots  []any // services whose bookkeeping is measured
	parked                      int // goroutines parked on a channel send in vouch code since the run began
	lastCount, sameCount, dumps int
	// preParked: goroutines already parked when the run began (ids for the stack dump, counts for the profile)
	preParked      map[int]string
	preParkedCount map[string]int
	ctx    context.Context

	series   map[string][]int // container -> size at the end of each epoch of the run
	stale    map[uint64]bool  // slots already reported with a wrong pending mark
	findings []finding
	fmu      sync.Mutex
	notPending map[uint64]bool

	withdrawn       int // slots that had a job and lost their duty in a reorg
	epochsNoHead    int
	reorgs          int
	attestations    int64
	maxParked       int
	overlaps        int
	orphans         int
	orphanSeen      map[string]bool
	accountFaults   int
	notQuiescent    int
	inconclusiveWhy string
}

type finding struct{ sig, detail string }

const strategyTimeout = 120 * time.Millisecond

func providersOf[T any](r *runner, mk func(n *node) T) map[string]T {
	m := map[string]T{}
	for i := 0; i < r.c.Providers; i++ {
		m[fmt.Sprintf("node%d", i)] = mk(&node{p: r.pool, idx: i, w: r.w})
	}
	return m
}

// services builds the real services of one controller process (main.go wiring).
func (r *runner) services(ctx context.Context, w *c03world.World, sched scheduler.Service) (c03world.Services, error) {
	var s c03world.Services
	mon := nullmetrics.New()
	lvl := zerolog.Disabled
	var attData eth2client.AttestationDataProvider
	var contrib eth2client.SyncCommitteeContributionProvider
	var aggAtt eth2client.AggregateAttestationProvider
	var err error
	if r.c.Strategy == "best" || r.c.Strategy == "majority" {
		attData, err = bestattdata.New(ctx, bestattdata.WithLogLevel(lvl), bestattdata.WithClientMonitor(mon), bestattdata.WithProcessConcurrency(4),
			bestattdata.WithAttestationDataProviders(providersOf(r, func(n *node) eth2client.AttestationDataProvider { return n })),
			bestattdata.WithTimeout(strategyTimeout), bestattdata.WithChainTime(w.Clock), bestattdata.WithBlockRootToSlotCache(blockRootToSlot{}))
		if err != nil {
			return s, err
		}
		if r.c.Strategy == "majority" {
			attData, err = majorityattdata.New(ctx, majorityattdata.WithLogLevel(lvl), majorityattdata.WithClientMonitor(mon), majorityattdata.WithProcessConcurrency(4),
				majorityattdata.WithAttestationDataProviders(providersOf(r, func(n *node) eth2client.AttestationDataProvider { return n })),
				majorityattdata.WithTimeout(strategyTimeout), majorityattdata.WithChainTime(w.Clock), majorityattdata.WithBlockRootToSlotCache(blockRootToSlot{}),
				majorityattdata.WithThreshold(2))
			if err != nil {
				return s, err
			}
		}
		contrib, err = bestcontribution.New(ctx, bestcontribution.WithLogLevel(lvl), bestcontribution.WithClientMonitor(mon), bestcontribution.WithProcessConcurrency(4),
			bestcontribution.WithSyncCommitteeContributionProviders(providersOf(r, func(n *node) eth2client.SyncCommitteeContributionProvider { return n })),
			bestcontribution.WithTimeout(strategyTimeout))
		if err != nil {
			return s, err
		}
		aggAtt, err = bestaggregate.New(ctx, bestaggregate.WithLogLevel(lvl), bestaggregate.WithClientMonitor(mon), bestaggregate.WithProcessConcurrency(4),
			bestaggregate.WithAggregateAttestationProviders(providersOf(r, func(n *node) eth2client.AggregateAttestationProvider { return n })),
			bestaggregate.WithTimeout(strategyTimeout))
		if err != nil {
			return s, err
		}
	} else {
		attData, err = firstattdata.New(ctx, firstattdata.WithLogLevel(lvl), firstattdata.WithClientMonitor(mon),
			firstattdata.WithAttestationDataProviders(providersOf(r, func(n *node) eth2client.AttestationDataProvider { return n })),
			firstattdata.WithTimeout(strategyTimeout))
		if err != nil {
			return s, err
		}
		contrib, err = firstcontribution.New(ctx, firstcontribution.WithLogLevel(lvl), firstcontribution.WithClientMonitor(mon),
			firstcontribution.WithSyncCommitteeContributionProviders(providersOf(r, func(n *node) eth2client.SyncCommitteeContributionProvider { return n })),
			firstcontribution.WithTimeout(strategyTimeout))
		if err != nil {
			return s, err
		}
		aggAtt, err = firstaggregate.New(ctx, firstaggregate.WithLogLevel(lvl), firstaggregate.WithClientMonitor(mon),
			firstaggregate.WithAggregateAttestationProviders(providersOf(r, func(n *node) eth2client.AggregateAttestationProvider { return n })),
			firstaggregate.WithTimeout(strategyTimeout))
		if err != nil {
			return s, err
		}
	}
	var rootPrv eth2client.BeaconBlockRootProvider
	rootLabel := "beaconblockroot/first"
	switch r.c.RootStrategy {
	case "majority":
		rootLabel = "beaconblockroot/majority"
		rootPrv, err = majorityroot.New(ctx, majorityroot.WithLogLevel(lvl), majorityroot.WithClientMonitor(mon), majorityroot.WithProcessConcurrency(4),
			majorityroot.WithBeaconBlockRootProviders(providersOf(r, func(n *node) eth2client.BeaconBlockRootProvider { return n })),
			majorityroot.WithTimeout(strategyTimeout), majorityroot.WithBlockRootToSlotCache(blockRootToSlot{}))
	case "latest":
		rootLabel = "beaconblockroot/latest"
		rootPrv, err = latestroot.New(ctx, latestroot.WithLogLevel(lvl), latestroot.WithClientMonitor(mon), latestroot.WithProcessConcurrency(4),
			latestroot.WithBeaconBlockRootProviders(providersOf(r, func(n *node) eth2client.BeaconBlockRootProvider { return n })),
			latestroot.WithTimeout(strategyTimeout), latestroot.WithBlockRootToSlotCache(blockRootToSlot{}))
	default:
		rootPrv, err = firstroot.New(ctx, firstroot.WithLogLevel(lvl), firstroot.WithClientMonitor(mon),
			firstroot.WithBeaconBlockRootProviders(providersOf(r, func(n *node) eth2client.BeaconBlockRootProvider { return n })),
			firstroot.WithTimeout(strategyTimeout))
	}
	if err != nil {
		return s, err
	}
	// the real strategies, as the services see them: wrapped so that their calls are known to the harness
	strat := r.c.Strategy
	rawRoots := []any{attData, contrib, aggAtt, rootPrv}
	attLabel := "attestationdata/" + strat
	if strat == "majority" {
		strat = "best"
	}
	attData = trAttData{r.pool, attLabel, attData}
	contrib = trContribution{r.pool, "synccommitteecontribution/" + strat, contrib}
	aggAtt = trAggregate{r.pool, "aggregateattestation/" + strat, aggAtt}
	rootPrv = trRoot{r.pool, rootLabel, rootPrv}
	var proposalPrv eth2client.ProposalProvider
	proposalRaw, err := firstproposal.New(ctx, firstproposal.WithLogLevel(lvl), firstproposal.WithClientMonitor(mon),
		firstproposal.WithProposalProviders(providersOf(r, func(n *node) eth2client.ProposalProvider { return n })),
		firstproposal.WithTimeout(strategyTimeout))
	if err != nil {
		return s, err
	}
	proposalPrv = trProposal{r.pool, "beaconblockproposal/first", proposalRaw}

	att, err := standardattester.New(ctx, standardattester.WithLogLevel(lvl), standardattester.WithProcessConcurrency(4), standardattester.WithChainTime(w.Clock),
		standardattester.WithSpecProvider(w.Node), standardattester.WithAttestationDataProvider(attData), standardattester.WithAttestationsSubmitter(r.sink),
		standardattester.WithMonitor(mon), standardattester.WithValidatingAccountsProvider(w.Accounts), standardattester.WithBeaconAttestationsSigner(fakeSigner{onAttest: r.whileAttesting, faulty: r.faulty}))
	if err != nil {
		return s, err
	}
	agg, err := standardsyncaggregator.New(ctx, standardsyncaggregator.WithLogLevel(lvl), standardsyncaggregator.WithMonitor(mon), standardsyncaggregator.WithSpecProvider(w.Node),
		standardsyncaggregator.WithBeaconBlockRootProvider(rootPrv), standardsyncaggregator.WithContributionAndProofSigner(fakeSigner{}),
		standardsyncaggregator.WithValidatingAccountsProvider(w.Accounts), standardsyncaggregator.WithSyncCommitteeContributionProvider(contrib),
		standardsyncaggregator.WithSyncCommitteeContributionsSubmitter(r.sink), standardsyncaggregator.WithChainTime(w.Clock))
	if err != nil {
		return s, err
	}
	msg, err := standardsyncmessenger.New(ctx, standardsyncmessenger.WithLogLevel(lvl), standardsyncmessenger.WithProcessConcurrency(4), standardsyncmessenger.WithMonitor(mon),
		standardsyncmessenger.WithChainTimeService(w.Clock), standardsyncmessenger.WithSyncCommitteeAggregator(agg), standardsyncmessenger.WithSpecProvider(w.Node),
		standardsyncmessenger.WithBeaconBlockRootProvider(rootPrv), standardsyncmessenger.WithSyncCommitteeMessagesSubmitter(r.sink),
		standardsyncmessenger.WithValidatingAccountsProvider(w.Accounts), standardsyncmessenger.WithSyncCommitteeRootSigner(fakeSigner{}),
		standardsyncmessenger.WithSyncCommitteeSelectionSigner(fakeSigner{}), standardsyncmessenger.WithSyncCommitteeSubscriptionsSubmitter(r.sink))
	if err != nil {
		return s, err
	}
	attAgg := &stratAttAggregator{w: w, prv: aggAtt, faulty: r.faulty}
	sub, err := standardsubscriber.New(ctx, standardsubscriber.WithLogLevel(lvl), standardsubscriber.WithProcessConcurrency(4), standardsubscriber.WithMonitor(mon),
		standardsubscriber.WithChainTimeService(w.Clock), standardsubscriber.WithAttesterDutiesProvider(w.Node), standardsubscriber.WithAttestationAggregator(attAgg),
		standardsubscriber.WithBeaconCommitteeSubmitter(r.sink))
	if err != nil {
		return s, err
	}
	headerPrv, err := firstheader.New(ctx, firstheader.WithLogLevel(lvl), firstheader.WithClientMonitor(mon),
		firstheader.WithBeaconBlockHeadersProviders(providersOf(r, func(n *node) eth2client.BeaconBlockHeadersProvider { return n })),
		firstheader.WithTimeout(strategyTimeout))
	if err != nil {
		return s, err
	}
	blockPrv, err := firstblock.New(ctx, firstblock.WithLogLevel(lvl), firstblock.WithClientMonitor(mon),
		firstblock.WithSignedBeaconBlockProviders(providersOf(r, func(n *node) eth2client.SignedBeaconBlockProvider { return n })),
		firstblock.WithTimeout(strategyTimeout))
	if err != nil {
		return s, err
	}
	s.BeaconBlockHeadersProvider, s.SignedBeaconBlockProvider = trHeader{r.pool, "beaconblockheader/first", headerPrv}, trBlock{r.pool, "signedbeaconblock/first", blockPrv}
	s.Attester, s.SyncAggregator, s.SyncMessenger, s.BeaconCommitteeSubscriber, s.AttAggregator = att, agg, msg, sub, attAgg
	s.Proposer = &stratProposer{w: w, prv: proposalPrv}
	r.roots = append([]any{att, agg, msg, sub, proposalRaw, headerPrv, blockPrv}, rawRoots...)
	return s, nil
}

// extraGoroutines: what legitimately exists at quiescence beyond the baseline:
// node doubles that never answer (held until the end of the run), one goroutine
// per job of the real scheduler, and goroutines parked for ever on a channel send
// inside vouch code (found in the stack dump; they are a finding at the end of
// the run and must not stop the world from becoming quiescent meanwhile).
func (r *runner) extraGoroutines() int {
	n := int(r.pool.held.Load()) + int(r.pool.hanging.Load())
	if r.rs != nil {
		n += r.rs.goroutines()
	}
	if r.w.Executing() > 0 || r.pool.inflight.Load() > 0 {
		// a strategy call may be in progress: a sender blocked now may still be received from
		return n + r.parked
	}
	count := runtime.NumGoroutine()
	excess := count - (r.w.Baseline() + n + r.w.Node.Held())
	switch {
	case excess <= 0:
		r.parked = 0
	case excess != r.parked:
		// Something more than the known parked goroutines exists.  Short-lived goroutines
		// of vouch are the common reason: look at the stacks (expensive once thousands of
		// goroutines are parked) only when the same count has been seen a few times in a row.
		if count == r.lastCount {
			r.sameCount++
		} else {
			r.lastCount, r.sameCount = count, 0
		}
		if r.sameCount >= 4 {
			r.parked = r.newParked()
			r.sameCount = 0
			r.dumps++
		}
	}
	return n + r.parked
}

// newParked: goroutines parked on a channel send inside vouch code since the run began.
func (r *runner) newParked() int {
	total := 0
	for fn, n := range parkedSenderCounts() {
		if d := n - r.preParkedCount[fn]; d > 0 {
			total += d
		}
	}
	return total
}

func (r *runner) headsIn(epochInRun uint64) bool {
	switch r.c.HeadPattern {
	case "none":
		return false
	case "gaps":
		return epochInRun%r.c.GapEvery >= r.c.GapLen
	}
	return true
}

func (r *runner) add(sig, format string, a ...any) {
	r.fmu.Lock()
	defer r.fmu.Unlock()
	r.findings = append(r.findings, finding{sig, fmt.Sprintf(format, a...)})
}

// activeInVouch counts goroutines that are doing something inside vouch code
// (anything but being parked for ever on a channel or waiting as a scheduler job).
func activeInVouch() (int, string) {
	n := 0
	what := ""
	for _, g := range goroutines() {
		if g.fn == "" {
			continue
		}
		if strings.HasPrefix(g.top, vouchPath) && (g.state == "chan send" || g.state == "chan receive") {
			continue
		}
		if g.state == "select" && strings.HasPrefix(g.fn, "services/scheduler/advanced.(*Service).Schedule") && strings.HasPrefix(g.top, vouchPath+"services/scheduler/advanced") {
			continue // a job of the real scheduler waiting for its time
		}
		if strings.Contains(g.top, "c20.(*pool).do") && g.state == "chan receive" {
			continue // a node double that never answers
		}
		n++
		what = g.fn + " [" + g.state + "] in " + g.top
	}
	return n, what
}

// checkPending applies (iii) for the slots around the clock.  A disagreement is
// only a verdict if, by the stack dump, nothing is running inside vouch code
// (an independent confirmation of quiescence).
func (r *runner) checkPending() {
	type anomaly struct {
		slot     uint64
		sig, msg string
	}
	eval := func() []anomaly {
		var res []anomaly
		ctrl := r.w.Proc.Ctrl
		c := r.w.Slot()
		spe := r.c.P.SlotsPerEpoch
		lo := uint64(0)
		if c > 2*spe {
			lo = c - 2*spe
		}
		jobs := r.attestJobSlots()
		for s := lo; s <= c+3*spe; s++ {
			if r.stale[s] {
				continue
			}
			has := ctrl.HasPendingAttestations(r.ctx, phase0.Slot(s))
			switch {
			case has && !jobs[s]:
				res = append(res, anomaly{s, "pending-attestations-mark-without-job", fmt.Sprintf("HasPendingAttestations(%d) is true at clock slot %d but no attestation job for slot %d exists or is executing", s, c, s)})
			case !has && jobs[s]:
				res = append(res, anomaly{s, "attestation-job-without-pending-mark", fmt.Sprintf("an attestation job for slot %d exists at clock slot %d but HasPendingAttestations(%d) is false", s, c, s)})
			}
		}
		return res
	}
	as := eval()
	if len(as) == 0 {
		return
	}
	deadline := time.Now().Add(20 * time.Second)
	for {
		n, what := activeInVouch()
		if n == 0 {
			break
		}
		if r.notQuiescent == 0 {
			jobs := 0
			if r.rs != nil {
				jobs = r.rs.goroutines()
			}
			states := map[string]int{}
			for _, g := range goroutines() {
				states[g.state+"|"+g.fn+"|"+g.top]++
			}
			ev.Note("not-quiescent-diagnostic", fmt.Sprintf("goroutines=%d baseline=%d held=%d jobs=%d parked=%d inflight=%d executing=%d active=%s all=%v",
				runtime.NumGoroutine(), r.w.Baseline(), r.pool.held.Load(), jobs, r.parked, r.pool.inflight.Load(), r.w.Executing(), what, states))
		}
		r.notQuiescent++
		if time.Now().After(deadline) {
			r.inconclusiveWhy = "pending-attestations check: a goroutine stayed active in vouch code: " + what
			return
		}
		time.Sleep(2 * time.Millisecond)
	}
	for _, a := range eval() {
		r.stale[a.slot] = true
		r.add(a.sig, "%s%s", a.msg, r.history(a.slot))
	}
}

// faulty reports whether the sustained fault of the given kind is in force now.
func (r *runner) faulty(kind string) bool {
	c := r.c
	if c.FaultKind != kind || r.w == nil {
		return false
	}
	e := r.w.Epoch()
	if e < c.StartEpoch {
		return false
	}
	e -= c.StartEpoch
	return e >= c.FaultFrom && e < c.FaultFrom+c.FaultLen
}

// whileAttesting is called by the signer double when the attester asks for the
// signatures of a slot, i.e. on the goroutine of the executing attestation job:
// the slot must be reported as having pending attestations.
func (r *runner) whileAttesting(slot uint64) {
	w := r.w
	if w == nil || w.Proc == nil || w.Proc.Ctrl == nil {
		return
	}
	if !w.Proc.Ctrl.HasPendingAttestations(context.Background(), phase0.Slot(slot)) {
		r.fmu.Lock()
		if !r.notPending[slot] {
			r.notPending[slot] = true
			r.findings = append(r.findings, finding{"attesting-without-pending-mark", fmt.Sprintf("the attestation job of slot %d is executing (the attester is signing, clock slot %d) but HasPendingAttestations(%d) is false", slot, w.Slot(), slot)})
		}
		r.fmu.Unlock()
	}
}

// checkProviderCalls: a strategy call that has returned must not leave provider
// calls running with a live context: whatever it started and did not wait for
// must have been cancelled (the node may never answer).
func (r *runner) checkProviderCalls() {
	for _, pc := range r.pool.orphans() {
		sig := "provider-call-not-cancelled:strategies/" + pc.sc.label
		if r.orphanSeen[sig] {
			r.orphans++
			continue
		}
		r.orphanSeen[sig] = true
		r.orphans++
		r.add(sig, "a %s request to node %d made in slot %d is still running at clock slot %d although the %s strategy call that made it returned in slot %d, and its context is still live: nothing will ever end it if the node does not answer",
			pc.what, pc.idx, pc.slot, r.w.Slot(), pc.sc.label, pc.sc.endSlot.Load())
	}
}

// history lists the recent scheduler operations on the attestation job of a slot.
func (r *runner) history(slot uint64) string {
	return r.historyOf(fmt.Sprintf("Attestations for slot %d", slot))
}

func (r *runner) historyOf(name string) string {
	var b strings.Builder
	b.WriteString("; scheduler operations on the job:")
	for _, o := range r.w.Log.SchedOps(0) {
		if o.Name == name {
			fmt.Fprintf(&b, " [%d %s@slot%d%s]", o.Seq, o.Op, o.ClockSlot, map[bool]string{true: " err=" + o.Err, false: ""}[o.Err != ""])
		}
	}
	fmt.Fprintf(&b, "; scheduler says exists=%v", r.w.Proc.Sched.JobExists(r.ctx, name))
	return b.String()
}

func (r *runner) attestJobSlots() map[uint64]bool {
	m := map[uint64]bool{}
	for _, j := range r.w.Jobs() {
		if j.Kind == c03world.KAttest {
			m[j.Slot] = true
		}
	}
	return m
}

func (r *runner) sample() {
	roots := append([]any{r.w.Proc.Ctrl}, r.roots...)
	if r.rs != nil {
		roots = append(roots, r.rs.inner)
	}
	sz := sizes(roots...)
	for k, v := range sz {
		r.series[k] = append(r.series[k], v)
	}
	// containers that were not reachable this time (nil) count as empty
	n := 0
	for _, s := range r.series {
		if len(s) > n {
			n = len(s)
		}
	}
	for k, s := range r.series {
		for len(s) < n {
			s = append(s, 0)
		}
		r.series[k] = s
	}
}

func minOf(s []int) int {
	m := s[0]
	for _, v := range s {
		if v < m {
			m = v
		}
	}
	return m
}

const growthSlack = 10

// documentedBound: containers that vouch documents as pruned with a hysteresis are
// only growing "with elapsed time" once they are beyond that bound (a run in which
// few slots produce a record does not reach the first pruning within the horizon).
// synccommitteemessenger/standard: maxSlotDataRecordsBeforeCleanUp = 100.
var documentedBound = map[string]int{
	"services/synccommitteemessenger/standard.Service.slotDataRecords": 101 + growthSlack,
}

// judgeGrowth applies (i): the low-water mark of every container over the last
// quarter of the run must not exceed its low-water mark over the second quarter by
// more than a constant (with the third quarter in between).  (Low-water marks over a window rather than single
// readings: the sync committee messenger legitimately saw-tooths between 32 and
// 101 records, the job table follows the sync period.)
func (r *runner) judgeGrowth() {
	for _, k := range sortedKeys(r.series) {
		s := r.series[k]
		n := len(s)
		if os.Getenv("VERIF_C20_DEBUG") != "" {
			fmt.Printf("SERIES %s %v\n", k, s)
		}
		if n < 40 {
			continue
		}
		// low-water marks of the second, third and fourth quarter of the run
		q := n / 4
		q2, q3, q4 := minOf(s[q:2*q]), minOf(s[2*q:3*q]), minOf(s[3*q:])
		// growth with elapsed time: the low-water mark rises from quarter to quarter, by more than
		// the slack in total.  (Rising in both steps: a container that follows the sync period, like
		// the job table, may have its trough outside one quarter, not outside two consecutive ones.)
		if q4 > q2+growthSlack && q3 >= q2+growthSlack/4 && q4 >= q3+growthSlack/4 && q4 > documentedBound[k] {
			r.add("growth:"+k, "container %s: low-water mark %d entries over epochs %d..%d of the run, %d over epochs %d..%d, %d over epochs %d..%d (size at the end %d): grows with elapsed time",
				k, q2, q, 2*q, q3, 2*q, 3*q, q4, 3*q, n, s[n-1])
		}
	}
}

// doubleHead: the node is slow to return attester duties; two head events, each
// with changed dependent roots, arrive one after the other; then the node answers.
// HandleHeadEvent starts its refreshes with `go`, so in production the second
// refresh starts while the first is still waiting for its duties.
func (r *runner) doubleHead(epoch, slot uint64) error {
	w := r.w
	if err := w.AdvanceTo(w.StartOfSlot(slot).Add(w.SlotDuration() / 20)); err != nil {
		return err
	}
	w.Node.Hold("att")
	for i := 0; i < 2; i++ {
		w.Chain.ReorgPrevious(epoch)
		r.reorgs++
		if err := w.Head(0); err != nil {
			return err
		}
		r.checkPending()
	}
	r.overlaps++
	w.Node.Release("att")
	if err := w.Quiesce(); err != nil {
		return err
	}
	if err := w.AdvanceTo(w.Clock.Now()); err != nil {
		return err
	}
	r.checkPending()
	return nil
}

// prepareAndHead: if the "Prepare for epoch" job is due in the rest of this slot,
// it fires while the node is slow, and a head event with a changed current
// dependent root (which refreshes the attester duties of the next epoch) arrives
// before the node has answered.
func (r *runner) prepareAndHead(epoch, slot uint64) error {
	w := r.w
	end := w.StartOfSlot(slot + 1).Add(-2 * time.Millisecond)
	due := false
	for _, j := range w.Jobs() {
		if j.Kind == c03world.KPrepareEpoch && !j.Time.After(end) {
			due = true
		}
	}
	if !due {
		return nil
	}
	w.Node.Hold("att")
	if err := w.AdvanceTo(end); err != nil {
		return err
	}
	r.checkPending()
	w.Chain.ReorgCurrent(epoch)
	r.reorgs++
	if err := w.Head(0); err != nil {
		return err
	}
	r.checkPending()
	r.overlaps++
	w.Node.Release("att")
	if err := w.Quiesce(); err != nil {
		return err
	}
	if err := w.AdvanceTo(w.Clock.Now()); err != nil {
		return err
	}
	r.checkPending()
	return nil
}

func (r *runner) run() error {
	c := r.c
	r.pool = newPool(c.NodeMix, c.Providers)
	r.pool.clockSlot = func() uint64 {
		if r.w == nil {
			return 0
		}
		return r.w.Slot()
	}
	r.sink = &sink{faulty: r.faulty}
	r.pool.faulty = r.faulty
	r.parked = 0
	r.series = map[string][]int{}
	r.stale = map[uint64]bool{}
	r.notPending = map[uint64]bool{}
	r.orphanSeen = map[string]bool{}
	r.ctx = context.Background()
	opt := c03world.Options{
		Services:        nil,
		ExtraGoroutines: r.extraGoroutines,
		ExtraSpec: map[string]any{
			"SYNC_COMMITTEE_SIZE": uint64(512), "SYNC_COMMITTEE_SUBNET_COUNT": uint64(4), "TARGET_AGGREGATORS_PER_SYNC_SUBCOMMITTEE": uint64(16),
			"DOMAIN_BEACON_ATTESTER": phase0.DomainType{1, 0, 0, 0}, "DOMAIN_SYNC_COMMITTEE": phase0.DomainType{7, 0, 0, 0},
		},
		Watchdog: watchdog(),
	}
	opt.Services = func(ctx context.Context, w *c03world.World, sched scheduler.Service) (c03world.Services, error) {
		return r.services(ctx, w, sched)
	}
	if c.RealScheduler {
		opt.NewSched = func(*c03world.World) c03world.SchedDriver {
			rs, err := newRealSched()
			if err != nil {
				panic(err)
			}
			r.rs = rs
			return rs
		}
	}
	settle()
	r.preParked = parkedSenders() // left behind by earlier cases of this process; part of the baseline
	r.preParkedCount = parkedSenderCounts()
	w := c03world.New(&c.P, pattern{c}, opt)
	r.w = w
	released := false
	defer func() {
		if !released {
			close(r.pool.release)
		}
		w.Stop()
		if r.rs != nil {
			r.rs.inner.CancelJobs(context.Background(), "")
		}
	}()
	spe := c.P.SlotsPerEpoch
	slotDur := w.SlotDuration()
	if err := w.AdvanceTo(w.StartOfSlot(c.StartEpoch * spe)); err != nil {
		return err
	}
	if err := w.Start(false); err != nil {
		return err
	}
	baseline := w.Baseline()
	for e := uint64(0); e < c.Epochs; e++ {
		epoch := c.StartEpoch + e
		heads := r.headsIn(e)
		if !heads {
			r.epochsNoHead++
		}
		for k := uint64(0); k < spe; k++ {
			slot := epoch*spe + k
			if err := w.AdvanceTo(w.StartOfSlot(slot)); err != nil {
				return err
			}
			r.checkPending()
			overlap := heads && c.OverlapEvery > 0 && e > 0 && e%c.OverlapEvery == 0 && epoch >= 2 && epoch%c.P.EpochsPerSyncPeriod != 0
			if overlap && (e/c.OverlapEvery)%2 == 0 && k == 1%spe {
				// two root-changing head events close together while the node is slow
				if err := r.doubleHead(epoch, slot); err != nil {
					return err
				}
			}
			if heads {
				// (a changed current root in the first epoch of a sync period makes the controller set up
				// the jobs of the whole next period a period ahead: bounded, but a fluctuation of the job
				// table as long as two sync periods; the runs here stay clear of it)
				reorg := c.ReorgEvery > 0 && e%c.ReorgEvery == 0 && e > 0 && k == (e/c.ReorgEvery)%spe && epoch%c.P.EpochsPerSyncPeriod != 0
				before := r.attestJobSlots()
				if reorg {
					depth := c.ReorgDepth
					if depth == "alternate" {
						depth = []string{"current", "previous"}[(e/c.ReorgEvery)%2]
					}
					if depth == "previous" {
						w.Chain.ReorgPrevious(epoch)
					} else {
						w.Chain.ReorgCurrent(epoch)
					}
					r.reorgs++
				}
				// the block of the slot arrives a little after the slot began
				if err := w.AdvanceTo(w.StartOfSlot(slot).Add(slotDur / 10)); err != nil {
					return err
				}
				fault := reorg && c.AccountsFaultEvery > 0 && uint64(r.reorgs)%c.AccountsFaultEvery == 0
				if fault {
					w.Accounts.FailNext(3, []string{"error", "empty"}[r.accountFaults%2])
					r.accountFaults++
				}
				if err := w.Head(0); err != nil {
					return err
				}
				w.Accounts.FailNext(0, "")
				if reorg {
					after := r.attestJobSlots()
					for s := range before {
						if !after[s] && s > slot {
							r.withdrawn++
						}
					}
				}
				r.checkPending()
			}
			if overlap && (e/c.OverlapEvery)%2 == 1 {
				// a root-changing head event while the preparation of the next epoch waits for its duties
				if err := r.prepareAndHead(epoch, slot); err != nil {
					return err
				}
			}
			if err := w.AdvanceTo(w.StartOfSlot(slot + 1).Add(-time.Millisecond)); err != nil {
				return err
			}
			r.checkPending()
			r.checkProviderCalls()
		}
		r.sample()
		w.Log.Trim(4000)
	}
	r.judgeGrowth()
	r.attestations = r.sink.attestations.Load()
	if os.Getenv("VERIF_C20_DEBUG") != "" && r.rs != nil {
		in := map[string]bool{}
		for _, n := range r.rs.inner.ListJobs(context.Background()) {
			in[n] = true
		}
		sh := map[string]bool{}
		for _, j := range r.rs.Jobs() {
			sh[j.Name] = true
		}
		for n := range in {
			if !sh[n] {
				fmt.Printf("ONLY-IN-REAL-SCHEDULER %s%s\n", n, r.historyOf(n))
			}
		}
		fmt.Printf("REAL %d SHADOW %d\n", len(in), len(sh))
	}

	// (ii) goroutines: release the doubles, stop the controller, and see what is left
	close(r.pool.release)
	released = true
	w.Stop()
	if r.rs != nil {
		// jobs set up from head events live on the handler's background context
		r.rs.inner.CancelJobs(context.Background(), "")
	}
	deadline := time.Now().Add(30 * time.Second)
	last, stableSince := -1, time.Now()
	for time.Now().Before(deadline) {
		n := runtime.NumGoroutine()
		if n <= baseline {
			break
		}
		if n != last {
			last, stableSince = n, time.Now()
		}
		if time.Since(stableSince) > 1500*time.Millisecond {
			break
		}
		time.Sleep(5 * time.Millisecond)
	}
	if left := runtime.NumGoroutine() - baseline; left > 0 {
		// a goroutine blocked on a channel operation inside vouch code, with every
		// double released and the controller's context cancelled, stays there for ever
		by := map[string]int{}
		other := 0
		for _, g := range goroutines() {
			if _, old := r.preParked[g.id]; old {
				continue
			}
			switch {
			case strings.HasPrefix(g.top, vouchPath) && (g.state == "chan send" || g.state == "chan receive"):
				by[g.fn+" ["+g.state+"]"]++
			case g.fn != "":
				other++
			}
		}
		total := 0
		for _, k := range sortedKeys(by) {
			total += by[k]
			fn := k[:strings.Index(k, " [")]
			r.add("goroutines-parked:"+fn, "%d goroutine(s) still parked in %s after the run (%d epochs, all node doubles released, controller stopped); baseline %d, now %d",
				by[k], k, c.Epochs, baseline, runtime.NumGoroutine())
		}
		r.maxParked = total
		if left > total+2 {
			states := map[string]int{}
			for _, g := range goroutines() {
				if !(strings.HasPrefix(g.top, vouchPath) && (g.state == "chan send" || g.state == "chan receive")) {
					states[g.fn+"|"+g.top+" ["+g.state+"]"]++
				}
			}
			r.inconclusiveWhy = fmt.Sprintf("%d goroutines above the baseline after the run, %d parked on channels in vouch code, %d others in vouch code: %v", left, total, other, states)
		}
	}
	return nil
}

// settle waits until no goroutine is active in vouch code (left over from an
// earlier case in this process: job goroutines of a real scheduler that are
// being cancelled, released node doubles), so that the goroutine baseline of
// the next world counts only goroutines that stay.
func settle() {
	deadline := time.Now().Add(30 * time.Second)
	for time.Now().Before(deadline) {
		active := 0
		for _, g := range goroutines() {
			if g.fn == "" {
				continue
			}
			if strings.HasPrefix(g.top, vouchPath) && (g.state == "chan send" || g.state == "chan receive") {
				continue // parked for ever
			}
			active++
		}
		if active == 0 {
			return
		}
		time.Sleep(5 * time.Millisecond)
	}
}

func check(t ev.TB, c *Case) {
	zerolog.SetGlobalLevel(zerolog.Disabled)
	r := &runner{c: c}
	err := r.run()
	lo, _ := horizon()
	long := c.Epochs >= lo
	simultaneous := r.pool != nil && r.pool.simultaneous.Load() > 0
	nontrivial := err == nil && long && (r.withdrawn > 0 || r.epochsNoHead > 0 || simultaneous)
	var labels []string
	add := func(b bool, l string) {
		if b {
			labels = append(labels, l)
		}
	}
	add(r.withdrawn > 0, "reorg-withdrew-a-scheduled-slot")
	add(r.epochsNoHead > 0, "epochs-without-head-events")
	add(simultaneous, "three-or-more-simultaneous-responders")
	add(r.pool != nil && r.pool.never.Load() > 0, "node-never-answered")
	add(r.overlaps > 0, "overlapping-duty-refreshes")
	add(r.accountFaults > 0, "accounts-provider-fault-during-refresh")
	add(c.FaultKind != "", "sustained-fault:"+c.FaultKind)
	add(true, "root-strategy:"+c.RootStrategy)
	add(c.DutyOff > 0, "duty-gaps-of-two-or-more-epochs")
	add(c.RealScheduler, "real-advanced-scheduler")
	add(!c.RealScheduler, "reference-scheduler")
	add(true, "strategy:"+c.Strategy)
	add(true, "nodes:"+c.NodeMix)
	add(c.P.VerifySyncCommitteeInclusion, "verify-sync-committee-inclusion")
	add(r.attestations > 0, "attestations-submitted")
	ev.Case(nontrivial, ev.Hash(c), labels...)
	ev.LabelN("epochs-run", int64(c.Epochs))
	ev.LabelN("reorgs", int64(r.reorgs))
	ev.LabelN("withdrawn-slots", int64(r.withdrawn))
	ev.LabelN("stack-dumps", int64(r.dumps))
	ev.LabelN("pending-check-found-world-not-quiescent", int64(r.notQuiescent))
	if r.w != nil {
		ev.LabelN("jobs-fired", int64(r.w.Fired()))
	}
	if nontrivial {
		ev.Sample(c)
	}
	if err != nil && os.Getenv("VERIF_C20_DEBUG") != "" && r.rs != nil {
		sh := map[string]bool{}
		for _, j := range r.rs.Jobs() {
			sh[j.Name] = true
		}
		for _, n := range r.rs.inner.ListJobs(context.Background()) {
			if !sh[n] {
				fmt.Printf("ONLY-IN-REAL-SCHEDULER %s%s\n", n, r.historyOf(n))
			}
		}
	}
	if err != nil {
		ev.Inconclusive("harness: " + firstLine(err.Error()))
		t.Fatalf("harness problem: %v", err)
	}
	if r.inconclusiveWhy != "" {
		ev.Inconclusive(r.inconclusiveWhy)
	}
	// one report per signature and case
	seen := map[string]bool{}
	sort.SliceStable(r.findings, func(i, j int) bool { return r.findings[i].sig < r.findings[j].sig })
	for _, f := range r.findings {
		if seen[f.sig] {
			continue
		}
		seen[f.sig] = true
		ev.Violation(t, f.sig, c, "%s", f.detail)
	}
}

func firstLine(s string) string {
	if i := strings.Index(s, "\n"); i > 0 {
		return s[:i]
	}
	return s
}

func TestLongRun(t *testing.T) {
	rapid.Check(t, func(t *rapid.T) {
		c := genCase(t)
		check(t, &c)
	})
}

// TestReplay re-executes a saved case without the property library.
func TestReplay(t *testing.T) {
	f := ev.ReplayFile()
	if f == "" {
		t.Skip("no replay file")
	}
	var probe struct {
		Unblinding bool `json:"unblinding"`
	}
	if _, err := ev.LoadCase(f, &probe); err == nil && probe.Unblinding {
		var uc UCase
		if _, err := ev.LoadCase(f, &uc); err != nil {
			t.Fatalf("cannot load %s: %v", f, err)
		}
		checkUnblinding(t, &uc)
		ev.ReplayPassed()
		return
	}
	var c Case
	if _, err := ev.LoadCase(f, &c); err != nil {
		t.Fatalf("cannot load %s: %v", f, err)
	}
	if c.Providers == 0 || len(c.P.Validators) == 0 {
		t.Fatalf("harness problem: %s is not a C20 case", f)
	}
	check(t, &c)
	ev.ReplayPassed()
}

var _ = errors.New
