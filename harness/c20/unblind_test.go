package c20

import (
	"context"
	"errors"
	"fmt"
	"runtime"
	"sync"
	"sync/atomic"
	"testing"
	"time"

	"github.com/attestantio/go-block-relay/services/blockauctioneer"
	builderclient "github.com/attestantio/go-builder-client"
	builderapi "github.com/attestantio/go-builder-client/api"
	builderspec "github.com/attestantio/go-builder-client/spec"
	"github.com/attestantio/go-eth2-client/api"
	apiv1bellatrix "github.com/attestantio/go-eth2-client/api/v1/bellatrix"
	"github.com/attestantio/go-eth2-client/spec"
	"github.com/attestantio/go-eth2-client/spec/altair"
	"github.com/attestantio/go-eth2-client/spec/bellatrix"
	"github.com/attestantio/go-eth2-client/spec/phase0"
	"github.com/attestantio/vouch/services/beaconblockproposer"
	proposer "github.com/attestantio/vouch/services/beaconblockproposer/standard"
	nullmetrics "github.com/attestantio/vouch/services/metrics/null"
	"github.com/prysmaticlabs/go-bitfield"
	"github.com/rs/zerolog"
	e2wtypes "github.com/wealdtech/go-eth2-wallet-types/v2"
	"pgregory.net/rapid"

	"verifharness/c03world"
	"verifharness/internal/ev"
	"verifharness/internal/fakes"
)

// The unblinding world: the real beaconblockproposer/standard proposes N
// consecutive blinded blocks, each unblinded by 1-4 relay doubles with scripted
// timing.  Oracle (ii) of C20: after every double has been released and every
// call has returned, no goroutine remains parked inside vouch code.

// Relay scripts.
const (
	uPrompt        = "prompt"             // delivers the block at once
	uBarrier       = "barrier"            // delivers together with the other "barrier" relays of the proposal
	uAfterOther    = "after-other"        // delivers once another relay has delivered
	uAfterSubmit   = "after-submit"       // delivers once vouch has submitted the block another relay delivered
	uAfterDeadline = "after-deadline"     // delivers as the proposal's context deadline passes (together with its likes)
	uErrorThen     = "error-then-deliver" // fails the first request, delivers on the retry
	uNever         = "never"              // answers only when the harness releases the doubles
)

// UProposal is the script of one proposal: one entry per relay.
type UProposal struct {
	Scripts []string `json:"scripts"`
}

// UCase is one run of the unblinding world.
type UCase struct {
	Unblinding bool        `json:"unblinding"` // marks the JSON as a case of this world
	Relays     int         `json:"relays"`
	DeadlineMs uint64      `json:"deadline_ms"`
	Proposals  []UProposal `json:"proposals"`
	// Repeat: a replay executes the history this many times (the parked sender of the
	// current tree needs two deliveries to race; each execution is a new chance).
	Repeat int `json:"repeat,omitempty"`
}

func genUCase(t *rapid.T) UCase {
	c := UCase{Unblinding: true}
	c.Relays = rapid.SampledFrom([]int{1, 2, 3, 3, 4, 4}).Draw(t, "relays")
	c.DeadlineMs = rapid.SampledFrom([]uint64{30, 60}).Draw(t, "deadlineMs")
	lo, hi := 20, 40
	if ev.Tier() == "thorough" {
		lo, hi = 40, 120
	}
	n := rapid.IntRange(lo, hi).Draw(t, "proposals")
	// a run has a prevailing behaviour plus deviations
	prevailing := rapid.SampledFrom([]string{uPrompt, uBarrier, uAfterDeadline, "any", "any", "sequenced", "sequenced"}).Draw(t, "prevailing")
	all := []string{uPrompt, uPrompt, uBarrier, uBarrier, uAfterOther, uAfterSubmit, uAfterDeadline, uAfterDeadline, uErrorThen, uNever}
	for i := 0; i < n; i++ {
		p := UProposal{}
		if prevailing == "sequenced" {
			// exactly one relay delivers promptly; every other one strictly after vouch has
			// taken and submitted that block (or when released): no two deliveries race
			first := rapid.IntRange(0, c.Relays-1).Draw(t, "promptRelay")
			for r := 0; r < c.Relays; r++ {
				if r == first {
					p.Scripts = append(p.Scripts, uPrompt)
				} else {
					p.Scripts = append(p.Scripts, rapid.SampledFrom([]string{uAfterSubmit, uAfterSubmit, uNever}).Draw(t, "later"))
				}
			}
			c.Proposals = append(c.Proposals, p)
			continue
		}
		for r := 0; r < c.Relays; r++ {
			s := prevailing
			if s == "any" || rapid.IntRange(0, 4).Draw(t, "deviate") == 0 {
				s = rapid.SampledFrom(all).Draw(t, "script")
			}
			p.Scripts = append(p.Scripts, s)
		}
		c.Proposals = append(c.Proposals, p)
	}
	return c
}

// ---- the world ----

type uworld struct {
	c        *UCase
	release  chan struct{}
	inflight atomic.Int32 // relay requests inside a double
	mu       sync.Mutex
	props    map[uint64]*uprop // by slot
	submits  atomic.Int64
	baseSlot uint64
}

type uprop struct {
	idx        int
	scripts    []string
	delivered  atomic.Int32
	someone    chan struct{} // closed when the first relay has delivered
	once       sync.Once
	submitted  chan struct{} // closed when vouch has submitted the block
	subOnce    sync.Once
	arrived    map[string]*atomic.Int32 // rendezvous per script group
	attempts   []atomic.Int32
	groupSizes map[string]int32
}

func (w *uworld) prop(slot uint64) *uprop {
	w.mu.Lock()
	defer w.mu.Unlock()
	return w.props[slot]
}

// rendezvous makes the relays of one group leave their doubles within
// nanoseconds of each other (as answers that arrive at the same instant do).
func (p *uprop) rendezvous(group string, release chan struct{}) {
	n := p.groupSizes[group]
	ctr := p.arrived[group]
	ctr.Add(1)
	deadline := time.Now().Add(200 * time.Millisecond)
	for ctr.Load() < n {
		select {
		case <-release:
			return
		default:
		}
		if time.Now().After(deadline) {
			return
		}
		runtime.Gosched()
	}
}

func (p *uprop) deliver() {
	p.delivered.Add(1)
	p.once.Do(func() { close(p.someone) })
}

type urelay struct {
	w   *uworld
	idx int
}

func (r *urelay) Name() string              { return fmt.Sprintf("relay-%d", r.idx) }
func (r *urelay) Address() string           { return fmt.Sprintf("relay-%d.invalid:443", r.idx) }
func (r *urelay) Pubkey() *phase0.BLSPubKey { return nil }

func (r *urelay) BuilderBid(context.Context, *builderapi.BuilderBidOpts) (*builderapi.Response[*builderspec.VersionedSignedBuilderBid], error) {
	return nil, errors.New("not used")
}

func (r *urelay) UnblindProposal(ctx context.Context, opts *builderapi.UnblindProposalOpts) (*builderapi.Response[*api.VersionedSignedProposal], error) {
	r.w.inflight.Add(1)
	defer r.w.inflight.Add(-1)
	if opts == nil || opts.Proposal == nil || opts.Proposal.Bellatrix == nil {
		return nil, errors.New("POST failed with status 400: no blinded block")
	}
	slot := uint64(opts.Proposal.Bellatrix.Message.Slot)
	p := r.w.prop(slot)
	if p == nil {
		return nil, errors.New("POST failed with status 400: unknown payload")
	}
	attempt := p.attempts[r.idx].Add(1)
	script := p.scripts[r.idx]
	switch script {
	case uPrompt:
	case uBarrier:
		p.rendezvous(uBarrier, r.w.release)
	case uAfterOther:
		select {
		case <-p.someone:
		case <-r.w.release:
		}
	case uAfterSubmit:
		select {
		case <-p.submitted:
		case <-r.w.release:
		}
	case uAfterDeadline:
		// the answer was complete when the deadline struck
		select {
		case <-ctx.Done():
		case <-r.w.release:
		}
		p.rendezvous(uAfterDeadline, r.w.release)
	case uErrorThen:
		if attempt == 1 {
			return nil, errors.New("scripted relay failure")
		}
	case uNever:
		<-r.w.release
	}
	p.deliver()
	return &builderapi.Response[*api.VersionedSignedProposal]{Data: &api.VersionedSignedProposal{
		Version:   spec.DataVersionBellatrix,
		Bellatrix: &bellatrix.SignedBeaconBlock{Message: &bellatrix.BeaconBlock{Slot: phase0.Slot(slot)}},
	}, Metadata: map[string]any{}}, nil
}

type uauction struct{ w *uworld }

func (a uauction) AuctionBlock(context.Context, phase0.Slot, phase0.Hash32, phase0.BLSPubKey) (*blockauctioneer.Results, error) {
	res := &blockauctioneer.Results{Participation: map[string]*blockauctioneer.Participation{}}
	for i := 0; i < a.w.c.Relays; i++ {
		rl := &urelay{w: a.w, idx: i}
		res.AllProviders = append(res.AllProviders, rl)
		res.Providers = append(res.Providers, rl) // every relay offered the winning bid
	}
	return res, nil
}

type uhead struct{}

func (uhead) ExecutionChainHead(context.Context) (phase0.Hash32, uint64) { return phase0.Hash32{1}, 100 }

type unode struct{}

func (unode) Proposal(_ context.Context, opts *api.ProposalOpts) (*api.Response[*api.VersionedProposal], error) {
	body := &apiv1bellatrix.BlindedBeaconBlockBody{
		RANDAOReveal:      opts.RandaoReveal,
		ETH1Data:          &phase0.ETH1Data{BlockHash: make([]byte, 32)},
		Graffiti:          opts.Graffiti,
		ProposerSlashings: []*phase0.ProposerSlashing{},
		AttesterSlashings: []*phase0.AttesterSlashing{},
		Attestations:      []*phase0.Attestation{},
		Deposits:          []*phase0.Deposit{},
		VoluntaryExits:    []*phase0.SignedVoluntaryExit{},
		SyncAggregate:     &altair.SyncAggregate{SyncCommitteeBits: bitfield.NewBitvector512()},
		ExecutionPayloadHeader: &bellatrix.ExecutionPayloadHeader{
			ExtraData: []byte{},
		},
	}
	return &api.Response[*api.VersionedProposal]{Data: &api.VersionedProposal{
		Version: spec.DataVersionBellatrix,
		Blinded: true,
		BellatrixBlinded: &apiv1bellatrix.BlindedBeaconBlock{
			Slot: opts.Slot, ProposerIndex: 7, Body: body,
		},
	}, Metadata: map[string]any{}}, nil
}

type usubmit struct{ w *uworld }

func (s usubmit) SubmitProposal(_ context.Context, p *api.VersionedSignedProposal) error {
	s.w.submits.Add(1)
	if slot, err := p.Slot(); err == nil {
		if up := s.w.prop(uint64(slot)); up != nil {
			up.subOnce.Do(func() { close(up.submitted) })
		}
	}
	return nil
}

type uaccounts struct{}

func (uaccounts) one() map[phase0.ValidatorIndex]e2wtypes.Account {
	return map[phase0.ValidatorIndex]e2wtypes.Account{7: &c03world.Account{Index: 7}}
}
func (a uaccounts) ValidatingAccountsForEpoch(context.Context, phase0.Epoch) (map[phase0.ValidatorIndex]e2wtypes.Account, error) {
	return a.one(), nil
}
func (a uaccounts) ValidatingAccountsForEpochByIndex(context.Context, phase0.Epoch, []phase0.ValidatorIndex) (map[phase0.ValidatorIndex]e2wtypes.Account, error) {
	return a.one(), nil
}
func (a uaccounts) SyncCommitteeAccountsForEpoch(context.Context, phase0.Epoch) (map[phase0.ValidatorIndex]e2wtypes.Account, error) {
	return a.one(), nil
}
func (a uaccounts) SyncCommitteeAccountsForEpochByIndex(context.Context, phase0.Epoch, []phase0.ValidatorIndex) (map[phase0.ValidatorIndex]e2wtypes.Account, error) {
	return a.one(), nil
}

type usigner struct{}

func (usigner) SignRANDAOReveal(_ context.Context, acc e2wtypes.Account, slot phase0.Slot) (phase0.BLSSignature, error) {
	return sigOf(acc.PublicKey().Marshal(), u64(uint64(slot)), []byte("randao")), nil
}
func (usigner) SignBeaconBlockProposal(_ context.Context, acc e2wtypes.Account, slot phase0.Slot, _ phase0.ValidatorIndex, _, _, body phase0.Root) (phase0.BLSSignature, error) {
	return sigOf(acc.PublicKey().Marshal(), u64(uint64(slot)), body[:]), nil
}
func (usigner) SignBlobSidecar(context.Context, e2wtypes.Account, phase0.Slot, phase0.Root) (phase0.BLSSignature, error) {
	return phase0.BLSSignature{1}, nil
}

// sequenced reports whether no two deliveries of any proposal can race: exactly one
// relay delivers promptly and all others only after vouch has submitted that block
// (or when released at the end, when the first one's block was long taken).
func sequenced(c *UCase) bool {
	for _, p := range c.Proposals {
		prompt := 0
		for _, s := range p.Scripts {
			switch s {
			case uPrompt:
				prompt++
			case uAfterSubmit, uNever:
			default:
				return false
			}
		}
		if prompt != 1 {
			return false
		}
	}
	return true
}

type ustats struct {
	proposals, submitted, lateGroups, barrierGroups, neverRelays int
	parked                                                       map[string]int
	inconclusive                                                 string
}

func runUnblinding(c *UCase) (ustats, error) {
	var st ustats
	st.parked = map[string]int{}
	zerolog.SetGlobalLevel(zerolog.Disabled)
	settle()
	pre := map[int]bool{}
	for _, g := range goroutines() {
		pre[g.id] = true
	}
	w := &uworld{c: c, release: make(chan struct{}), props: map[uint64]*uprop{}, baseSlot: 6400}
	released := false
	defer func() {
		if !released {
			close(w.release)
		}
	}()
	bg, cancelAll := context.WithCancel(context.Background())
	defer cancelAll()
	clock := fakes.NewVClock(time.Unix(1606824023, 0), 12*time.Second, 32)
	clock.SetSlot(w.baseSlot, 0)
	svc, err := proposer.New(bg,
		proposer.WithLogLevel(zerolog.Disabled), proposer.WithMonitor(nullmetrics.New()), proposer.WithChainTime(clock),
		proposer.WithProposalDataProvider(unode{}), proposer.WithValidatingAccountsProvider(uaccounts{}),
		proposer.WithProposalSubmitter(usubmit{w}), proposer.WithRANDAORevealSigner(usigner{}), proposer.WithBeaconBlockSigner(usigner{}),
		proposer.WithBlobSidecarSigner(usigner{}), proposer.WithBlockAuctioneer(uauction{w}), proposer.WithExecutionChainHeadProvider(uhead{}),
		proposer.WithUnblindFromAllRelays(false), proposer.WithBuilderBoostFactor(100))
	if err != nil {
		return st, fmt.Errorf("harness: cannot construct the proposer: %w", err)
	}
	for i, up := range c.Proposals {
		if len(up.Scripts) != c.Relays {
			return st, fmt.Errorf("harness: proposal %d has %d scripts for %d relays", i, len(up.Scripts), c.Relays)
		}
		slot := w.baseSlot + uint64(i)
		p := &uprop{idx: i, scripts: up.Scripts, someone: make(chan struct{}), submitted: make(chan struct{}), arrived: map[string]*atomic.Int32{}, groupSizes: map[string]int32{},
			attempts: make([]atomic.Int32, c.Relays)}
		for _, s := range up.Scripts {
			p.groupSizes[s]++
			if p.arrived[s] == nil {
				p.arrived[s] = &atomic.Int32{}
			}
			if s == uNever {
				st.neverRelays++
			}
		}
		if p.groupSizes[uAfterDeadline] >= 2 {
			st.lateGroups++
		}
		if p.groupSizes[uBarrier] >= 3 {
			st.barrierGroups++
		}
		w.mu.Lock()
		w.props[slot] = p
		w.mu.Unlock()
		clock.SetSlot(slot, 0)
		duty := beaconblockproposer.NewDuty(phase0.Slot(slot), 7)
		if err := svc.Prepare(bg, duty); err != nil {
			return st, fmt.Errorf("harness: Prepare failed: %w", err)
		}
		ctx, cancel := context.WithTimeout(bg, time.Duration(c.DeadlineMs)*time.Millisecond)
		done := make(chan struct{})
		go func() {
			defer close(done)
			svc.Propose(ctx, duty)
		}()
		select {
		case <-done:
		case <-time.After(60 * time.Second):
			cancel()
			return st, fmt.Errorf("harness watchdog: Propose %d did not return within 60 s of a %d ms deadline", i, c.DeadlineMs)
		}
		// the controller's job context lives on; only the deadline belongs to the proposal
		_ = cancel
		st.proposals++
	}
	st.submitted = int(w.submits.Load())

	// release every double, let every call return and everything in vouch code finish
	close(w.release)
	released = true
	deadline := time.Now().Add(60 * time.Second)
	for {
		active := 0
		what := ""
		if w.inflight.Load() == 0 {
			for _, g := range goroutines() {
				if pre[g.id] || g.fn == "" {
					continue
				}
				if len(g.top) >= len(vouchPath) && g.top[:len(vouchPath)] == vouchPath && (g.state == "chan send" || g.state == "chan receive") {
					continue
				}
				active++
				what = g.fn + " [" + g.state + "] in " + g.top
			}
			if active == 0 {
				break
			}
		}
		if time.Now().After(deadline) {
			st.inconclusive = fmt.Sprintf("goroutines still active in vouch code 60 s after the doubles were released (in flight %d): %s", w.inflight.Load(), what)
			return st, nil
		}
		time.Sleep(5 * time.Millisecond)
	}
	for _, g := range goroutines() {
		if pre[g.id] || g.fn == "" {
			continue
		}
		if len(g.top) >= len(vouchPath) && g.top[:len(vouchPath)] == vouchPath && (g.state == "chan send" || g.state == "chan receive") {
			st.parked[g.fn+" ["+g.state+"]"]++
		}
	}
	return st, nil
}

func checkUnblinding(t ev.TB, c *UCase) {
	st, err := runUnblinding(c)
	for i := 1; i < c.Repeat && err == nil && len(st.parked) == 0 && st.inconclusive == ""; i++ {
		st, err = runUnblinding(c)
	}
	nontrivial := err == nil && c.Relays >= 2 && (st.lateGroups > 0 || st.barrierGroups > 0 || st.neverRelays > 0 || sequenced(c))
	labels := []string{"unblinding", fmt.Sprintf("unblinding:relays=%d", c.Relays)}
	if st.lateGroups > 0 {
		labels = append(labels, "unblinding:two-or-more-relays-deliver-as-the-deadline-passes")
	}
	if st.barrierGroups > 0 {
		labels = append(labels, "unblinding:three-or-more-relays-deliver-at-the-same-instant")
	}
	if st.neverRelays > 0 {
		labels = append(labels, "unblinding:relay-answers-only-when-released")
	}
	if sequenced(c) {
		labels = append(labels, "unblinding:deliveries-strictly-ordered")
	}
	ev.Case(nontrivial, ev.Hash(c), labels...)
	ev.LabelN("unblinding:proposals", int64(st.proposals))
	ev.LabelN("unblinding:submitted", int64(st.submitted))
	if nontrivial {
		ev.Sample(c)
	}
	if err != nil {
		ev.Inconclusive("harness: " + firstLine(err.Error()))
		t.Fatalf("harness problem: %v", err)
	}
	if st.inconclusive != "" {
		ev.Inconclusive(st.inconclusive)
		return
	}
	for _, k := range sortedKeys(st.parked) {
		fn := k
		for i := range k {
			if k[i] == ' ' {
				fn = k[:i]
				break
			}
		}
		sig, how := "goroutines-parked:"+fn, ""
		if sequenced(c) {
			// not the race between deliveries at the same instant: every delivery was strictly ordered
			sig += ":deliveries-strictly-ordered"
			how = "; in every proposal one relay delivered promptly and the others only after vouch had submitted that block"
		}
		ev.Violation(t, sig, c, "%d goroutine(s) still parked in %s after %d blinded proposals unblinded by %d relays (every relay double released, every call returned)%s",
			st.parked[k], k, st.proposals, c.Relays, how)
	}
}

func TestUnblinding(t *testing.T) {
	rapid.Check(t, func(t *rapid.T) {
		c := genUCase(t)
		checkUnblinding(t, &c)
	})
}

var _ builderclient.UnblindedProposalProvider = (*urelay)(nil)
