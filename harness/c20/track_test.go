package c20

import (
	"context"
	"sync/atomic"

	eth2client "github.com/attestantio/go-eth2-client"
	"github.com/attestantio/go-eth2-client/api"
	apiv1 "github.com/attestantio/go-eth2-client/api/v1"
	"github.com/attestantio/go-eth2-client/spec"
	"github.com/attestantio/go-eth2-client/spec/altair"
	"github.com/attestantio/go-eth2-client/spec/phase0"
)

// Every strategy in the world is wrapped so that the harness knows when a
// strategy call begins and returns; the call's identity travels in the context,
// so the node doubles know which strategy call a provider call belongs to and
// can watch the context they were given.

type scallKey struct{}

// scall is one call of a strategy.
type scall struct {
	label    string // strategy package, e.g. "attestationdata/first"
	returned atomic.Bool
	endSlot  atomic.Uint64
}

// pcall is one call of a node double.
type pcall struct {
	sc    *scall
	ctx   context.Context
	what  string
	idx   int
	slot  uint64
	state string
}

func (p *pool) begin(ctx context.Context, label string) (context.Context, *scall) {
	sc := &scall{label: label}
	return context.WithValue(ctx, scallKey{}, sc), sc
}

func (p *pool) end(sc *scall) {
	if p.clockSlot != nil {
		sc.endSlot.Store(p.clockSlot())
	}
	sc.returned.Store(true)
}

func (p *pool) enter(ctx context.Context, what string, idx int) *pcall {
	pc := &pcall{ctx: ctx, what: what, idx: idx}
	if sc, ok := ctx.Value(scallKey{}).(*scall); ok {
		pc.sc = sc
	}
	if p.clockSlot != nil {
		pc.slot = p.clockSlot()
	}
	p.mu.Lock()
	p.pcalls[pc] = struct{}{}
	p.mu.Unlock()
	return pc
}

func (p *pool) exit(pc *pcall) {
	p.mu.Lock()
	delete(p.pcalls, pc)
	p.mu.Unlock()
}

// orphans returns the provider calls that are still running although the
// strategy call that started them has returned and that still hold a live context.
func (p *pool) orphans() []*pcall {
	p.mu.Lock()
	defer p.mu.Unlock()
	var res []*pcall
	for pc := range p.pcalls {
		if pc.sc != nil && pc.sc.returned.Load() && pc.ctx.Err() == nil {
			res = append(res, pc)
		}
	}
	return res
}

type trAttData struct {
	p     *pool
	label string
	inner eth2client.AttestationDataProvider
}

func (t trAttData) AttestationData(ctx context.Context, opts *api.AttestationDataOpts) (*api.Response[*phase0.AttestationData], error) {
	ctx, sc := t.p.begin(ctx, t.label)
	defer t.p.end(sc)
	return t.inner.AttestationData(ctx, opts)
}

type trContribution struct {
	p     *pool
	label string
	inner eth2client.SyncCommitteeContributionProvider
}

func (t trContribution) SyncCommitteeContribution(ctx context.Context, opts *api.SyncCommitteeContributionOpts) (*api.Response[*altair.SyncCommitteeContribution], error) {
	ctx, sc := t.p.begin(ctx, t.label)
	defer t.p.end(sc)
	return t.inner.SyncCommitteeContribution(ctx, opts)
}

type trAggregate struct {
	p     *pool
	label string
	inner eth2client.AggregateAttestationProvider
}

func (t trAggregate) AggregateAttestation(ctx context.Context, opts *api.AggregateAttestationOpts) (*api.Response[*phase0.Attestation], error) {
	ctx, sc := t.p.begin(ctx, t.label)
	defer t.p.end(sc)
	return t.inner.AggregateAttestation(ctx, opts)
}

type trRoot struct {
	p     *pool
	label string
	inner eth2client.BeaconBlockRootProvider
}

func (t trRoot) BeaconBlockRoot(ctx context.Context, opts *api.BeaconBlockRootOpts) (*api.Response[*phase0.Root], error) {
	ctx, sc := t.p.begin(ctx, t.label)
	defer t.p.end(sc)
	return t.inner.BeaconBlockRoot(ctx, opts)
}

type trProposal struct {
	p     *pool
	label string
	inner eth2client.ProposalProvider
}

func (t trProposal) Proposal(ctx context.Context, opts *api.ProposalOpts) (*api.Response[*api.VersionedProposal], error) {
	ctx, sc := t.p.begin(ctx, t.label)
	defer t.p.end(sc)
	return t.inner.Proposal(ctx, opts)
}

type trHeader struct {
	p     *pool
	label string
	inner eth2client.BeaconBlockHeadersProvider
}

func (t trHeader) BeaconBlockHeader(ctx context.Context, opts *api.BeaconBlockHeaderOpts) (*api.Response[*apiv1.BeaconBlockHeader], error) {
	ctx, sc := t.p.begin(ctx, t.label)
	defer t.p.end(sc)
	return t.inner.BeaconBlockHeader(ctx, opts)
}

type trBlock struct {
	p     *pool
	label string
	inner eth2client.SignedBeaconBlockProvider
}

func (t trBlock) SignedBeaconBlock(ctx context.Context, opts *api.SignedBeaconBlockOpts) (*api.Response[*spec.VersionedSignedBeaconBlock], error) {
	ctx, sc := t.p.begin(ctx, t.label)
	defer t.p.end(sc)
	return t.inner.SignedBeaconBlock(ctx, opts)
}
