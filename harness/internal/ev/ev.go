// Package ev is the evidence recorder shared by every check.
//
// A test binary calls ev.Main from TestMain.  Properties call Case once per
// executed case, Violation whenever the oracle disagrees with the
// implementation, and SaveCase to persist the (JSON) case that failed so that it
// can be replayed without the property library.  At process exit everything is
// written to the file named by VERIF_OUT; the driver (/verif/check) merges the
// files of all shards into evidence/<ID>.json and decides the exit status.
package ev

import (
	"crypto/sha256"
	"encoding/binary"
	"encoding/json"
	"fmt"
	"os"
	"path/filepath"
	"sort"
	"strconv"
	"strings"
	"sync"
	"testing"
	"time"
)

// TB is the part of testing.TB / rapid.T the recorder needs.
type TB interface {
	Fatalf(format string, args ...any)
	Logf(format string, args ...any)
}

// Finding is one entry of /verif/known_findings.json.
type Finding struct {
	Property  string `json:"property"`
	Signature string `json:"signature"`
	Status    string `json:"status"` // "open" or "fixed"
	Commit    string `json:"commit,omitempty"`
	What      string `json:"what"`
}

// ViolationRec is a violation observed by this process.
type ViolationRec struct {
	Signature string `json:"signature"`
	Detail    string `json:"detail"`
	Replay    string `json:"replay,omitempty"`
	Count     int    `json:"count"`
}

// Out is the per-process output file.
type Out struct {
	Property      string            `json:"property"`
	Tier          string            `json:"tier"`
	Seed          int64             `json:"seed"`
	Evaluations   int64             `json:"evaluations"`
	Nontrivial    int64             `json:"nontrivial"`
	Hashes        []string          `json:"hashes"`
	HashesCapped  bool              `json:"hashes_capped"`
	Labels        map[string]int64  `json:"labels"`
	Samples       []json.RawMessage `json:"samples"`
	Violations    []*ViolationRec   `json:"violations"`
	KnownHits     map[string]int64  `json:"known_hits"`
	Inconclusive  []string          `json:"inconclusive"`
	Notes         map[string]string `json:"notes"`
	WallS         float64           `json:"wall_s"`
	Completed     bool              `json:"completed"`
	ExitCode      int               `json:"exit_code"`
	ReplaysPassed int64             `json:"replays_passed"`
}

const maxHashes = 400000
const maxSamples = 6

var (
	mu        sync.Mutex
	out       Out
	hashes    = map[uint64]struct{}{}
	viols     = map[string]*ViolationRec{}
	known     = map[string]Finding{}
	start     time.Time
	outPath   string
	replayDir string
	inited    bool
	sampleN   int64
)

func initOnce(property string) {
	if inited {
		return
	}
	inited = true
	start = time.Now()
	out.Property = property
	out.Tier = os.Getenv("VERIF_TIER")
	if out.Tier == "" {
		out.Tier = "quick"
	}
	out.Seed, _ = strconv.ParseInt(os.Getenv("VERIF_SEED"), 10, 64)
	out.Labels = map[string]int64{}
	out.KnownHits = map[string]int64{}
	out.Notes = map[string]string{}
	outPath = os.Getenv("VERIF_OUT")
	for _, a := range os.Args {
		if strings.HasPrefix(a, "-test.fuzzworker") && outPath != "" {
			// native fuzz worker process: own output file, flushed periodically
			// because the coordinator may kill the worker at the end of the campaign
			outPath = fmt.Sprintf("%s.worker%d", outPath, os.Getpid())
			go func() {
				for {
					time.Sleep(1500 * time.Millisecond)
					Flush()
				}
			}()
			break
		}
	}
	replayDir = os.Getenv("VERIF_REPLAY_DIR")
	if p := os.Getenv("VERIF_KNOWN"); p != "" {
		if b, err := os.ReadFile(p); err == nil {
			var fs []Finding
			if err := json.Unmarshal(b, &fs); err != nil {
				fmt.Fprintf(os.Stderr, "ev: cannot parse %s: %v\n", p, err)
				os.Exit(3)
			}
			for _, f := range fs {
				if f.Property == property && f.Status == "open" {
					known[f.Signature] = f
				}
			}
		}
	}
}

// Main is the TestMain body of every check package.
func Main(m *testing.M, property string) {
	initOnce(property)
	code := m.Run()
	mu.Lock()
	out.ExitCode = code
	out.Completed = true
	mu.Unlock()
	Flush()
	os.Exit(code)
}

// Tier returns "quick" or "thorough".
func Tier() string { return out.Tier }

// Seed returns VERIF_SEED.
func Seed() int64 { return out.Seed }

// Hash returns a stable 64-bit hash of the JSON form of v.
func Hash(v any) uint64 {
	b, err := json.Marshal(v)
	if err != nil {
		panic(err)
	}
	s := sha256.Sum256(b)
	return binary.LittleEndian.Uint64(s[:8])
}

// Case records one executed case.  nontrivial says whether it satisfies the
// check's stated non-trivial rule; h identifies the case for distinctness.
func Case(nontrivial bool, h uint64, labels ...string) {
	mu.Lock()
	defer mu.Unlock()
	out.Evaluations++
	if nontrivial {
		out.Nontrivial++
		if len(hashes) < maxHashes {
			hashes[h] = struct{}{}
		} else {
			out.HashesCapped = true
		}
	}
	for _, l := range labels {
		out.Labels[l]++
	}
}

// Label counts a label without counting a case.
func Label(l string) { LabelN(l, 1) }

// LabelN adds n to a label.
func LabelN(l string, n int64) {
	mu.Lock()
	out.Labels[l] += n
	mu.Unlock()
}

// Note stores a free-text note in the evidence.
func Note(k, v string) {
	mu.Lock()
	out.Notes[k] = v
	mu.Unlock()
}

// Sample offers a case as an evidence sample.  The first few offered are kept
// and then every 2^k-th, so that the choice depends only on the sequence of
// cases (no own randomness).
func Sample(v any) {
	mu.Lock()
	defer mu.Unlock()
	sampleN++
	keep := len(out.Samples) < maxSamples/2
	if !keep && sampleN&(sampleN-1) == 0 {
		keep = true
	}
	if !keep {
		return
	}
	b, err := json.Marshal(v)
	if err != nil {
		return
	}
	if len(b) > 6000 {
		b, _ = json.Marshal(map[string]any{"truncated": string(b[:6000])})
	}
	if len(out.Samples) >= maxSamples {
		copy(out.Samples[maxSamples/2:], out.Samples[maxSamples/2+1:])
		out.Samples = out.Samples[:maxSamples-1]
	}
	out.Samples = append(out.Samples, b)
}

// IsKnown reports whether sig is a listed open finding.
func IsKnown(sig string) bool {
	mu.Lock()
	defer mu.Unlock()
	_, ok := known[sig]
	return ok
}

// KnownHit counts an observation (or a by-construction exclusion) of a listed
// open finding.
func KnownHit(sig string) {
	mu.Lock()
	out.KnownHits[sig]++
	mu.Unlock()
}

// Violation reports that the oracle disagrees with the implementation.  If sig
// is a listed open finding it is counted and false is returned (the caller
// carries on so that the search continues behind the finding).  Otherwise the
// violation is recorded, the case (if non-nil) is saved as a JSON replay file,
// and t.Fatalf is called (which lets rapid shrink).
func Violation(t TB, sig string, c any, format string, args ...any) bool {
	detail := fmt.Sprintf(format, args...)
	mu.Lock()
	if _, ok := known[sig]; ok {
		out.KnownHits[sig]++
		mu.Unlock()
		return false
	}
	v := viols[sig]
	if v == nil {
		v = &ViolationRec{Signature: sig}
		viols[sig] = v
	}
	v.Count++
	v.Detail = detail
	if c != nil && replayDir != "" {
		if p, err := saveCaseLocked(sig, c); err == nil {
			v.Replay = p
		}
	}
	mu.Unlock()
	Flush()
	t.Fatalf("VIOLATION-DETAIL property=%s signature=%q %s", out.Property, sig, detail)
	return true
}

func sanitize(s string) string {
	var b strings.Builder
	for _, r := range s {
		if r >= 'a' && r <= 'z' || r >= 'A' && r <= 'Z' || r >= '0' && r <= '9' || r == '-' || r == '_' || r == '.' {
			b.WriteRune(r)
		} else {
			b.WriteByte('_')
		}
	}
	r := b.String()
	if len(r) > 80 {
		r = r[:80]
	}
	return r
}

// saveCaseLocked writes the case; the last write for a signature wins, which
// after rapid's shrinking is the minimal case.
func saveCaseLocked(sig string, c any) (string, error) {
	b, err := json.MarshalIndent(map[string]any{"property": out.Property, "signature": sig, "case": c}, "", " ")
	if err != nil {
		return "", err
	}
	if err := os.MkdirAll(replayDir, 0o755); err != nil {
		return "", err
	}
	shard := os.Getenv("VERIF_SHARD")
	p := filepath.Join(replayDir, fmt.Sprintf("found-%s-seed%d-%s.json", sanitize(sig), out.Seed, shard))
	if err := os.WriteFile(p, b, 0o644); err != nil {
		return "", err
	}
	return p, nil
}

// LoadCase reads a replay file written by Violation into c and returns the
// signature it was saved under.
func LoadCase(path string, c any) (string, error) {
	b, err := os.ReadFile(path)
	if err != nil {
		return "", err
	}
	var w struct {
		Signature string          `json:"signature"`
		Case      json.RawMessage `json:"case"`
	}
	if err := json.Unmarshal(b, &w); err != nil {
		return "", err
	}
	return w.Signature, json.Unmarshal(w.Case, c)
}

// ReplayFile returns the file a replay test has to run, or "".
func ReplayFile() string { return os.Getenv("VERIF_REPLAY_FILE") }

// ReplayPassed counts a replay that ran and held.
func ReplayPassed() {
	mu.Lock()
	out.ReplaysPassed++
	mu.Unlock()
}

// Inconclusive records that something could not be judged (watchdog, band).
func Inconclusive(why string) {
	mu.Lock()
	if len(out.Inconclusive) < 50 {
		out.Inconclusive = append(out.Inconclusive, why)
	}
	out.Labels["inconclusive"]++
	mu.Unlock()
}

// Flush writes the output file (called at exit and on every violation, so that
// a crash later on does not lose what was found).
func Flush() {
	mu.Lock()
	defer mu.Unlock()
	if outPath == "" {
		return
	}
	out.WallS = time.Since(start).Seconds()
	out.Hashes = out.Hashes[:0]
	for h := range hashes {
		out.Hashes = append(out.Hashes, strconv.FormatUint(h, 16))
	}
	sort.Strings(out.Hashes)
	out.Violations = out.Violations[:0]
	for _, v := range viols {
		out.Violations = append(out.Violations, v)
	}
	sort.Slice(out.Violations, func(i, j int) bool { return out.Violations[i].Signature < out.Violations[j].Signature })
	b, err := json.Marshal(&out)
	if err != nil {
		fmt.Fprintf(os.Stderr, "ev: marshal: %v\n", err)
		return
	}
	tmp := outPath + ".tmp"
	if err := os.WriteFile(tmp, b, 0o644); err == nil {
		_ = os.Rename(tmp, outPath)
	}
}
