package fakes

import "runtime"

// GoroutineCount returns the number of goroutines from a stop-the-world snapshot.
// runtime.NumGoroutine adds up counters that change concurrently (the runtime says so itself:
// "the result can be inconsistent"); on a loaded machine a reading can be too low for as long
// as the reading thread stays descheduled between two of those counters, which made a wait for
// quiescence end early once (DESIGN.md section 26).  With a non-empty slice that is too small
// runtime.GoroutineProfile stops the world, counts and returns without writing.
func GoroutineCount() int {
	var one [1]runtime.StackRecord
	n, _ := runtime.GoroutineProfile(one[:])
	return n
}

// GoroutinesAtMost reports whether at most n goroutines exist: the cheap reading first, confirmed by a
// consistent snapshot.
func GoroutinesAtMost(n int) bool {
	if runtime.NumGoroutine() > n {
		return false
	}
	return GoroutineCount() <= n
}
