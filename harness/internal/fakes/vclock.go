// Package fakes holds scripted, recording doubles shared by the checks.
package fakes

import (
	"sync"
	"time"

	"github.com/attestantio/go-eth2-client/spec/phase0"
)

// VClock implements chaintime.Service with a harness-owned "now".
// Its arithmetic is the plain integer arithmetic of the consensus spec; the real
// chaintime/standard service is checked against the same arithmetic in C03.
type VClock struct {
	mu            sync.Mutex
	Genesis       time.Time
	SlotDuration  time.Duration
	SlotsPerEpoch uint64
	now           time.Time
}

// NewVClock creates a clock standing at genesis.
func NewVClock(genesis time.Time, slotDuration time.Duration, slotsPerEpoch uint64) *VClock {
	return &VClock{Genesis: genesis, SlotDuration: slotDuration, SlotsPerEpoch: slotsPerEpoch, now: genesis}
}

// Now returns the virtual now.
func (c *VClock) Now() time.Time {
	c.mu.Lock()
	defer c.mu.Unlock()
	return c.now
}

// Set sets the virtual now.
func (c *VClock) Set(t time.Time) {
	c.mu.Lock()
	c.now = t
	c.mu.Unlock()
}

// SetSlot places the clock at the start of the slot plus an offset.
func (c *VClock) SetSlot(slot uint64, offset time.Duration) {
	c.Set(c.StartOfSlot(phase0.Slot(slot)).Add(offset))
}

func (c *VClock) GenesisTime() time.Time { return c.Genesis }

func (c *VClock) StartOfSlot(slot phase0.Slot) time.Time {
	return c.Genesis.Add(time.Duration(slot) * c.SlotDuration)
}

func (c *VClock) StartOfEpoch(epoch phase0.Epoch) time.Time {
	return c.Genesis.Add(time.Duration(uint64(epoch)*c.SlotsPerEpoch) * c.SlotDuration)
}

func (c *VClock) CurrentSlot() phase0.Slot {
	now := c.Now()
	if now.Before(c.Genesis) {
		return 0
	}
	return phase0.Slot(uint64(now.Sub(c.Genesis) / c.SlotDuration))
}

func (c *VClock) CurrentEpoch() phase0.Epoch {
	return phase0.Epoch(uint64(c.CurrentSlot()) / c.SlotsPerEpoch)
}

func (c *VClock) SlotToEpoch(slot phase0.Slot) phase0.Epoch {
	return phase0.Epoch(uint64(slot) / c.SlotsPerEpoch)
}

func (c *VClock) FirstSlotOfEpoch(epoch phase0.Epoch) phase0.Slot {
	return phase0.Slot(uint64(epoch) * c.SlotsPerEpoch)
}
