package fakes

import (
	"context"
	"sort"
	"strings"
	"sync"
	"time"

	"github.com/attestantio/vouch/services/scheduler"
)

// Job is a job held by Sched.
type Job struct {
	Class    string
	Name     string
	Time     time.Time // one-off jobs
	Periodic bool
	Runtime  scheduler.RuntimeFunc
	Func     scheduler.JobFunc
	Ctx      context.Context
	Seq      int
}

// SchedCall is a log entry.
type SchedCall struct {
	Op   string // schedule, schedule-periodic, cancel, cancel-if-exists, cancel-prefix, run, run-if-exists, fire
	Name string
	Time time.Time
	Err  string
}

// Sched implements scheduler.Service as an explicit reference of the scheduler
// contract, including: a job whose parent (scheduling) context has ended is
// dropped without running (logged as "dropped-parent-context-done").  Nothing runs by itself: the harness fires jobs (Fire, FireDue).
// RunJob / RunJobIfExists run the job synchronously on the caller's goroutine
// unless Async is set (then in a new goroutine, as the real scheduler does).
type Sched struct {
	mu    sync.Mutex
	jobs  map[string]*Job
	Log   []SchedCall
	seq   int
	Async bool
	wg    sync.WaitGroup
}

// NewSched creates an empty scheduler double.
func NewSched() *Sched { return &Sched{jobs: map[string]*Job{}} }

func (s *Sched) logf(op, name string, t time.Time, err error) {
	e := ""
	if err != nil {
		e = err.Error()
	}
	s.Log = append(s.Log, SchedCall{Op: op, Name: name, Time: t, Err: e})
}

func (s *Sched) ScheduleJob(ctx context.Context, class string, name string, runtime time.Time, job scheduler.JobFunc) error {
	s.mu.Lock()
	defer s.mu.Unlock()
	var err error
	switch {
	case name == "":
		err = scheduler.ErrNoJobName
	case job == nil:
		err = scheduler.ErrNoJobFunc
	default:
		s.reap()
		if _, ok := s.jobs[name]; ok {
			err = scheduler.ErrJobAlreadyExists
		}
	}
	s.logf("schedule", name, runtime, err)
	if err != nil {
		return err
	}
	s.seq++
	s.jobs[name] = &Job{Class: class, Name: name, Time: runtime, Func: job, Ctx: ctx, Seq: s.seq}
	return nil
}

func (s *Sched) SchedulePeriodicJob(ctx context.Context, class string, name string, runtime scheduler.RuntimeFunc, job scheduler.JobFunc) error {
	s.mu.Lock()
	defer s.mu.Unlock()
	var err error
	switch {
	case name == "":
		err = scheduler.ErrNoJobName
	case runtime == nil:
		err = scheduler.ErrNoRuntimeFunc
	case job == nil:
		err = scheduler.ErrNoJobFunc
	default:
		s.reap()
		if _, ok := s.jobs[name]; ok {
			err = scheduler.ErrJobAlreadyExists
		}
	}
	s.logf("schedule-periodic", name, time.Time{}, err)
	if err != nil {
		return err
	}
	s.seq++
	s.jobs[name] = &Job{Class: class, Name: name, Periodic: true, Runtime: runtime, Func: job, Ctx: ctx, Seq: s.seq}
	return nil
}

func (s *Sched) CancelJob(_ context.Context, name string) error {
	s.mu.Lock()
	defer s.mu.Unlock()
	_, ok := s.jobs[name]
	var err error
	if !ok {
		err = scheduler.ErrNoSuchJob
	}
	delete(s.jobs, name)
	s.logf("cancel", name, time.Time{}, err)
	return err
}

func (s *Sched) CancelJobIfExists(_ context.Context, name string) {
	s.mu.Lock()
	defer s.mu.Unlock()
	delete(s.jobs, name)
	s.logf("cancel-if-exists", name, time.Time{}, nil)
}

func (s *Sched) CancelJobs(_ context.Context, prefix string) {
	s.mu.Lock()
	defer s.mu.Unlock()
	for name := range s.jobs {
		if strings.HasPrefix(name, prefix) {
			delete(s.jobs, name)
		}
	}
	s.logf("cancel-prefix", prefix, time.Time{}, nil)
}

// ctxDone reports whether the context the job was scheduled with has ended.  The scheduler contract
// ("if the parent context is cancelled the job will not run") means such a job is gone: the real scheduler's job
// goroutine removes it as soon as the context is done.
func ctxDone(j *Job) bool { return j.Ctx != nil && j.Ctx.Err() != nil }

// reap drops every job whose parent context has ended (caller holds the lock).
func (s *Sched) reap() {
	for name, j := range s.jobs {
		if ctxDone(j) {
			delete(s.jobs, name)
			s.logf("dropped-parent-context-done", name, time.Time{}, nil)
		}
	}
}

func (s *Sched) take(name string) *Job {
	s.reap()
	j, ok := s.jobs[name]
	if !ok {
		return nil
	}
	if !j.Periodic {
		delete(s.jobs, name)
	}
	return j
}

func (s *Sched) exec(j *Job) {
	if s.Async {
		s.wg.Add(1)
		go func() {
			defer s.wg.Done()
			j.Func(j.Ctx)
		}()
		return
	}
	j.Func(j.Ctx)
}

func (s *Sched) RunJob(_ context.Context, name string) error {
	s.mu.Lock()
	j := s.take(name)
	var err error
	if j == nil {
		err = scheduler.ErrNoSuchJob
	}
	s.logf("run", name, time.Time{}, err)
	s.mu.Unlock()
	if j == nil {
		return err
	}
	s.exec(j)
	return nil
}

func (s *Sched) JobExists(_ context.Context, name string) bool {
	s.mu.Lock()
	defer s.mu.Unlock()
	s.reap()
	_, ok := s.jobs[name]
	return ok
}

func (s *Sched) RunJobIfExists(_ context.Context, name string) {
	s.mu.Lock()
	j := s.take(name)
	s.logf("run-if-exists", name, time.Time{}, nil)
	s.mu.Unlock()
	if j != nil {
		s.exec(j)
	}
}

func (s *Sched) ListJobs(_ context.Context) []string {
	s.mu.Lock()
	defer s.mu.Unlock()
	s.reap()
	names := make([]string, 0, len(s.jobs))
	for n := range s.jobs {
		names = append(names, n)
	}
	sort.Strings(names)
	return names
}

// Wait waits for asynchronously executed jobs.
func (s *Sched) Wait() { s.wg.Wait() }

// Get returns a copy of the job with the given name, or nil.
func (s *Sched) Get(name string) *Job {
	s.mu.Lock()
	defer s.mu.Unlock()
	s.reap()
	if j, ok := s.jobs[name]; ok {
		c := *j
		return &c
	}
	return nil
}

// Jobs returns copies of all jobs ordered by (time, sequence).
func (s *Sched) Jobs() []Job {
	s.mu.Lock()
	defer s.mu.Unlock()
	s.reap()
	res := make([]Job, 0, len(s.jobs))
	for _, j := range s.jobs {
		res = append(res, *j)
	}
	sort.Slice(res, func(i, k int) bool {
		if !res[i].Time.Equal(res[k].Time) {
			return res[i].Time.Before(res[k].Time)
		}
		return res[i].Seq < res[k].Seq
	})
	return res
}

// Fire runs the named job on the caller's goroutine (timer expiry).  One-off
// jobs are removed first, exactly like a claimed job.  Returns false if absent.
func (s *Sched) Fire(name string) bool {
	s.mu.Lock()
	j := s.take(name)
	s.logf("fire", name, time.Time{}, nil)
	s.mu.Unlock()
	if j == nil {
		return false
	}
	j.Func(j.Ctx)
	return true
}

// FireDue fires, in (time, sequence) order, every one-off job whose time is
// not after now, including jobs scheduled by the jobs it fires.  Returns names.
func (s *Sched) FireDue(now time.Time) []string {
	var fired []string
	for {
		var next *Job
		for _, j := range s.Jobs() {
			if !j.Periodic && !j.Time.After(now) {
				jj := j
				next = &jj
				break
			}
		}
		if next == nil {
			return fired
		}
		if s.Fire(next.Name) {
			fired = append(fired, next.Name)
		}
	}
}

// LogLen returns the current log length.
func (s *Sched) LogLen() int {
	s.mu.Lock()
	defer s.mu.Unlock()
	return len(s.Log)
}

// LogCopy returns a copy of the log.
func (s *Sched) LogCopy() []SchedCall {
	s.mu.Lock()
	defer s.mu.Unlock()
	return append([]SchedCall(nil), s.Log...)
}
