package c03

import (
	"fmt"
	"sort"
	"time"

	"verifharness/c03world"
)

// The oracle.  It is written from the statement of C03 and the semantics of the
// duty-dependent roots in the beacon API, not from events.go: it looks only at
// (a) what vouch obtained from the node (fetch log), (b) which jobs exist and
// when they are timed (scheduler), (c) what reached the attester / proposer /
// sync messenger doubles and in which slot.

type finding struct {
	sig    string
	detail string
}

type fkey struct {
	kind  string
	epoch uint64
}

type judge struct {
	c *Case
	w *c03world.World

	fi, si, ci int // log positions already consumed
	hi         int

	// state of the running process
	proc     int
	waited   bool
	startSlt uint64
	latest   map[fkey]*c03world.Fetch   // latest request (successful or not)
	okHist   map[fkey][]*c03world.Fetch // successful responses in order
	executed map[string]map[uint64]int  // kind -> slot -> sequence number of the call (this process)
	lastHead *c03world.HeadRec
	// voided: (kind, epoch) whose jobs a refresh withdrew while the accounts provider
	// failed, so that it could not obtain the duties again; nothing is demanded for them
	// until duties are obtained again
	voided      map[fkey]bool
	faultAction map[int]bool // actions during which an accounts fault was consumed
	cancelled   map[int][]fkey
	// job table at the previous quiescent point (name -> info)
	prevJobs map[string]c03world.JobInfo
	// at the beginning of the current action
	actionJobs map[string]c03world.JobInfo
	actionNo   int

	// whole history
	count map[string]map[uint64]int // kind -> slot -> executions

	// statistics
	st stats
}

type stats struct {
	restartInsideEpoch  bool
	rootChangeDiffering int
	outOfEpochDuties    bool
	withdrawnSlots      int
	jobsFired           int
	attests, proposes   int
	syncMessages        int
	lateHeadRootChange  int
	genesisStart        bool
	providerErrors      int
	currentSlotReplaced int
	headEvents          int
	crossEpochLate      int
	slowNode            bool
	activationCrossed   bool
	accountsFaults      int
	droppedJobs         int
	straddled           int
	refetches           int
}

func newJudge(c *Case, w *c03world.World) *judge {
	return &judge{c: c, w: w, count: map[string]map[uint64]int{"attest": {}, "propose": {}, "sync-message": {}}}
}

func (j *judge) resetProc(id int, startSlot uint64, waited bool) {
	j.proc = id
	j.waited = waited
	j.startSlt = startSlot
	j.latest = map[fkey]*c03world.Fetch{}
	j.okHist = map[fkey][]*c03world.Fetch{}
	j.executed = map[string]map[uint64]int{"attest": {}, "propose": {}, "sync-message": {}}
	j.lastHead = nil
	j.voided = map[fkey]bool{}
	j.faultAction = map[int]bool{}
	j.cancelled = map[int][]fkey{}
	j.prevJobs = map[string]c03world.JobInfo{}
	j.actionJobs = map[string]c03world.JobInfo{}
}

func (j *judge) spe() uint64 { return j.c.P.SlotsPerEpoch }

func (j *judge) delayOf(k c03world.Kind) (time.Duration, bool) {
	ms := func(v uint64) time.Duration { return time.Duration(v) * time.Millisecond }
	p := &j.c.P
	switch k {
	case c03world.KAttest:
		return ms(p.MaxAttestationDelayMs), true
	case c03world.KPropose:
		return ms(p.MaxProposalDelayMs), true
	case c03world.KEarlyPropose:
		return 0, true
	case c03world.KSyncPrepare:
		return -time.Duration(p.SlotSeconds) * time.Second * 3 / 2, true
	case c03world.KSyncMessage:
		return ms(p.MaxSyncCommitteeMessageMs), true
	case c03world.KSyncAggregate:
		return ms(p.SyncCommitteeAggregationMs), true
	case c03world.KAttAggregate:
		return ms(p.AttestationAggregationMs), true
	}
	return 0, false
}

// expectedAtt returns slot -> sorted tuples of the in-epoch duties of a response.
type tuple struct{ v, c, pos, size, cas uint64 }

func (j *judge) expectedAtt(f *c03world.Fetch) map[uint64][]tuple {
	res := map[uint64][]tuple{}
	first := f.Epoch * j.spe()
	for _, d := range f.Att {
		if d.Slot < first || d.Slot >= first+j.spe() {
			continue // "ignores duties outside the requested epoch"
		}
		res[d.Slot] = append(res[d.Slot], tuple{d.Validator, d.Committee, d.Position, d.CommitteeLength, d.CommitteesAtSlot})
	}
	for s := range res {
		sortTuples(res[s])
	}
	return res
}

func sortTuples(t []tuple) {
	sort.Slice(t, func(a, b int) bool {
		if t[a].c != t[b].c {
			return t[a].c < t[b].c
		}
		if t[a].v != t[b].v {
			return t[a].v < t[b].v
		}
		return t[a].pos < t[b].pos
	})
}

func (j *judge) expectedProp(f *c03world.Fetch) map[uint64]uint64 {
	res := map[uint64]uint64{}
	first := f.Epoch * j.spe()
	for _, d := range f.Prop {
		if d.Slot < first || d.Slot >= first+j.spe() {
			continue
		}
		res[d.Slot] = d.Validator
	}
	return res
}

func snapshotTuples(s *c03world.AttSnapshot) []tuple {
	var t []tuple
	for i := range s.Validators {
		var c, pos uint64
		if i < len(s.Committees) {
			c = s.Committees[i]
		}
		if i < len(s.Positions) {
			pos = s.Positions[i]
		}
		t = append(t, tuple{s.Validators[i], c, pos, s.Sizes[c], s.CommitteesAtSlot})
	}
	sortTuples(t)
	return t
}

func equalTuples(a, b []tuple) bool {
	if len(a) != len(b) {
		return false
	}
	for i := range a {
		if a[i] != b[i] {
			return false
		}
	}
	return true
}

// candidates returns the responses a job executing in the given action may
// legitimately have been built from: the latest successful response for the
// epoch, and the one before it if the latest was obtained during this very
// action (a job that is already running while the refresh fetches is not a
// "not-yet-run" job).
func (j *judge) candidates(kind string, epoch uint64, action int) []*c03world.Fetch {
	h := j.okHist[fkey{kind, epoch}]
	if len(h) == 0 {
		return nil
	}
	res := []*c03world.Fetch{h[len(h)-1]}
	for i := len(h) - 1; i > 0 && h[i].Action == action; i-- {
		res = append(res, h[i-1])
	}
	return res
}

// consume processes the new log entries in sequence order and applies the
// per-entry rules (J2 time, J3 content, J4 once, "in its own slot", start rule).
func (j *judge) consume() []finding {
	var out []finding
	fs := j.w.Log.Fetches(j.fi)
	ss := j.w.Log.SchedOps(j.si)
	cs := j.w.Log.Calls(j.ci)
	j.fi += len(fs)
	j.si += len(ss)
	j.ci += len(cs)
	a, b, c := 0, 0, 0
	for a < len(fs) || b < len(ss) || c < len(cs) {
		best, which := int(^uint(0)>>1), 0
		if a < len(fs) && fs[a].Seq < best {
			best, which = fs[a].Seq, 1
		}
		if b < len(ss) && ss[b].Seq < best {
			best, which = ss[b].Seq, 2
		}
		if c < len(cs) && cs[c].Seq < best {
			which = 3
		}
		switch which {
		case 1:
			f := fs[a]
			a++
			if f.Proc != j.proc {
				continue
			}
			k := fkey{f.Kind, f.Epoch}
			j.latest[k] = &f
			if f.ReqClockSlot != f.ClockSlot {
				j.st.straddled++
			}
			if f.Err {
				j.st.providerErrors++
			} else {
				delete(j.voided, k)
				j.okHist[k] = append(j.okHist[k], &f)
				first := f.Epoch * j.spe()
				for _, d := range f.Att {
					if d.Slot < first || d.Slot >= first+j.spe() {
						j.st.outOfEpochDuties = true
					}
				}
				for _, d := range f.Prop {
					if d.Slot < first || d.Slot >= first+j.spe() {
						j.st.outOfEpochDuties = true
					}
				}
			}
		case 2:
			o := ss[b]
			b++
			if o.Proc != j.proc {
				continue
			}
			if o.Op == "fire" {
				j.st.jobsFired++
			}
			if (o.Op == "cancel" || o.Op == "cancel-if-exists") && o.Err == "" {
				switch o.Kind {
				case c03world.KAttest:
					j.cancelled[o.Action] = append(j.cancelled[o.Action], fkey{"att", o.Slot / j.spe()})
				case c03world.KPropose, c03world.KEarlyPropose:
					j.cancelled[o.Action] = append(j.cancelled[o.Action], fkey{"prop", o.Slot / j.spe()})
				}
			}
			if o.Op != "schedule" || o.Err != "" {
				continue
			}
			// J1 at the moment the job is created: "one job per duty slot that has not yet passed";
			// for duties requested by a start that did not wait for genesis "only strictly later slots".
			if o.Kind == c03world.KAttest || o.Kind == c03world.KPropose || o.Kind == c03world.KEarlyPropose || o.Kind == c03world.KSyncPrepare {
				kind := map[c03world.Kind]string{c03world.KAttest: "att", c03world.KPropose: "prop", c03world.KEarlyPropose: "prop", c03world.KSyncPrepare: "sync"}[o.Kind]
				if o.Slot < o.ClockSlot {
					out = append(out, finding{"job-created-for-passed-slot:" + kind, fmt.Sprintf("job %q created when the clock was already in slot %d", o.Name, o.ClockSlot)})
				} else if o.Slot == o.ClockSlot && !j.waited && kind != "sync" {
					if h := j.okHist[fkey{kind, o.Slot / j.spe()}]; len(h) > 0 && h[len(h)-1].ReqPhase == "start" {
						out = append(out, finding{"job-created-for-current-slot-after-restart:" + kind, fmt.Sprintf("job %q created at clock slot %d from duties requested by a start (in slot %d) that did not wait for genesis", o.Name, o.ClockSlot, h[len(h)-1].ReqClockSlot)})
					}
				}
			}
			// J2: job time = start of the slot + the configured delay of the class.
			if d, ok := j.delayOf(o.Kind); ok {
				want := j.w.StartOfSlot(o.Slot).Add(d)
				if !o.Time.Equal(want) {
					out = append(out, finding{"job-time:" + string(o.Kind), fmt.Sprintf("job %q scheduled for %s, slot start + delay is %s",
						o.Name, o.Time.Sub(j.w.StartOfSlot(o.Slot)), d)})
				}
				if o.Kind == c03world.KEarlyPropose && j.c.P.MaxProposalDelayMs == 0 {
					out = append(out, finding{"early-proposal-job-without-delay", fmt.Sprintf("job %q although the proposal delay is 0", o.Name)})
				}
			}
		case 3:
			cl := cs[c]
			c++
			if cl.Proc != j.proc {
				continue
			}
			if cl.Kind == "accounts-fault" {
				j.faultAction[cl.Action] = true
				j.st.accountsFaults++
			}
			switch cl.Kind {
			case "attest", "propose", "sync-message":
			default:
				continue
			}
			N := cl.Slot
			what := fmt.Sprintf("%s for slot %d (clock slot %d, process %d)", cl.Kind, N, cl.ClockSlot, cl.Proc)
			// J4 once (whole history)
			j.count[cl.Kind][N]++
			if j.count[cl.Kind][N] > 1 {
				out = append(out, finding{"twice:" + cl.Kind, what + ": slot already served earlier in the history"})
			}
			j.executed[cl.Kind][N] = cl.Seq
			// a job runs in its own slot
			if N < cl.ClockSlot {
				out = append(out, finding{"ran-for-past-slot:" + cl.Kind, what})
			} else if N > cl.ClockSlot {
				out = append(out, finding{"ran-before-its-slot:" + cl.Kind, what})
			}
			// started after genesis: only strictly later slots
			if !j.waited && N <= j.startSlt {
				out = append(out, finding{"ran-for-start-slot:" + cl.Kind, fmt.Sprintf("%s: process started in slot %d without having waited for genesis", what, j.startSlt)})
			}
			epoch := N / j.spe()
			switch cl.Kind {
			case "attest":
				j.st.attests++
				got := snapshotTuples(cl.Att)
				cands := j.candidates("att", epoch, cl.Action)
				ok := false
				for _, r := range cands {
					if e := j.expectedAtt(r)[N]; len(e) > 0 && equalTuples(e, got) {
						ok = true
					}
				}
				if !ok {
					detail := what + fmt.Sprintf(": attester was handed %v", got)
					if len(cands) == 0 {
						out = append(out, finding{"attest-without-obtained-duty", detail + " but no attester duties were obtained for the epoch"})
					} else {
						out = append(out, finding{"attest-content", detail + fmt.Sprintf(" but the latest duties obtained for the slot are %v", j.expectedAtt(cands[0])[N])})
					}
				}
			case "propose":
				j.st.proposes++
				ok := false
				cands := j.candidates("prop", epoch, cl.Action)
				for _, r := range cands {
					if v, has := j.expectedProp(r)[N]; has && v == cl.Validator {
						ok = true
					}
				}
				if !ok {
					out = append(out, finding{"propose-without-duty", what + fmt.Sprintf(": validator %d has no such duty in the latest duties obtained", cl.Validator)})
				}
			case "sync-message":
				j.st.syncMessages++
			}
		}
	}
	return out
}

func jobsByName(js []c03world.JobInfo) map[string]c03world.JobInfo {
	m := map[string]c03world.JobInfo{}
	for _, x := range js {
		m[x.Name] = x
	}
	return m
}

// invariants checks J1 (both directions) and J6 at a quiescent point.
func (j *judge) invariants(final bool) []finding {
	var out []finding
	if j.w.Proc == nil {
		return nil
	}
	for a := range j.faultAction {
		for _, k := range j.cancelled[a] {
			if r := j.latest[k]; r == nil || r.Action != a || r.Err {
				j.voided[k] = true
			}
		}
	}
	c := j.w.Slot()
	now := j.w.Clock.Now()
	jobs := j.w.Jobs()
	pending := map[c03world.Kind]map[uint64]bool{c03world.KAttest: {}, c03world.KPropose: {}, c03world.KEarlyPropose: {}}
	for _, jb := range jobs {
		if jb.Periodic {
			continue
		}
		if !jb.Time.After(now) && final {
			out = append(out, finding{"harness", fmt.Sprintf("job %q is due but was not fired", jb.Name)})
		}
		var kind string
		switch jb.Kind {
		case c03world.KAttest:
			kind = "att"
		case c03world.KPropose, c03world.KEarlyPropose:
			kind = "prop"
		case c03world.KUnknown:
			out = append(out, finding{"unknown-job", fmt.Sprintf("job %q does not name its duty slot", jb.Name)})
			continue
		default:
			continue
		}
		if pending[jb.Kind][jb.Slot] {
			out = append(out, finding{"duplicate-job", jb.Name})
		}
		pending[jb.Kind][jb.Slot] = true
		N := jb.Slot
		h := j.okHist[fkey{kind, N / j.spe()}]
		if len(h) == 0 {
			out = append(out, finding{"job-without-obtained-duty:" + kind, fmt.Sprintf("job %q exists but no %s duties were obtained for epoch %d", jb.Name, kind, N/j.spe())})
			continue
		}
		r := h[len(h)-1]
		has := false
		if kind == "att" {
			has = len(j.expectedAtt(r)[N]) > 0
		} else {
			_, has = j.expectedProp(r)[N]
		}
		if !has {
			out = append(out, finding{"job-for-slot-without-duty:" + kind, fmt.Sprintf("job %q exists but the latest %s duties obtained for epoch %d (version %d, clock slot %d) have no duty of ours in slot %d",
				jb.Name, kind, r.Epoch, r.Version, r.ClockSlot, N)})
		}
		if N < c {
			out = append(out, finding{"job-for-past-slot:" + kind, fmt.Sprintf("job %q at clock slot %d", jb.Name, c)})
		}
		if !j.waited && N <= j.startSlt {
			out = append(out, finding{"job-for-start-slot:" + kind, fmt.Sprintf("job %q: process started in slot %d without having waited for genesis", jb.Name, j.startSlt)})
		}
	}
	// obtained => scheduled
	keys := make([]fkey, 0, len(j.latest))
	for k := range j.latest {
		keys = append(keys, k)
	}
	sort.Slice(keys, func(a, b int) bool {
		if keys[a].kind != keys[b].kind {
			return keys[a].kind < keys[b].kind
		}
		return keys[a].epoch < keys[b].epoch
	})
	for _, k := range keys {
		r := j.latest[k]
		if r.Err || (k.kind != "att" && k.kind != "prop") {
			continue
		}
		if j.w.Node.Outstanding(k.kind, k.epoch) {
			continue // a newer request is waiting for the (slow) node; its answer decides
		}
		if j.voided[k] {
			continue // withdrawn by a refresh that could not obtain the validating accounts
		}
		var slots []uint64
		if k.kind == "att" {
			for s := range j.expectedAtt(r) {
				slots = append(slots, s)
			}
		} else {
			for s := range j.expectedProp(r) {
				slots = append(slots, s)
			}
		}
		sort.Slice(slots, func(a, b int) bool { return slots[a] < slots[b] })
		jk, ck := c03world.KAttest, "attest"
		if k.kind == "prop" {
			jk, ck = c03world.KPropose, "propose"
		}
		for _, N := range slots {
			must := N > r.ClockSlot
			why := "a later slot"
			sig := "duty-without-job:" + k.kind
			if N == r.ClockSlot && r.ReqClockSlot != r.ClockSlot {
				// the slot began while the node was answering: it may or may not get a job
				must = false
			} else if N == r.ClockSlot {
				switch {
				case r.ReqPhase == "start":
					// at genesis (having waited for it) slot 0 has not passed and nothing was signed
					must = j.waited
					why = "the current slot at a start that waited for genesis"
					sig = "genesis-start-skips-current-slot:" + k.kind
				case r.ReqPhase == "advance":
					// obtained by a ticker at the beginning of the slot: it has not passed
					must = true
					why = "the current slot, obtained by the epoch ticker"
					sig = "ticker-skips-current-slot:" + k.kind
				case r.ReqPhase == "head" && r.Phase == "head" && k.kind == "att":
					// a not-yet-run job of the affected epoch is replaced
					_, had := j.actionJobs[fmt.Sprintf("Attestations for slot %d", N)]
					must = had && r.Action == j.actionNo
					why = "the current slot whose not-yet-run job was withdrawn by this refresh"
					sig = "current-slot-job-not-replaced:" + k.kind
					if must {
						j.st.currentSlotReplaced++
					}
				}
			}
			if !must {
				continue
			}
			if pending[jk][N] {
				continue
			}
			if seq, ok := j.executed[ck][N]; ok && (seq > r.Seq || N == r.ClockSlot) {
				continue
			}
			out = append(out, finding{sig, fmt.Sprintf("%s duties obtained for epoch %d (version %d) at clock slot %d during %s have a duty of ours in slot %d (%s) but there is no job for it and it was not executed",
				k.kind, r.Epoch, r.Version, r.ClockSlot, r.Phase, N, why)})
		}
	}
	// J6: duties of the current epoch have been requested
	ce := j.w.Epoch()
	if j.c.ActiveFrom > 0 && ce+1 == j.c.ActiveFrom && j.startSlt/j.spe() < ce {
		j.st.activationCrossed = true // the process lived through the tick of an epoch without active validators
	}
	if len(j.c.P.Validators) > 0 && j.w.Node.Held() == 0 && ce >= j.c.ActiveFrom {
		if j.latest[fkey{"att", ce}] == nil {
			out = append(out, finding{"attester-duties-not-requested", fmt.Sprintf("clock is in epoch %d and the process (started in slot %d) never requested its attester duties", ce, j.startSlt)})
		}
		if j.latest[fkey{"prop", ce}] == nil {
			out = append(out, finding{"proposer-duties-not-requested", fmt.Sprintf("clock is in epoch %d and the process (started in slot %d) never requested its proposer duties", ce, j.startSlt)})
		}
	}
	return out
}

// afterHead applies J5: a head event that shows changed dependent roots makes
// vouch obtain the duties of the affected epochs again (the job table is then
// held against the new response by the invariants).
func (j *judge) afterHead(h *c03world.HeadRec) []finding {
	var out []finding
	j.st.headEvents++
	if h.EventSlot/j.spe() != h.ClockSlot/j.spe() {
		// A late head event of an earlier epoch: its roots are relative to that epoch, whose
		// jobs have all passed; nothing is demanded (the other oracles still see that nothing
		// wrong happens), and it is not the reference for the next event: vouch does not act
		// on it, so a change it would have shown is shown again by the next event of the
		// clock's epoch, relative to the last event that was acted on.
		j.st.crossEpochLate++
		return nil
	}
	L := j.lastHead
	j.lastHead = h
	if L == nil {
		return nil
	}
	e, eL := h.EventSlot/j.spe(), L.EventSlot/j.spe()
	var affected []fkey
	switch {
	case e == eL:
		if h.Previous != L.Previous {
			affected = append(affected, fkey{"att", e})
		}
		if h.Current != L.Current {
			affected = append(affected, fkey{"prop", e}, fkey{"att", e + 1})
		}
	case e == eL+1:
		if h.Previous != L.Current {
			affected = append(affected, fkey{"att", e})
		}
	}
	// a head event for an earlier slot than the clock's ("late"), or a change
	// relative to such an event, is reported under its own signature
	late := h.EventSlot != h.ClockSlot || L.EventSlot != L.ClockSlot
	if j.faultAction[h.Action] {
		return nil // vouch could not obtain the validating accounts; duties cannot be demanded
	}
	for _, k := range affected {
		// anything obtained before the event?
		var old *c03world.Fetch
		refetched := false
		for _, r := range j.okHist[k] {
			if r.Seq < h.Seq {
				old = r
			}
		}
		if lr := j.latest[k]; lr != nil && lr.Seq > h.Seq && lr.Seq <= h.EndSeq {
			refetched = true
		}
		if !refetched && j.w.Node.Outstanding(k.kind, k.epoch) {
			continue // requested again; the node has not answered yet
		}
		if old == nil {
			continue
		}
		if late {
			j.st.lateHeadRootChange++
		}
		if refetched {
			j.st.refetches++
			// differing table?
			nr := j.latest[k]
			if !nr.Err && nr.Version != old.Version {
				j.st.rootChangeDiffering++
				// slots withdrawn
				if k.kind == "att" {
					ne := j.expectedAtt(nr)
					for s := range j.expectedAtt(old) {
						if _, ok := j.actionJobs[fmt.Sprintf("Attestations for slot %d", s)]; ok && len(ne[s]) == 0 {
							j.st.withdrawnSlots++
						}
					}
				}
			}
			continue
		}
		sig := "reorg-duties-not-refetched:" + k.kind
		if late {
			sig = "reorg-shown-by-late-head-event-ignored"
		}
		out = append(out, finding{sig, fmt.Sprintf("head event for slot %d (clock slot %d) shows changed dependent roots (previous %x.. -> %x.., current %x.. -> %x..) affecting the %s duties of epoch %d, which were obtained before (version %d), but they were not requested again",
			h.EventSlot, h.ClockSlot, L.Previous[8:18], h.Previous[8:18], L.Current[8:18], h.Current[8:18], k.kind, k.epoch, old.Version)})
	}
	return out
}
