package c03

import (
	"context"
	"fmt"
	"testing"
	"time"

	"github.com/attestantio/go-eth2-client/api"
	apiv1 "github.com/attestantio/go-eth2-client/api/v1"
	"github.com/attestantio/go-eth2-client/spec/phase0"
	chaintime "github.com/attestantio/vouch/services/chaintime/standard"
	"github.com/rs/zerolog"
	"pgregory.net/rapid"

	"verifharness/internal/ev"
)

// C03-T: the real services/chaintime/standard against plain integer arithmetic.

// TimeCase is one set of chain parameters plus sample slots and epochs.  The
// genesis time is placed relative to the wall clock (whole seconds, as the
// beacon API delivers it): genesis = now - GenesisOffsetS.
type TimeCase struct {
	SlotSeconds    uint64   `json:"slot_seconds"`
	SlotsPerEpoch  uint64   `json:"slots_per_epoch"`
	GenesisOffsetS *int64   `json:"genesis_offset_s"`
	Slots          []uint64 `json:"slots"`
	Epochs         []uint64 `json:"epochs"`
}

type timeProviders struct {
	genesis time.Time
	c       *TimeCase
}

func (p *timeProviders) Genesis(context.Context, *api.GenesisOpts) (*api.Response[*apiv1.Genesis], error) {
	return &api.Response[*apiv1.Genesis]{Data: &apiv1.Genesis{GenesisTime: p.genesis}, Metadata: map[string]any{}}, nil
}

func (p *timeProviders) Spec(context.Context, *api.SpecOpts) (*api.Response[map[string]any], error) {
	return &api.Response[map[string]any]{Data: map[string]any{
		"SECONDS_PER_SLOT": time.Duration(p.c.SlotSeconds) * time.Second,
		"SLOTS_PER_EPOCH":  p.c.SlotsPerEpoch,
	}, Metadata: map[string]any{}}, nil
}

// maxSlot is the representation limit of the code under test, stated in the
// rule: slot * slotDuration must fit a time.Duration (2^63 ns).
func maxSlot(slotSeconds uint64) uint64 {
	return (uint64(1)<<63-1)/(slotSeconds*1_000_000_000) - 2
}

func genTimeCase(t *rapid.T) TimeCase {
	c := TimeCase{
		SlotSeconds:   rapid.Uint64Range(1, 60).Draw(t, "slotSeconds"),
		SlotsPerEpoch: rapid.Uint64Range(1, 64).Draw(t, "slotsPerEpoch"),
	}
	epochSeconds := int64(c.SlotSeconds * c.SlotsPerEpoch)
	var off int64
	switch rapid.IntRange(0, 5).Draw(t, "offsetClass") {
	case 0:
		off = -rapid.Int64Range(2, 100000).Draw(t, "preGenesis")
	case 1:
		off = rapid.Int64Range(0, 3).Draw(t, "justAfter")
	case 2:
		off = rapid.Int64Range(0, 10*365*86400).Draw(t, "any")
	case 3: // slot boundary +-1 s
		off = int64(c.SlotSeconds)*rapid.Int64Range(0, 30000000).Draw(t, "slotN") + rapid.Int64Range(-1, 1).Draw(t, "slotD")
	default: // epoch boundary +-1 s
		off = epochSeconds*rapid.Int64Range(0, 300000).Draw(t, "epochN") + rapid.Int64Range(-1, 1).Draw(t, "epochD")
	}
	c.GenesisOffsetS = &off
	ms := maxSlot(c.SlotSeconds)
	n := rapid.IntRange(1, 8).Draw(t, "nSlots")
	for i := 0; i < n; i++ {
		var s uint64
		switch rapid.IntRange(0, 4).Draw(t, "slotClass") {
		case 0:
			s = rapid.Uint64Range(0, 3*c.SlotsPerEpoch).Draw(t, "small")
		case 1: // epoch boundary
			s = c.SlotsPerEpoch * rapid.Uint64Range(0, 1<<32).Draw(t, "e")
			if d := rapid.IntRange(-1, 1).Draw(t, "d"); d < 0 && s > 0 {
				s--
			} else if d > 0 {
				s++
			}
		case 2:
			s = ms - rapid.Uint64Range(0, 3).Draw(t, "nearMax")
		default:
			s = rapid.Uint64Range(0, ms).Draw(t, "anySlot")
		}
		if s > ms {
			s = ms
		}
		c.Slots = append(c.Slots, s)
	}
	me := ms / c.SlotsPerEpoch
	if me > 0 {
		me--
	}
	n = rapid.IntRange(1, 6).Draw(t, "nEpochs")
	for i := 0; i < n; i++ {
		var e uint64
		switch rapid.IntRange(0, 2).Draw(t, "epochClass") {
		case 0:
			e = rapid.Uint64Range(0, 10).Draw(t, "smallEpoch")
		case 1:
			e = me - rapid.Uint64Range(0, 2).Draw(t, "nearMaxEpoch")
		default:
			e = rapid.Uint64Range(0, me).Draw(t, "anyEpoch")
		}
		if e > me {
			e = me
		}
		c.Epochs = append(c.Epochs, e)
	}
	return c
}

// refSlot is floor((now - genesis) / slotDuration), 0 before genesis.
func refSlot(now, genesis time.Time, slotSeconds uint64) uint64 {
	if now.Before(genesis) {
		return 0
	}
	return uint64(now.Sub(genesis).Nanoseconds()) / (slotSeconds * 1_000_000_000)
}

func checkTime(t ev.TB, c *TimeCase) {
	zerolog.SetGlobalLevel(zerolog.Disabled)
	genesis := time.Unix(time.Now().Unix()-*c.GenesisOffsetS, 0)
	prov := &timeProviders{genesis: genesis, c: c}
	svc, err := chaintime.New(context.Background(), chaintime.WithLogLevel(zerolog.Disabled), chaintime.WithGenesisProvider(prov), chaintime.WithSpecProvider(prov))
	if err != nil {
		t.Fatalf("harness problem: cannot construct chaintime: %v", err)
	}
	spe, ss := c.SlotsPerEpoch, c.SlotSeconds
	dur := time.Duration(ss) * time.Second
	var sig, detail string
	fail := func(s, f string, a ...any) {
		if sig == "" {
			sig, detail = s, fmt.Sprintf(f, a...)
		}
	}
	boundary := false
	if !svc.GenesisTime().Equal(genesis) {
		fail("genesis-time", "GenesisTime() = %v, genesis is %v", svc.GenesisTime(), genesis)
	}
	for _, s := range c.Slots {
		e := uint64(svc.SlotToEpoch(phase0.Slot(s)))
		if e != s/spe {
			fail("slot-to-epoch", "SlotToEpoch(%d) = %d with %d slots per epoch", s, e, spe)
		}
		f0, f1 := uint64(svc.FirstSlotOfEpoch(phase0.Epoch(e))), uint64(svc.FirstSlotOfEpoch(phase0.Epoch(e+1)))
		if !(f0 <= s && s < f1) {
			fail("slot-epoch-round-trip", "slot %d is in epoch %d but that epoch's slots are [%d,%d)", s, e, f0, f1)
		}
		if s%spe == 0 || (s+1)%spe == 0 {
			boundary = true
		}
		st := svc.StartOfSlot(phase0.Slot(s))
		if st.Unix() != genesis.Unix()+int64(s*ss) || st.Nanosecond() != 0 {
			fail("start-of-slot", "StartOfSlot(%d) = %d, genesis %d + %d*%d s = %d", s, st.Unix(), genesis.Unix(), s, ss, genesis.Unix()+int64(s*ss))
		}
		if d := svc.StartOfSlot(phase0.Slot(s + 1)).Sub(st); d != dur {
			fail("slot-step", "StartOfSlot(%d+1) - StartOfSlot(%d) = %v, slot duration %v", s, s, d, dur)
		}
	}
	for _, e := range c.Epochs {
		fs := uint64(svc.FirstSlotOfEpoch(phase0.Epoch(e)))
		if fs != e*spe {
			fail("first-slot-of-epoch", "FirstSlotOfEpoch(%d) = %d with %d slots per epoch", e, fs, spe)
		}
		if a, b := svc.StartOfEpoch(phase0.Epoch(e)), svc.StartOfSlot(phase0.Slot(fs)); !a.Equal(b) {
			fail("start-of-epoch", "StartOfEpoch(%d) = %v but StartOfSlot(first slot %d) = %v", e, a, fs, b)
		}
		if got := uint64(svc.SlotToEpoch(phase0.Slot(fs))); got != e {
			fail("epoch-slot-round-trip", "SlotToEpoch(FirstSlotOfEpoch(%d)) = %d", e, got)
		}
	}
	// the clock: sandwiched between two readings of the wall clock
	before := time.Now()
	cs := uint64(svc.CurrentSlot())
	after := time.Now()
	lo, hi := refSlot(before, genesis, ss), refSlot(after, genesis, ss)
	if cs < lo || cs > hi {
		fail("current-slot", "CurrentSlot() = %d, %v after genesis is slot %d..%d", cs, after.Sub(genesis), lo, hi)
	}
	if !after.Before(genesis) {
		if svc.StartOfSlot(phase0.Slot(cs)).After(after) || !svc.StartOfSlot(phase0.Slot(cs+1)).After(before) {
			fail("current-slot-window", "now is not inside [StartOfSlot(%d), StartOfSlot(%d))", cs, cs+1)
		}
	}
	e1 := uint64(svc.CurrentEpoch())
	s2 := uint64(svc.CurrentSlot())
	e2 := uint64(svc.CurrentEpoch())
	ticked := e1 != e2
	if !ticked && e1 != s2/spe {
		fail("current-epoch", "CurrentEpoch() = %d but CurrentSlot() = %d with %d slots per epoch", e1, s2, spe)
	}
	pre := *c.GenesisOffsetS < 0
	if pre && (cs != 0 || e1 != 0) {
		fail("pre-genesis", "before genesis CurrentSlot() = %d, CurrentEpoch() = %d", cs, e1)
	}
	nontrivial := boundary || !pre
	labels := []string{"chain-time"}
	if pre {
		labels = append(labels, "time:pre-genesis")
	}
	if boundary {
		labels = append(labels, "time:slot-at-epoch-boundary")
	}
	if ticked {
		labels = append(labels, "time:epoch-ticked-while-sampling")
	}
	if !pre && (*c.GenesisOffsetS)%int64(ss) <= 1 {
		labels = append(labels, "time:clock-near-slot-boundary")
	}
	ev.Case(nontrivial, ev.Hash(c), labels...)
	if nontrivial {
		ev.Sample(c)
	}
	if sig != "" {
		ev.Violation(t, "time:"+sig, c, "%s", detail)
	}
}

func TestChainTime(t *testing.T) {
	rapid.Check(t, func(t *rapid.T) {
		c := genTimeCase(t)
		checkTime(t, &c)
	})
}
