// Package c03 decides property C03: every duty is scheduled once, for the right
// time, across restarts and reorgs (C03-S: the real controller in the virtual
// world of package c03world), and the chain-time conversions agree with one
// another (C03-T: the real chaintime service against integer arithmetic).
package c03

import (
	"errors"
	"fmt"
	"strings"
	"testing"
	"time"

	"pgregory.net/rapid"

	"verifharness/c03world"
	"verifharness/internal/ev"
)

// Op is one step of a history.
type Op struct {
	Kind string `json:"kind"` // start | advance | head | reorg | fail | hold | release
	// start: (re)construct the controller at the current clock position
	Waited bool `json:"waited,omitempty"`
	// advance: to the start of slot (current + Slots) + OffsetMs
	Slots    uint64 `json:"slots,omitempty"`
	OffsetMs uint64 `json:"offset_ms,omitempty"`
	// head: deliver a head event for slot (current - Back); Reorg ("", current,
	// previous) is applied to the node's chain just before (reorg: only that).
	Back  uint64 `json:"back,omitempty"`
	Reorg string `json:"reorg,omitempty"`
	// AccountsFault (head): while the event is handled the accounts provider fails ("error")
	// or returns no accounts ("empty") when the controller asks for the validating accounts
	AccountsFault string `json:"accounts_fault,omitempty"`
	// fail: the next duty request of this kind (att | prop | sync) fails
	// hold: the node becomes slow for this kind: requests wait until "release" (or a restart)
	FailKind string `json:"fail_kind,omitempty"`
}

// Case is a whole history in a world.
type Case struct {
	P             c03world.Params      `json:"params"`
	StartSlot     uint64               `json:"start_slot"`
	StartOffsetMs uint64               `json:"start_offset_ms"`
	Tables        c03world.TableSource `json:"tables"`
	Ops           []Op                 `json:"ops"`
	// ActiveFrom: the validators are not active (the accounts provider returns no validating
	// accounts) for epochs before this one; they activate in the middle of the history (0: always active).
	ActiveFrom uint64 `json:"active_from,omitempty"`
}

const maxEpochsPerHistory = 12

func genAttTable(t *rapid.T, p *c03world.Params, epoch uint64, label string) []c03world.AttDuty {
	spe := p.SlotsPerEpoch
	first := epoch * spe
	cas := make([]uint64, spe)
	for i := range cas {
		cas[i] = rapid.Uint64Range(1, 3).Draw(t, label+"cas")
	}
	lens := map[[2]uint64]uint64{}
	var res []c03world.AttDuty
	for i, v := range p.Validators {
		if rapid.IntRange(0, 9).Draw(t, label+"noDuty") == 0 {
			continue
		}
		s := rapid.Uint64Range(0, spe-1).Draw(t, label+"slot")
		c := rapid.Uint64Range(0, cas[s]-1).Draw(t, label+"committee")
		k := [2]uint64{s, c}
		if lens[k] == 0 {
			lens[k] = rapid.Uint64Range(8, 200).Draw(t, label+"len")
		}
		res = append(res, c03world.AttDuty{Validator: v, Slot: first + s, Committee: c, Position: uint64(i), CommitteeLength: lens[k],
			CommitteesAtSlot: cas[s], Aggregator: rapid.IntRange(0, 2).Draw(t, label+"agg") == 0})
	}
	// what a node should not send but the statement covers: duties outside the requested epoch
	if rapid.IntRange(0, 3).Draw(t, label+"outside") == 0 {
		n := rapid.IntRange(1, 2).Draw(t, label+"nOutside")
		for i := 0; i < n; i++ {
			v := rapid.SampledFrom(p.Validators).Draw(t, label+"ov")
			var s uint64
			switch rapid.IntRange(0, 3).Draw(t, label+"where") {
			case 0:
				s = first + spe // first slot of the next epoch
			case 1:
				if first > 0 {
					s = first - 1
				} else {
					s = first + spe
				}
			case 2:
				s = first + spe + rapid.Uint64Range(0, 2*spe).Draw(t, label+"far")
			default:
				if first >= spe {
					s = first - spe + rapid.Uint64Range(0, spe-1).Draw(t, label+"before")
				} else {
					s = first + 2*spe
				}
			}
			res = append(res, c03world.AttDuty{Validator: v, Slot: s, Committee: 0, Position: 3, CommitteeLength: 16, CommitteesAtSlot: 1})
		}
		// delivered in any order
		if len(res) > 1 && rapid.Bool().Draw(t, label+"rot") {
			res = append(res[len(res)-1:], res[:len(res)-1]...)
		}
	}
	return res
}

func genPropTable(t *rapid.T, p *c03world.Params, epoch uint64, label string) []c03world.PropDuty {
	spe := p.SlotsPerEpoch
	first := epoch * spe
	var res []c03world.PropDuty
	for s := uint64(0); s < spe; s++ {
		if first+s == 0 {
			continue // nobody proposes the genesis block
		}
		if rapid.IntRange(0, 2).Draw(t, label+"has") == 0 {
			res = append(res, c03world.PropDuty{Slot: first + s, Validator: rapid.SampledFrom(p.Validators).Draw(t, label+"pv")})
		}
	}
	if rapid.IntRange(0, 4).Draw(t, label+"outside") == 0 {
		s := first + spe + rapid.Uint64Range(0, spe).Draw(t, label+"pfar")
		if first > 0 && rapid.Bool().Draw(t, label+"pbefore") {
			s = first - 1
		}
		res = append(res, c03world.PropDuty{Slot: s, Validator: rapid.SampledFrom(p.Validators).Draw(t, label+"pov")})
	}
	return res
}

func genSyncTable(t *rapid.T, p *c03world.Params, label string) []c03world.SyncDuty {
	var res []c03world.SyncDuty
	for _, v := range p.Validators {
		if rapid.IntRange(0, 1).Draw(t, label+"in") == 0 {
			n := rapid.IntRange(1, 2).Draw(t, label+"n")
			var idx []uint64
			for i := 0; i < n; i++ {
				idx = append(idx, rapid.Uint64Range(0, 511).Draw(t, label+"idx"))
			}
			res = append(res, c03world.SyncDuty{Validator: v, Indices: idx})
		}
	}
	return res
}

func genCase(t *rapid.T) Case {
	var c Case
	p := &c.P
	p.SlotsPerEpoch = rapid.SampledFrom([]uint64{2, 3, 4, 4, 8}).Draw(t, "spe")
	p.SlotSeconds = rapid.SampledFrom([]uint64{1, 2, 6, 12}).Draw(t, "slotSeconds")
	p.EpochsPerSyncPeriod = rapid.SampledFrom([]uint64{8, 8, 16, 256}).Draw(t, "period")
	slotMs := p.SlotSeconds * 1000
	switch rapid.IntRange(0, 5).Draw(t, "altair") {
	case 0:
		p.Altair = false
	case 1, 2:
		p.Altair, p.AltairForkEpoch = true, 0
	case 3:
		p.Altair, p.AltairForkEpoch = true, p.EpochsPerSyncPeriod*rapid.Uint64Range(1, 2).Draw(t, "forkPeriods")
	case 4:
		p.Altair, p.AltairForkEpoch = true, rapid.Uint64Range(1, 2*p.EpochsPerSyncPeriod).Draw(t, "forkEpoch")
	default:
		p.Altair, p.AltairForkEpoch = true, 1000000
	}
	if rapid.Bool().Draw(t, "bellatrix") {
		p.Bellatrix, p.BellatrixForkEpoch = true, rapid.SampledFrom([]uint64{0, 3, 1000000}).Draw(t, "bellatrixEpoch")
	}
	delay := func(label string, zeroOK bool) uint64 {
		switch rapid.IntRange(0, 4).Draw(t, label+"Class") {
		case 0:
			if zeroOK {
				return 0
			}
			return slotMs / 3
		case 1:
			return slotMs / 3
		case 2:
			return 1
		case 3:
			return slotMs - 1
		default:
			return rapid.Uint64Range(1, slotMs-1).Draw(t, label)
		}
	}
	p.MaxProposalDelayMs = delay("proposalDelay", true)
	if rapid.Bool().Draw(t, "noProposalDelay") {
		p.MaxProposalDelayMs = 0
	}
	p.MaxAttestationDelayMs = delay("attestationDelay", false)
	p.AttestationAggregationMs = delay("attAggDelay", false)
	p.MaxSyncCommitteeMessageMs = delay("syncDelay", false)
	p.SyncCommitteeAggregationMs = delay("syncAggDelay", false)
	p.FastTrackAttestations = rapid.Bool().Draw(t, "fastTrackAtt")
	p.FastTrackSyncCommittees = rapid.Bool().Draw(t, "fastTrackSync")
	nv := rapid.IntRange(1, 6).Draw(t, "nValidators")
	base := rapid.Uint64Range(0, 1000).Draw(t, "validatorBase")
	for i := 0; i < nv; i++ {
		p.Validators = append(p.Validators, base+uint64(i)+uint64(i*i))
	}

	// where the history begins
	per := p.EpochsPerSyncPeriod
	epochs := []uint64{0, 0, 0, 1, 1, 2, 3, 5, per - 6, per - 5, per - 2, per - 1, per, per + 1, 2*per - 5, 2*per - 1}
	if p.Altair && p.AltairForkEpoch < 100000 && p.AltairForkEpoch > 0 {
		epochs = append(epochs, p.AltairForkEpoch-1, p.AltairForkEpoch, p.AltairForkEpoch+1)
		if p.AltairForkEpoch >= 2 {
			epochs = append(epochs, p.AltairForkEpoch-2)
		}
	}
	e0 := rapid.SampledFrom(epochs).Draw(t, "startEpoch")
	c.StartSlot = e0*p.SlotsPerEpoch + rapid.Uint64Range(0, p.SlotsPerEpoch-1).Draw(t, "startSlotInEpoch")
	offsets := []uint64{0, 0, 1, p.MaxAttestationDelayMs, p.MaxAttestationDelayMs + 1, slotMs / 2, slotMs - 1}
	for i := range offsets {
		if offsets[i] > slotMs-1 {
			offsets[i] = slotMs - 1 // an offset stays inside the slot
		}
	}
	c.StartOffsetMs = rapid.SampledFrom(offsets).Draw(t, "startOffset")
	waited := false
	if c.StartSlot == 0 {
		// vouch waits for genesis only if it was started before genesis; it then
		// constructs the controller within the first instants of slot 0
		waited = rapid.IntRange(0, 2).Draw(t, "waitedForGenesis") > 0
		if waited {
			c.StartOffsetMs = rapid.SampledFrom([]uint64{0, 1, 40}).Draw(t, "genesisOffset")
		}
	}
	c.Ops = append(c.Ops, Op{Kind: "start", Waited: waited})
	if rapid.IntRange(0, 3).Draw(t, "activation") == 0 {
		// nobody is active when the history begins; the validators activate 1-3 epochs later
		c.ActiveFrom = e0 + rapid.Uint64Range(1, 3).Draw(t, "activeAfter")
	}

	sim := c03world.NewChain(p, &c03world.TableSource{})
	slot, off := c.StartSlot, c.StartOffsetMs
	lastSlot := c.StartSlot + maxEpochsPerHistory*p.SlotsPerEpoch - 1
	nOps := rapid.IntRange(3, 26).Draw(t, "nOps")
	held := 0
	for i := 0; i < nOps; i++ {
		kind := rapid.SampledFrom([]string{"advance", "advance", "advance", "advance", "advance", "head", "head", "head", "headReorg", "headReorg", "headLate", "start", "reorg", "fail", "slow"}).Draw(t, "op")
		if held > 0 {
			held--
			if held == 0 {
				c.Ops = append(c.Ops, Op{Kind: "release"})
			}
		}
		epoch := slot / p.SlotsPerEpoch
		switch kind {
		case "advance":
			k := rapid.SampledFrom([]uint64{0, 1, 1, 1, 1, 2, 3, p.SlotsPerEpoch, p.SlotsPerEpoch + 1}).Draw(t, "slots")
			if slot+k > lastSlot {
				k = 0
			}
			o := rapid.SampledFrom(offsets).Draw(t, "offset")
			if k == 0 && o < off {
				o = off
			}
			c.Ops = append(c.Ops, Op{Kind: "advance", Slots: k, OffsetMs: o})
			slot, off = slot+k, o
		case "head", "headReorg", "headLate":
			op := Op{Kind: "head"}
			if kind == "headLate" && slot > 0 {
				// for the previous slot; in the first slot of an epoch that is a slot of the previous epoch
				op.Back = 1
			}
			if kind != "head" {
				depth := rapid.SampledFrom([]string{"current", "current", "previous"}).Draw(t, "depth")
				if depth == "previous" && sim.ReorgPrevious(epoch) {
					op.Reorg = "previous"
				} else if sim.ReorgCurrent(epoch) {
					op.Reorg = "current"
				}
			}
			if kind == "headReorg" && rapid.IntRange(0, 5).Draw(t, "accountsFault") == 0 {
				op.AccountsFault = rapid.SampledFrom([]string{"error", "empty"}).Draw(t, "accountsFaultMode")
			}
			c.Ops = append(c.Ops, op)
		case "reorg":
			depth := rapid.SampledFrom([]string{"current", "previous"}).Draw(t, "silentDepth")
			if depth == "previous" && sim.ReorgPrevious(epoch) {
				c.Ops = append(c.Ops, Op{Kind: "reorg", Reorg: "previous"})
			} else if sim.ReorgCurrent(epoch) {
				c.Ops = append(c.Ops, Op{Kind: "reorg", Reorg: "current"})
			}
		case "start":
			c.Ops = append(c.Ops, Op{Kind: "start"})
		case "slow":
			// the node is slow for one kind of duties during the next 1-3 ops (typically a start, a head
			// event or an epoch tick, then an advance over a slot or epoch boundary), then answers
			if held == 0 {
				c.Ops = append(c.Ops, Op{Kind: "hold", FailKind: rapid.SampledFrom([]string{"att", "att", "prop", "sync"}).Draw(t, "slowKind")})
				held = rapid.IntRange(2, 4).Draw(t, "slowFor")
			}
		case "fail":
			c.Ops = append(c.Ops, Op{Kind: "fail", FailKind: rapid.SampledFrom([]string{"att", "prop", "sync"}).Draw(t, "failKind")})
		}
	}

	if held > 0 {
		c.Ops = append(c.Ops, Op{Kind: "release"})
	}

	// duty tables: one per epoch (period) and version the history can reach
	c.Tables = c03world.TableSource{Att: map[uint64][][]c03world.AttDuty{}, Prop: map[uint64][][]c03world.PropDuty{}, Syn: map[uint64][][]c03world.SyncDuty{}}
	eEnd := slot/p.SlotsPerEpoch + 2
	for e := e0; e <= eEnd; e++ {
		av, pv, _ := sim.Versions(e)
		for v := 0; v <= av; v++ {
			c.Tables.Att[e] = append(c.Tables.Att[e], genAttTable(t, p, e, "att"))
		}
		for v := 0; v <= pv; v++ {
			c.Tables.Prop[e] = append(c.Tables.Prop[e], genPropTable(t, p, e, "prop"))
		}
	}
	if p.Altair {
		for per0 := e0 / per; per0 <= eEnd/per+1; per0++ {
			_, _, sv := sim.Versions(per0 * per)
			for v := 0; v <= sv; v++ {
				c.Tables.Syn[per0] = append(c.Tables.Syn[per0], genSyncTable(t, p, "sync"))
			}
		}
	}
	return c
}

var errStop = errors.New("stop")

type result struct {
	findings []finding
	st       stats
	harness  error
}

// run executes the history; the oracle is applied at every quiescent point.
func run(c *Case) result {
	var res result
	aggs := map[uint64]bool{}
	for i, v := range c.P.Validators {
		if i%2 == 0 {
			aggs[v] = true
		}
	}
	w := c03world.New(&c.P, &c.Tables, c03world.Options{SyncAggregators: aggs})
	defer w.Stop()
	if c.ActiveFrom > 0 {
		w.Accounts.Active = func(_ uint64, epoch uint64) bool { return epoch >= c.ActiveFrom }
	}
	j := newJudge(c, w)
	seen := map[string]bool{}
	stop := false
	step := func(what string) error {
		if w.Proc != nil && w.Proc.ID != j.proc {
			j.resetProc(w.Proc.ID, w.Proc.StartSlot, w.Proc.Waited)
		}
		var fs []finding
		fs = append(fs, j.consume()...)
		if what == "head" {
			hs := w.Log.Heads()
			for ; j.hi < len(hs); j.hi++ {
				h := hs[j.hi]
				if h.Proc == j.proc {
					fs = append(fs, j.afterHead(&h)...)
				}
			}
		}
		fs = append(fs, j.invariants(!strings.HasPrefix(what, "fired ") && what != "started")...)
		for _, f := range fs {
			key := f.sig + "|" + f.detail
			if seen[key] {
				continue
			}
			seen[key] = true
			if f.sig == "harness" {
				res.harness = errors.New(f.detail)
				stop = true
				continue
			}
			res.findings = append(res.findings, f)
			if !ev.IsKnown(f.sig) {
				stop = true
			}
		}
		if stop {
			return errStop
		}
		return nil
	}
	w.OnStep = step
	fail := func(err error) result {
		if err != nil && !errors.Is(err, errStop) {
			res.harness = err
		}
		res.st = j.st
		res.st.droppedJobs = w.Dropped()
		return res
	}
	if err := w.AdvanceTo(w.StartOfSlot(c.StartSlot).Add(time.Duration(c.StartOffsetMs) * time.Millisecond)); err != nil {
		return fail(err)
	}
	for _, op := range c.Ops {
		if w.Proc != nil {
			j.actionJobs = jobsByName(w.Jobs())
		}
		j.actionNo = w.Action() + 1
		var err error
		switch op.Kind {
		case "start":
			if w.Slot()%c.P.SlotsPerEpoch != 0 || !w.Clock.Now().Equal(w.StartOfSlot(w.Slot())) {
				j.st.restartInsideEpoch = true
			}
			if op.Waited {
				j.st.genesisStart = true
			}
			err = w.Start(op.Waited)
		case "advance":
			err = w.AdvanceSlots(op.Slots, time.Duration(op.OffsetMs)*time.Millisecond)
		case "reorg", "head":
			switch op.Reorg {
			case "current":
				w.Chain.ReorgCurrent(w.Epoch())
			case "previous":
				w.Chain.ReorgPrevious(w.Epoch())
			}
			if op.Kind == "head" {
				if op.AccountsFault != "" {
					w.Accounts.FailNext(3, op.AccountsFault)
				}
				err = w.Head(op.Back)
				w.Accounts.FailNext(0, "")
			}
		case "fail":
			w.Chain.FailNext(op.FailKind, 1)
		case "hold":
			w.Node.Hold(op.FailKind)
			j.st.slowNode = true
		case "release":
			err = w.ReleaseHeld("")
		default:
			err = fmt.Errorf("harness: unknown op %q", op.Kind)
		}
		if err == nil {
			err = step("end of " + op.Kind)
		}
		if err != nil {
			return fail(err)
		}
	}
	return fail(nil)
}

func check(t ev.TB, c *Case) {
	res := run(c)
	st := res.st
	nontrivial := st.restartInsideEpoch || st.rootChangeDiffering > 0 || st.outOfEpochDuties
	var labels []string
	add := func(b bool, l string) {
		if b {
			labels = append(labels, l)
		}
	}
	add(st.restartInsideEpoch, "start-or-restart-inside-an-epoch")
	add(st.rootChangeDiffering > 0, "root-change-with-differing-duty-table-refetched")
	add(st.outOfEpochDuties, "out-of-epoch-duties-served")
	add(st.withdrawnSlots > 0, "reorg-withdrew-a-slot-that-had-a-job")
	add(st.currentSlotReplaced > 0, "reorg-replaced-not-yet-run-job-of-current-slot")
	add(st.genesisStart, "start-at-genesis-having-waited")
	add(st.providerErrors > 0, "provider-error")
	add(st.slowNode, "slow-node")
	add(st.activationCrossed, "epoch-tick-without-active-validators-before-activation")
	add(st.accountsFaults > 0, "accounts-provider-fault-during-refresh")
	add(st.droppedJobs > 0, "job-dropped-because-its-context-was-done")
	add(st.straddled > 0, "duty-request-answered-in-a-later-slot")
	add(st.lateHeadRootChange > 0, "late-head-event-with-root-change")
	add(st.crossEpochLate > 0, "late-head-event-of-the-previous-epoch")
	add(st.syncMessages > 0, "sync-messages-sent")
	add(st.attests > 0, "attested")
	add(st.proposes > 0, "proposed")
	add(c.P.MaxProposalDelayMs > 0 && st.proposes > 0, "proposed-with-early-proposal-job")
	ev.Case(nontrivial, ev.Hash(c), labels...)
	ev.LabelN("jobs-fired", int64(st.jobsFired))
	ev.LabelN("attest-calls", int64(st.attests))
	ev.LabelN("propose-calls", int64(st.proposes))
	ev.LabelN("head-events", int64(st.headEvents))
	if nontrivial {
		ev.Sample(c)
	}
	if res.harness != nil {
		ev.Inconclusive("harness: " + res.harness.Error())
		t.Fatalf("harness problem: %v", res.harness)
	}
	for _, f := range res.findings {
		ev.Violation(t, f.sig, c, "%s", f.detail)
	}
}

func TestControllerSchedule(t *testing.T) {
	rapid.Check(t, func(t *rapid.T) {
		c := genCase(t)
		check(t, &c)
	})
}

// TestReplay re-executes a saved case without the property library.
func TestReplay(t *testing.T) {
	f := ev.ReplayFile()
	if f == "" {
		t.Skip("no replay file")
	}
	var probe struct {
		Genesis *int64 `json:"genesis_offset_s"`
	}
	if _, err := ev.LoadCase(f, &probe); err == nil && probe.Genesis != nil {
		var c TimeCase
		if _, err := ev.LoadCase(f, &c); err != nil {
			t.Fatalf("cannot load %s: %v", f, err)
		}
		checkTime(t, &c)
		ev.ReplayPassed()
		return
	}
	var c Case
	if _, err := ev.LoadCase(f, &c); err != nil {
		t.Fatalf("cannot load %s: %v", f, err)
	}
	check(t, &c)
	ev.ReplayPassed()
}
