package c07

// Scripted beacon-node doubles, the values they deliver, and the independent
// identification / validity rules the oracle applies to whatever a strategy
// returns.

import (
	"context"
	"errors"
	"fmt"
	"net/http"
	"sync"
	"sync/atomic"
	"time"

	consensusclient "github.com/attestantio/go-eth2-client"
	"github.com/attestantio/go-eth2-client/api"
	apiv1 "github.com/attestantio/go-eth2-client/api/v1"
	apiv1bellatrix "github.com/attestantio/go-eth2-client/api/v1/bellatrix"
	apiv1capella "github.com/attestantio/go-eth2-client/api/v1/capella"
	apiv1deneb "github.com/attestantio/go-eth2-client/api/v1/deneb"
	"github.com/attestantio/go-eth2-client/spec"
	"github.com/attestantio/go-eth2-client/spec/altair"
	"github.com/attestantio/go-eth2-client/spec/bellatrix"
	"github.com/attestantio/go-eth2-client/spec/capella"
	"github.com/attestantio/go-eth2-client/spec/deneb"
	"github.com/attestantio/go-eth2-client/spec/phase0"
	"github.com/prysmaticlabs/go-bitfield"
)

const (
	slotsPerEpoch  = 32
	dutyEpoch      = 1000
	dutySlot       = dutyEpoch*slotsPerEpoch + 7
	committeeIndex = 3
	invalidMarker  = 0xEE
)

// ---------------------------------------------------------------------------
// Observation of one node double.

type nodeObs struct {
	Called  bool
	Done    bool
	AnsMs   float64 // when the double returned, relative to the start of the call under test
	Outcome string  // value | invalid | error | aborted | gaveup
}

// world is everything that belongs to one executed case.
type world struct {
	c        *Case
	t0       time.Time
	mu       sync.Mutex
	obs      []nodeObs
	inflight atomic.Int64
}

func (w *world) sinceMs() float64 { return float64(time.Since(w.t0)) / float64(time.Millisecond) }

// node is the generic part of a node double: it sleeps as scripted and records
// the instant at which it answers.
type node struct {
	w *world
	i int
}

func (d *node) spec() Node { return d.w.c.Nodes[d.i] }

func (d *node) finish(outcome string) {
	d.w.mu.Lock()
	d.w.obs[d.i].Done = true
	d.w.obs[d.i].AnsMs = d.w.sinceMs()
	d.w.obs[d.i].Outcome = outcome
	d.w.mu.Unlock()
	d.w.inflight.Add(-1)
}

// wait sleeps for the scripted latency.  It returns a non-nil error when the
// double has to answer with that error (context abort, or a hanging node that
// does not respect the context and finally gives up).  On a nil return the
// caller delivers the scripted value or error and calls finish itself.
func (d *node) wait(ctx context.Context) error {
	d.w.inflight.Add(1)
	d.w.mu.Lock()
	d.w.obs[d.i].Called = true
	d.w.mu.Unlock()
	n := d.spec()
	lat := time.Duration(n.LatMs) * time.Millisecond
	if n.Kind == "hang" {
		lat = time.Duration(d.w.c.TimeoutMs+giveUpAfterMs) * time.Millisecond
	}
	timer := time.NewTimer(time.Until(d.w.t0.Add(lat)))
	defer timer.Stop()
	if n.IgnoreCtx {
		<-timer.C
	} else {
		select {
		case <-timer.C:
		case <-ctx.Done():
			d.finish("aborted")
			return fmt.Errorf("failed to call GET endpoint: %w", ctx.Err())
		}
	}
	if n.Kind == "hang" {
		d.finish("gaveup")
		return errors.New("node gave up")
	}
	if n.Kind == "error" {
		d.finish("error")
		switch n.Err {
		case "api404":
			return &api.Error{Method: http.MethodGet, Endpoint: "/scripted", StatusCode: http.StatusNotFound, Data: []byte("not found")}
		case "api503":
			return &api.Error{Method: http.MethodGet, Endpoint: "/scripted", StatusCode: http.StatusServiceUnavailable, Data: []byte("syncing")}
		case "api500":
			return &api.Error{Method: http.MethodGet, Endpoint: "/scripted", StatusCode: http.StatusInternalServerError, Data: []byte("boom")}
		}
		return errors.New("scripted node failure")
	}
	return nil
}

func (d *node) deliver() {
	if d.spec().Kind == "invalid" {
		d.finish("invalid")
	} else {
		d.finish("value")
	}
}

// ---------------------------------------------------------------------------
// Values.  Pool value i carries tag i+1 in a field that has no influence on the
// score, so that the oracle can recognise what was returned from its content
// (attestationdata/majority returns a copy, not the pointer it was given).

func tagRoot(tag byte, kind byte) phase0.Root {
	var r phase0.Root
	r[0] = tag
	r[31] = kind
	return r
}

// headRoot is the block root that pool value i votes for / reports.
func headRoot(i int) phase0.Root { return tagRoot(byte(i+1), 0xc7) }

func (w *world) attData(i int, inv string) *phase0.AttestationData {
	v := w.c.Pool[i]
	d := &phase0.AttestationData{
		Slot:            dutySlot,
		Index:           committeeIndex,
		BeaconBlockRoot: headRoot(i),
		Source:          &phase0.Checkpoint{Epoch: phase0.Epoch(dutyEpoch - v.A), Root: tagRoot(0x55, 0x01)},
		Target:          &phase0.Checkpoint{Epoch: dutyEpoch, Root: tagRoot(byte(i+1), 0x02)},
	}
	switch inv {
	case "":
	case "target+1":
		d.Target.Epoch = dutyEpoch + 1
		d.Target.Root[1] = invalidMarker
	case "target-1":
		d.Target.Epoch = dutyEpoch - 1
		d.Target.Root[1] = invalidMarker
	case "target-far":
		d.Target.Epoch = dutyEpoch + 100000
		d.Target.Root[1] = invalidMarker
	case "stale-epoch":
		// a node that is behind: self-consistent data for a slot of the
		// previous epoch (target epoch = that slot's epoch, not the requested one's)
		d.Slot = dutySlot - slotsPerEpoch
		d.Source.Epoch--
		d.Target.Epoch = dutyEpoch - 1
		d.Target.Root[1] = invalidMarker
	case "stale-far":
		d.Slot = dutySlot - 10*slotsPerEpoch - 3
		d.Source.Epoch -= 10
		d.Target.Epoch = dutyEpoch - 10
		d.Target.Root[1] = invalidMarker
	case "ahead-epoch":
		d.Slot = dutySlot + slotsPerEpoch
		d.Target.Epoch = dutyEpoch + 1
		d.Target.Root[1] = invalidMarker
	case "nil-target":
		d.Target = nil
	}
	return d
}

func bitlist(total, set int64) bitfield.Bitlist {
	b := bitfield.NewBitlist(uint64(total))
	for k := int64(0); k < set; k++ {
		// spread the set bits so that position does not coincide with count
		b.SetBitAt(uint64((k*7)%total), true)
	}
	if int64(b.Count()) != set {
		// 7 and total not coprime: fall back to a prefix
		b = bitfield.NewBitlist(uint64(total))
		for k := int64(0); k < set; k++ {
			b.SetBitAt(uint64(k), true)
		}
	}
	return b
}

func (w *world) aggregate(i int) *phase0.Attestation {
	v := w.c.Pool[i]
	a := &phase0.Attestation{
		AggregationBits: bitlist(v.A, v.B),
		Data: &phase0.AttestationData{Slot: dutySlot, Index: committeeIndex,
			Source: &phase0.Checkpoint{Epoch: dutyEpoch - 1}, Target: &phase0.Checkpoint{Epoch: dutyEpoch}},
	}
	a.Signature[0] = byte(i + 1)
	return a
}

func (w *world) contribution(i int) *altair.SyncCommitteeContribution {
	v := w.c.Pool[i]
	c := &altair.SyncCommitteeContribution{
		Slot:              dutySlot,
		BeaconBlockRoot:   tagRoot(0x77, 0x03),
		SubcommitteeIndex: 2,
		AggregationBits:   bitfield.NewBitvector128(),
	}
	for k := int64(0); k < v.A; k++ {
		c.AggregationBits.SetBitAt(uint64((k*5)%128), true)
	}
	c.Signature[0] = byte(i + 1)
	return c
}

const (
	verAltair    = 1
	verBellatrix = 2
	verCapella   = 3
	verDeneb     = 4
)

// proposal builds the block proposal for pool value i.  inv: "" | zero-fee |
// no-block (payload missing, so that the fee recipient cannot be obtained).
func (w *world) proposal(i int, inv string) *api.VersionedProposal {
	v := w.c.Pool[i]
	ver := v.A
	if inv != "" && ver < verBellatrix {
		ver = verBellatrix
	}
	blinded := v.D == 1 && ver >= verBellatrix
	var fee bellatrix.ExecutionAddress
	if inv != "zero-fee" {
		fee[0] = 0xfe
		fee[19] = byte(i + 1)
	}
	tag := phase0.ValidatorIndex(i + 1)
	if inv != "" {
		tag = invalidMarker
	}
	cv, ev := propValues(v)
	p := &api.VersionedProposal{
		Blinded:        blinded,
		ConsensusValue: cv,
		ExecutionValue: ev,
	}
	switch ver {
	case verAltair:
		p.Version = spec.DataVersionAltair
		p.Altair = &altair.BeaconBlock{Slot: dutySlot, ProposerIndex: tag, Body: &altair.BeaconBlockBody{}}
	case verBellatrix:
		p.Version = spec.DataVersionBellatrix
		if inv == "no-block" {
			break
		}
		if blinded {
			p.BellatrixBlinded = &apiv1bellatrix.BlindedBeaconBlock{Slot: dutySlot, ProposerIndex: tag,
				Body: &apiv1bellatrix.BlindedBeaconBlockBody{ExecutionPayloadHeader: &bellatrix.ExecutionPayloadHeader{FeeRecipient: fee}}}
		} else {
			p.Bellatrix = &bellatrix.BeaconBlock{Slot: dutySlot, ProposerIndex: tag,
				Body: &bellatrix.BeaconBlockBody{ExecutionPayload: &bellatrix.ExecutionPayload{FeeRecipient: fee}}}
		}
	case verCapella:
		p.Version = spec.DataVersionCapella
		if inv == "no-block" {
			break
		}
		if blinded {
			p.CapellaBlinded = &apiv1capella.BlindedBeaconBlock{Slot: dutySlot, ProposerIndex: tag,
				Body: &apiv1capella.BlindedBeaconBlockBody{ExecutionPayloadHeader: &capella.ExecutionPayloadHeader{FeeRecipient: fee}}}
		} else {
			p.Capella = &capella.BeaconBlock{Slot: dutySlot, ProposerIndex: tag,
				Body: &capella.BeaconBlockBody{ExecutionPayload: &capella.ExecutionPayload{FeeRecipient: fee}}}
		}
	default:
		p.Version = spec.DataVersionDeneb
		if inv == "no-block" {
			break
		}
		if blinded {
			p.DenebBlinded = &apiv1deneb.BlindedBeaconBlock{Slot: dutySlot, ProposerIndex: tag,
				Body: &apiv1deneb.BlindedBeaconBlockBody{ExecutionPayloadHeader: &deneb.ExecutionPayloadHeader{FeeRecipient: fee}}}
		} else {
			p.Deneb = &apiv1deneb.BlockContents{Block: &deneb.BeaconBlock{Slot: dutySlot, ProposerIndex: tag,
				Body: &deneb.BeaconBlockBody{ExecutionPayload: &deneb.ExecutionPayload{FeeRecipient: fee}}}}
		}
	}
	return p
}

func (w *world) header(i int) *apiv1.BeaconBlockHeader {
	return &apiv1.BeaconBlockHeader{Root: headRoot(i), Canonical: true,
		Header: &phase0.SignedBeaconBlockHeader{Message: &phase0.BeaconBlockHeader{Slot: dutySlot, ProposerIndex: phase0.ValidatorIndex(i + 1)}}}
}

func (w *world) signedBlock(i int) *spec.VersionedSignedBeaconBlock {
	return &spec.VersionedSignedBeaconBlock{Version: spec.DataVersionPhase0,
		Phase0: &phase0.SignedBeaconBlock{Message: &phase0.BeaconBlock{Slot: dutySlot, ProposerIndex: phase0.ValidatorIndex(i + 1), Body: &phase0.BeaconBlockBody{}}}}
}

// ---------------------------------------------------------------------------
// Identification of a returned value: which pool value is it, and does it pass
// the validity rule of the property statement?  Written against the content of
// the returned object only.

type ident struct {
	Nil     bool   // no data although no error
	Tag     int    // pool index, or -1
	Invalid string // non-empty: the validity rule of the statement it fails
}

func identAtt(d *phase0.AttestationData) ident {
	if d == nil {
		return ident{Nil: true, Tag: -1}
	}
	if d.Target == nil {
		return ident{Tag: -1, Invalid: "missing-target"}
	}
	id := ident{Tag: int(d.Target.Root[0]) - 1}
	// the slot of the statement is the requested (duty) slot
	if uint64(d.Target.Epoch) != dutySlot/slotsPerEpoch {
		id.Invalid = "target-epoch-not-slot-epoch"
	}
	return id
}

func identAgg(a *phase0.Attestation) ident {
	if a == nil {
		return ident{Nil: true, Tag: -1}
	}
	return ident{Tag: int(a.Signature[0]) - 1}
}

func identContribution(c *altair.SyncCommitteeContribution) ident {
	if c == nil {
		return ident{Nil: true, Tag: -1}
	}
	return ident{Tag: int(c.Signature[0]) - 1}
}

func identRoot(r *phase0.Root) ident {
	if r == nil {
		return ident{Nil: true, Tag: -1}
	}
	return ident{Tag: int(r[0]) - 1}
}

func identHeader(h *apiv1.BeaconBlockHeader) ident {
	if h == nil {
		return ident{Nil: true, Tag: -1}
	}
	return ident{Tag: int(h.Root[0]) - 1}
}

func identBlock(b *spec.VersionedSignedBeaconBlock) ident {
	if b == nil || b.Phase0 == nil || b.Phase0.Message == nil {
		return ident{Nil: true, Tag: -1}
	}
	return ident{Tag: int(b.Phase0.Message.ProposerIndex) - 1}
}

// identProposal applies the statement's rule "proposals with a zero fee
// recipient / missing data are never returned" to a returned proposal.
func identProposal(p *api.VersionedProposal) ident {
	if p == nil {
		return ident{Nil: true, Tag: -1}
	}
	var fee *bellatrix.ExecutionAddress
	var idx phase0.ValidatorIndex
	missing := false
	switch p.Version {
	case spec.DataVersionAltair:
		if p.Altair == nil {
			missing = true
		} else {
			idx = p.Altair.ProposerIndex
		}
	case spec.DataVersionBellatrix:
		switch {
		case p.Blinded && p.BellatrixBlinded != nil:
			idx, fee = p.BellatrixBlinded.ProposerIndex, &p.BellatrixBlinded.Body.ExecutionPayloadHeader.FeeRecipient
		case !p.Blinded && p.Bellatrix != nil:
			idx, fee = p.Bellatrix.ProposerIndex, &p.Bellatrix.Body.ExecutionPayload.FeeRecipient
		default:
			missing = true
		}
	case spec.DataVersionCapella:
		switch {
		case p.Blinded && p.CapellaBlinded != nil:
			idx, fee = p.CapellaBlinded.ProposerIndex, &p.CapellaBlinded.Body.ExecutionPayloadHeader.FeeRecipient
		case !p.Blinded && p.Capella != nil:
			idx, fee = p.Capella.ProposerIndex, &p.Capella.Body.ExecutionPayload.FeeRecipient
		default:
			missing = true
		}
	case spec.DataVersionDeneb:
		switch {
		case p.Blinded && p.DenebBlinded != nil:
			idx, fee = p.DenebBlinded.ProposerIndex, &p.DenebBlinded.Body.ExecutionPayloadHeader.FeeRecipient
		case !p.Blinded && p.Deneb != nil && p.Deneb.Block != nil:
			idx, fee = p.Deneb.Block.ProposerIndex, &p.Deneb.Block.Body.ExecutionPayload.FeeRecipient
		default:
			missing = true
		}
	default:
		missing = true
	}
	if missing {
		return ident{Tag: -1, Invalid: "missing-block"}
	}
	id := ident{Tag: int(idx) - 1}
	if fee != nil && *fee == (bellatrix.ExecutionAddress{}) {
		id.Invalid = "zero-fee-recipient"
		id.Tag = -1
	}
	return id
}

// ---------------------------------------------------------------------------
// Typed node doubles.

type attNode struct{ node }

func (d *attNode) AttestationData(ctx context.Context, _ *api.AttestationDataOpts) (*api.Response[*phase0.AttestationData], error) {
	if err := d.wait(ctx); err != nil {
		return nil, err
	}
	n := d.spec()
	var data *phase0.AttestationData
	if !(n.Kind == "invalid" && n.Inv == "nil-data") {
		inv := ""
		if n.Kind == "invalid" {
			inv = n.Inv
		}
		data = d.w.attData(n.Val, inv)
	}
	d.deliver()
	return &api.Response[*phase0.AttestationData]{Data: data, Metadata: map[string]any{}}, nil
}

type aggNode struct{ node }

func (d *aggNode) AggregateAttestation(ctx context.Context, _ *api.AggregateAttestationOpts) (*api.Response[*phase0.Attestation], error) {
	if err := d.wait(ctx); err != nil {
		return nil, err
	}
	n := d.spec()
	var data *phase0.Attestation
	if n.Kind != "invalid" {
		data = d.w.aggregate(n.Val)
	}
	d.deliver()
	return &api.Response[*phase0.Attestation]{Data: data, Metadata: map[string]any{}}, nil
}

type syncNode struct{ node }

func (d *syncNode) SyncCommitteeContribution(ctx context.Context, _ *api.SyncCommitteeContributionOpts) (*api.Response[*altair.SyncCommitteeContribution], error) {
	if err := d.wait(ctx); err != nil {
		return nil, err
	}
	n := d.spec()
	var data *altair.SyncCommitteeContribution
	if n.Kind != "invalid" {
		data = d.w.contribution(n.Val)
	}
	d.deliver()
	return &api.Response[*altair.SyncCommitteeContribution]{Data: data, Metadata: map[string]any{}}, nil
}

type propNode struct{ node }

func (d *propNode) Proposal(ctx context.Context, _ *api.ProposalOpts) (*api.Response[*api.VersionedProposal], error) {
	if err := d.wait(ctx); err != nil {
		return nil, err
	}
	n := d.spec()
	inv := ""
	if n.Kind == "invalid" {
		inv = n.Inv
	}
	data := d.w.proposal(n.Val, inv)
	d.deliver()
	return &api.Response[*api.VersionedProposal]{Data: data, Metadata: map[string]any{}}, nil
}

type rootNode struct{ node }

func (d *rootNode) BeaconBlockRoot(ctx context.Context, _ *api.BeaconBlockRootOpts) (*api.Response[*phase0.Root], error) {
	if err := d.wait(ctx); err != nil {
		return nil, err
	}
	r := headRoot(d.spec().Val)
	d.deliver()
	return &api.Response[*phase0.Root]{Data: &r, Metadata: map[string]any{}}, nil
}

type headerNode struct{ node }

func (d *headerNode) BeaconBlockHeader(ctx context.Context, _ *api.BeaconBlockHeaderOpts) (*api.Response[*apiv1.BeaconBlockHeader], error) {
	if err := d.wait(ctx); err != nil {
		return nil, err
	}
	h := d.w.header(d.spec().Val)
	d.deliver()
	return &api.Response[*apiv1.BeaconBlockHeader]{Data: h, Metadata: map[string]any{}}, nil
}

type blockNode struct{ node }

func (d *blockNode) SignedBeaconBlock(ctx context.Context, _ *api.SignedBeaconBlockOpts) (*api.Response[*spec.VersionedSignedBeaconBlock], error) {
	if err := d.wait(ctx); err != nil {
		return nil, err
	}
	b := d.w.signedBlock(d.spec().Val)
	d.deliver()
	return &api.Response[*spec.VersionedSignedBeaconBlock]{Data: b, Metadata: map[string]any{}}, nil
}

// ---------------------------------------------------------------------------
// Head-slot cache double: pool value i's head root is at dutySlot-Dist, or
// unknown to the cache (Dist < 0).

type cacheDouble struct{ c *Case }

func (cd *cacheDouble) BlockRootToSlot(_ context.Context, root phase0.Root) (phase0.Slot, error) {
	i := int(root[0]) - 1
	if i < 0 || i >= len(cd.c.Pool) || root[31] != 0xc7 {
		return 0, errors.New("unknown root")
	}
	dist := headDist(cd.c, i)
	if dist < 0 {
		return 0, errors.New("scripted cache miss")
	}
	return phase0.Slot(dutySlot - dist), nil
}

// Doubles needed only to construct beaconblockproposal/best.

type eventsDouble struct{}

func (eventsDouble) Events(context.Context, []string, consensusclient.EventHandlerFunc) error {
	return nil
}

type specDouble struct{}

func (specDouble) Spec(context.Context, *api.SpecOpts) (*api.Response[map[string]any], error) {
	return &api.Response[map[string]any]{Data: map[string]any{"SLOTS_PER_EPOCH": uint64(slotsPerEpoch)}, Metadata: map[string]any{}}, nil
}

type noBlocks struct{}

func (noBlocks) SignedBeaconBlock(context.Context, *api.SignedBeaconBlockOpts) (*api.Response[*spec.VersionedSignedBeaconBlock], error) {
	return nil, errors.New("not available")
}
