package c07

// Scripted beacon-node doubles, the values they deliver, and the independent
// identification / validity rules the oracle applies to whatever a strategy
// returns.

import (
	"context"
	"errors"
	"fmt"
	"net/http"
	"strconv"
	"sync"
	"sync/atomic"
	"time"

	consensusclient "github.com/attestantio/go-eth2-client"
	"github.com/attestantio/go-eth2-client/api"
	apiv1 "github.com/attestantio/go-eth2-client/api/v1"
	apiv1bellatrix "github.com/attestantio/go-eth2-client/api/v1/bellatrix"
	apiv1capella "github.com/attestantio/go-eth2-client/api/v1/capella"
	apiv1deneb "github.com/attestantio/go-eth2-client/api/v1/deneb"
	"github.com/attestantio/go-eth2-client/spec"
	"github.com/attestantio/go-eth2-client/spec/altair"
	"github.com/attestantio/go-eth2-client/spec/bellatrix"
	"github.com/attestantio/go-eth2-client/spec/capella"
	"github.com/attestantio/go-eth2-client/spec/deneb"
	"github.com/attestantio/go-eth2-client/spec/phase0"
	"github.com/prysmaticlabs/go-bitfield"
)

const (
	slotsPerEpoch  = 32
	committeeIndex = 3
	invalidMarker  = 0xEE
	maxCalls       = 3
)

// epoch is the duty epoch of the history: 1000, or 0 (where attestation data
// can score exactly 0).
func (c *Case) epoch() int64 {
	if c.Epoch0 {
		return 0
	}
	return 1000
}

// slot is the slot requested by call k of the history (all in one epoch).
func (c *Case) slot(k int) int64 { return c.epoch()*slotsPerEpoch + 7 + int64(k) }

// blockID is the block identifier requested by call k (block-based strategies).
func (c *Case) blockID(k int) string { return strconv.FormatInt(c.slot(k), 10) }

// callOfSlot / callOfBlock tell a double which request of the history it is answering.
func (c *Case) callOfSlot(slot phase0.Slot) int { return int(int64(slot) - c.slot(0)) }

func (c *Case) callOfBlock(id string) int {
	v, err := strconv.ParseInt(id, 10, 64)
	if err != nil {
		return -1
	}
	return int(v - c.slot(0))
}

// ---------------------------------------------------------------------------
// Observation of one node double.

type nodeObs struct {
	Called  bool
	Done    bool
	AnsMs   float64 // when the double returned, relative to the start of the call under test
	Outcome string  // value | invalid | error | aborted | gaveup
}

// world is everything that belongs to one executed history.
type world struct {
	c        *Case
	steps    [][]Node
	mu       sync.Mutex
	t0       []time.Time // start of call k
	obs      [][]nodeObs // [call][node]
	inflight atomic.Int64
	cur      atomic.Int64 // index of the call in progress (calls are sequential)
}

func (w *world) sinceMs(k int) float64 {
	return float64(time.Since(w.t0[k])) / float64(time.Millisecond)
}

// node is the generic part of a node double: it sleeps as scripted for the
// request it is answering and records the instant at which it answers.
type node struct {
	w *world
	i int
}

func (d *node) spec(k int) Node { return d.w.steps[k][d.i] }

func (d *node) finish(k int, outcome string) {
	d.w.mu.Lock()
	d.w.obs[k][d.i].Done = true
	d.w.obs[k][d.i].AnsMs = d.w.sinceMs(k)
	d.w.obs[k][d.i].Outcome = outcome
	d.w.mu.Unlock()
	d.w.inflight.Add(-1)
}

// wait sleeps for the latency scripted for call k.  It returns a non-nil error
// when the double has to answer with that error (context abort, or a hanging
// node that does not respect the context and finally gives up).  On a nil
// return the caller delivers the scripted value and calls deliver.
func (d *node) wait(ctx context.Context, k int) error {
	if k < 0 || k >= len(d.w.steps) {
		return errors.New("request is not part of the scripted history")
	}
	d.w.inflight.Add(1)
	d.w.mu.Lock()
	d.w.obs[k][d.i].Called = true
	t0 := d.w.t0[k]
	d.w.mu.Unlock()
	n := d.spec(k)
	lat := time.Duration(n.LatMs) * time.Millisecond
	if n.Kind == "hang" {
		lat = time.Duration(d.w.c.TimeoutMs+giveUpAfterMs) * time.Millisecond
	}
	timer := time.NewTimer(time.Until(t0.Add(lat)))
	defer timer.Stop()
	if n.IgnoreCtx {
		<-timer.C
	} else {
		select {
		case <-timer.C:
		case <-ctx.Done():
			d.finish(k, "aborted")
			return fmt.Errorf("failed to call GET endpoint: %w", ctx.Err())
		}
	}
	if n.Kind == "hang" {
		d.finish(k, "gaveup")
		return errors.New("node gave up")
	}
	if n.Kind == "error" {
		d.finish(k, "error")
		switch n.Err {
		case "api404":
			return &api.Error{Method: http.MethodGet, Endpoint: "/scripted", StatusCode: http.StatusNotFound, Data: []byte("not found")}
		case "api503":
			return &api.Error{Method: http.MethodGet, Endpoint: "/scripted", StatusCode: http.StatusServiceUnavailable, Data: []byte("syncing")}
		case "api500":
			return &api.Error{Method: http.MethodGet, Endpoint: "/scripted", StatusCode: http.StatusInternalServerError, Data: []byte("boom")}
		}
		return errors.New("scripted node failure")
	}
	return nil
}

func (d *node) deliver(k int) {
	if d.spec(k).Kind == "invalid" {
		d.finish(k, "invalid")
	} else {
		d.finish(k, "value")
	}
}

// ---------------------------------------------------------------------------
// Values.  Pool value i carries tag i+1, and the index k of the request it
// answers, in fields that have no influence on the score, so that the oracle
// can recognise what was returned from its content (attestationdata/majority
// returns a copy, not the pointer it was given).

func tagRoot(tag byte, kind byte) phase0.Root {
	var r phase0.Root
	r[0] = tag
	r[31] = kind
	return r
}

// headRoot is the block root that pool value i votes for (attestation data).
func headRoot(i int) phase0.Root { return tagRoot(byte(i+1), 0xc7) }

// rootValue is the block root pool value i stands for when delivered in answer
// to request k (block root strategies).
func rootValue(i, k int) phase0.Root {
	r := headRoot(i)
	r[1] = byte(k)
	return r
}

func (w *world) attData(i int, inv string, k int) *phase0.AttestationData {
	c := w.c
	v := c.Pool[i]
	epoch := c.epoch()
	source := epoch - v.A
	if source < 0 {
		source = 0
	}
	d := &phase0.AttestationData{
		Slot:            phase0.Slot(c.slot(k)),
		Index:           committeeIndex,
		BeaconBlockRoot: headRoot(headOf(c, i)),
		Source:          &phase0.Checkpoint{Epoch: phase0.Epoch(source), Root: tagRoot(0x55, 0x01)},
		Target:          &phase0.Checkpoint{Epoch: phase0.Epoch(epoch), Root: tagRoot(byte(i+1), 0x02)},
	}
	d.Target.Root[2] = byte(k)
	if epoch < 10 {
		// no earlier epochs at genesis: the variants that look back look ahead
		switch inv {
		case "target-1":
			inv = "target+1"
		case "stale-epoch", "stale-far":
			inv = "ahead-epoch"
		}
	}
	switch inv {
	case "":
	case "target+1":
		d.Target.Epoch = phase0.Epoch(epoch + 1)
		d.Target.Root[1] = invalidMarker
	case "target-1":
		d.Target.Epoch = phase0.Epoch(epoch - 1)
		d.Target.Root[1] = invalidMarker
	case "target-far":
		d.Target.Epoch = phase0.Epoch(epoch + 100000)
		d.Target.Root[1] = invalidMarker
	case "stale-epoch":
		// a node that is behind: self-consistent data for a slot of the
		// previous epoch (target epoch = that slot's epoch, not the requested one's)
		d.Slot -= slotsPerEpoch
		d.Source.Epoch--
		d.Target.Epoch = phase0.Epoch(epoch - 1)
		d.Target.Root[1] = invalidMarker
	case "stale-far":
		d.Slot -= 10*slotsPerEpoch + 3
		d.Source.Epoch -= 10
		d.Target.Epoch = phase0.Epoch(epoch - 10)
		d.Target.Root[1] = invalidMarker
	case "ahead-epoch":
		d.Slot += slotsPerEpoch
		d.Target.Epoch = phase0.Epoch(epoch + 1)
		d.Target.Root[1] = invalidMarker
	case "nil-target":
		d.Target = nil
	}
	return d
}

func bitlist(total, set int64) bitfield.Bitlist {
	b := bitfield.NewBitlist(uint64(total))
	for k := int64(0); k < set; k++ {
		// spread the set bits so that position does not coincide with count
		b.SetBitAt(uint64((k*7)%total), true)
	}
	if int64(b.Count()) != set {
		// 7 and total not coprime: fall back to a prefix
		b = bitfield.NewBitlist(uint64(total))
		for k := int64(0); k < set; k++ {
			b.SetBitAt(uint64(k), true)
		}
	}
	return b
}

func (w *world) aggregate(i, k int) *phase0.Attestation {
	v := w.c.Pool[i]
	epoch := w.c.epoch()
	source := epoch - 1
	if source < 0 {
		source = 0
	}
	a := &phase0.Attestation{
		AggregationBits: bitlist(v.A, v.B),
		Data: &phase0.AttestationData{Slot: phase0.Slot(w.c.slot(k)), Index: committeeIndex,
			Source: &phase0.Checkpoint{Epoch: phase0.Epoch(source)}, Target: &phase0.Checkpoint{Epoch: phase0.Epoch(epoch)}},
	}
	a.Signature[0] = byte(i + 1)
	a.Signature[1] = byte(k)
	return a
}

func (w *world) contribution(i, k int) *altair.SyncCommitteeContribution {
	v := w.c.Pool[i]
	c := &altair.SyncCommitteeContribution{
		Slot:              phase0.Slot(w.c.slot(k)),
		BeaconBlockRoot:   tagRoot(0x77, 0x03),
		SubcommitteeIndex: 2,
		AggregationBits:   bitfield.NewBitvector128(),
	}
	for j := int64(0); j < v.A; j++ {
		c.AggregationBits.SetBitAt(uint64((j*5)%128), true)
	}
	c.Signature[0] = byte(i + 1)
	c.Signature[1] = byte(k)
	return c
}

const (
	verAltair    = 1
	verBellatrix = 2
	verCapella   = 3
	verDeneb     = 4
)

// proposal builds the block proposal for pool value i in answer to request k.
// inv: "" | zero-fee | no-block (payload missing, so that the fee recipient
// cannot be obtained).
func (w *world) proposal(i int, inv string, k int) *api.VersionedProposal {
	v := w.c.Pool[i]
	slot := phase0.Slot(w.c.slot(k))
	ver := v.A
	if inv != "" && ver < verBellatrix {
		ver = verBellatrix
	}
	blinded := v.D == 1 && ver >= verBellatrix
	var fee bellatrix.ExecutionAddress
	if inv != "zero-fee" {
		fee[0] = 0xfe
		fee[19] = byte(i + 1)
	}
	tag := phase0.ValidatorIndex(i + 1)
	if inv != "" {
		tag = invalidMarker
	}
	cv, ev := propValues(v)
	p := &api.VersionedProposal{
		Blinded:        blinded,
		ConsensusValue: cv,
		ExecutionValue: ev,
	}
	switch ver {
	case verAltair:
		p.Version = spec.DataVersionAltair
		p.Altair = &altair.BeaconBlock{Slot: slot, ProposerIndex: tag, Body: &altair.BeaconBlockBody{}}
	case verBellatrix:
		p.Version = spec.DataVersionBellatrix
		if inv == "no-block" {
			break
		}
		if blinded {
			p.BellatrixBlinded = &apiv1bellatrix.BlindedBeaconBlock{Slot: slot, ProposerIndex: tag,
				Body: &apiv1bellatrix.BlindedBeaconBlockBody{ExecutionPayloadHeader: &bellatrix.ExecutionPayloadHeader{FeeRecipient: fee}}}
		} else {
			p.Bellatrix = &bellatrix.BeaconBlock{Slot: slot, ProposerIndex: tag,
				Body: &bellatrix.BeaconBlockBody{ExecutionPayload: &bellatrix.ExecutionPayload{FeeRecipient: fee}}}
		}
	case verCapella:
		p.Version = spec.DataVersionCapella
		if inv == "no-block" {
			break
		}
		if blinded {
			p.CapellaBlinded = &apiv1capella.BlindedBeaconBlock{Slot: slot, ProposerIndex: tag,
				Body: &apiv1capella.BlindedBeaconBlockBody{ExecutionPayloadHeader: &capella.ExecutionPayloadHeader{FeeRecipient: fee}}}
		} else {
			p.Capella = &capella.BeaconBlock{Slot: slot, ProposerIndex: tag,
				Body: &capella.BeaconBlockBody{ExecutionPayload: &capella.ExecutionPayload{FeeRecipient: fee}}}
		}
	default:
		p.Version = spec.DataVersionDeneb
		if inv == "no-block" {
			break
		}
		if blinded {
			p.DenebBlinded = &apiv1deneb.BlindedBeaconBlock{Slot: slot, ProposerIndex: tag,
				Body: &apiv1deneb.BlindedBeaconBlockBody{ExecutionPayloadHeader: &deneb.ExecutionPayloadHeader{FeeRecipient: fee}}}
		} else {
			p.Deneb = &apiv1deneb.BlockContents{Block: &deneb.BeaconBlock{Slot: slot, ProposerIndex: tag,
				Body: &deneb.BeaconBlockBody{ExecutionPayload: &deneb.ExecutionPayload{FeeRecipient: fee}}}}
		}
	}
	return p
}

func (w *world) header(i, k int) *apiv1.BeaconBlockHeader {
	return &apiv1.BeaconBlockHeader{Root: rootValue(i, k), Canonical: true,
		Header: &phase0.SignedBeaconBlockHeader{Message: &phase0.BeaconBlockHeader{Slot: phase0.Slot(w.c.slot(k)), ProposerIndex: phase0.ValidatorIndex(i + 1)}}}
}

func (w *world) signedBlock(i, k int) *spec.VersionedSignedBeaconBlock {
	return &spec.VersionedSignedBeaconBlock{Version: spec.DataVersionPhase0,
		Phase0: &phase0.SignedBeaconBlock{Message: &phase0.BeaconBlock{Slot: phase0.Slot(w.c.slot(k)), ProposerIndex: phase0.ValidatorIndex(i + 1), Body: &phase0.BeaconBlockBody{}}}}
}

// ---------------------------------------------------------------------------
// Identification of a returned value: which pool value is it, which request
// of the history was it an answer to, and does it pass the validity rule of
// the property statement?  Written against the content of the returned object
// only.

type ident struct {
	Nil     bool   // no data although no error
	Tag     int    // pool index, or -1
	Call    int    // index of the request the value was delivered for, or -1
	Invalid string // non-empty: the validity rule of the statement it fails
}

func (c *Case) identAtt(d *phase0.AttestationData) ident {
	if d == nil {
		return ident{Nil: true, Tag: -1, Call: -1}
	}
	if d.Target == nil {
		return ident{Tag: -1, Call: -1, Invalid: "missing-target"}
	}
	id := ident{Tag: int(d.Target.Root[0]) - 1, Call: int(d.Target.Root[2])}
	// the slot of the statement is the requested (duty) slot; all requests of a
	// history are in one epoch
	if int64(d.Target.Epoch) != c.epoch() {
		id.Invalid = "target-epoch-not-slot-epoch"
	} else if int64(d.Slot) != c.slot(id.Call) {
		id.Call = -1
	}
	return id
}

func (c *Case) identAgg(a *phase0.Attestation) ident {
	if a == nil {
		return ident{Nil: true, Tag: -1, Call: -1}
	}
	return ident{Tag: int(a.Signature[0]) - 1, Call: int(a.Signature[1])}
}

func (c *Case) identContribution(sc *altair.SyncCommitteeContribution) ident {
	if sc == nil {
		return ident{Nil: true, Tag: -1, Call: -1}
	}
	return ident{Tag: int(sc.Signature[0]) - 1, Call: int(sc.Signature[1])}
}

func (c *Case) identRoot(r *phase0.Root) ident {
	if r == nil {
		return ident{Nil: true, Tag: -1, Call: -1}
	}
	return ident{Tag: int(r[0]) - 1, Call: int(r[1])}
}

func (c *Case) identHeader(h *apiv1.BeaconBlockHeader) ident {
	if h == nil {
		return ident{Nil: true, Tag: -1, Call: -1}
	}
	return ident{Tag: int(h.Root[0]) - 1, Call: int(h.Root[1])}
}

func (c *Case) identBlock(b *spec.VersionedSignedBeaconBlock) ident {
	if b == nil || b.Phase0 == nil || b.Phase0.Message == nil {
		return ident{Nil: true, Tag: -1, Call: -1}
	}
	return ident{Tag: int(b.Phase0.Message.ProposerIndex) - 1, Call: c.callOfSlot(b.Phase0.Message.Slot)}
}

// identProposal applies the statement's rule "proposals with a zero fee
// recipient / missing data are never returned" to a returned proposal.
func (c *Case) identProposal(p *api.VersionedProposal) ident {
	if p == nil {
		return ident{Nil: true, Tag: -1, Call: -1}
	}
	var fee *bellatrix.ExecutionAddress
	var idx phase0.ValidatorIndex
	var slot phase0.Slot
	missing := false
	switch p.Version {
	case spec.DataVersionAltair:
		if p.Altair == nil {
			missing = true
		} else {
			idx, slot = p.Altair.ProposerIndex, p.Altair.Slot
		}
	case spec.DataVersionBellatrix:
		switch {
		case p.Blinded && p.BellatrixBlinded != nil:
			idx, slot, fee = p.BellatrixBlinded.ProposerIndex, p.BellatrixBlinded.Slot, &p.BellatrixBlinded.Body.ExecutionPayloadHeader.FeeRecipient
		case !p.Blinded && p.Bellatrix != nil:
			idx, slot, fee = p.Bellatrix.ProposerIndex, p.Bellatrix.Slot, &p.Bellatrix.Body.ExecutionPayload.FeeRecipient
		default:
			missing = true
		}
	case spec.DataVersionCapella:
		switch {
		case p.Blinded && p.CapellaBlinded != nil:
			idx, slot, fee = p.CapellaBlinded.ProposerIndex, p.CapellaBlinded.Slot, &p.CapellaBlinded.Body.ExecutionPayloadHeader.FeeRecipient
		case !p.Blinded && p.Capella != nil:
			idx, slot, fee = p.Capella.ProposerIndex, p.Capella.Slot, &p.Capella.Body.ExecutionPayload.FeeRecipient
		default:
			missing = true
		}
	case spec.DataVersionDeneb:
		switch {
		case p.Blinded && p.DenebBlinded != nil:
			idx, slot, fee = p.DenebBlinded.ProposerIndex, p.DenebBlinded.Slot, &p.DenebBlinded.Body.ExecutionPayloadHeader.FeeRecipient
		case !p.Blinded && p.Deneb != nil && p.Deneb.Block != nil:
			idx, slot, fee = p.Deneb.Block.ProposerIndex, p.Deneb.Block.Slot, &p.Deneb.Block.Body.ExecutionPayload.FeeRecipient
		default:
			missing = true
		}
	default:
		missing = true
	}
	if missing {
		return ident{Tag: -1, Call: -1, Invalid: "missing-block"}
	}
	id := ident{Tag: int(idx) - 1, Call: c.callOfSlot(slot)}
	if fee != nil && *fee == (bellatrix.ExecutionAddress{}) {
		id.Invalid = "zero-fee-recipient"
		id.Tag = -1
	}
	return id
}

// ---------------------------------------------------------------------------
// Typed node doubles.

type attNode struct{ node }

func (d *attNode) AttestationData(ctx context.Context, opts *api.AttestationDataOpts) (*api.Response[*phase0.AttestationData], error) {
	k := d.w.c.callOfSlot(opts.Slot)
	if err := d.wait(ctx, k); err != nil {
		return nil, err
	}
	n := d.spec(k)
	var data *phase0.AttestationData
	if !(n.Kind == "invalid" && n.Inv == "nil-data") {
		inv := ""
		if n.Kind == "invalid" {
			inv = n.Inv
		}
		data = d.w.attData(n.Val, inv, k)
	}
	d.deliver(k)
	return &api.Response[*phase0.AttestationData]{Data: data, Metadata: map[string]any{}}, nil
}

type aggNode struct{ node }

func (d *aggNode) AggregateAttestation(ctx context.Context, opts *api.AggregateAttestationOpts) (*api.Response[*phase0.Attestation], error) {
	k := d.w.c.callOfSlot(opts.Slot)
	if err := d.wait(ctx, k); err != nil {
		return nil, err
	}
	n := d.spec(k)
	var data *phase0.Attestation
	if n.Kind != "invalid" {
		data = d.w.aggregate(n.Val, k)
	}
	d.deliver(k)
	return &api.Response[*phase0.Attestation]{Data: data, Metadata: map[string]any{}}, nil
}

type syncNode struct{ node }

func (d *syncNode) SyncCommitteeContribution(ctx context.Context, opts *api.SyncCommitteeContributionOpts) (*api.Response[*altair.SyncCommitteeContribution], error) {
	k := d.w.c.callOfSlot(opts.Slot)
	if err := d.wait(ctx, k); err != nil {
		return nil, err
	}
	n := d.spec(k)
	var data *altair.SyncCommitteeContribution
	if n.Kind != "invalid" {
		data = d.w.contribution(n.Val, k)
	}
	d.deliver(k)
	return &api.Response[*altair.SyncCommitteeContribution]{Data: data, Metadata: map[string]any{}}, nil
}

type propNode struct{ node }

// NodeClient makes the double an eth2client.NodeClientProvider, as the real
// HTTP client is.  The request carries nothing that identifies the call; it is
// made synchronously by the call in progress.
func (d *propNode) NodeClient(_ context.Context) (*api.Response[string], error) {
	k := int(d.w.cur.Load())
	if k < 0 || k >= len(d.w.steps) {
		return nil, errors.New("request is not part of the scripted history")
	}
	n := d.spec(k)
	switch n.ClientErr {
	case "":
	case "api503":
		return nil, &api.Error{Method: http.MethodGet, Endpoint: "/eth/v1/node/version", StatusCode: http.StatusServiceUnavailable, Data: []byte("syncing")}
	default:
		return nil, errors.New("client is not active")
	}
	return &api.Response[string]{Data: n.Client, Metadata: map[string]any{}}, nil
}

func (d *propNode) Proposal(ctx context.Context, opts *api.ProposalOpts) (*api.Response[*api.VersionedProposal], error) {
	k := d.w.c.callOfSlot(opts.Slot)
	if err := d.wait(ctx, k); err != nil {
		return nil, err
	}
	n := d.spec(k)
	inv := ""
	if n.Kind == "invalid" {
		inv = n.Inv
	}
	data := d.w.proposal(n.Val, inv, k)
	d.deliver(k)
	return &api.Response[*api.VersionedProposal]{Data: data, Metadata: map[string]any{}}, nil
}

type rootNode struct{ node }

func (d *rootNode) BeaconBlockRoot(ctx context.Context, opts *api.BeaconBlockRootOpts) (*api.Response[*phase0.Root], error) {
	k := d.w.c.callOfBlock(opts.Block)
	if err := d.wait(ctx, k); err != nil {
		return nil, err
	}
	r := rootValue(d.spec(k).Val, k)
	d.deliver(k)
	return &api.Response[*phase0.Root]{Data: &r, Metadata: map[string]any{}}, nil
}

type headerNode struct{ node }

func (d *headerNode) BeaconBlockHeader(ctx context.Context, opts *api.BeaconBlockHeaderOpts) (*api.Response[*apiv1.BeaconBlockHeader], error) {
	k := d.w.c.callOfBlock(opts.Block)
	if err := d.wait(ctx, k); err != nil {
		return nil, err
	}
	h := d.w.header(d.spec(k).Val, k)
	d.deliver(k)
	return &api.Response[*apiv1.BeaconBlockHeader]{Data: h, Metadata: map[string]any{}}, nil
}

type blockNode struct{ node }

func (d *blockNode) SignedBeaconBlock(ctx context.Context, opts *api.SignedBeaconBlockOpts) (*api.Response[*spec.VersionedSignedBeaconBlock], error) {
	k := d.w.c.callOfBlock(opts.Block)
	if err := d.wait(ctx, k); err != nil {
		return nil, err
	}
	b := d.w.signedBlock(d.spec(k).Val, k)
	d.deliver(k)
	return &api.Response[*spec.VersionedSignedBeaconBlock]{Data: b, Metadata: map[string]any{}}, nil
}

// ---------------------------------------------------------------------------
// Head-slot cache double: pool value i's head root is Dist slots before the first requested slot, or
// unknown to the cache (Dist < 0).

type cacheDouble struct{ c *Case }

func (cd *cacheDouble) BlockRootToSlot(ctx context.Context, root phase0.Root) (phase0.Slot, error) {
	i := int(root[0]) - 1
	if i < 0 || i >= len(cd.c.Pool) || root[31] != 0xc7 {
		return 0, errors.New("unknown root")
	}
	dist := headDist(cd.c, i)
	if dist < 0 {
		return 0, errors.New("scripted: block not known to the node")
	}
	// like services/cache/standard: a hit is answered from memory whatever
	// the context; a miss is fetched with the context given
	if cd.c.Pool[i].Miss && ctx.Err() != nil {
		return 0, fmt.Errorf("failed to obtain block header: %w", ctx.Err())
	}
	return phase0.Slot(cd.c.slot(0) - dist), nil
}

// Doubles needed only to construct beaconblockproposal/best.

type eventsDouble struct{}

func (eventsDouble) Events(context.Context, []string, consensusclient.EventHandlerFunc) error {
	return nil
}

type specDouble struct{}

func (specDouble) Spec(context.Context, *api.SpecOpts) (*api.Response[map[string]any], error) {
	return &api.Response[map[string]any]{Data: map[string]any{"SLOTS_PER_EPOCH": uint64(slotsPerEpoch)}, Metadata: map[string]any{}}, nil
}

type noBlocks struct{}

func (noBlocks) SignedBeaconBlock(context.Context, *api.SignedBeaconBlockOpts) (*api.Response[*spec.VersionedSignedBeaconBlock], error) {
	return nil, errors.New("not available")
}
