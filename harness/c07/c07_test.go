// Package c07 decides property C07: whatever mixture of behaviours the
// configured beacon nodes show, every multi-node data strategy returns within
// its timeout, returns the right valid answer (best / majority / latest /
// first) and fails exactly when no acceptable response arrived in time.
//
// Subject: the real strategies/* services, each built around 1-5 scripted node
// doubles.  The judgement depends on real time; see DESIGN.md section 0.4:
// latency classes are at least marginMs away from the soft and hard timeout,
// every double records when it actually answered, the oracle classifies by the
// measured instants with a guard band, accepts every result that is right
// under some reading inside the band, and does not judge cases in which the
// machine visibly did not keep time (counted as "perturbed").
package c07

import (
	"context"
	"encoding/json"
	"fmt"
	"math"
	"math/big"
	"os"
	"runtime/debug"
	"sort"
	"strconv"
	"strings"
	"sync"
	"sync/atomic"
	"testing"
	"time"

	"github.com/rs/zerolog"
	"pgregory.net/rapid"

	"verifharness/internal/ev"
)

const (
	guardMs       = 170.0 // guard band around the soft and hard timeout
	marginMs      = 250   // minimum planned distance of any latency from a timeout
	giveUpAfterMs = 400   // a hanging node that ignores its context gives up this long after the hard timeout
	perturbMs     = 85.0  // a sleep that overshoots by more than this marks the case as perturbed
	causalEpsMs   = 3.0
	batchSize     = 48
)

// Node is the script of one beacon node double.
type Node struct {
	Kind      string `json:"kind"`            // value | invalid | error | hang
	Val       int    `json:"val"`             // index into Pool (value, invalid)
	Inv       string `json:"inv,omitempty"`   // which validity rule an invalid value fails
	Err       string `json:"err,omitempty"`   // plain | api404 | api503 | api500
	Class     string `json:"class,omitempty"` // planned latency class: early | mid | late
	LatMs     int    `json:"lat_ms"`          // planned latency
	IgnoreCtx bool   `json:"ignore_ctx,omitempty"`
	// prop: outcome of the node's client-name request (made by
	// beaconblockproposal/best when the graffiti contains {{CLIENT}})
	Client    string `json:"client,omitempty"`     // name the node reports (0-40 characters)
	ClientErr string `json:"client_err,omitempty"` // non-empty: the request fails (plain | api503)
}

// Value is one entry of the value pool; its meaning depends on the family:
//
//	att:    A = source epoch is duty epoch - A;  B = distance of the head slot behind the duty slot (-1: unknown to the cache);
//	        D = 1 + index of an earlier pool value whose head root this value shares (0: a head of its own; B and Miss are then those of that value)
//	agg:    A = length of the aggregation bits;  B = bits set
//	prop:   A = version (1 altair .. 4 deneb);   CV/EV (or B/C) = consensus / execution value in wei;  D = 1: blinded
//	sync:   A = bits set (of 128)
//	root:   A = distance of the root's slot behind the duty slot (-1: unknown to the cache)
type Value struct {
	A int64 `json:"a"`
	B int64 `json:"b,omitempty"`
	C int64 `json:"c,omitempty"`
	D int64 `json:"d,omitempty"`
	// prop only: consensus and execution value in wei as decimal strings (they
	// exceed int64: 20 ETH, 1000 ETH, 2^200); when empty, B and C are used
	CV string `json:"cv,omitempty"`
	EV string `json:"ev,omitempty"`
	// att, root: the slot of the head / root is not in the cache's memory: the
	// cache has to fetch it, which (as in the real cache) fails when the context
	// it is given is already done
	Miss bool `json:"miss,omitempty"`
}

// propValues gives the consensus and execution value of a proposal pool value.
func propValues(v Value) (*big.Int, *big.Int) {
	cv, ev := big.NewInt(v.B), big.NewInt(v.C)
	if v.CV != "" {
		if x, ok := new(big.Int).SetString(v.CV, 10); ok {
			cv = x
		}
	}
	if v.EV != "" {
		if x, ok := new(big.Int).SetString(v.EV, 10); ok {
			ev = x
		}
	}
	return cv, ev
}

// weiValues: small values (ties, near-ties that float64 still separates),
// ordinary block values, and values across and far above 2^64 wei (18.44 ETH).
var weiValues = []string{
	"0", "1", "2", "1000", "1001", "1099511627776", "1099511627777",
	"100000000000000000",     // 0.1 ETH
	"2000000000000000000",    // 2 ETH
	"10000000000000000000",   // 10 ETH
	"18446744073709551615",   // 2^64-1
	"18446744073709551616",   // 2^64
	"20000000000000000000",   // 20 ETH
	"30000000000000000000",   // 30 ETH
	"40000000000000000000",   // 40 ETH
	"1000000000000000000000", // 1000 ETH
	"1606938044258990275541962092341162602522202993782792835301376", // 2^200
}

// Case is one generated scenario.
type Case struct {
	Strategy  string  `json:"strategy"`
	TimeoutMs int     `json:"timeout_ms"`
	Threshold int     `json:"threshold"` // attestationdata/majority only
	Pool      []Value `json:"pool"`
	Nodes     []Node  `json:"nodes"` // scripts of the nodes for the first call
	// More: further calls (other slots / block ids) on the same strategy
	// instance, each with its own script for every node
	More []Step `json:"more,omitempty"`
	// Epoch0: the history takes place in epoch 0 instead of epoch 1000
	Epoch0 bool `json:"epoch0,omitempty"`
	// Graffiti of the proposal requests (prop); may contain {{CLIENT}}
	Graffiti string `json:"graffiti,omitempty"`

	k int // set in the per-call view handed to the oracle: index of the call
}

// Step is one further call of a history.
type Step struct {
	GapMs int    `json:"gap_ms"` // pause between the return of the previous call and this one
	Nodes []Node `json:"nodes"`
}

func (c *Case) steps() [][]Node {
	r := [][]Node{c.Nodes}
	for _, s := range c.More {
		r = append(r, s.Nodes)
	}
	return r
}

// view is the case as the per-call oracle sees call k.
func (c *Case) view(k int) *Case {
	v := *c
	v.Nodes = c.steps()[k]
	v.More = nil
	v.k = k
	return &v
}

// headOf: the pool value whose head root attestation-data value i votes for
// (its own, unless D names an earlier value with a head of its own).
func headOf(c *Case, i int) int {
	if strategies[c.Strategy].Family == "att" {
		if h := int(c.Pool[i].D) - 1; h >= 0 && h < i && c.Pool[h].D == 0 {
			return h
		}
	}
	return i
}

// headDist: how many slots the head / root of pool value i lies behind the
// slot of the first call (-1: unknown to the cache); never before slot 0.
func headDist(c *Case, i int) int64 {
	d := int64(-1)
	switch strategies[c.Strategy].Family {
	case "att":
		d = c.Pool[headOf(c, i)].B
	case "root":
		d = c.Pool[i].A
	}
	if d > c.slot(0) {
		d = c.slot(0)
	}
	return d
}

// ---------------------------------------------------------------------------
// Generator.

var weightedNames = func() []string {
	var r []string
	for _, n := range strategyNames {
		for k := 0; k < strategies[n].Weight; k++ {
			r = append(r, n)
		}
	}
	return r
}()

// genNodes draws the scripts of the n nodes for one call.
func genNodes(t *rapid.T, info stratInfo, n, poolN, soft, hard int) []Node {
	var nodes []Node
	// one call in six has no early node at all: everything is decided after
	// the soft timeout
	classes := []string{"early", "early", "early", "early", "early", "mid", "mid", "late", "same", "same"}
	if between(t, "allSlow", 0, 5) == 0 {
		classes = []string{"mid", "mid", "mid", "mid", "late", "same"}
	}
	kinds := []string{"value", "value", "value", "value", "value", "value", "error", "error", "hang"}
	if len(info.Invalid) > 0 {
		kinds = append(kinds, "invalid", "invalid")
	}
	for i := 0; i < n; i++ {
		nd := Node{Kind: choose(t, "kind", kinds)}
		switch nd.Kind {
		case "value":
			nd.Val = between(t, "val", 0, poolN-1)
		case "invalid":
			nd.Val = between(t, "val", 0, poolN-1)
			nd.Inv = choose(t, "inv", info.Invalid)
		case "error":
			nd.Err = choose(t, "err", []string{"plain", "plain", "api404", "api503", "api500"})
		}
		if nd.Kind != "hang" {
			class := choose(t, "class", classes)
			if class == "same" {
				var prev []int
				for j := 0; j < i; j++ {
					if nodes[j].Kind != "hang" {
						prev = append(prev, j)
					}
				}
				if len(prev) == 0 {
					class = classes[0]
				} else {
					j := choose(t, "sameAs", prev)
					nd.Class, nd.LatMs = nodes[j].Class, nodes[j].LatMs
				}
			}
			switch class {
			case "early":
				nd.Class, nd.LatMs = class, between(t, "early", 0, soft-marginMs)
			case "mid":
				nd.Class, nd.LatMs = class, between(t, "mid", soft+marginMs, hard-marginMs)
			case "late":
				nd.Class, nd.LatMs = class, between(t, "late", hard+marginMs, hard+marginMs+100)
			}
		}
		nd.IgnoreCtx = between(t, "ignoreCtx", 0, 3) == 0
		if info.Family == "prop" {
			nd.Client = choose(t, "client", []string{"", "teku", "lighthouse", "prysm", "a-client-name-of-forty-characters-012345"})
			if between(t, "clientFails", 0, 3) == 0 {
				nd.ClientErr = choose(t, "clientErr", []string{"plain", "api503"})
			}
		}
		nodes = append(nodes, nd)
	}
	return nodes
}

// uni draws an index in [0,n) that is uniform: rapid's own integer generators
// favour small values, which would distort the weights below.  The randomness
// still comes from rapid only (the draw is merely mixed).
func uni(t *rapid.T, label string, n int) int {
	// two draws: a single one is a small number (few bits) too often
	x := rapid.Uint64().Draw(t, label)
	x += 0x9e3779b97f4a7c15 * (rapid.Uint64().Draw(t, label) + 1)
	x ^= x >> 33
	x *= 0xff51afd7ed558ccd
	x ^= x >> 33
	x *= 0xc4ceb9fe1a85ec53
	x ^= x >> 33
	return int(x % uint64(n))
}

func choose[T any](t *rapid.T, label string, xs []T) T { return xs[uni(t, label, len(xs))] }

func between(t *rapid.T, label string, lo, hi int) int { return lo + uni(t, label, hi-lo+1) }

func genCase(t *rapid.T) Case {
	name := choose(t, "strategy", weightedNames)
	info := strategies[name]
	c := Case{Strategy: name, TimeoutMs: choose(t, "timeout", []int{1200, 1400})}
	hard := c.TimeoutMs
	soft := hard / 2
	n := choose(t, "n", []int{1, 2, 2, 3, 3, 3, 4, 4, 5, 5})
	poolN := between(t, "poolN", 1, 3)
	for i := 0; i < poolN; i++ {
		var v Value
		switch info.Family {
		case "att":
			v.A = choose(t, "sourceBack", []int64{1, 1, 2, 3})
			v.B = choose(t, "headDist", []int64{-1, 0, 0, 1, 2, 5, 31})
			v.Miss = v.B >= 0 && between(t, "cacheMiss", 0, 1) == 1
			// nodes that agree on the head but not on the source / target checkpoint
			if i > 0 && between(t, "sharesHead", 0, 1) == 1 {
				if h := between(t, "headOf", 0, i-1); c.Pool[h].D == 0 {
					v.D = int64(h + 1)
				}
			}
		case "agg":
			v.A = choose(t, "bits", []int64{1, 8, 64, 128, 128, 400, 512, 2048})
			if i > 0 && between(t, "nearPrevious", 0, 1) == 1 {
				// as complete as another aggregate but for one or two attesters
				prev := c.Pool[between(t, "nearTo", 0, i-1)]
				v.A = prev.A
				v.B = prev.B + choose(t, "delta", []int64{-2, -1, 1, 2})
				if v.B < 0 {
					v.B = 0
				}
				if v.B > v.A {
					v.B = v.A
				}
				break
			}
			switch between(t, "fill", 0, 3) {
			case 0:
				v.B = 0
			case 1:
				v.B = v.A
			case 2:
				v.B = v.A / 2
			default:
				v.B = int64(between(t, "set", int(0), int(v.A)))
			}
		case "prop":
			v.A = int64(between(t, "version", int(verAltair), int(verDeneb)))
			v.D = int64(between(t, "blinded", int(0), int(1)))
			v.CV = choose(t, "consensusValue", weiValues)
			v.EV = choose(t, "executionValue", weiValues)
			if between(t, "zeroValue", 0, 3) == 0 {
				v.CV, v.EV = "0", "0" // a node that does not report block values
			}
		case "sync":
			v.A = choose(t, "set", []int64{0, 0, 1, 1, 64, 127, 128, 128})
		case "root":
			v.A = choose(t, "rootDist", []int64{-1, 0, 0, 1, 1, 2, 40})
			v.Miss = v.A >= 0 && between(t, "cacheMiss", 0, 1) == 1
		}
		c.Pool = append(c.Pool, v)
	}
	c.Nodes = genNodes(t, info, n, poolN, soft, hard)
	calls := choose(t, "calls", []int{1, 1, 2, 2, 2, 3})
	for k := 1; k < calls; k++ {
		c.More = append(c.More, Step{
			GapMs: choose(t, "gap", []int{0, 0, 150, 500}),
			Nodes: genNodes(t, info, n, poolN, soft, hard),
		})
	}
	if info.Family == "prop" {
		c.Graffiti = choose(t, "graffiti", []string{"c07", "", "vouch {{CLIENT}}", "{{CLIENT}}", "{{CLIENT}}+{{CLIENT}} on a long graffiti"})
	}
	epoch0 := 8
	if info.Family == "att" {
		epoch0 = 4
	}
	c.Epoch0 = between(t, "epoch0", 1, epoch0) == 1
	if name == "attestationdata/majority" {
		c.Threshold = between(t, "threshold", 0, n)
	}
	return c
}

// ---------------------------------------------------------------------------
// Load detector: a goroutine that sleeps in short steps and remembers by how
// much each sleep overshot.  A case during which it overshot by more than
// perturbMs is not judged.

type canaryEvent struct {
	at   time.Time
	over time.Duration
}

var canary struct {
	once   sync.Once
	mu     sync.Mutex
	events []canaryEvent
}

func startCanary() {
	canary.once.Do(func() {
		go stallSampler()
		go func() {
			const step = 5 * time.Millisecond
			for {
				t := time.Now()
				time.Sleep(step)
				over := time.Since(t) - step
				if over > 15*time.Millisecond {
					canary.mu.Lock()
					canary.events = append(canary.events, canaryEvent{at: t, over: over})
					if len(canary.events) > 4096 {
						canary.events = append([]canaryEvent(nil), canary.events[2048:]...)
					}
					canary.mu.Unlock()
				}
			}
		}()
	})
}

// Second load detector: the kernel's per-thread run-queue wait times
// (/proc/self/task/*/schedstat).  The canary only sees delays of its own
// goroutine; a single OS thread that is kept off the CPU while it runs the
// strategy (or the goroutine that measures the return time) is invisible to it.
// A thread that spent at least 80 % of consecutive sampling intervals waiting
// for a CPU, for stallMs or longer, is recorded as a stall.

const stallMs = 60

type stallEvent struct{ from, to time.Time }

var stalls struct {
	mu         sync.Mutex
	events     []stallEvent
	lastSample time.Time
	working    bool // /proc is readable
}

func readRunDelays() map[string]uint64 {
	ents, err := os.ReadDir("/proc/self/task")
	if err != nil {
		return nil
	}
	m := make(map[string]uint64, len(ents))
	for _, e := range ents {
		b, err := os.ReadFile("/proc/self/task/" + e.Name() + "/schedstat")
		if err != nil {
			continue
		}
		f := strings.Fields(string(b))
		if len(f) < 2 {
			continue
		}
		if v, err := strconv.ParseUint(f[1], 10, 64); err == nil {
			m[e.Name()] = v
		}
	}
	return m
}

func stallSampler() {
	prev := readRunDelays()
	last := time.Now()
	streak := map[string]time.Time{} // thread -> start of its current starvation streak
	for {
		time.Sleep(20 * time.Millisecond)
		now := time.Now()
		cur := readRunDelays()
		interval := now.Sub(last)
		for tid, rd := range cur {
			p, ok := prev[tid]
			if !ok {
				continue
			}
			if float64(rd-p) >= 0.8*float64(interval) {
				if _, in := streak[tid]; !in {
					streak[tid] = last
				}
				if now.Sub(streak[tid]) >= stallMs*time.Millisecond {
					stalls.mu.Lock()
					stalls.events = append(stalls.events, stallEvent{streak[tid], now})
					if len(stalls.events) > 8192 {
						stalls.events = append([]stallEvent(nil), stalls.events[4096:]...)
					}
					stalls.mu.Unlock()
				}
			} else {
				delete(streak, tid)
			}
		}
		for tid := range streak {
			if _, ok := cur[tid]; !ok {
				delete(streak, tid)
			}
		}
		stalls.mu.Lock()
		stalls.lastSample, stalls.working = now, len(cur) > 0
		stalls.mu.Unlock()
		prev, last = cur, now
	}
}

// stalledDuring waits until the sampler has looked at the whole window (the
// sampler itself may be the thread that is kept waiting) and reports whether a
// stall overlaps it.
func stalledDuring(from, to time.Time) bool {
	for wait := 0; ; wait++ {
		stalls.mu.Lock()
		seen := stalls.lastSample.After(to)
		stalls.mu.Unlock()
		if seen {
			break
		}
		if wait > 600 {
			return true // sampler not running for 3 s: certainly not a quiet machine
		}
		time.Sleep(5 * time.Millisecond)
	}
	stalls.mu.Lock()
	defer stalls.mu.Unlock()
	for _, e := range stalls.events {
		if e.to.After(from) && e.from.Before(to) {
			return true
		}
	}
	return false
}

func canaryMaxMs(from, to time.Time) float64 {
	canary.mu.Lock()
	defer canary.mu.Unlock()
	var m time.Duration
	for _, e := range canary.events {
		if e.at.Add(e.over+10*time.Millisecond).After(from) && e.at.Before(to) && e.over > m {
			m = e.over
		}
	}
	return float64(m) / float64(time.Millisecond)
}

// ---------------------------------------------------------------------------
// Execution.

type observation struct {
	Returned bool
	RMs      float64
	Err      string
	Failed   bool // the call returned an error
	ID       ident
	Panic    string
	Nodes    []nodeObs
	CanaryMs float64
	Stuck    bool // node doubles did not finish (harness watchdog)
	Stalled  bool // an OS thread of this process was kept off the CPU during the case
	// TimerLateMs: how late a reference timer fired that sits next to the
	// strategy's own soft / hard timer
	TimerLateMs float64
}

// history is what was observed of a whole case: one observation per call.
type history struct {
	Harness string // non-empty: the harness could not execute the case
	Calls   []*observation
}

func run(c *Case) *history {
	startCanary()
	zerolog.SetGlobalLevel(zerolog.Disabled)
	h := &history{}
	steps := c.steps()
	if _, ok := strategies[c.Strategy]; !ok || len(c.Nodes) == 0 || len(c.Pool) == 0 || len(steps) > maxCalls {
		h.Harness = "malformed case"
		return h
	}
	for _, nodes := range steps {
		if len(nodes) != len(c.Nodes) {
			h.Harness = "malformed case: every call needs a script for every node"
			return h
		}
		for _, n := range nodes {
			if n.Val < 0 || n.Val >= len(c.Pool) {
				h.Harness = "malformed case: value index out of range"
				return h
			}
		}
	}
	w := &world{c: c, steps: steps, t0: make([]time.Time, len(steps)), obs: make([][]nodeObs, len(steps))}
	for k := range steps {
		w.obs[k] = make([]nodeObs, len(c.Nodes))
	}
	ctx, cancel := context.WithCancel(context.Background())
	defer cancel()
	call, err := build(ctx, w)
	if err != nil {
		h.Harness = "cannot construct " + c.Strategy + ": " + err.Error()
		return h
	}
	hard := time.Duration(c.TimeoutMs) * time.Millisecond
	type window struct{ from, to time.Time }
	var windows []window
	lastBegin := time.Now()
	for k := range steps {
		if k > 0 {
			time.Sleep(time.Duration(c.More[k-1].GapMs) * time.Millisecond)
		}
		o := &observation{}
		h.Calls = append(h.Calls, o)
		done := make(chan struct{})
		var refTimers [2]*time.Timer
		var refFired [2]atomic.Int64
		begin := time.Now()
		lastBegin = begin
		w.mu.Lock()
		w.t0[k] = begin
		w.mu.Unlock()
		w.cur.Store(int64(k))
		go func() {
			defer close(done)
			defer func() {
				if r := recover(); r != nil {
					o.Panic = fmt.Sprintf("%v\n%s", r, debug.Stack())
					o.RMs = w.sinceMs(k)
				}
			}()
			// reference timers, created by the goroutine (and so on the timer heap)
			// that creates the strategy's own soft and hard timers a moment later
			for j, due := range []time.Duration{hard / 2, hard} {
				j := j
				refTimers[j] = time.AfterFunc(due, func() { refFired[j].Store(int64(time.Since(begin))) })
			}
			id, err := call(ctx, k)
			o.RMs = w.sinceMs(k)
			o.Returned = true
			o.ID = id
			if err != nil {
				o.Failed, o.Err = true, err.Error()
			}
		}()
		hung := false
		select {
		case <-done:
		case <-time.After(hard + 3*time.Second):
			// the call under test did not return: that is a finding of the
			// property itself (bounded time), reported by the judge.
			o.RMs = math.Inf(1)
			hung = true
		}
		end := time.Now()
		windows = append(windows, window{begin, end})
		// by how much did a reference timer that was due before the return (or
		// is overdue now) fire late?
		for j, due := range []time.Duration{hard / 2, hard} {
			if hung || refTimers[j] == nil {
				continue
			}
			refTimers[j].Stop()
			fired := time.Duration(refFired[j].Load())
			dueMs := float64(due) / float64(time.Millisecond)
			switch {
			case fired > 0:
				o.TimerLateMs = math.Max(o.TimerLateMs, float64(fired-due)/float64(time.Millisecond))
			case o.RMs > dueMs:
				o.TimerLateMs = math.Max(o.TimerLateMs, o.RMs-dueMs)
			}
		}
		if hung || o.Panic != "" {
			break // the rest of the history is not executed
		}
	}
	// join the node doubles of all calls (they all terminate by themselves)
	ceiling := lastBegin.Add(hard + (giveUpAfterMs+2000)*time.Millisecond)
	grace := time.Now().Add(30 * time.Millisecond)
	stuck := false
	for {
		w.mu.Lock()
		called := 0
		for k := range h.Calls {
			for i := range w.obs[k] {
				if w.obs[k][i].Called {
					called++
				}
			}
		}
		w.mu.Unlock()
		if w.inflight.Load() == 0 && (called == len(h.Calls)*len(c.Nodes) || time.Now().After(grace)) {
			break
		}
		if time.Now().After(ceiling) {
			stuck = true
			break
		}
		time.Sleep(4 * time.Millisecond)
	}
	w.mu.Lock()
	for k, o := range h.Calls {
		o.Nodes = append([]nodeObs(nil), w.obs[k]...)
		o.Stuck = stuck
	}
	w.mu.Unlock()
	for k, o := range h.Calls {
		o.CanaryMs = canaryMaxMs(windows[k].from, windows[k].to)
		o.Stalled = stalledDuring(windows[k].from, windows[k].to)
	}
	return h
}

// ---------------------------------------------------------------------------
// Oracle.

// resp is what a node reports and when, as measured (or, for a node whose
// request was cancelled by the strategy before its scripted answer was due,
// as scripted: the strategy cancelling a request does not change what the node
// would have reported within the timeout).
type resp struct {
	i     int
	kind  string  // value | invalid | error | none
	val   int     // pool index (value)
	t     float64 // ms; +Inf: never
	given bool    // the double really delivered it (measured t)
}

type verdict struct {
	Sig       string
	Detail    string
	Perturbed bool
	Ambiguous bool
	Tie       bool
	Labels    []string
}

// refScore is the documented score of pool value i for the best / latest
// strategies, as an exact rational.
func refScore(c *Case, i int) *big.Rat {
	v := c.Pool[i]
	switch strategies[c.Strategy].Family {
	case "att":
		// source epoch + target epoch, plus the head proximity 1/(1+distance)
		// when the head slot is known
		// (for call k the requested slot is k slots after the first one)
		source := c.epoch() - v.A
		if source < 0 {
			source = 0
		}
		s := new(big.Rat).SetInt64(source + c.epoch())
		if d := headDist(c, i); d >= 0 {
			s.Add(s, big.NewRat(1, 1+d+int64(c.k)))
		}
		return s
	case "agg":
		return big.NewRat(v.B, v.A) // fraction of aggregation bits set
	case "prop":
		cv, ev := propValues(v)
		return new(big.Rat).SetInt(new(big.Int).Add(cv, ev)) // consensus + execution value
	case "sync":
		return big.NewRat(v.A, 1) // bits set
	case "root":
		d := headDist(c, i)
		if d < 0 {
			return new(big.Rat) // unknown root counts as slot 0
		}
		return big.NewRat(c.slot(0)-d, 1) // latest = highest slot
	}
	return new(big.Rat)
}

func responses(c *Case, o *observation) (rs []resp, perturbed bool) {
	for i, n := range c.Nodes {
		ob := o.Nodes[i]
		r := resp{i: i, kind: "none", val: -1, t: math.Inf(1)}
		scripted := n.Kind
		if scripted == "hang" {
			scripted = "none"
		}
		switch {
		case ob.Done && (ob.Outcome == "value" || ob.Outcome == "invalid" || ob.Outcome == "error"):
			r.kind, r.t, r.given = ob.Outcome, ob.AnsMs, true
			if math.Abs(ob.AnsMs-float64(n.LatMs)) > perturbMs {
				perturbed = true
			}
		case ob.Done && ob.Outcome == "gaveup":
			r.kind, r.t = "error", ob.AnsMs
		case ob.Done && ob.Outcome == "aborted":
			if scripted != "none" {
				r.kind, r.t = scripted, math.Max(float64(n.LatMs), ob.AnsMs)
				if ob.AnsMs > float64(n.LatMs)+perturbMs {
					perturbed = true // it should have answered before it was cancelled
				}
			}
		default:
			// never called, or still running when the harness gave up
			if scripted != "none" {
				r.kind, r.t = scripted, float64(n.LatMs)
			}
		}
		if r.kind == "value" {
			r.val = n.Val
		}
		rs = append(rs, r)
	}
	return rs, perturbed
}

func judge(c *Case, o *observation) verdict {
	var v verdict
	info := strategies[c.Strategy]
	H := float64(c.TimeoutMs)
	S := H / 2
	n := len(c.Nodes)
	rs, perturbed := responses(c, o)
	v.Perturbed = perturbed || o.CanaryMs > perturbMs || o.Stuck || o.Stalled || o.TimerLateMs > perturbMs
	fail := func(sig, format string, args ...any) verdict {
		if v.Sig == "" {
			v.Sig = c.Strategy + ":" + sig
			v.Detail = fmt.Sprintf(format, args...) + "\n" + describe(c, o)
		}
		return v
	}

	if o.Panic != "" {
		return fail("panic", "the call panicked: %s", firstLines(o.Panic, 12))
	}
	R := o.RMs
	// --- all strategies: bounded time ---------------------------------------
	if R > H+guardMs {
		return fail("return-after-timeout", "returned after %.0f ms, configured timeout %.0f ms", R, H)
	}

	// --- all strategies: what is returned was really given, and is valid -----
	X := -1
	if !o.Failed {
		switch {
		case o.ID.Nil:
			return fail("missing-data-returned", "success without data")
		case o.ID.Invalid != "":
			return fail("invalid-returned:"+o.ID.Invalid, "a response failing the validity rule %q was returned", o.ID.Invalid)
		case o.ID.Tag < 0 || o.ID.Tag >= len(c.Pool):
			return fail("unknown-value-returned", "returned value (tag %d) is none of the values any node delivers", o.ID.Tag)
		}
		if o.ID.Call != c.k {
			return fail("answer-to-another-request-returned", "the returned value (tag %d) was delivered in answer to request %d of the history, not to this one (%d)", o.ID.Tag, o.ID.Call, c.k)
		}
		X = o.ID.Tag
		ok := false
		for _, r := range rs {
			if r.given && r.kind == "value" && r.val == X && r.t <= R+causalEpsMs {
				ok = true
			}
		}
		if !ok {
			return fail("value-not-given-before-return", "value %d was returned at %.0f ms but no node had delivered it by then", X, R)
		}
	}

	validInTimeDefinitely := 0 // valid responses that arrived before hard - g
	validInTimePossibly := 0   // ... before hard + g
	for _, r := range rs {
		if r.kind == "value" && r.t <= H-guardMs {
			validInTimeDefinitely++
		}
		if r.kind == "value" && r.t <= H+guardMs {
			validInTimePossibly++
		}
	}
	if validInTimeDefinitely != validInTimePossibly {
		v.Ambiguous = true
	}

	switch info.Style {
	case "best", "latest":
		// Reference (docs/configuration.md, beaconblockproposal timeout): the
		// strategy returns the best response as soon as all nodes have
		// answered; half-way through the timeout it returns the best so far if
		// there is one; otherwise it waits for the rest until the timeout.
		// Every measured instant may be read up to g earlier or later relative
		// to the strategy's timers: the acceptable set is the union over all
		// such readings.
		okVal := map[int]bool{}
		errOK := false
		dMax := 0.0
		dDistinct := map[string]bool{}
		for mask := 0; mask < 1<<n; mask++ {
			p := make([]float64, n)
			tAll := 0.0
			for i, r := range rs {
				p[i] = r.t - guardMs
				if mask&(1<<i) != 0 {
					p[i] = r.t + guardMs
				}
				tAll = math.Max(tAll, p[i])
			}
			validBySoft := false
			for i, r := range rs {
				if r.kind == "value" && p[i] <= S {
					validBySoft = true
				}
			}
			var d float64
			var phase string
			switch {
			case tAll <= S:
				d, phase = tAll, "all"
			case validBySoft:
				d, phase = S, "soft"
			default:
				d, phase = math.Min(tAll, H), "rest"
			}
			dMax = math.Max(dMax, d)
			var best *big.Rat
			var set []int
			for i, r := range rs {
				if r.kind == "value" && p[i] <= d {
					set = append(set, i)
					if sc := refScore(c, r.val); best == nil || sc.Cmp(best) > 0 {
						best = sc
					}
				}
			}
			key := phase
			if len(set) == 0 {
				errOK = true
				key += "/error"
			}
			winners := map[int]bool{}
			for _, i := range set {
				if asGood(refScore(c, rs[i].val), best) {
					okVal[rs[i].val] = true
					winners[rs[i].val] = true
				}
			}
			if len(winners) > 1 {
				v.Tie = true
			}
			key += fmt.Sprint(sortedKeys(winners))
			dDistinct[key] = true
		}
		if len(dDistinct) > 1 {
			v.Ambiguous = true
		}
		if o.Failed {
			if !errOK {
				return fail("error-although-valid-response-in-time", "returned error %q although a valid response arrived before its decision point", o.Err)
			}
		} else if !okVal[X] {
			what := "best-not-highest-score"
			if info.Style == "latest" {
				what = "latest-not-highest-slot"
			}
			return fail(what, "returned value %d (score %s); acceptable: %v", X, refScore(c, X).RatString(), scoresOf(c, okVal))
		}
		if R > dMax+guardMs {
			return fail("late-return", "returned after %.0f ms but its decision point was at %.0f ms (soft %.0f, hard %.0f)", R, dMax, S, H)
		}

	case "majority":
		thr := 1
		if c.Strategy == "attestationdata/majority" && c.Threshold > 1 {
			thr = c.Threshold
		}
		count := func(val int, by float64) int {
			k := 0
			for _, r := range rs {
				if r.kind == "value" && r.val == val && r.t <= by {
					k++
				}
			}
			return k
		}
		maxDefinite, maxVal := 0, -1
		for val := range c.Pool {
			if k := count(val, H-guardMs); k > maxDefinite {
				maxDefinite, maxVal = k, val
			}
		}
		if o.Failed {
			// an error is right only if it is possible that no value reached
			// the threshold within the timeout
			if maxDefinite >= thr {
				sig := "error-although-threshold-met"
				if c.Strategy == "attestationdata/majority" && c.Threshold > n/2+1 && R < H-guardMs {
					sig = "error-although-threshold-met:threshold-above-half-plus-one"
				}
				return fail(sig, "returned error %q after %.0f ms although value %d was reported by %d nodes within the timeout (threshold %d)", o.Err, R, maxVal, maxDefinite, thr)
			}
			break
		}
		if c.Strategy == "attestationdata/majority" {
			// the statement is about what was reported within the timeout
			if k := count(X, H+guardMs); k < thr {
				return fail("majority-below-threshold-returned", "value %d was returned but only %d nodes reported it (threshold %d)", X, k, thr)
			}
			for val := range c.Pool {
				if val != X && count(val, H-guardMs) > count(X, H+guardMs) {
					return fail("majority-not-most-frequent", "value %d (reported by %d) returned, value %d was reported by %d", X, count(X, H+guardMs), val, count(val, H-guardMs))
				}
				if val != X && count(val, H+guardMs) >= count(X, H-guardMs) {
					v.Tie = true
				}
			}
			break
		}
		// beaconblockroot/majority: "most frequently reported", and it may
		// decide early when it has enough information (docs): when all nodes
		// have answered, when a value has an absolute majority, half-way
		// through the timeout if it has a response, or at the timeout.  X must
		// be most frequent at one of these decision points not later than R.
		type cut struct {
			at    float64
			timer bool
		}
		var cuts []cut
		tAll := 0.0
		for _, r := range rs {
			tAll = math.Max(tAll, r.t)
		}
		if !math.IsInf(tAll, 1) {
			cuts = append(cuts, cut{tAll, false})
		}
		var vals []resp
		for _, r := range rs {
			if r.kind == "value" {
				vals = append(vals, r)
			}
		}
		sort.SliceStable(vals, func(a, b int) bool { return vals[a].t < vals[b].t })
		seen := map[int]int{}
		for _, r := range vals {
			seen[r.val]++
			if seen[r.val] >= n/2+1 {
				cuts = append(cuts, cut{r.t, false})
				break
			}
		}
		cuts = append(cuts, cut{S, true}, cut{H, true})
		acceptable := map[int]bool{}
		tied := map[int]bool{} // most frequent, before the tie-break
		consider := func(at float64, timer bool) {
			// values seen by the cut; for timer cuts each instant within g of
			// the cut may be on either side
			var sure, maybe []resp
			for _, r := range vals {
				switch {
				case !timer && r.t <= at:
					sure = append(sure, r)
				case timer && r.t <= at-guardMs:
					sure = append(sure, r)
				case timer && r.t <= at+guardMs:
					maybe = append(maybe, r)
				}
			}
			for mask := 0; mask < 1<<len(maybe); mask++ {
				cnt := map[int]int{}
				for _, r := range sure {
					cnt[r.val]++
				}
				for k, r := range maybe {
					if mask&(1<<k) != 0 {
						cnt[r.val]++
					}
				}
				top := 0
				for _, k := range cnt {
					if k > top {
						top = k
					}
				}
				// ties: the latest, i.e. the root with the greatest slot (an
				// unknown root counts as slot 0); equal slots either way
				var latest *big.Rat
				w := 0
				for val, k := range cnt {
					if k == top {
						tied[val] = true
						w++
						if sc := refScore(c, val); latest == nil || sc.Cmp(latest) > 0 {
							latest = sc
						}
					}
				}
				for val, k := range cnt {
					if k == top && refScore(c, val).Cmp(latest) == 0 {
						acceptable[val] = true
					}
				}
				if w > 1 {
					v.Tie = true
				}
			}
		}
		any := false
		for _, ct := range cuts {
			if ct.at-causalEpsMs-5 <= R {
				consider(ct.at, ct.timer)
				any = true
			}
		}
		if !any {
			// returned before any documented decision point: judged against
			// everything reported within the timeout
			consider(H, true)
		}
		if !acceptable[X] && tied[X] {
			// docs/configuration.md: "the one returned by most nodes (taking the latest in case of a tie)"
			return fail("majority-tie-not-latest", "value %d (slot %s) returned after %.0f ms; it is tied for the most reports, but the tie goes to the latest root: %v", X, refScore(c, X).RatString(), R, scoresOf(c, acceptable))
		}
		if !acceptable[X] {
			return fail("majority-not-most-frequent", "value %d returned after %.0f ms; most frequent at its possible decision points: %v", X, R, sortedKeys(acceptable))
		}

	case "first":
		earliest := math.Inf(1)
		for _, r := range rs {
			if (r.kind == "value" || r.kind == "invalid") && r.t < earliest {
				earliest = r.t
			}
		}
		if o.Failed && earliest <= H-guardMs {
			return fail("error-although-response-in-time", "returned error %q after %.0f ms although a node answered after %.0f ms", o.Err, R, earliest)
		}
		if R > math.Min(earliest, H)+guardMs {
			return fail("late-return", "returned after %.0f ms although the first response arrived after %.0f ms", R, earliest)
		}
		if math.Abs(earliest-H) < guardMs {
			v.Ambiguous = true
		}
	}
	return v
}

// asGood reports whether score a counts as equal to the best score b (a <= b).
// Scores are compared exactly, except above 2^53 (proposal values in wei),
// where the statement's "highest-scoring" cannot be meant more finely than a
// float64 resolves: there a relative gap below 1e-9 is a tie.
func asGood(a, b *big.Rat) bool {
	if a.Cmp(b) >= 0 {
		return true
	}
	if b.Cmp(new(big.Rat).SetInt(new(big.Int).Lsh(big.NewInt(1), 53))) < 0 {
		return false
	}
	gap := new(big.Rat).Sub(b, a)
	return gap.Cmp(new(big.Rat).Mul(b, big.NewRat(1, 1000000000))) < 0
}

func sortedKeys(m map[int]bool) []int {
	var r []int
	for k := range m {
		r = append(r, k)
	}
	sort.Ints(r)
	return r
}

func scoresOf(c *Case, m map[int]bool) string {
	var parts []string
	for _, k := range sortedKeys(m) {
		parts = append(parts, fmt.Sprintf("value %d (score %s)", k, refScore(c, k).RatString()))
	}
	if len(parts) == 0 {
		return "none (an error)"
	}
	return strings.Join(parts, ", ")
}

func firstLines(s string, n int) string {
	l := strings.Split(s, "\n")
	if len(l) > n {
		l = l[:n]
	}
	return strings.Join(l, "\n")
}

func describe(c *Case, o *observation) string {
	var b strings.Builder
	fmt.Fprintf(&b, "  call %d: strategy %s timeout %d ms threshold %d; returned after %.0f ms: ", c.k, c.Strategy, c.TimeoutMs, c.Threshold, o.RMs)
	if o.Failed {
		fmt.Fprintf(&b, "error %q\n", o.Err)
	} else {
		fmt.Fprintf(&b, "value tag %d (answer to request %d) invalid=%q nil=%v\n", o.ID.Tag, o.ID.Call, o.ID.Invalid, o.ID.Nil)
	}
	for i, n := range c.Nodes {
		var ob nodeObs
		if i < len(o.Nodes) {
			ob = o.Nodes[i]
		}
		fmt.Fprintf(&b, "  node %d: scripted %s val=%d inv=%q err=%q lat=%d ignore_ctx=%v -> %s at %.0f ms\n", i, n.Kind, n.Val, n.Inv, n.Err, n.LatMs, n.IgnoreCtx, ob.Outcome, ob.AnsMs)
	}
	pj, _ := json.Marshal(c.Pool)
	fmt.Fprintf(&b, "  pool %s", pj)
	return b.String()
}

// ---------------------------------------------------------------------------
// Evidence.

func behaviour(n Node) string {
	return fmt.Sprintf("%s/%d/%s/%s/%s/%v", n.Kind, n.Val, n.Inv, n.Err, n.Class, n.IgnoreCtx)
}

// nontrivial: in at least one call of the history there are at least 2 nodes
// with at least 2 distinct behaviours and at least one node that is not an
// early valid/erroring one (mid, late, hanging or delivering an invalid value).
func nontrivial(c *Case) bool {
	if len(c.Nodes) < 2 {
		return false
	}
	for _, nodes := range c.steps() {
		distinct := map[string]bool{}
		interesting := false
		for _, n := range nodes {
			distinct[behaviour(n)] = true
			if n.Kind == "hang" || n.Kind == "invalid" || n.Class == "mid" || n.Class == "late" {
				interesting = true
			}
		}
		if len(distinct) >= 2 && interesting {
			return true
		}
	}
	return false
}

// labelsOf: labels of the history; the outcome:/returned: labels are added
// once per executed call (their counts are calls, not cases).
func labelsOf(c *Case, h *history, v *verdict) []string {
	steps := c.steps()
	l := []string{"strategy:" + c.Strategy, "style:" + strategies[c.Strategy].Style, fmt.Sprintf("nodes:%d", len(c.Nodes)), fmt.Sprintf("calls:%d", len(steps))}
	has := map[string]bool{}
	for k, nodes := range steps {
		lat := map[int]int{}
		scoreZero := false
		for _, n := range nodes {
			has["node-"+n.Kind] = true
			if n.Class != "" {
				has["node-"+n.Class] = true
			}
			if n.IgnoreCtx && (n.Kind == "hang" || n.Class == "mid" || n.Class == "late") {
				has["node-ignores-context"] = true
			}
			if n.Kind != "hang" {
				lat[n.LatMs]++
				if lat[n.LatMs] == 2 {
					has["simultaneous-answers"] = true
				}
			}
			if n.ClientErr != "" && strings.Contains(c.Graffiti, "{{CLIENT}}") {
				has["client-name-request-fails"] = true
			}
			if n.Kind == "value" && n.Class == "mid" {
				if st := strategies[c.Strategy].Style; (st == "best" || st == "latest") && refScore(c.view(k), n.Val).Sign() == 0 {
					scoreZero = true
				}
			}
		}
		if scoreZero {
			has["score-zero-value-between-soft-and-hard"] = true
		}
		// answers of this call that arrive after it has returned while another call follows
		if k < len(h.Calls) && k+1 < len(steps) {
			for _, ob := range h.Calls[k].Nodes {
				if ob.Done && ob.AnsMs > h.Calls[k].RMs {
					has["answers-carried-into-next-call"] = true
				}
			}
		}
	}
	for k := range has {
		l = append(l, k)
	}
	if c.Epoch0 {
		l = append(l, "epoch-0")
	}
	if strings.Contains(c.Graffiti, "{{CLIENT}}") {
		l = append(l, "graffiti-with-client-template")
	}
	for i := range c.Pool {
		if headOf(c, i) != i {
			l = append(l, "values-sharing-a-head-root")
			break
		}
	}
	for _, p := range c.Pool {
		if p.Miss {
			l = append(l, "slot-not-in-cache-memory")
			break
		}
	}
	H := float64(c.TimeoutMs)
	for _, o := range h.Calls {
		if o.Failed {
			l = append(l, "outcome:error")
		} else {
			l = append(l, "outcome:value")
		}
		switch {
		case o.RMs < H/2-guardMs:
			l = append(l, "returned:before-soft")
		case o.RMs < H/2+guardMs:
			l = append(l, "returned:at-soft")
		case o.RMs < H-guardMs:
			l = append(l, "returned:between-soft-and-hard")
		default:
			l = append(l, "returned:at-hard")
		}
	}
	if c.Strategy == "attestationdata/majority" {
		switch {
		case c.Threshold > len(c.Nodes)/2+1:
			l = append(l, "threshold:above-half-plus-one")
		case c.Threshold == len(c.Nodes)/2+1:
			l = append(l, "threshold:half-plus-one")
		default:
			l = append(l, "threshold:below-half-plus-one")
		}
	}
	if v.Tie {
		l = append(l, "tie")
	}
	if v.Ambiguous {
		l = append(l, "ambiguous")
	}
	if v.Perturbed {
		l = append(l, "perturbed")
	}
	sort.Strings(l)
	return l
}

// ---------------------------------------------------------------------------
// Running, confirming, minimising, reporting.

type outcome struct {
	o *history
	v verdict
}

// runAndJudge executes the history and judges every executed call with the
// per-call oracle; the verdict of the history is that of the first call that
// disagrees.  If the machine did not keep time during any of the calls the
// whole history counts as perturbed (state carries over between the calls).
func runAndJudge(c *Case) outcome {
	h := run(c)
	if h.Harness != "" {
		return outcome{o: h}
	}
	var v verdict
	for k, o := range h.Calls {
		vk := judge(c.view(k), o)
		if v.Sig == "" && vk.Sig != "" {
			v.Sig, v.Detail = vk.Sig, fmt.Sprintf("call %d of %d: %s", k, len(c.steps()), vk.Detail)
		}
		v.Perturbed = v.Perturbed || vk.Perturbed
		v.Ambiguous = v.Ambiguous || vk.Ambiguous
		v.Tie = v.Tie || vk.Tie
	}
	return outcome{o: h, v: v}
}

func runBatch(cs []Case) []outcome {
	res := make([]outcome, len(cs))
	var wg sync.WaitGroup
	for k := range cs {
		wg.Add(1)
		go func(k int) {
			defer wg.Done()
			res[k] = runAndJudge(&cs[k])
		}(k)
	}
	wg.Wait()
	return res
}

// confirmed re-executes the case: a disagreement that depends on real time is
// believed only when it shows again, with the same signature, in at least
// three of up to nine further unperturbed executions (a defect may depend on
// map iteration order, so an execution without a disagreement does not veto;
// three chance disagreements with one signature among nine do not happen).
func confirmed(c *Case, sig string) bool {
	okRuns := 0
	for round := 0; round < 3 && okRuns < 3; round++ {
		// the executions of a round run concurrently (they are sleep-bound)
		for _, r := range runBatch([]Case{*c, *c, *c}) {
			if r.o.Harness != "" {
				return false
			}
			if !r.v.Perturbed && r.v.Sig == sig {
				okRuns++
			}
		}
	}
	return okRuns >= 3
}

func clone(c *Case) Case {
	d := *c
	d.Pool = append([]Value(nil), c.Pool...)
	d.Nodes = append([]Node(nil), c.Nodes...)
	d.More = nil
	for _, s := range c.More {
		d.More = append(d.More, Step{GapMs: s.GapMs, Nodes: append([]Node(nil), s.Nodes...)})
	}
	return d
}

// stepNodes gives the node scripts of call k of d for modification.
func stepNodes(d *Case, k int) []Node {
	if k == 0 {
		return d.Nodes
	}
	return d.More[k-1].Nodes
}

// simpler lists one-step simplifications of a failing case (deterministic).
func simpler(c *Case) []Case {
	var r []Case
	hard := c.TimeoutMs
	// fewer calls
	if len(c.More) > 0 {
		d := clone(c)
		d.More = d.More[:len(d.More)-1]
		r = append(r, d)
		d = clone(c)
		d.Nodes, d.More = d.More[0].Nodes, d.More[1:]
		r = append(r, d)
	}
	// fewer nodes (a node is a provider: removed from every call)
	for i := range c.Nodes {
		if len(c.Nodes) > 1 {
			d := clone(c)
			d.Nodes = append(d.Nodes[:i:i], d.Nodes[i+1:]...)
			for j := range d.More {
				d.More[j].Nodes = append(d.More[j].Nodes[:i:i], d.More[j].Nodes[i+1:]...)
			}
			if d.Threshold > len(d.Nodes) {
				d.Threshold = len(d.Nodes)
			}
			r = append(r, d)
		}
	}
	if c.Threshold > 0 {
		d := clone(c)
		d.Threshold--
		r = append(r, d)
	}
	if c.Epoch0 {
		d := clone(c)
		d.Epoch0 = false
		r = append(r, d)
	}
	if c.Graffiti != "" {
		d := clone(c)
		d.Graffiti = ""
		r = append(r, d)
	}
	for j, s := range c.More {
		if s.GapMs > 0 {
			d := clone(c)
			d.More[j].GapMs = 0
			r = append(r, d)
		}
	}
	for k, nodes := range c.steps() {
		for i, n := range nodes {
			if n.IgnoreCtx {
				d := clone(c)
				stepNodes(&d, k)[i].IgnoreCtx = false
				r = append(r, d)
			}
			if n.ClientErr != "" || n.Client != "" {
				d := clone(c)
				stepNodes(&d, k)[i].ClientErr, stepNodes(&d, k)[i].Client = "", ""
				r = append(r, d)
			}
			if n.Kind == "invalid" || n.Kind == "hang" {
				d := clone(c)
				stepNodes(&d, k)[i] = Node{Kind: "error", Err: "plain", Class: "early", LatMs: 0}
				r = append(r, d)
			}
			if n.Kind == "error" && n.Err != "plain" {
				d := clone(c)
				stepNodes(&d, k)[i].Err = "plain"
				r = append(r, d)
			}
			if n.Val > 0 {
				d := clone(c)
				stepNodes(&d, k)[i].Val = 0
				r = append(r, d)
			}
			floor := 0
			switch n.Class {
			case "mid":
				floor = hard/2 + marginMs
			case "late":
				floor = hard + marginMs
			}
			if n.Kind != "hang" && n.LatMs > floor {
				d := clone(c)
				stepNodes(&d, k)[i].LatMs = floor
				r = append(r, d)
			}
			if n.Kind != "hang" && n.Class != "early" && n.Class != "" {
				d := clone(c)
				stepNodes(&d, k)[i].Class, stepNodes(&d, k)[i].LatMs = "early", 0
				r = append(r, d)
			}
		}
	}
	if len(c.Pool) > 1 {
		used := 0
		for _, nodes := range c.steps() {
			for _, n := range nodes {
				if n.Val > used {
					used = n.Val
				}
			}
		}
		if used+1 < len(c.Pool) {
			d := clone(c)
			d.Pool = d.Pool[:used+1]
			r = append(r, d)
		}
	}
	for k, p := range c.Pool {
		if p != (Value{A: p.A}) && strategies[c.Strategy].Family != "agg" {
			d := clone(c)
			d.Pool[k] = Value{A: p.A}
			r = append(r, d)
		}
	}
	return r
}

func minimise(c *Case, sig string) Case {
	cur := clone(c)
	deadline := time.Now().Add(12 * time.Second)
	for round := 0; round < 25 && time.Now().Before(deadline); round++ {
		cands := simpler(&cur)
		if len(cands) == 0 {
			break
		}
		// every candidate is executed twice (the candidates of a round run
		// concurrently); it is taken when both executions show the signature
		first := runBatch(cands)
		if time.Now().After(deadline) {
			break
		}
		second := runBatch(cands)
		same := func(r outcome) bool { return r.o.Harness == "" && !r.v.Perturbed && r.v.Sig == sig }
		next := -1
		for k := range cands {
			if same(first[k]) && same(second[k]) {
				next = k
				break
			}
		}
		if next < 0 {
			break
		}
		cur = cands[next]
	}
	return cur
}

type minimalCase struct {
	c      Case
	detail string
}

var minimal = map[string]minimalCase{} // only used on the test goroutine

// report records the evidence of one executed case and raises the violation,
// if any.  It must run on the goroutine of the test.
func report(t ev.TB, c *Case, r outcome) {
	if r.o.Harness != "" {
		t.Fatalf("harness problem: %s", r.o.Harness)
		return
	}
	nt := nontrivial(c)
	ev.Case(nt, ev.Hash(c), labelsOf(c, r.o, &r.v)...)
	if nt {
		ev.Sample(c)
	}
	if r.v.Perturbed {
		// the machine did not keep time during this case: not judged
		if r.v.Sig != "" {
			ev.Label("perturbed-disagreement-not-judged")
		}
		return
	}
	if r.v.Sig == "" {
		return
	}
	if ev.IsKnown(r.v.Sig) {
		// a listed open finding: counted (Violation returns false), and only
		// this exact signature is passed over
		ev.Violation(t, r.v.Sig, c, "%s", r.v.Detail)
		return
	}
	if !confirmed(c, r.v.Sig) {
		ev.Label("disagreement-not-reproduced")
		ev.Inconclusive("not reproduced: " + r.v.Sig + " " + firstLines(r.v.Detail, 1))
		return
	}
	if ev.ReplayFile() != "" {
		ev.Violation(t, r.v.Sig, c, "%s", r.v.Detail)
		return
	}
	// minimise once per signature and process (rapid executes the property
	// again after a failure; the minimal case found first is reported again)
	if prev, ok := minimal[r.v.Sig]; ok {
		ev.Violation(t, r.v.Sig, &prev.c, "%s", prev.detail)
		return
	}
	m := minimise(c, r.v.Sig)
	detail := r.v.Detail
	if mr := runAndJudge(&m); mr.o.Harness == "" && mr.v.Sig == r.v.Sig {
		detail = mr.v.Detail
	} else {
		m = *c
	}
	minimal[r.v.Sig] = minimalCase{m, detail}
	ev.Violation(t, r.v.Sig, &m, "%s", detail)
}

func check(t ev.TB, c *Case) {
	report(t, c, runAndJudge(c))
}

// TestStrategies: each rapid iteration draws a batch of cases and executes
// them concurrently (the cases are sleep-bound).
func TestStrategies(t *testing.T) {
	rapid.Check(t, func(t *rapid.T) {
		// After a reported violation rapid executes the property again to
		// shrink its own input; the minimal case is already saved as JSON, so
		// these executions fail at once with the same report.
		for sig, m := range minimal {
			ev.Violation(t, sig, &m.c, "%s", m.detail)
		}
		batch := make([]Case, batchSize)
		for k := range batch {
			batch[k] = genCase(t)
		}
		res := runBatch(batch)
		// cases during which the machine did not keep time are executed again
		// (twice at most) before they are given up as perturbed
		for retry := 0; retry < 2; retry++ {
			var idx []int
			var again []Case
			for k := range batch {
				if res[k].o.Harness == "" && res[k].v.Perturbed {
					idx = append(idx, k)
					again = append(again, batch[k])
				}
			}
			if len(idx) == 0 {
				break
			}
			ev.LabelN("perturbed-executed-again", int64(len(idx)))
			for j, r := range runBatch(again) {
				res[idx[j]] = r
			}
		}
		for k := range batch {
			report(t, &batch[k], res[k])
		}
	})
}

// TestReplay re-executes a saved case without the property library.
func TestReplay(t *testing.T) {
	f := ev.ReplayFile()
	if f == "" {
		t.Skip("no replay file")
	}
	var c Case
	if _, err := ev.LoadCase(f, &c); err != nil {
		t.Fatalf("cannot load %s: %v", f, err)
	}
	for try := 0; try < 4; try++ {
		r := runAndJudge(&c)
		if r.o.Harness == "" && r.v.Perturbed && try < 3 {
			continue // machine did not keep time: execute again
		}
		report(t, &c, r)
		break
	}
	ev.ReplayPassed()
}
