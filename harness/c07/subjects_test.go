package c07

// Construction and invocation of the 14 real strategy services (the 17 anchored
// files: 14 services plus the 3 score files of the best strategies).

import (
	"context"
	"fmt"
	"time"

	consensusclient "github.com/attestantio/go-eth2-client"
	"github.com/attestantio/go-eth2-client/api"
	"github.com/attestantio/go-eth2-client/spec/phase0"
	aggbest "github.com/attestantio/vouch/strategies/aggregateattestation/best"
	aggfirst "github.com/attestantio/vouch/strategies/aggregateattestation/first"
	attbest "github.com/attestantio/vouch/strategies/attestationdata/best"
	attfirst "github.com/attestantio/vouch/strategies/attestationdata/first"
	attmajority "github.com/attestantio/vouch/strategies/attestationdata/majority"
	headerfirst "github.com/attestantio/vouch/strategies/beaconblockheader/first"
	propbest "github.com/attestantio/vouch/strategies/beaconblockproposal/best"
	propfirst "github.com/attestantio/vouch/strategies/beaconblockproposal/first"
	rootfirst "github.com/attestantio/vouch/strategies/beaconblockroot/first"
	rootlatest "github.com/attestantio/vouch/strategies/beaconblockroot/latest"
	rootmajority "github.com/attestantio/vouch/strategies/beaconblockroot/majority"
	blockfirst "github.com/attestantio/vouch/strategies/signedbeaconblock/first"
	syncbest "github.com/attestantio/vouch/strategies/synccommitteecontribution/best"
	syncfirst "github.com/attestantio/vouch/strategies/synccommitteecontribution/first"
	"github.com/rs/zerolog"

	"verifharness/internal/fakes"
)

// stratInfo describes a strategy from the outside.
type stratInfo struct {
	Family string // att | agg | prop | sync | root | header | block
	Style  string // best | latest | majority | first
	// Invalid lists the validity rules the strategy claims to apply (the ones
	// named in the property statement); empty when it claims none.
	Invalid []string
	Weight  int
}

var strategies = map[string]stratInfo{
	"attestationdata/best":            {"att", "best", []string{"target+1", "target-1", "target-far", "stale-epoch", "stale-epoch", "stale-far", "ahead-epoch", "nil-target", "nil-data"}, 4},
	"attestationdata/majority":        {"att", "majority", []string{"target+1", "target-1", "target-far", "stale-epoch", "stale-epoch", "stale-far", "ahead-epoch", "nil-target", "nil-data"}, 6},
	"attestationdata/first":           {"att", "first", nil, 1},
	"aggregateattestation/best":       {"agg", "best", []string{"nil-data"}, 3},
	"aggregateattestation/first":      {"agg", "first", nil, 1},
	"beaconblockproposal/best":        {"prop", "best", []string{"zero-fee", "no-block"}, 4},
	"beaconblockproposal/first":       {"prop", "first", nil, 1},
	"synccommitteecontribution/best":  {"sync", "best", []string{"nil-data"}, 3},
	"synccommitteecontribution/first": {"sync", "first", nil, 1},
	"beaconblockroot/first":           {"root", "first", nil, 1},
	"beaconblockroot/latest":          {"root", "latest", nil, 3},
	"beaconblockroot/majority":        {"root", "majority", nil, 4},
	"beaconblockheader/first":         {"header", "first", nil, 1},
	"signedbeaconblock/first":         {"block", "first", nil, 1},
}

// strategyNames in a fixed order (no map iteration in generation).
var strategyNames = []string{
	"attestationdata/best", "attestationdata/majority", "attestationdata/first",
	"aggregateattestation/best", "aggregateattestation/first",
	"beaconblockproposal/best", "beaconblockproposal/first",
	"synccommitteecontribution/best", "synccommitteecontribution/first",
	"beaconblockroot/first", "beaconblockroot/latest", "beaconblockroot/majority",
	"beaconblockheader/first", "signedbeaconblock/first",
}

func nodeName(i int) string { return fmt.Sprintf("node-%d", i) }

// build constructs the strategy of the case around the node doubles of w and
// returns a function that performs the call under test and identifies what
// came back.
func build(ctx context.Context, w *world) (func(context.Context, int) (ident, error), error) {
	c := w.c
	timeout := time.Duration(c.TimeoutMs) * time.Millisecond
	clock := fakes.NewVClock(time.Unix(1600000000, 0), 12*time.Second, slotsPerEpoch)
	clock.SetSlot(uint64(c.slot(0)), 4*time.Second)
	cache := &cacheDouble{c: c}
	n := len(c.Nodes)
	mk := func(i int) node { return node{w: w, i: i} }

	switch c.Strategy {
	case "attestationdata/best", "attestationdata/majority", "attestationdata/first":
		provs := make(map[string]consensusclient.AttestationDataProvider, n)
		for i := 0; i < n; i++ {
			provs[nodeName(i)] = &attNode{mk(i)}
		}
		var svc consensusclient.AttestationDataProvider
		var err error
		switch c.Strategy {
		case "attestationdata/best":
			svc, err = attbest.New(ctx, attbest.WithLogLevel(zerolog.Disabled), attbest.WithTimeout(timeout),
				attbest.WithAttestationDataProviders(provs), attbest.WithChainTime(clock), attbest.WithBlockRootToSlotCache(cache))
		case "attestationdata/majority":
			svc, err = attmajority.New(ctx, attmajority.WithLogLevel(zerolog.Disabled), attmajority.WithTimeout(timeout),
				attmajority.WithAttestationDataProviders(provs), attmajority.WithChainTime(clock), attmajority.WithBlockRootToSlotCache(cache),
				attmajority.WithThreshold(c.Threshold))
		default:
			svc, err = attfirst.New(ctx, attfirst.WithLogLevel(zerolog.Disabled), attfirst.WithTimeout(timeout),
				attfirst.WithAttestationDataProviders(provs))
		}
		if err != nil {
			return nil, err
		}
		return func(ctx context.Context, k int) (ident, error) {
			r, err := svc.AttestationData(ctx, &api.AttestationDataOpts{Slot: phase0.Slot(c.slot(k)), CommitteeIndex: committeeIndex})
			if err != nil {
				return ident{}, err
			}
			if r == nil {
				return ident{Nil: true, Tag: -1, Call: -1}, nil
			}
			return c.identAtt(r.Data), nil
		}, nil

	case "aggregateattestation/best", "aggregateattestation/first":
		provs := make(map[string]consensusclient.AggregateAttestationProvider, n)
		for i := 0; i < n; i++ {
			provs[nodeName(i)] = &aggNode{mk(i)}
		}
		var svc consensusclient.AggregateAttestationProvider
		var err error
		if c.Strategy == "aggregateattestation/best" {
			svc, err = aggbest.New(ctx, aggbest.WithLogLevel(zerolog.Disabled), aggbest.WithTimeout(timeout), aggbest.WithAggregateAttestationProviders(provs))
		} else {
			svc, err = aggfirst.New(ctx, aggfirst.WithLogLevel(zerolog.Disabled), aggfirst.WithTimeout(timeout), aggfirst.WithAggregateAttestationProviders(provs))
		}
		if err != nil {
			return nil, err
		}
		return func(ctx context.Context, k int) (ident, error) {
			r, err := svc.AggregateAttestation(ctx, &api.AggregateAttestationOpts{Slot: phase0.Slot(c.slot(k)), AttestationDataRoot: phase0.Root{1}})
			if err != nil {
				return ident{}, err
			}
			if r == nil {
				return ident{Nil: true, Tag: -1, Call: -1}, nil
			}
			return c.identAgg(r.Data), nil
		}, nil

	case "synccommitteecontribution/best", "synccommitteecontribution/first":
		provs := make(map[string]consensusclient.SyncCommitteeContributionProvider, n)
		for i := 0; i < n; i++ {
			provs[nodeName(i)] = &syncNode{mk(i)}
		}
		var svc consensusclient.SyncCommitteeContributionProvider
		var err error
		if c.Strategy == "synccommitteecontribution/best" {
			svc, err = syncbest.New(ctx, syncbest.WithLogLevel(zerolog.Disabled), syncbest.WithTimeout(timeout), syncbest.WithSyncCommitteeContributionProviders(provs))
		} else {
			svc, err = syncfirst.New(ctx, syncfirst.WithLogLevel(zerolog.Disabled), syncfirst.WithTimeout(timeout), syncfirst.WithSyncCommitteeContributionProviders(provs))
		}
		if err != nil {
			return nil, err
		}
		return func(ctx context.Context, k int) (ident, error) {
			r, err := svc.SyncCommitteeContribution(ctx, &api.SyncCommitteeContributionOpts{Slot: phase0.Slot(c.slot(k)), SubcommitteeIndex: 2, BeaconBlockRoot: tagRoot(0x77, 0x03)})
			if err != nil {
				return ident{}, err
			}
			if r == nil {
				return ident{Nil: true, Tag: -1, Call: -1}, nil
			}
			return c.identContribution(r.Data), nil
		}, nil

	case "beaconblockproposal/best", "beaconblockproposal/first":
		provs := make(map[string]consensusclient.ProposalProvider, n)
		for i := 0; i < n; i++ {
			provs[nodeName(i)] = &propNode{mk(i)}
		}
		var svc consensusclient.ProposalProvider
		var err error
		if c.Strategy == "beaconblockproposal/best" {
			svc, err = propbest.New(ctx, propbest.WithLogLevel(zerolog.Disabled), propbest.WithTimeout(timeout), propbest.WithProposalProviders(provs),
				propbest.WithProcessConcurrency(2), propbest.WithEventsProvider(eventsDouble{}), propbest.WithChainTimeService(clock),
				propbest.WithSpecProvider(specDouble{}), propbest.WithSignedBeaconBlockProvider(noBlocks{}), propbest.WithBlockRootToSlotCache(cache))
		} else {
			svc, err = propfirst.New(ctx, propfirst.WithLogLevel(zerolog.Disabled), propfirst.WithTimeout(timeout), propfirst.WithProposalProviders(provs))
		}
		if err != nil {
			return nil, err
		}
		var graffiti [32]byte
		copy(graffiti[:], c.Graffiti)
		return func(ctx context.Context, k int) (ident, error) {
			r, err := svc.Proposal(ctx, &api.ProposalOpts{Slot: phase0.Slot(c.slot(k)), RandaoReveal: phase0.BLSSignature{1}, Graffiti: graffiti})
			if err != nil {
				return ident{}, err
			}
			if r == nil {
				return ident{Nil: true, Tag: -1, Call: -1}, nil
			}
			return c.identProposal(r.Data), nil
		}, nil

	case "beaconblockroot/first", "beaconblockroot/latest", "beaconblockroot/majority":
		provs := make(map[string]consensusclient.BeaconBlockRootProvider, n)
		for i := 0; i < n; i++ {
			provs[nodeName(i)] = &rootNode{mk(i)}
		}
		var svc consensusclient.BeaconBlockRootProvider
		var err error
		switch c.Strategy {
		case "beaconblockroot/first":
			svc, err = rootfirst.New(ctx, rootfirst.WithLogLevel(zerolog.Disabled), rootfirst.WithTimeout(timeout), rootfirst.WithBeaconBlockRootProviders(provs))
		case "beaconblockroot/latest":
			svc, err = rootlatest.New(ctx, rootlatest.WithLogLevel(zerolog.Disabled), rootlatest.WithTimeout(timeout), rootlatest.WithBeaconBlockRootProviders(provs),
				rootlatest.WithBlockRootToSlotCache(cache))
		default:
			svc, err = rootmajority.New(ctx, rootmajority.WithLogLevel(zerolog.Disabled), rootmajority.WithTimeout(timeout), rootmajority.WithBeaconBlockRootProviders(provs),
				rootmajority.WithBlockRootToSlotCache(cache))
		}
		if err != nil {
			return nil, err
		}
		return func(ctx context.Context, k int) (ident, error) {
			r, err := svc.BeaconBlockRoot(ctx, &api.BeaconBlockRootOpts{Block: c.blockID(k)})
			if err != nil {
				return ident{}, err
			}
			if r == nil {
				return ident{Nil: true, Tag: -1, Call: -1}, nil
			}
			return c.identRoot(r.Data), nil
		}, nil

	case "beaconblockheader/first":
		provs := make(map[string]consensusclient.BeaconBlockHeadersProvider, n)
		for i := 0; i < n; i++ {
			provs[nodeName(i)] = &headerNode{mk(i)}
		}
		svc, err := headerfirst.New(ctx, headerfirst.WithLogLevel(zerolog.Disabled), headerfirst.WithTimeout(timeout), headerfirst.WithBeaconBlockHeadersProviders(provs))
		if err != nil {
			return nil, err
		}
		return func(ctx context.Context, k int) (ident, error) {
			r, err := svc.BeaconBlockHeader(ctx, &api.BeaconBlockHeaderOpts{Block: c.blockID(k)})
			if err != nil {
				return ident{}, err
			}
			if r == nil {
				return ident{Nil: true, Tag: -1, Call: -1}, nil
			}
			return c.identHeader(r.Data), nil
		}, nil

	case "signedbeaconblock/first":
		provs := make(map[string]consensusclient.SignedBeaconBlockProvider, n)
		for i := 0; i < n; i++ {
			provs[nodeName(i)] = &blockNode{mk(i)}
		}
		svc, err := blockfirst.New(ctx, blockfirst.WithLogLevel(zerolog.Disabled), blockfirst.WithTimeout(timeout), blockfirst.WithSignedBeaconBlockProviders(provs))
		if err != nil {
			return nil, err
		}
		return func(ctx context.Context, k int) (ident, error) {
			r, err := svc.SignedBeaconBlock(ctx, &api.SignedBeaconBlockOpts{Block: c.blockID(k)})
			if err != nil {
				return ident{}, err
			}
			if r == nil {
				return ident{Nil: true, Tag: -1, Call: -1}, nil
			}
			return c.identBlock(r.Data), nil
		}, nil
	}
	return nil, fmt.Errorf("unknown strategy %q", c.Strategy)
}
