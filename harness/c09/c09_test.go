// Package c09 decides property C09: the relay auction selects the best eligible
// bid and only eligible bids.  Subject: the real strategies/builderbid/best and
// strategies/builderbid/deadline (and services/blockrelay/standard on top) over
// 1-5 in-process HTTP relay doubles.
package c09

import (
	"bytes"
	"context"
	"fmt"
	"math/big"
	"net/url"
	"runtime"
	"sort"
	"strings"
	"sync"
	"testing"
	"time"

	"github.com/attestantio/go-block-relay/services/blockauctioneer"
	builderspec "github.com/attestantio/go-builder-client/spec"
	"github.com/attestantio/go-eth2-client/api"
	"github.com/attestantio/go-eth2-client/spec/phase0"
	"github.com/attestantio/vouch/services/beaconblockproposer"
	"github.com/attestantio/vouch/services/blockrelay"
	"github.com/attestantio/vouch/strategies/builderbid"
	beststrategy "github.com/attestantio/vouch/strategies/builderbid/best"
	deadlinestrategy "github.com/attestantio/vouch/strategies/builderbid/deadline"
	"github.com/rs/zerolog"
	"github.com/shopspring/decimal"
	"github.com/spf13/viper"
	"pgregory.net/rapid"

	"verifharness/internal/ev"
	"verifharness/internal/fakes"
)

// ---------------------------------------------------------------------------------------------
// timing constants (real time; see DESIGN.md section 0.4)

const (
	bestTimeout      = 500 * time.Millisecond // hard timeout of the single-shot strategy
	deadlineDuration = 500 * time.Millisecond // time from the call to the deadline of the repeating strategy
	bidGap           = 70 * time.Millisecond
	guard            = 200 * time.Millisecond // half-width of the band around the deadline that is not judged
	lagLimit         = 15 * time.Millisecond  // wake-up lag of a sleeping goroutine above which timing is not trusted
	pipelineLimit    = 40 * time.Millisecond  // same for measured request dispatch / turn-around / deadline-event delays
	lateMs           = 750                    // latency of a response that must be late (deadline + 250 ms)
)

// ---------------------------------------------------------------------------------------------
// case

// Resp is one entry of a relay's answer script.
type Resp struct {
	Kind    string `json:"kind"`              // bid | nobid | error | garbage | hang
	LatMs   int    `json:"lat_ms"`            // latency before the answer is written
	Status  int    `json:"status,omitempty"`  // error: HTTP status
	Garbage string `json:"garbage,omitempty"` // garbage: notjson | badversion | truncated | nulldata | empty200
	Version string `json:"version,omitempty"` // bellatrix | capella | deneb
	Value   string `json:"value,omitempty"`   // wei, decimal
	Builder int    `json:"builder"`           // index into the builder pool
	Header  int    `json:"header"`            // header id (equal ids = equal payload)
	FeeZero bool   `json:"fee_zero,omitempty"`
	TsDelta int64  `json:"ts_delta,omitempty"` // header timestamp - slot start
	Sig     string `json:"sig,omitempty"`      // valid | otherkey | key8 | tampered | wrongdomain | garbage | infinity
}

// Relay is one configured relay and what it answers to successive requests
// (the last entry is repeated).
type Relay struct {
	MinValue      string `json:"min_value"`                 // wei, decimal
	KeyKnown      string `json:"key_known"`                 // none | config | url | both
	KnownKeyWrong bool   `json:"known_key_wrong,omitempty"` // the known key is key 8, not the relay's
	GraceMs       int    `json:"grace_ms,omitempty"`
	// BadAddress: the configured address is unusable (no relay behind it):
	// unparseable-bracket | unparseable-space | unparseable-port | dropping (accepts and closes connections)
	BadAddress string `json:"bad_address,omitempty"`
	Script     []Resp `json:"script"`
}

// BuilderCfg is the configuration of one builder of the pool.
type BuilderCfg struct {
	Builder  int     `json:"builder"`
	Offset   *string `json:"offset,omitempty"` // nil = not configured
	Factor   *string `json:"factor,omitempty"` // nil = not configured
	Category string  `json:"category"`
}

// Triple names what an auction or a beacon node's request is for, relative to the case's slot.
type Triple struct {
	SlotDelta int `json:"slot_delta"`
	Parent    int `json:"parent"`
	Key       int `json:"key"`
}

// Step is one call on the block relay service: AuctionBlock ("auction") or BuilderBid ("bid").
type Step struct {
	Op string `json:"op"`
	T  int    `json:"t"` // index into Triples
}

// Case is one auction, or (History non-empty, via blockrelay) a short history of
// auctions and beacon-node requests on one block relay service.
type Case struct {
	Strategy string       `json:"strategy"` // best | deadline
	Via      string       `json:"via"`      // strategy | blockrelay
	Slot     uint64       `json:"slot"`
	Relays   []Relay      `json:"relays"`
	Builders []BuilderCfg `json:"builders"`
	Triples  []Triple     `json:"triples,omitempty"` // Triples[0] is always {0,0,0}
	History  []Step       `json:"history,omitempty"`
}

func bigOf(s string) *big.Int {
	v, ok := new(big.Int).SetString(s, 10)
	if !ok {
		panic("harness: bad integer " + s)
	}
	return v
}

// ---------------------------------------------------------------------------------------------
// generator
//
// rapid's integer and SampledFrom generators are deliberately biased towards
// small values / early entries; the class choices below must have the stated
// frequencies, so they are drawn from fair bits (rapid.Bool).  Everything still
// comes from rapid, shrinks towards the first option, and replays from a seed.

func uniform(t *rapid.T, label string, n int) int {
	if n <= 1 {
		return 0
	}
	bits := rapid.SliceOfN(rapid.Bool(), 14, 14).Draw(t, label)
	v := 0
	for _, b := range bits {
		v <<= 1
		if b {
			v |= 1
		}
	}
	return v % n
}

type opt struct {
	name string
	w    int
}

// pick draws one option with probability proportional to its weight; the first
// option is the one shrinking tends to.
func pick(t *rapid.T, label string, opts ...opt) string {
	total := 0
	for _, o := range opts {
		total += o.w
	}
	u := uniform(t, label, total)
	for _, o := range opts {
		if u < o.w {
			return o.name
		}
		u -= o.w
	}
	return opts[0].name
}

func chance(t *rapid.T, label string, percent int) bool {
	return pick(t, label, opt{"no", 100 - percent}, opt{"yes", percent}) == "yes"
}

func rangeU(t *rapid.T, label string, lo, hi int) int { return lo + uniform(t, label, hi-lo+1) }

func pow2(n uint) *big.Int { return new(big.Int).Lsh(big.NewInt(1), n) }

func genBaseValue(t *rapid.T) *big.Int {
	switch pick(t, "valueClass", opt{"small", 45}, opt{"eth", 30}, opt{"big", 15}, opt{"huge", 10}) {
	case "small":
		return big.NewInt(int64(rangeU(t, "small", 1, 60)))
	case "eth":
		// 0.001 .. 10 ETH in wei
		g := rapid.Int64Range(1_000_000, 10_000_000_000).Draw(t, "gwei")
		return new(big.Int).Mul(big.NewInt(g), big.NewInt(1_000_000_000))
	case "big":
		sh := uint(rangeU(t, "shift", 64, 200))
		return new(big.Int).Add(pow2(sh), big.NewInt(int64(rangeU(t, "lowbits", 0, 1000))))
	default:
		// close to the top of uint256 (below 2^255: the difference of two bids stays a positive int256)
		return new(big.Int).Sub(pow2(254), big.NewInt(int64(rangeU(t, "below", 1, 1000))))
	}
}

func nearPalette(t *rapid.T, palette []*big.Int, label string) *big.Int {
	b := palette[uniform(t, label+"Base", len(palette))]
	d := []int64{0, 0, 0, 1, -1, 2, -2}[uniform(t, label+"Delta", 7)]
	v := new(big.Int).Add(b, big.NewInt(d))
	if v.Sign() < 0 {
		v.SetInt64(0)
	}
	return v
}

func strp(s string) *string { return &s }

func genResp(t *rapid.T, strategy string, palette []*big.Int, nBuilders, nHeaders int) Resp {
	r := Resp{Kind: pick(t, "kind", opt{"bid", 84}, opt{"nobid", 5}, opt{"error", 4}, opt{"garbage", 3}, opt{"hang", 4})}
	switch pick(t, "latClass", opt{"fast", 70}, opt{"mid", 17}, opt{"slow", 6}, opt{"late", 7}) {
	case "fast":
		r.LatMs = rangeU(t, "latFast", 0, 20)
	case "mid":
		r.LatMs = rangeU(t, "latMid", 60, 130)
	case "slow":
		r.LatMs = rangeU(t, "latSlow", 255, 285)
	default:
		r.LatMs = lateMs
	}
	switch r.Kind {
	case "hang":
		r.LatMs = 0
	case "error":
		r.Status = []int{500, 502, 400, 404, 429}[uniform(t, "status", 5)]
	case "garbage":
		r.Garbage = []string{"notjson", "badversion", "truncated", "nulldata", "empty200"}[uniform(t, "garbage", 5)]
	case "bid":
		r.Version = pick(t, "version", opt{"deneb", 60}, opt{"capella", 20}, opt{"bellatrix", 20})
		if chance(t, "zeroValue", 2) {
			r.Value = "0"
		} else {
			r.Value = nearPalette(t, palette, "value").String()
		}
		r.Builder = uniform(t, "builder", nBuilders)
		r.Header = uniform(t, "header", nHeaders)
		r.Sig = "valid"
		// at most one defect per bid, most bids have none
		switch pick(t, "defect", opt{"none", 80}, opt{"fee", 4}, opt{"ts", 4}, opt{"sig", 12}) {
		case "fee":
			r.FeeZero = true
		case "ts":
			r.TsDelta = []int64{1, -1, 12, -12, 100000}[uniform(t, "tsDelta", 5)]
		case "sig":
			r.Sig = []string{"otherkey", "key8", "tampered", "wrongdomain", "garbage", "infinity"}[uniform(t, "sig", 6)]
		}
	}
	return r
}

func genCase(t *rapid.T, strategy, via string) Case {
	c := Case{Strategy: strategy, Via: via, Slot: rapid.Uint64Range(1, 5_000_000).Draw(t, "slot")}
	nPal := rangeU(t, "nPalette", 1, 3)
	palette := make([]*big.Int, nPal)
	for i := range palette {
		palette[i] = genBaseValue(t)
	}
	nBuilders := rangeU(t, "nBuilders", 1, 4)
	nHeaders := rangeU(t, "nHeaders", 1, 3)
	for b := 0; b < nBuilders; b++ {
		if !chance(t, "hasBuilderCfg", 50) {
			continue
		}
		bc := BuilderCfg{Builder: b, Category: []string{"standard", "privileged", "excluded", "x"}[uniform(t, "category", 4)]}
		switch pick(t, "offsetClass", opt{"nil", 30}, opt{"zero", 5}, opt{"small", 13}, opt{"negsmall", 13}, opt{"pal", 10}, opt{"negpal", 12}, opt{"negpalExact", 7}, opt{"huge", 10}) {
		case "zero":
			bc.Offset = strp("0")
		case "small":
			bc.Offset = strp(fmt.Sprint(rangeU(t, "offSmall", 1, 30)))
		case "negsmall":
			bc.Offset = strp(fmt.Sprint(-rangeU(t, "offNegSmall", 1, 30)))
		case "pal":
			bc.Offset = strp(nearPalette(t, palette, "off").String())
		case "negpal":
			bc.Offset = strp(new(big.Int).Neg(nearPalette(t, palette, "off")).String())
		case "negpalExact":
			bc.Offset = strp(new(big.Int).Neg(palette[uniform(t, "offExact", len(palette))]).String())
		case "huge":
			bc.Offset = strp(pow2(uint(rangeU(t, "offShift", 70, 250))).String())
		}
		switch f := pick(t, "factor", opt{"nil", 25}, opt{"0", 12}, opt{"1", 5}, opt{"50", 10}, opt{"99", 8}, opt{"100", 5}, opt{"101", 8}, opt{"200", 10},
			opt{"1000000000", 9}, opt{"1000000000000000000", 8}); f {
		case "nil":
		default:
			bc.Factor = strp(f)
		}
		c.Builders = append(c.Builders, bc)
	}
	nRelays := []int{1, 2, 2, 3, 3, 3, 4, 4, 5}[uniform(t, "nRelays", 9)]
	for i := 0; i < nRelays; i++ {
		rl := Relay{MinValue: "0"}
		switch pick(t, "minClass", opt{"zero", 45}, opt{"pal", 50}, opt{"huge", 5}) {
		case "pal":
			rl.MinValue = nearPalette(t, palette, "min").String()
		case "huge":
			rl.MinValue = pow2(255).String()
		}
		rl.KeyKnown = pick(t, "keyKnown", opt{"none", 20}, opt{"config", 35}, opt{"url", 30}, opt{"both", 15})
		if rl.KeyKnown != "none" {
			rl.KnownKeyWrong = chance(t, "knownKeyWrong", 7)
		}
		if chance(t, "hasGrace", 25) {
			rl.GraceMs = rangeU(t, "grace", 5, 40)
		}
		if nRelays > 1 {
			rl.BadAddress = pick(t, "badAddress", opt{"", 95}, opt{"unparseable-bracket", 1}, opt{"unparseable-space", 1}, opt{"unparseable-port", 1}, opt{"dropping", 2})
		}
		n := 1
		if strategy == "deadline" {
			n = []int{1, 1, 2, 2, 3, 4}[uniform(t, "scriptLen", 6)]
		}
		for j := 0; j < n; j++ {
			rl.Script = append(rl.Script, genResp(t, strategy, palette, nBuilders, nHeaders))
		}
		c.Relays = append(c.Relays, rl)
	}
	if via == "blockrelay" && chance(t, "history", 60) {
		genHistory(t, &c)
	}
	return c
}

// genHistory adds 2-4 triples that share slot and proposer but differ in parent (and some that
// differ in slot or proposer) and 2-6 steps over them, with at most three bid strategy runs.
func genHistory(t *rapid.T, c *Case) {
	pool := []Triple{{0, 1, 0}, {0, 1, 0}, {0, 2, 0}, {0, 0, 1}, {0, 1, 1}}
	if c.Strategy == "best" {
		// the deadline strategy's deadline belongs to the slot; another slot would be 12 s away
		pool = append(pool, Triple{1, 0, 0}, Triple{1, 1, 0})
	}
	c.Triples = []Triple{{0, 0, 0}}
	n := rangeU(t, "nTriples", 2, 4)
	for len(c.Triples) < n {
		tr := pool[uniform(t, "triple", len(pool))]
		dup := false
		for _, x := range c.Triples {
			dup = dup || x == tr
		}
		if !dup {
			c.Triples = append(c.Triples, tr)
		}
	}
	steps := rangeU(t, "nSteps", 2, 6)
	ran := map[int]bool{} // triples for which the strategy has run (auction or immediate fetch)
	runs := 0
	for i := 0; i < steps; i++ {
		st := Step{Op: pick(t, "op", opt{"auction", 45}, opt{"bid", 55}), T: uniform(t, "stepTriple", len(c.Triples))}
		needsRun := st.Op == "auction" || !ran[st.T]
		if needsRun && runs >= 3 {
			// no budget for another run: ask for something that has been auctioned
			st.Op = "bid"
			for k := range c.Triples {
				if ran[k] {
					st.T = k
					break
				}
			}
		} else if needsRun {
			runs++
			ran[st.T] = true
		}
		c.History = append(c.History, st)
	}
}

// ---------------------------------------------------------------------------------------------
// doubles for the strategy's construction

type specProvider struct{}

func (specProvider) Spec(context.Context, *api.SpecOpts) (*api.Response[map[string]any], error) {
	return &api.Response[map[string]any]{Data: map[string]any{
		"DOMAIN_APPLICATION_BUILDER": phase0.DomainType(builderDomainType),
	}, Metadata: map[string]any{}}, nil
}

type domainProvider struct{}

func (domainProvider) Domain(_ context.Context, dt phase0.DomainType, _ phase0.Epoch) (phase0.Domain, error) {
	return phase0.Domain{}, fmt.Errorf("harness: unexpected Domain(%x) call", dt)
}

func (domainProvider) GenesisDomain(_ context.Context, dt phase0.DomainType) (phase0.Domain, error) {
	return phase0.Domain(refComputeDomain(dt, genesisForkVersion, [32]byte{})), nil
}

// lagMeter measures how late short sleeps of this process wake up.
type lagMeter struct {
	mu   sync.Mutex
	max  time.Duration
	stop chan struct{}
	wg   sync.WaitGroup
}

func startLagMeter() *lagMeter {
	m := &lagMeter{stop: make(chan struct{})}
	m.wg.Add(1)
	go func() {
		defer m.wg.Done()
		for {
			select {
			case <-m.stop:
				return
			default:
			}
			t0 := time.Now()
			time.Sleep(2 * time.Millisecond)
			lag := time.Since(t0) - 2*time.Millisecond
			m.mu.Lock()
			if lag > m.max {
				m.max = lag
			}
			m.mu.Unlock()
		}
	}()
	return m
}

func (m *lagMeter) finish() time.Duration {
	close(m.stop)
	m.wg.Wait()
	return m.max
}

// ---------------------------------------------------------------------------------------------
// run

type observation struct {
	res         *blockauctioneer.Results
	err         error
	panicked    string
	served      []servedRec
	prepared    [][]*prepared
	ports       map[string]int // host:port -> relay index
	deadline    time.Time
	callStart   time.Time
	callEnd     time.Time
	maxLag      time.Duration // worst wake-up lag seen by the lag meter and by the relay handlers
	maxPipe     time.Duration // worst measured delay of the strategy's own request pipeline
	overrun     time.Duration // return of the call relative to the deadline
	badPaths    int
	badPathSeen string
	hungCall    bool
	// blockrelay layer
	layer *layerObs
	hist  *histObs
}

var parentHash = parentOf(0)
var proposerPubkey = proposerOf(0)

func parentOf(i int) phase0.Hash32 {
	if i == 0 {
		return phase0.Hash32(tag("c09-parent"))
	}
	return phase0.Hash32(tag(fmt.Sprintf("c09-parent-%d", i)))
}

func proposerOf(i int) phase0.BLSPubKey {
	var p phase0.BLSPubKey
	t := tag("c09-proposer")
	if i > 0 {
		t = tag(fmt.Sprintf("c09-proposer-%d", i))
	}
	copy(p[:], t[:])
	copy(p[32:], t[:16])
	p[0] = 0x8f
	return p
}

// tripleVal is a Triple resolved against the case.
type tripleVal struct {
	slot   phase0.Slot
	parent phase0.Hash32
	pubkey phase0.BLSPubKey
	slotTs uint64
}

func badAddress(kind string, i int) string {
	switch kind {
	case "unparseable-bracket":
		return fmt.Sprintf("http://[::%d", i+1)
	case "unparseable-space":
		return fmt.Sprintf("http://relay %d.example/", i)
	default:
		return fmt.Sprintf("http://127.0.0.1:port%d", i)
	}
}

func run(c *Case) (*observation, error) {
	initBLS()
	zerolog.SetGlobalLevel(zerolog.Disabled)
	viper.Reset()
	viper.Set("timeout", 2*time.Second)
	ctx, cancel := context.WithCancel(context.Background())
	defer cancel()
	baseline := runtime.NumGoroutine()

	o := &observation{ports: map[string]int{}}
	t0 := time.Now()
	slotTs := uint64(t0.Unix())
	clock := fakes.NewVClock(t0.Add(-time.Duration(c.Slot)*12*time.Second), 12*time.Second, 32)
	if clock.StartOfSlot(phase0.Slot(c.Slot)).Unix() != t0.Unix() {
		return nil, fmt.Errorf("clock arithmetic")
	}

	done := make(chan struct{})
	trs := c.Triples
	if len(trs) == 0 {
		trs = []Triple{{0, 0, 0}}
	}
	triples := make([]tripleVal, len(trs))
	for k, tr := range trs {
		slot := phase0.Slot(int64(c.Slot) + int64(tr.SlotDelta))
		triples[k] = tripleVal{slot: slot, parent: parentOf(tr.Parent), pubkey: proposerOf(tr.Key), slotTs: uint64(clock.StartOfSlot(slot).Unix())}
	}
	if triples[0].slotTs != slotTs || trs[0] != (Triple{}) {
		return nil, fmt.Errorf("first triple must be the case's own slot, parent and proposer")
	}
	relays := make([]*relayDouble, len(c.Relays))
	relayConfigs := make([]*beaconblockproposer.RelayConfig, len(c.Relays))
	o.prepared = make([][]*prepared, len(c.Relays))
	for i := range c.Relays {
		rl := &c.Relays[i]
		variants := make([]*relayVariant, len(triples))
		for k, tv := range triples {
			script := make([]*prepared, len(rl.Script))
			for j := range rl.Script {
				r := rl.Script[j]
				r.Header += 100 * k // another slot, parent or proposer means another payload
				script[j] = prepare(&r, i, tv.slotTs, tv.parent)
			}
			variants[k] = &relayVariant{path: fmt.Sprintf("/eth/v1/builder/header/%d/%#x/%#x", tv.slot, tv.parent[:], tv.pubkey[:]), script: script}
		}
		o.prepared[i] = variants[0].script
		rc := &beaconblockproposer.RelayConfig{
			FeeRecipient: nonZeroFeeRecipient,
			GasLimit:     30_000_000,
			Grace:        time.Duration(rl.GraceMs) * time.Millisecond,
			MinValue:     decimal.NewFromBigInt(bigOf(rl.MinValue), 0),
		}
		relayConfigs[i] = rc
		known := pubOf(i)
		if rl.KnownKeyWrong {
			known = pubOf(8)
		}
		if rl.KeyKnown == "config" || rl.KeyKnown == "both" {
			pk := phase0.BLSPubKey(known)
			rc.PublicKey = &pk
		}
		if strings.HasPrefix(rl.BadAddress, "unparseable") {
			rc.Address = badAddress(rl.BadAddress, i)
			continue
		}
		relays[i] = newRelay(i, variants, done)
		u, err := url.Parse(relays[i].srv.URL)
		if err != nil {
			return nil, err
		}
		o.ports[u.Host] = i
		rc.Address = relays[i].srv.URL
		if rl.KeyKnown == "url" || rl.KeyKnown == "both" {
			rc.Address = fmt.Sprintf("http://%s@%s", hx(known[:]), u.Host)
		}
		if rl.BadAddress == "dropping" {
			// (closing the listener instead would hand the port to any other process of the machine)
			relays[i].drop = true
		}
	}
	cleanup := func() {
		select {
		case <-done:
		default:
			close(done)
		}
		for _, r := range relays {
			if r != nil {
				r.srv.CloseClientConnections()
				r.srv.Close()
			}
		}
	}
	defer cleanup()

	builderConfigs := map[phase0.BLSPubKey]*blockrelay.BuilderConfig{}
	for _, bc := range c.Builders {
		cfg := &blockrelay.BuilderConfig{Category: bc.Category}
		if bc.Offset != nil {
			cfg.Offset = bigOf(*bc.Offset)
		}
		if bc.Factor != nil {
			cfg.Factor = bigOf(*bc.Factor)
		}
		builderConfigs[phase0.BLSPubKey(builderPub(bc.Builder))] = cfg
	}

	var provider builderbid.Provider
	var err error
	switch c.Strategy {
	case "best":
		provider, err = beststrategy.New(ctx,
			beststrategy.WithLogLevel(zerolog.Disabled),
			beststrategy.WithSpecProvider(specProvider{}),
			beststrategy.WithDomainProvider(domainProvider{}),
			beststrategy.WithChainTime(clock),
			beststrategy.WithTimeout(bestTimeout),
			beststrategy.WithReleaseVersion("c09"),
		)
	case "deadline":
		// the deadline is relative to the start of the slot, which is t0
		param := time.Since(t0) + deadlineDuration
		if c.Via == "blockrelay" {
			param += 25 * time.Millisecond // construction of the block relay service
		}
		o.deadline = t0.Add(param)
		provider, err = deadlinestrategy.New(ctx,
			deadlinestrategy.WithLogLevel(zerolog.Disabled),
			deadlinestrategy.WithSpecProvider(specProvider{}),
			deadlinestrategy.WithDomainProvider(domainProvider{}),
			deadlinestrategy.WithChainTime(clock),
			deadlinestrategy.WithDeadline(param),
			deadlinestrategy.WithBidGap(bidGap),
			deadlinestrategy.WithReleaseVersion("c09"),
		)
	default:
		return nil, fmt.Errorf("unknown strategy %q", c.Strategy)
	}
	if err != nil {
		return nil, fmt.Errorf("cannot construct strategy: %w", err)
	}
	proposerConfig := &beaconblockproposer.ProposerConfig{FeeRecipient: nonZeroFeeRecipient, Relays: relayConfigs}

	var auction func(ctx context.Context) (*blockauctioneer.Results, error)
	var layer *layerWorld
	if c.Via == "blockrelay" {
		layer, err = newLayer(ctx, c, clock, provider, relayConfigs, builderConfigs)
		if err != nil {
			return nil, err
		}
		if len(c.History) > 0 {
			meter := startLagMeter()
			o.hist = layer.runHistory(ctx, c, triples, func() { close(done) })
			o.maxLag = meter.finish()
			cleanup()
			for _, r := range relays {
				if r != nil {
					r.mu.Lock()
					o.badPaths += r.badPath
					if r.badPathSeen != "" {
						o.badPathSeen = r.badPathSeen
					}
					r.mu.Unlock()
				}
			}
			cancel()
			for i := 0; i < 200 && runtime.NumGoroutine() > baseline+2; i++ {
				time.Sleep(5 * time.Millisecond)
			}
			return o, nil
		}
		auction = func(ctx context.Context) (*blockauctioneer.Results, error) {
			return layer.svc.AuctionBlock(ctx, phase0.Slot(c.Slot), parentHash, proposerPubkey)
		}
	} else {
		auction = func(ctx context.Context) (*blockauctioneer.Results, error) {
			return provider.BuilderBid(ctx, phase0.Slot(c.Slot), parentHash, proposerPubkey, proposerConfig, builderConfigs)
		}
	}

	meter := startLagMeter()
	type outcome struct {
		res      *blockauctioneer.Results
		err      error
		panicked string
		start    time.Time
		end      time.Time
	}
	ch := make(chan outcome, 1)
	watchdog := time.After(time.Until(time.Now().Add(deadlineDuration+bestTimeout)) + 4*time.Second)
	go func() {
		var out outcome
		defer func() {
			if r := recover(); r != nil {
				buf := make([]byte, 4096)
				buf = buf[:runtime.Stack(buf, false)]
				out.panicked = fmt.Sprintf("%v\n%s", r, buf)
			}
			out.end = time.Now()
			ch <- out
		}()
		out.start = time.Now()
		out.res, out.err = auction(ctx)
	}()
	var out outcome
	select {
	case out = <-ch:
	case <-watchdog:
		o.hungCall = true
		close(done) // release the relays so that the call can come back
		select {
		case out = <-ch:
		case <-time.After(5 * time.Second):
			o.maxLag = meter.finish()
			return o, fmt.Errorf("auction did not return 9 s after its deadline")
		}
	}
	o.res, o.err, o.panicked, o.callStart, o.callEnd = out.res, out.err, out.panicked, out.start, out.end
	if c.Strategy == "best" {
		// the strategy takes its own start time a few microseconds after this
		o.deadline = o.callStart.Add(bestTimeout)
	}
	if layer != nil && o.panicked == "" && !o.hungCall {
		o.layer = layer.after(ctx, c, relays)
	}
	o.maxLag = meter.finish()
	cleanup()
	for i, r := range relays {
		if r == nil {
			continue
		}
		r.mu.Lock()
		o.served = append(o.served, r.served...)
		o.badPaths += r.badPath
		if r.badPathSeen != "" {
			o.badPathSeen = r.badPathSeen
		}
		if r.maxOver > o.maxLag {
			o.maxLag = r.maxOver
		}
		grace := time.Duration(c.Relays[i].GraceMs) * time.Millisecond
		for n, at := range r.arrivals {
			var d time.Duration
			switch {
			case n == 0:
				// dispatch: the first request is due one grace period after the start of the call
				d = at.Sub(o.callStart) - grace
			case !r.answered[n-1].IsZero():
				// turn-around (deadline strategy): the next request is due one bid gap after the previous answer
				d = at.Sub(r.answered[n-1]) - bidGap
			}
			if d > o.maxPipe {
				o.maxPipe = d
			}
		}
		r.mu.Unlock()
	}
	// How late the strategy came back after its deadline is recorded but is no evidence of a
	// starved process: a strategy that overruns its deadline is what lets late bids win.
	o.overrun = o.callEnd.Sub(o.deadline)
	sort.SliceStable(o.served, func(i, j int) bool { return o.served[i].At.Before(o.served[j].At) })
	cancel()
	// let the strategy's request goroutines finish
	for i := 0; i < 200 && runtime.NumGoroutine() > baseline+2; i++ {
		time.Sleep(5 * time.Millisecond)
	}
	return o, nil
}

// ---------------------------------------------------------------------------------------------
// oracle (written from the property statement)

type rounding int

const (
	floorDiv rounding = iota
	truncDiv
)

// refScore is (value + offset) * factor / 100 with offset defaulting to 0 and
// factor to 100 (docs/configuration.md); exact reports whether the division was exact.
func refScore(value *big.Int, cfg *BuilderCfg, r rounding) (score *big.Int, exact bool) {
	s := new(big.Int).Set(value)
	if cfg == nil {
		return s, true
	}
	if cfg.Offset != nil {
		s.Add(s, bigOf(*cfg.Offset))
	}
	if cfg.Factor == nil {
		return s, true
	}
	s.Mul(s, bigOf(*cfg.Factor))
	q, m := new(big.Int).QuoRem(s, big.NewInt(100), new(big.Int)) // truncated
	if m.Sign() == 0 {
		return q, true
	}
	if r == floorDiv && s.Sign() < 0 {
		q.Sub(q, big.NewInt(1))
	}
	return q, s.Sign() >= 0
}

type tri int

const (
	no tri = iota
	maybe
	yes
)

// candidate is a bid a relay actually served.
type candidate struct {
	relay, idx int
	at         time.Time
	p          *prepared
	r          *Resp
	verified   bool // passes every check that does not depend on the builder configuration
	reasons    []string
	score      *big.Int
	elig       tri // eligible under the statement (maybe: the statement does not decide)
	timing     tri // yes: before deadline-guard; maybe: inside the band; no: after deadline+guard
	shadowed   bool
}

func (cd *candidate) String() string {
	return fmt.Sprintf("relay %d script[%d] value=%s builder=%d header=%s score=%s reasons=%v", cd.relay, cd.idx, cd.r.Value, cd.r.Builder, cd.p.headerKey, cd.score, cd.reasons)
}

type verdict struct {
	sig    string
	detail string
}

type judgement struct {
	verdicts   []verdict
	cands      []*candidate
	winner     *candidate
	labels     map[string]bool
	nontrivial bool
	ambiguous  bool // rounding of a negative score matters
}

func builderCfgOf(c *Case, b int) *BuilderCfg {
	for i := range c.Builders {
		if c.Builders[i].Builder == b {
			return &c.Builders[i]
		}
	}
	return nil
}

func buildCandidates(c *Case, o *observation, rd rounding, perturbed bool, j *judgement) {
	for _, s := range o.served {
		p := o.prepared[s.Relay][s.Idx]
		if !p.isBid {
			continue
		}
		rl := &c.Relays[s.Relay]
		r := &rl.Script[s.Idx]
		cd := &candidate{relay: s.Relay, idx: s.Idx, at: s.At, p: p, r: r, elig: yes}
		// value at least the relay's configured minimum
		if p.value.Cmp(bigOf(rl.MinValue)) < 0 {
			cd.reasons = append(cd.reasons, "below-min")
		}
		// non-zero fee recipient
		if r.FeeZero {
			cd.reasons = append(cd.reasons, "zero-fee-recipient")
		}
		// timestamp equal to the slot start
		if r.TsDelta != 0 {
			cd.reasons = append(cd.reasons, "wrong-timestamp")
		}
		// valid relay signature when the relay's public key is known
		if rl.KeyKnown != "none" {
			knownKey := s.Relay
			if rl.KnownKeyWrong {
				knownKey = 8
			}
			signer := -1
			switch r.Sig {
			case "valid":
				signer = s.Relay
			case "otherkey":
				signer = 7
			case "key8":
				signer = 8
			}
			if signer != knownKey {
				cd.reasons = append(cd.reasons, "bad-signature")
			}
		}
		cd.verified = len(cd.reasons) == 0 && p.value.Sign() != 0
		// non-zero score
		var exact bool
		cd.score, exact = refScore(p.value, builderCfgOf(c, r.Builder), rd)
		if !exact {
			j.ambiguous = true
		}
		if cd.score.Sign() == 0 {
			cd.reasons = append(cd.reasons, "zero-score")
		}
		if len(cd.reasons) > 0 {
			cd.elig = no
		} else if p.value.Sign() == 0 {
			// a bid of value 0 whose score is made non-zero by an offset: the statement
			// lists it as eligible, the implementation refuses bids without value; not judged
			cd.elig = maybe
			j.labels["zero-value-nonzero-score"] = true
		} else if cd.score.Sign() < 0 {
			// a negative score is "non-zero", so the statement calls the bid eligible and the strategies let it
			// win; but eligibility is then not monotone in the value (the same builder's higher bid can score 0),
			// which the statement cannot have meant to demand: such a bid may win, it is not required to
			cd.elig = maybe
		}
		switch {
		case !s.At.After(o.deadline.Add(-guard)):
			cd.timing = yes
		case s.At.Before(o.deadline.Add(guard)):
			cd.timing = maybe
			j.labels["bid-in-guard-band"] = true
		default:
			cd.timing = no
		}
		if perturbed {
			// the process was starved: neither "in time" nor "late" can be told from outside
			cd.timing = maybe
		}
		// The single-shot strategy returns before its timeout only when every relay has been
		// heard: then every answer was processed, whatever the machine was doing.
		if c.Strategy == "best" && o.callEnd.Before(o.deadline.Add(-30*time.Millisecond)) && !s.At.After(o.callEnd) {
			cd.timing = yes
		}
		if cd.timing == no {
			cd.reasons = append(cd.reasons, "late")
		}
		j.cands = append(j.cands, cd)
	}
	// Known finding (deadline strategy): a later bid of a relay is only forwarded when its raw
	// value exceeds that of the relay's previous forwarded bid.
	if c.Strategy == "deadline" {
		maxVerified := map[int]*big.Int{}
		for _, cd := range j.cands { // served order
			if mv, ok := maxVerified[cd.relay]; ok && cd.p.value.Cmp(mv) <= 0 {
				cd.shadowed = true
			}
			if cd.verified && cd.timing != no {
				if mv, ok := maxVerified[cd.relay]; !ok || cd.p.value.Cmp(mv) > 0 {
					maxVerified[cd.relay] = cd.p.value
				}
			}
		}
	}
}

const sigRebidDropped = "deadline:rebid-of-not-higher-value-dropped"

func (j *judgement) add(sig, format string, args ...any) {
	j.verdicts = append(j.verdicts, verdict{sig: sig, detail: fmt.Sprintf(format, args...)})
}

func relayOfProvider(o *observation, address string) (int, bool) {
	u, err := url.Parse(address)
	if err != nil {
		return 0, false
	}
	i, ok := o.ports[u.Host]
	return i, ok
}

func bidContentEqual(b *builderspec.VersionedSignedBuilderBid, p *prepared) bool {
	if strings.ToLower(b.Version.String()) != p.version {
		return false
	}
	v, err := b.Value()
	if err != nil || v.ToBig().Cmp(p.value) != 0 {
		return false
	}
	bp, err := b.Builder()
	if err != nil || !bytes.Equal(bp[:], p.builder[:]) {
		return false
	}
	bh, err := b.BlockHash()
	if err != nil || !bytes.Equal(bh[:], p.blockHash[:]) {
		return false
	}
	fr, err := b.FeeRecipient()
	if err != nil || (fr == [20]byte{}) != p.feeZero {
		return false
	}
	ts, err := b.Timestamp()
	if err != nil || ts != p.ts {
		return false
	}
	sg, err := b.Signature()
	if err != nil || !bytes.Equal(sg[:], p.sig[:]) {
		return false
	}
	return true
}

func judge(c *Case, o *observation, rd rounding, perturbed bool) *judgement {
	j := &judgement{labels: map[string]bool{}}
	buildCandidates(c, o, rd, perturbed, j)

	var maxDef, maxDefUnshadowed *candidate
	anyAllowed := false
	for _, cd := range j.cands {
		if cd.elig != no && cd.timing != no {
			anyAllowed = true
		}
		if cd.elig == yes && cd.timing == yes {
			if maxDef == nil || cd.score.Cmp(maxDef.score) > 0 {
				maxDef = cd
			}
			if !cd.shadowed && (maxDefUnshadowed == nil || cd.score.Cmp(maxDefUnshadowed.score) > 0) {
				maxDefUnshadowed = cd
			}
		}
	}
	_ = anyAllowed

	if o.err != nil {
		j.add("auction-returned-error", "the auction returned an error instead of a result: %v", o.err)
		return j
	}
	if o.res == nil {
		j.add("auction-returned-nil", "the auction returned neither a result nor an error")
		return j
	}
	wp := o.res.WinningParticipation
	if wp == nil {
		j.labels["no-winner"] = true
		if maxDef != nil {
			if maxDefUnshadowed == nil {
				j.add(sigRebidDropped, "no winner although an eligible bid arrived %v before the deadline: %s; an earlier bid of the same relay had a raw value at least as high",
					o.deadline.Sub(maxDef.at), maxDef)
			} else {
				j.add("eligible-bid-but-no-winner", "no winner although an eligible bid arrived %v before the deadline: %s", o.deadline.Sub(maxDefUnshadowed.at), maxDefUnshadowed)
			}
		}
		if len(o.res.Providers) != 0 {
			j.labels["providers-without-winner"] = true
		}
		return j
	}
	j.labels["winner"] = true
	if wp.Bid == nil || wp.Score == nil {
		j.add("winner-without-bid", "winning participation has no bid or no score")
		return j
	}

	// which served bid is it?
	var matches, okMatches []*candidate
	for _, cd := range j.cands {
		if bidContentEqual(wp.Bid, cd.p) {
			matches = append(matches, cd)
			if cd.elig != no && cd.timing != no {
				okMatches = append(okMatches, cd)
			}
		}
	}
	if len(matches) == 0 {
		j.add("winner-is-no-served-bid", "the winning bid (value %v) is not among the bids the relays served", func() any { v, _ := wp.Bid.Value(); return v }())
		return j
	}
	if len(okMatches) == 0 {
		m := matches[0]
		j.add("ineligible-bid-won:"+m.reasons[0], "the winning bid is ineligible %v: %s (served %v relative to the deadline)", m.reasons, m, m.at.Sub(o.deadline))
		return j
	}
	j.winner = okMatches[0]
	scoreOK := false
	for _, m := range okMatches {
		if m.score.Cmp(wp.Score) == 0 {
			scoreOK = true
			j.winner = m
		}
	}
	if !scoreOK {
		j.add("winner-score-wrong", "winning participation carries score %s, (value+offset)*factor/100 = %s for %s", wp.Score, okMatches[0].score, okMatches[0])
	}
	wscore := j.winner.score
	if maxDef != nil && wscore.Cmp(maxDef.score) < 0 {
		if maxDefUnshadowed == nil || wscore.Cmp(maxDefUnshadowed.score) >= 0 {
			j.add(sigRebidDropped, "winner %s has a lower score than the eligible bid %s that arrived %v before the deadline; an earlier bid of that relay had a raw value at least as high",
				j.winner, maxDef, o.deadline.Sub(maxDef.at))
		} else {
			j.add("better-eligible-bid-lost", "winner %s has a lower score than the eligible bid %s that arrived %v before the deadline",
				j.winner, maxDefUnshadowed, o.deadline.Sub(maxDefUnshadowed.at))
		}
	}

	// providers: each offered the winning payload; the winner's relay is among them
	winnerRelays := map[int]bool{}
	for _, m := range okMatches {
		winnerRelays[m.relay] = true
	}
	foundWinnerRelay := false
	for _, pr := range o.res.Providers {
		ri, ok := relayOfProvider(o, pr.Address())
		if !ok {
			j.add("provider-unknown", "provider %s is not one of the configured relays", pr.Address())
			continue
		}
		if winnerRelays[ri] {
			foundWinnerRelay = true
		}
		offered := false
		for _, cd := range j.cands {
			if cd.relay == ri && cd.timing != no && cd.p.headerKey == j.winner.p.headerKey {
				offered = true
			}
		}
		if !offered {
			j.add("provider-did-not-offer-winning-payload", "relay %d is listed for unblinding but never offered header %s of the winner (%s)", ri, j.winner.p.headerKey, j.winner)
		}
	}
	if !foundWinnerRelay {
		j.add("winner-relay-not-in-providers", "the relay of the winning bid (%s) is not among the %d providers", j.winner, len(o.res.Providers))
	}
	if len(o.res.Providers) > 1 {
		j.labels["providers>1"] = true
	}

	// non-trivial rule
	relaysWithBid := map[int]bool{}
	var maxRawEligible *candidate
	higherIneligible := false
	for _, cd := range j.cands {
		relaysWithBid[cd.relay] = true
		if cd.elig == yes && cd.timing != no {
			if maxRawEligible == nil || cd.p.value.Cmp(maxRawEligible.p.value) > 0 {
				maxRawEligible = cd
			}
		}
		if (cd.elig == no || cd.timing == no) && cd.p.value.Cmp(j.winner.p.value) > 0 {
			higherIneligible = true
		}
	}
	rankingChanged := maxRawEligible != nil && maxRawEligible.p.value.Cmp(j.winner.p.value) > 0
	if higherIneligible {
		j.labels["ineligible-bid-with-higher-value"] = true
	}
	if rankingChanged {
		j.labels["builder-config-changed-ranking"] = true
	}
	j.nontrivial = len(relaysWithBid) >= 2 && (higherIneligible || rankingChanged)
	return j
}

// ---------------------------------------------------------------------------------------------
// check

func check(t ev.TB, c *Case) {
	o, err := run(c)
	if err != nil {
		t.Fatalf("harness problem: %v", err)
		return
	}
	if o.hist != nil {
		checkHistory(t, c, o)
		return
	}
	perturbed := o.maxLag > lagLimit || o.maxPipe > pipelineLimit
	j := judge(c, o, floorDiv, perturbed)
	if j.ambiguous && len(j.verdicts) > 0 {
		if j2 := judge(c, o, truncDiv, perturbed); len(j2.verdicts) == 0 {
			j2.labels["negative-score-rounding-decided"] = true
			j2.ambiguous = true
			j = j2
		}
	}
	lj := judgeLayer(c, o, j)

	labels := []string{"strategy=" + c.Strategy, "via=" + c.Via, fmt.Sprintf("relays=%d", len(c.Relays))}
	if perturbed {
		labels = append(labels, "perturbed")
	}
	if j.ambiguous {
		labels = append(labels, "negative-inexact-score")
	}
	if o.hungCall {
		labels = append(labels, "call-needed-release")
	}
	if o.overrun > 100*time.Millisecond {
		labels = append(labels, "returned>100ms-after-deadline")
	}
	for i := range c.Relays {
		if c.Relays[i].BadAddress != "" {
			j.labels["bad-address:"+c.Relays[i].BadAddress] = true
		}
		for k := range c.Relays[i].Script {
			switch r := &c.Relays[i].Script[k]; {
			case r.Kind == "hang":
				j.labels["planned:hang"] = true
			case r.LatMs == lateMs:
				j.labels["planned:late"] = true
			case r.Kind != "bid":
				j.labels["planned:"+r.Kind] = true
			}
		}
	}
	reasons := map[string]bool{}
	rebidImproved := false
	lastVal := map[int]*big.Int{}
	for _, cd := range j.cands {
		for _, r := range cd.reasons {
			reasons[r] = true
		}
		if cd.shadowed && cd.elig == yes {
			j.labels["rebid-not-higher"] = true
		}
		if v, ok := lastVal[cd.relay]; ok && cd.p.value.Cmp(v) > 0 {
			rebidImproved = true
		}
		lastVal[cd.relay] = cd.p.value
		if cd.score.Sign() < 0 {
			j.labels["negative-score"] = true
		}
	}
	if rebidImproved {
		labels = append(labels, "rebid-higher-value")
	}
	for r := range reasons {
		labels = append(labels, "served-ineligible:"+r)
	}
	for l := range j.labels {
		labels = append(labels, l)
	}
	if j.winner != nil && j.winner.score.Sign() < 0 {
		labels = append(labels, "winner-negative-score")
	}
	sort.Strings(labels)
	ev.Case(j.nontrivial, ev.Hash(c), labels...)
	if j.nontrivial {
		ev.Sample(c)
	}
	if o.badPaths > 0 {
		t.Fatalf("harness problem: %d header requests with an unexpected path: %s", o.badPaths, o.badPathSeen)
	}
	if o.panicked != "" {
		// a panic in the calling goroutine is C16's subject; here it only means the case cannot be judged
		t.Fatalf("harness problem: auction panicked (not judged under C09): %s", o.panicked)
	}
	if o.hungCall {
		ev.Inconclusive("auction returned only after the relays were released")
	}
	for _, v := range append(j.verdicts, lj...) {
		ev.Violation(t, v.sig, c, "[%s via %s] %s", c.Strategy, c.Via, v.detail)
	}
}

func TestBest(t *testing.T) {
	rapid.Check(t, func(t *rapid.T) {
		c := genCase(t, "best", "strategy")
		check(t, &c)
	})
}

func TestDeadline(t *testing.T) {
	rapid.Check(t, func(t *rapid.T) {
		c := genCase(t, "deadline", "strategy")
		check(t, &c)
	})
}

func checkHistory(t ev.TB, c *Case, o *observation) {
	vs, ls, nontrivial := judgeHistory(c, o.hist)
	labels := []string{"strategy=" + c.Strategy, "via=" + c.Via, "history", fmt.Sprintf("relays=%d", len(c.Relays))}
	for l := range ls {
		labels = append(labels, l)
	}
	for i := range c.Relays {
		if c.Relays[i].BadAddress != "" {
			labels = append(labels, "bad-address:"+c.Relays[i].BadAddress)
		}
	}
	if nontrivial {
		labels = append(labels, "history:two-parents-auctioned-then-bid-requested")
	}
	if o.hist.hung {
		labels = append(labels, "call-needed-release")
	}
	sort.Strings(labels)
	ev.Case(nontrivial, ev.Hash(c), dedup(labels)...)
	if nontrivial {
		ev.Sample(c)
	}
	if o.badPaths > 0 {
		t.Fatalf("harness problem: %d header requests with an unexpected path: %s", o.badPaths, o.badPathSeen)
	}
	if o.hist.hung {
		ev.Inconclusive("a call of the history returned only after the relays were released")
		return
	}
	for _, v := range vs {
		ev.Violation(t, v.sig, c, "[%s via %s, history] %s", c.Strategy, c.Via, v.detail)
	}
}

func dedup(in []string) []string {
	var out []string
	for i, s := range in {
		if i == 0 || s != in[i-1] {
			out = append(out, s)
		}
	}
	return out
}

// TestLayer runs the auction through services/blockrelay/standard (AuctionBlock,
// then BuilderBid as a beacon node would call it).
func TestLayer(t *testing.T) {
	rapid.Check(t, func(t *rapid.T) {
		c := genCase(t, pick(t, "strategy", opt{"best", 65}, opt{"deadline", 35}), "blockrelay")
		check(t, &c)
	})
}

// TestReplay re-executes a saved case without the property library.
func TestReplay(t *testing.T) {
	f := ev.ReplayFile()
	if f == "" {
		t.Skip("no replay file")
	}
	var c Case
	if _, err := ev.LoadCase(f, &c); err != nil {
		t.Fatalf("cannot load %s: %v", f, err)
	}
	// real time is involved: a regression input is executed a few times
	for i := 0; i < 3; i++ {
		check(t, &c)
	}
	ev.ReplayPassed()
}
