package c09

// In-process MEV relay double speaking the builder API in JSON over real HTTP
// (util.FetchBuilderClient always builds the real HTTP builder client).

import (
	"crypto/sha256"
	"encoding/hex"
	"fmt"
	"math/big"
	"net/http"
	"net/http/httptest"
	"strings"
	"sync"
	"time"

	e2types "github.com/wealdtech/go-eth2-types/v2"
)

var blsOnce sync.Once

func initBLS() {
	blsOnce.Do(func() {
		if err := e2types.InitBLS(); err != nil {
			panic(err)
		}
	})
}

var (
	keyMu    sync.Mutex
	keyCache = map[int]*e2types.BLSPrivateKey{}
)

// keyOf returns a deterministic BLS key: 0..4 relay keys, 7 and 8 foreign keys.
func keyOf(i int) *e2types.BLSPrivateKey {
	initBLS()
	keyMu.Lock()
	defer keyMu.Unlock()
	if k, ok := keyCache[i]; ok {
		return k
	}
	h := sha256.Sum256([]byte(fmt.Sprintf("c09-relay-key-%d", i)))
	h[0] &= 0x3f // below the group order
	k, err := e2types.BLSPrivateKeyFromBytes(h[:])
	if err != nil {
		panic(err)
	}
	keyCache[i] = k
	return k
}

func pubOf(i int) [48]byte {
	var p [48]byte
	copy(p[:], keyOf(i).PublicKey().Marshal())
	return p
}

func builderPub(i int) [48]byte {
	var p [48]byte
	h := sha256.Sum256([]byte(fmt.Sprintf("c09-builder-%d", i)))
	copy(p[:], h[:])
	copy(p[32:], h[:16])
	p[0] = 0xa0 | (p[0] & 0x1f)
	return p
}

var builderDomainType = [4]byte{0x00, 0x00, 0x00, 0x01} // DOMAIN_APPLICATION_BUILDER

// The builder domain is computed over the genesis fork version and a zero
// genesis validators root (builder specification).
var genesisForkVersion = [4]byte{0x00, 0x00, 0x10, 0x20}

func builderDomain() [32]byte {
	return refComputeDomain(builderDomainType, genesisForkVersion, [32]byte{})
}

var nonZeroFeeRecipient = [20]byte{0x11, 0x22, 0x33, 0x44, 0x55, 0x66, 0x77, 0x88, 0x99, 0xaa, 0xbb, 0xcc, 0xdd, 0xee, 0xff, 0x01, 0x02, 0x03, 0x04, 0x05}

func tag(s string) [32]byte { return sha256.Sum256([]byte(s)) }

func mkHeader(version string, id int, feeZero bool, ts uint64, parent [32]byte) *refHeader {
	h := &refHeader{
		Version:          version,
		ParentHash:       parent,
		StateRoot:        tag(fmt.Sprintf("c09-state-%d", id)),
		ReceiptsRoot:     tag(fmt.Sprintf("c09-receipts-%d", id)),
		PrevRandao:       tag(fmt.Sprintf("c09-randao-%d", id)),
		BlockNumber:      1_000_000 + uint64(id),
		GasLimit:         30_000_000,
		GasUsed:          12_345_678 + uint64(id),
		Timestamp:        ts,
		ExtraData:        []byte(fmt.Sprintf("c09 hdr %d", id)),
		BaseFeePerGas:    new(big.Int).Add(big.NewInt(7_000_000_000), big.NewInt(int64(id))),
		BlockHash:        tag(fmt.Sprintf("c09-block-%d", id)),
		TransactionsRoot: tag(fmt.Sprintf("c09-txs-%d", id)),
		WithdrawalsRoot:  tag(fmt.Sprintf("c09-wd-%d", id)),
		BlobGasUsed:      131072 * uint64(id%4),
		ExcessBlobGas:    262144,
	}
	if id%2 == 1 {
		h.ExtraData = nil
	}
	if !feeZero {
		h.FeeRecipient = nonZeroFeeRecipient
	}
	lb := tag(fmt.Sprintf("c09-bloom-%d", id))
	copy(h.LogsBloom[40:], lb[:])
	copy(h.LogsBloom[200:], lb[:])
	return h
}

func hx(b []byte) string { return "0x" + hex.EncodeToString(b) }

func headerJSON(h *refHeader) string {
	var sb strings.Builder
	extra := "0x"
	if len(h.ExtraData) > 0 {
		extra = hx(h.ExtraData)
	}
	fmt.Fprintf(&sb, `{"parent_hash":%q,"fee_recipient":%q,"state_root":%q,"receipts_root":%q,"logs_bloom":%q,"prev_randao":%q,`+
		`"block_number":"%d","gas_limit":"%d","gas_used":"%d","timestamp":"%d","extra_data":%q,"base_fee_per_gas":%q,`+
		`"block_hash":%q,"transactions_root":%q`,
		hx(h.ParentHash[:]), hx(h.FeeRecipient[:]), hx(h.StateRoot[:]), hx(h.ReceiptsRoot[:]), hx(h.LogsBloom[:]), hx(h.PrevRandao[:]),
		h.BlockNumber, h.GasLimit, h.GasUsed, h.Timestamp, extra, h.BaseFeePerGas.String(),
		hx(h.BlockHash[:]), hx(h.TransactionsRoot[:]))
	if h.Version == "capella" || h.Version == "deneb" {
		fmt.Fprintf(&sb, `,"withdrawals_root":%q`, hx(h.WithdrawalsRoot[:]))
	}
	if h.Version == "deneb" {
		fmt.Fprintf(&sb, `,"blob_gas_used":"%d","excess_blob_gas":"%d"`, h.BlobGasUsed, h.ExcessBlobGas)
	}
	sb.WriteString("}")
	return sb.String()
}

// prepared is what a relay will answer for one script entry.
type prepared struct {
	status int
	body   []byte
	hang   bool
	lat    time.Duration
	// for bids
	isBid     bool
	value     *big.Int
	builder   [48]byte
	headerKey string
	blockHash [32]byte
	sig       [96]byte
	feeZero   bool
	ts        uint64
	version   string
}

func commitmentsFor(id int) [][48]byte {
	n := id % 3
	out := make([][48]byte, n)
	for i := range out {
		t := tag(fmt.Sprintf("c09-kzg-%d-%d", id, i))
		copy(out[i][:], t[:])
		copy(out[i][32:], t[:16])
	}
	return out
}

func prepare(r *Resp, relay int, slotTs uint64, parent [32]byte) *prepared {
	p := &prepared{lat: time.Duration(r.LatMs) * time.Millisecond}
	switch r.Kind {
	case "hang":
		p.hang = true
		return p
	case "nobid":
		p.status = http.StatusNoContent
		return p
	case "error":
		p.status = r.Status
		p.body = []byte(fmt.Sprintf(`{"code":%d,"message":"scripted relay failure"}`, r.Status))
		return p
	case "garbage":
		p.status = http.StatusOK
		switch r.Garbage {
		case "notjson":
			p.body = []byte("<html>bad gateway</html>")
		case "badversion":
			p.body = []byte(`{"version":"phase0","data":{}}`)
		case "truncated":
			p.body = []byte(`{"version":"deneb","data":{"message":{"header":{"parent_hash":"0x`)
		case "nulldata":
			p.body = []byte(`{"version":"deneb","data":null}`)
		default: // empty200
			p.body = nil
		}
		return p
	}
	// a bid
	value, ok := new(big.Int).SetString(r.Value, 10)
	if !ok {
		panic("harness: bad value " + r.Value)
	}
	ts := uint64(int64(slotTs) + r.TsDelta)
	h := mkHeader(r.Version, r.Header, r.FeeZero, ts, parent)
	comm := commitmentsFor(r.Header)
	builder := builderPub(r.Builder)
	signValue := value
	domain := builderDomain()
	signer := relay
	var sig [96]byte
	switch r.Sig {
	case "valid":
	case "otherkey":
		signer = 7
	case "key8":
		signer = 8
	case "tampered":
		signValue = new(big.Int).Add(value, big.NewInt(1))
	case "wrongdomain":
		domain = refComputeDomain([4]byte{0, 0, 0, 0}, genesisForkVersion, [32]byte{})
	case "garbage":
		for i := range sig {
			sig[i] = byte(0x12 + 7*i)
		}
	case "infinity":
		sig[0] = 0xc0
	default:
		panic("harness: unknown sig mode " + r.Sig)
	}
	if r.Sig != "garbage" && r.Sig != "infinity" {
		root := refSigningRoot(refBidRoot(h, comm, signValue, builder), domain)
		copy(sig[:], keyOf(signer).Sign(root[:]).Marshal())
	}
	var sb strings.Builder
	fmt.Fprintf(&sb, `{"version":%q,"data":{"message":{"header":%s,`, r.Version, headerJSON(h))
	if r.Version == "deneb" {
		sb.WriteString(`"blob_kzg_commitments":[`)
		for i := range comm {
			if i > 0 {
				sb.WriteString(",")
			}
			fmt.Fprintf(&sb, "%q", hx(comm[i][:]))
		}
		sb.WriteString(`],`)
	}
	fmt.Fprintf(&sb, `"value":%q,"pubkey":%q},"signature":%q}}`, value.String(), hx(builder[:]), hx(sig[:]))
	p.status = http.StatusOK
	p.body = []byte(sb.String())
	p.isBid = true
	p.value = value
	p.builder = builder
	p.headerKey = fmt.Sprintf("%s/%d/fz=%v/ts=%d", r.Version, r.Header, r.FeeZero, r.TsDelta)
	p.blockHash = h.BlockHash
	p.sig = sig
	p.feeZero = r.FeeZero
	p.ts = ts
	p.version = r.Version
	return p
}

// servedRec is one answer a relay actually gave.
type servedRec struct {
	Relay   int
	Variant int // which (slot, parent, pubkey) was asked for
	Idx     int
	At      time.Time
}

// relayVariant is what a relay answers to requests for one (slot, parent, pubkey).
type relayVariant struct {
	path     string
	script   []*prepared
	requests int
}

type relayDouble struct {
	idx      int
	srv      *httptest.Server
	variants []*relayVariant
	done     chan struct{}

	mu       sync.Mutex
	requests int
	badPath  int
	served   []servedRec
	arrivals []time.Time // arrival time of request n
	answered []time.Time // time the answer to request n was written (zero: never)
	maxOver  time.Duration

	badPathSeen string
	// drop: the relay accepts connections and closes them without an answer
	// (an address that is reachable but has no builder API behind it)
	drop bool
}

func newRelay(idx int, variants []*relayVariant, done chan struct{}) *relayDouble {
	r := &relayDouble{idx: idx, variants: variants, done: done}
	r.srv = httptest.NewServer(http.HandlerFunc(r.handle))
	return r
}

func (r *relayDouble) handle(w http.ResponseWriter, req *http.Request) {
	if r.drop {
		if hj, ok := w.(http.Hijacker); ok {
			if conn, _, err := hj.Hijack(); err == nil {
				_ = conn.Close()
				return
			}
		}
		panic(http.ErrAbortHandler)
	}
	if !strings.HasPrefix(req.URL.Path, "/eth/v1/builder/header/") {
		w.WriteHeader(http.StatusOK)
		return
	}
	arrived := time.Now()
	r.mu.Lock()
	reqNo := r.requests
	r.requests++
	r.arrivals = append(r.arrivals, arrived)
	r.answered = append(r.answered, time.Time{})
	vi := -1
	for k, v := range r.variants {
		if v.path == req.URL.Path {
			vi = k
		}
	}
	if vi < 0 {
		r.badPath++
		r.badPathSeen = req.URL.Path + " (expected " + r.variants[0].path + ")"
		r.mu.Unlock()
		w.WriteHeader(http.StatusNoContent)
		return
	}
	v := r.variants[vi]
	n := v.requests
	v.requests++
	r.mu.Unlock()
	if n >= len(v.script) {
		n = len(v.script) - 1
	}
	p := v.script[n]
	if p.hang {
		select {
		case <-r.done:
		case <-req.Context().Done():
		}
		return
	}
	if p.lat > 0 {
		tm := time.NewTimer(p.lat)
		select {
		case <-tm.C:
		case <-r.done:
			tm.Stop()
			return
		case <-req.Context().Done():
			tm.Stop()
			return
		}
	}
	select {
	case <-r.done:
		return
	default:
	}
	now := time.Now()
	r.mu.Lock()
	r.served = append(r.served, servedRec{Relay: r.idx, Variant: vi, Idx: n, At: now})
	r.answered[reqNo] = now
	if over := now.Sub(arrived) - p.lat; over > r.maxOver {
		r.maxOver = over
	}
	r.mu.Unlock()
	if p.status != http.StatusNoContent && len(p.body) > 0 {
		w.Header().Set("Content-Type", "application/json")
	}
	w.WriteHeader(p.status)
	if len(p.body) > 0 {
		_, _ = w.Write(p.body)
	}
}
