package c09

// Reference SSZ merkleization of the builder-API containers, written from the
// consensus / builder specifications with crypto/sha256 only.  The relay double
// signs what *this* code computes; the strategies verify with the libraries
// vouch uses.  A disagreement shows up as "valid bid rejected".

import (
	"crypto/sha256"
	"encoding/binary"
	"math/big"
)

type chunk = [32]byte

func hash2(a, b chunk) chunk {
	var buf [64]byte
	copy(buf[:32], a[:])
	copy(buf[32:], b[:])
	return sha256.Sum256(buf[:])
}

var zeroHashes = func() [16]chunk {
	var z [16]chunk
	for i := 1; i < len(z); i++ {
		z[i] = hash2(z[i-1], z[i-1])
	}
	return z
}()

// merkleize pads the chunks with zero chunks to limit (a power of two is
// derived from it; limit 0 means "number of chunks") and returns the root.
func merkleize(chunks []chunk, limit int) chunk {
	n := limit
	if n == 0 {
		n = len(chunks)
	}
	depth := 0
	for (1 << depth) < n {
		depth++
	}
	layer := append([]chunk(nil), chunks...)
	for d := 0; d < depth; d++ {
		next := make([]chunk, 0, (len(layer)+1)/2)
		for i := 0; i < len(layer); i += 2 {
			if i+1 < len(layer) {
				next = append(next, hash2(layer[i], layer[i+1]))
			} else {
				next = append(next, hash2(layer[i], zeroHashes[d]))
			}
		}
		layer = next
	}
	if len(layer) == 0 {
		return zeroHashes[depth]
	}
	return layer[0]
}

func packBytes(b []byte) []chunk {
	var out []chunk
	for i := 0; i < len(b); i += 32 {
		var c chunk
		copy(c[:], b[i:])
		out = append(out, c)
	}
	return out
}

func mixInLength(root chunk, length int) chunk {
	var l chunk
	binary.LittleEndian.PutUint64(l[:8], uint64(length))
	return hash2(root, l)
}

func uint64Chunk(v uint64) chunk {
	var c chunk
	binary.LittleEndian.PutUint64(c[:8], v)
	return c
}

func uint256Chunk(v *big.Int) chunk {
	var c chunk
	be := v.Bytes() // big endian, no leading zeros
	for i := 0; i < len(be) && i < 32; i++ {
		c[i] = be[len(be)-1-i]
	}
	return c
}

func bytesVectorRoot(b []byte) chunk { return merkleize(packBytes(b), 0) }

// refHeader is an execution payload header in plain form.
type refHeader struct {
	Version          string // bellatrix | capella | deneb
	ParentHash       [32]byte
	FeeRecipient     [20]byte
	StateRoot        [32]byte
	ReceiptsRoot     [32]byte
	LogsBloom        [256]byte
	PrevRandao       [32]byte
	BlockNumber      uint64
	GasLimit         uint64
	GasUsed          uint64
	Timestamp        uint64
	ExtraData        []byte // at most 32 bytes
	BaseFeePerGas    *big.Int
	BlockHash        [32]byte
	TransactionsRoot [32]byte
	WithdrawalsRoot  [32]byte // capella, deneb
	BlobGasUsed      uint64   // deneb
	ExcessBlobGas    uint64   // deneb
}

func (h *refHeader) root() chunk {
	leaves := []chunk{
		h.ParentHash,
		bytesVectorRoot(h.FeeRecipient[:]),
		h.StateRoot,
		h.ReceiptsRoot,
		bytesVectorRoot(h.LogsBloom[:]),
		h.PrevRandao,
		uint64Chunk(h.BlockNumber),
		uint64Chunk(h.GasLimit),
		uint64Chunk(h.GasUsed),
		uint64Chunk(h.Timestamp),
		mixInLength(merkleize(packBytes(h.ExtraData), 1), len(h.ExtraData)),
		uint256Chunk(h.BaseFeePerGas),
		h.BlockHash,
		h.TransactionsRoot,
	}
	if h.Version == "capella" || h.Version == "deneb" {
		leaves = append(leaves, h.WithdrawalsRoot)
	}
	if h.Version == "deneb" {
		leaves = append(leaves, uint64Chunk(h.BlobGasUsed), uint64Chunk(h.ExcessBlobGas))
	}
	return merkleize(leaves, 0)
}

// refBidRoot is hash_tree_root(BuilderBid) for the three versions.
func refBidRoot(h *refHeader, commitments [][48]byte, value *big.Int, builder [48]byte) chunk {
	leaves := []chunk{h.root()}
	if h.Version == "deneb" {
		cs := make([]chunk, 0, len(commitments))
		for i := range commitments {
			cs = append(cs, bytesVectorRoot(commitments[i][:]))
		}
		leaves = append(leaves, mixInLength(merkleize(cs, 4096), len(commitments)))
	}
	leaves = append(leaves, uint256Chunk(value), bytesVectorRoot(builder[:]))
	return merkleize(leaves, 0)
}

// refComputeDomain is compute_domain(domain_type, fork_version, genesis_validators_root).
func refComputeDomain(domainType [4]byte, forkVersion [4]byte, genesisValidatorsRoot [32]byte) [32]byte {
	var fv chunk
	copy(fv[:4], forkVersion[:])
	forkDataRoot := hash2(fv, genesisValidatorsRoot)
	var d [32]byte
	copy(d[:4], domainType[:])
	copy(d[4:], forkDataRoot[:28])
	return d
}

// refSigningRoot is compute_signing_root(object_root, domain).
func refSigningRoot(objectRoot chunk, domain [32]byte) chunk { return hash2(objectRoot, domain) }
