package c09

// services/blockrelay/standard on top of the strategy: AuctionBlock caches the
// winner (or a dummy when there is none); BuilderBid afterwards serves it to a
// beacon node without asking the relays again.

import (
	"context"
	"encoding/json"
	"errors"
	"fmt"
	"math/big"
	"strings"
	"sync/atomic"
	"time"

	"github.com/attestantio/go-block-relay/services/blockauctioneer"
	builderapi "github.com/attestantio/go-builder-client/api"
	builderspec "github.com/attestantio/go-builder-client/spec"
	"github.com/attestantio/go-eth2-client/api"
	apiv1 "github.com/attestantio/go-eth2-client/api/v1"
	"github.com/attestantio/go-eth2-client/spec/bellatrix"
	"github.com/attestantio/go-eth2-client/spec/phase0"
	"github.com/attestantio/vouch/services/beaconblockproposer"
	"github.com/attestantio/vouch/services/blockrelay"
	standardblockrelay "github.com/attestantio/vouch/services/blockrelay/standard"
	nullmetrics "github.com/attestantio/vouch/services/metrics/null"
	"github.com/attestantio/vouch/strategies/builderbid"
	"github.com/google/uuid"
	"github.com/rs/zerolog"
	e2types "github.com/wealdtech/go-eth2-types/v2"
	e2wtypes "github.com/wealdtech/go-eth2-wallet-types/v2"

	"verifharness/internal/fakes"
)

type layerAccount struct{ pub e2types.PublicKey }

func (a *layerAccount) ID() uuid.UUID                { return uuid.UUID{1} }
func (a *layerAccount) Name() string                 { return "c09" }
func (a *layerAccount) PublicKey() e2types.PublicKey { return a.pub }

type rawPub [48]byte

func (p rawPub) Marshal() []byte           { return p[:] }
func (rawPub) Aggregate(e2types.PublicKey) {}
func (p rawPub) Copy() e2types.PublicKey   { return p }

type layerAccounts struct {
	acct  e2wtypes.Account
	calls int
}

func (l *layerAccounts) AccountByPublicKey(_ context.Context, pubkey phase0.BLSPubKey) (e2wtypes.Account, error) {
	if pubkey != proposerPubkey {
		return nil, errors.New("unknown account")
	}
	return l.acct, nil
}

// The first request (initial fetch of the execution configuration, inline in
// New) sees the account; later ones (validator registrations, which are not the
// subject here) see none.
func (l *layerAccounts) ValidatingAccountsForEpoch(context.Context, phase0.Epoch) (map[phase0.ValidatorIndex]e2wtypes.Account, error) {
	l.calls++
	if l.calls == 1 {
		return map[phase0.ValidatorIndex]e2wtypes.Account{1: l.acct}, nil
	}
	return map[phase0.ValidatorIndex]e2wtypes.Account{}, nil
}

func (l *layerAccounts) ValidatingAccountsForEpochByIndex(context.Context, phase0.Epoch, []phase0.ValidatorIndex) (map[phase0.ValidatorIndex]e2wtypes.Account, error) {
	return map[phase0.ValidatorIndex]e2wtypes.Account{}, nil
}

func (l *layerAccounts) SyncCommitteeAccountsForEpoch(context.Context, phase0.Epoch) (map[phase0.ValidatorIndex]e2wtypes.Account, error) {
	return map[phase0.ValidatorIndex]e2wtypes.Account{}, nil
}

func (l *layerAccounts) SyncCommitteeAccountsForEpochByIndex(context.Context, phase0.Epoch, []phase0.ValidatorIndex) (map[phase0.ValidatorIndex]e2wtypes.Account, error) {
	return map[phase0.ValidatorIndex]e2wtypes.Account{}, nil
}

type layerValidators struct{}

func (layerValidators) Validators(context.Context, *api.ValidatorsOpts) (*api.Response[map[phase0.ValidatorIndex]*apiv1.Validator], error) {
	return &api.Response[map[phase0.ValidatorIndex]*apiv1.Validator]{Data: map[phase0.ValidatorIndex]*apiv1.Validator{}, Metadata: map[string]any{}}, nil
}

type layerRegSigner struct{}

func (layerRegSigner) SignValidatorRegistration(context.Context, e2wtypes.Account, *builderapi.VersionedValidatorRegistration) (phase0.BLSSignature, error) {
	return phase0.BLSSignature{}, errors.New("not under test")
}

type layerMajordomo struct{ doc []byte }

func (m *layerMajordomo) Fetch(context.Context, string) ([]byte, error) { return m.doc, nil }

// weiAsETH renders an integer amount of wei as a decimal amount of ETH, the
// unit of the execution configuration document.
func weiAsETH(wei *big.Int) string {
	s := wei.String()
	for len(s) < 19 {
		s = "0" + s
	}
	return s[:len(s)-18] + "." + s[len(s)-18:]
}

type layerWorld struct {
	svc      *standardblockrelay.Service
	counting *countingProvider
}

// countingProvider passes every call through to the real strategy and counts them:
// a second call for the same auction is a refetch.
type countingProvider struct {
	inner builderbid.Provider
	calls atomic.Int32
}

func (p *countingProvider) BuilderBid(ctx context.Context,
	slot phase0.Slot,
	parentHash phase0.Hash32,
	pubkey phase0.BLSPubKey,
	proposerConfig *beaconblockproposer.ProposerConfig,
	builderConfigs map[phase0.BLSPubKey]*blockrelay.BuilderConfig,
) (*blockauctioneer.Results, error) {
	p.calls.Add(1)
	return p.inner.BuilderBid(ctx, slot, parentHash, pubkey, proposerConfig, builderConfigs)
}

type layerObs struct {
	bid       *builderspec.VersionedSignedBuilderBid
	err       error
	panicked  string
	callsPre  int32
	callsPost int32
	took      time.Duration
}

func newLayer(ctx context.Context,
	c *Case,
	clock *fakes.VClock,
	provider builderbid.Provider,
	relayConfigs []*beaconblockproposer.RelayConfig,
	builderConfigs map[phase0.BLSPubKey]*blockrelay.BuilderConfig,
) (*layerWorld, error) {
	relays := map[string]map[string]string{}
	for i, rc := range relayConfigs {
		entry := map[string]string{}
		if rc.PublicKey != nil {
			entry["public_key"] = rc.PublicKey.String()
		}
		if rc.Grace > 0 {
			entry["grace"] = fmt.Sprint(rc.Grace.Milliseconds())
		}
		if min := bigOf(c.Relays[i].MinValue); min.Sign() > 0 {
			entry["min_value"] = weiAsETH(min)
		}
		relays[rc.Address] = entry
	}
	doc, err := json.Marshal(map[string]any{"version": 2, "relays": relays})
	if err != nil {
		return nil, err
	}
	counting := &countingProvider{inner: provider}
	accts := &layerAccounts{acct: &layerAccount{pub: rawPub(proposerPubkey)}}
	svc, err := standardblockrelay.New(ctx,
		standardblockrelay.WithLogLevel(zerolog.Disabled),
		standardblockrelay.WithMonitor(&nullmetrics.Service{}),
		standardblockrelay.WithMajordomo(&layerMajordomo{doc: doc}),
		standardblockrelay.WithScheduler(fakes.NewSched()),
		// an address that cannot be bound: the REST daemon is not under test and must not
		// collect listeners over thousands of cases (a failed bind is only logged)
		standardblockrelay.WithListenAddress("192.0.2.1:1"),
		standardblockrelay.WithChainTime(clock),
		standardblockrelay.WithConfigURL("file:///c09/execution-config.json"),
		standardblockrelay.WithFallbackFeeRecipient(bellatrix.ExecutionAddress(nonZeroFeeRecipient)),
		standardblockrelay.WithFallbackGasLimit(30_000_000),
		standardblockrelay.WithAccountsProvider(accts),
		standardblockrelay.WithValidatorsProvider(layerValidators{}),
		standardblockrelay.WithValidatingAccountsProvider(accts),
		standardblockrelay.WithValidatorRegistrationSigner(layerRegSigner{}),
		standardblockrelay.WithReleaseVersion("c09"),
		standardblockrelay.WithBuilderBidProvider(counting),
		standardblockrelay.WithBuilderConfigs(builderConfigs),
	)
	if err != nil {
		return nil, fmt.Errorf("cannot construct block relay service: %w", err)
	}
	// the configuration must have arrived as generated
	pc, err := svc.ProposerConfig(ctx, accts.acct, proposerPubkey)
	if err != nil {
		return nil, fmt.Errorf("proposer config: %w", err)
	}
	if len(pc.Relays) != len(relayConfigs) {
		return nil, fmt.Errorf("block relay service resolved %d relays, configured %d", len(pc.Relays), len(relayConfigs))
	}
	for _, got := range pc.Relays {
		found := false
		for i, want := range relayConfigs {
			if got.Address != want.Address {
				continue
			}
			found = true
			if got.MinValue.BigInt().Cmp(bigOf(c.Relays[i].MinValue)) != 0 || !got.MinValue.IsInteger() || got.Grace != want.Grace ||
				(got.PublicKey == nil) != (want.PublicKey == nil) || (got.PublicKey != nil && *got.PublicKey != *want.PublicKey) {
				return nil, fmt.Errorf("block relay service resolved relay %s differently from the generated configuration: %v", got.Address, got)
			}
		}
		if !found {
			return nil, fmt.Errorf("block relay service resolved unknown relay %s", got.Address)
		}
	}
	return &layerWorld{svc: svc, counting: counting}, nil
}

// after asks the service, as a beacon node would, for the bid of the auction
// that has just finished.
func (l *layerWorld) after(ctx context.Context, c *Case, relays []*relayDouble) *layerObs {
	lo := &layerObs{}
	lo.callsPre = l.counting.calls.Load()
	start := time.Now()
	func() {
		defer func() {
			if r := recover(); r != nil {
				lo.panicked = fmt.Sprint(r)
			}
		}()
		lo.bid, lo.err = l.svc.BuilderBid(ctx, phase0.Slot(c.Slot), parentHash, proposerPubkey)
	}()
	lo.took = time.Since(start)
	lo.callsPost = l.counting.calls.Load()
	return lo
}

func judgeLayer(c *Case, o *observation, j *judgement) []verdict {
	lo := o.layer
	if lo == nil {
		return nil
	}
	var vs []verdict
	add := func(sig, format string, args ...any) {
		vs = append(vs, verdict{sig: "layer:" + sig, detail: fmt.Sprintf(format, args...)})
	}
	if lo.panicked != "" {
		add("builderbid-panicked", "BuilderBid after the auction panicked: %s", strings.SplitN(lo.panicked, "\n", 2)[0])
		return vs
	}
	if o.err != nil || o.res == nil {
		return vs
	}
	if lo.callsPre != 1 {
		add("auction-ran-strategy-n-times", "AuctionBlock called the bid strategy %d times", lo.callsPre)
	}
	if lo.callsPost != lo.callsPre {
		add("bid-refetched", "BuilderBid after a finished auction ran the bid strategy again (%d more calls)", lo.callsPost-lo.callsPre)
	}
	wp := o.res.WinningParticipation
	switch {
	case wp == nil:
		if lo.err != nil {
			add("no-winner-served-as-error", "auction had no winner; BuilderBid returned error %v instead of no bid", lo.err)
		} else if lo.bid != nil {
			v, _ := lo.bid.Value()
			add("no-winner-but-bid-served", "auction had no winner; BuilderBid served a bid of value %v", v)
		}
	default:
		switch {
		case lo.err != nil:
			add("winner-served-as-error", "auction had a winner; BuilderBid returned error %v", lo.err)
		case lo.bid == nil:
			add("winner-not-served", "auction had a winner (%s); BuilderBid served no bid", j.winner)
		case j.winner != nil && !bidContentEqual(lo.bid, j.winner.p):
			v, _ := lo.bid.Value()
			add("served-bid-is-not-the-winner", "auction winner is %s; BuilderBid served a different bid (value %v)", j.winner, v)
		}
	}
	return vs
}
